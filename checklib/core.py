"""Core of ./check: build steps, proof audit, correspondence streams, decision, evidence.

Flow per property (DESIGN §3.3):
  facts regenerate -> lake build (proof obligations) -> axiom audit -> harness build
  -> correspondence streams (+ property-specific dynamic checks)
  -> decide: judge failure => VIOLATION with replay; broken proof / correspondence
     without a judge failure => widened search, then VIOLATION ... no-failing-input-found.
"""
import fcntl
import hashlib
import json
import os
import re
import shutil
import subprocess
import sys
import time

VERIF = os.path.dirname(os.path.dirname(os.path.abspath(__file__)))
REPO = os.environ.get("VERIF_REPO", "/repo")
LEAN = os.path.join(VERIF, "lean")
BUILD = os.path.join(VERIF, "build")
HARNESS = os.path.join(VERIF, "harness")
DRIVER = os.path.join(LEAN, ".lake", "build", "bin", "cdidriver")
ALLOWED_AXIOMS = {"propext", "Classical.choice", "Quot.sound"}
FORBIDDEN = re.compile(r"\b(sorry|admit|native_decide|bv_decide|implemented_by|unsafe)\b|^\s*axiom\s|maxHeartbeats\s+0\b")

GOENV = dict(os.environ, GOFLAGS="-mod=mod", GOPROXY="off", GOSUMDB="off", GOTOOLCHAIN="local",
             CGO_ENABLED=os.environ.get("CGO_ENABLED", "1"))


def log(*a):
    print("[check]", *a, file=sys.stderr, flush=True)


def run(cmd, cwd=None, env=None, timeout=None, stdin=None):
    t0 = time.time()
    p = subprocess.run(cmd, cwd=cwd, env=env, stdout=subprocess.PIPE, stderr=subprocess.STDOUT,
                       timeout=timeout, input=stdin, text=True)
    return p.returncode, p.stdout, time.time() - t0


class Lock:
    """Serialises the shared build steps between concurrently running checks."""

    def __init__(self, name="build"):
        os.makedirs(BUILD, exist_ok=True)
        self.path = os.path.join(BUILD, "." + name + ".lock")

    def __enter__(self):
        self.f = open(self.path, "w")
        fcntl.flock(self.f, fcntl.LOCK_EX)
        return self

    def __exit__(self, *a):
        fcntl.flock(self.f, fcntl.LOCK_UN)
        self.f.close()


# ---------------------------------------------------------------- facts

def regenerate_facts():
    """Runs factgen on /repo's working tree; rewrites Generated/*.lean only when
    the content changed (so an unchanged tree costs no Lean rebuild).
    Returns (ok, message)."""
    gen = os.path.join(LEAN, "CdiModel", "Generated")
    os.makedirs(gen, exist_ok=True)
    factgen = os.path.join(BUILD, "factgen")
    if not os.path.exists(factgen) or _newer(os.path.join(VERIF, "factgen"), factgen):
        rc, out, _ = run(["go", "build", "-o", factgen, "."], cwd=os.path.join(VERIF, "factgen"), env=GOENV)
        if rc != 0:
            return False, "factgen build failed:\n" + out
    tmp = os.path.join(BUILD, "gen.tmp")
    shutil.rmtree(tmp, ignore_errors=True)
    os.makedirs(tmp)
    rc, out, _ = run([factgen, "-repo", REPO, "-out", tmp])
    if rc != 0:
        return False, "factgen: " + out
    for name in sorted(os.listdir(tmp)):
        src, dst = os.path.join(tmp, name), os.path.join(gen, name)
        new = open(src).read()
        old = open(dst).read() if os.path.exists(dst) else None
        if new != old:
            with open(dst, "w") as f:
                f.write(new)
    for name in os.listdir(gen):
        if not os.path.exists(os.path.join(tmp, name)) and name != "Tables.lean":  # Tables.lean: regenerate_tables
            os.remove(os.path.join(gen, name))
    return True, out


def _newer(srcdir, target):
    t = os.path.getmtime(target)
    for root, _, files in os.walk(srcdir):
        for f in files:
            if os.path.getmtime(os.path.join(root, f)) > t:
                return True
    return False


# ---------------------------------------------------------------- lean

def factgen_errors():
    """Extractor failures recorded by factgen in Generated/Facts.lean (fallback facts were written)."""
    try:
        txt = open(os.path.join(LEAN, "CdiModel", "Generated", "Facts.lean")).read()
    except OSError:
        return ["Generated/Facts.lean missing"]
    m = re.search(r"def factgenErrors : List String := \[(.*)\]", txt)
    if not m or not m.group(1).strip():
        return []
    return re.findall(r'"((?:[^"\\]|\\.)*)"', m.group(1))


def lake_build(targets):
    rc, out, dt = run(["lake", "build"] + targets, cwd=LEAN, timeout=3000)
    return rc == 0, out, dt


def failing_theorems(build_out):
    """Maps Lean error locations back to the enclosing theorem names."""
    names = []
    for m in re.finditer(r"error: (\S+\.lean):(\d+):\d+", build_out):
        path, line = m.group(1), int(m.group(2))
        full = path if os.path.isabs(path) else os.path.join(LEAN, path)
        try:
            src = open(full).read().split("\n")
        except OSError:
            continue
        name = None
        for i in range(min(line, len(src)) - 1, -1, -1):
            mm = re.match(r"\s*(?:private\s+)?(?:theorem|lemma|example|def|instance)\s*([A-Za-z0-9_.']*)", src[i])
            if mm:
                name = mm.group(1) or ("example@%s:%d" % (os.path.basename(path), i + 1))
                break
        names.append("%s (%s:%d)" % (name, os.path.relpath(full, LEAN), line))
    seen, out = set(), []
    for n in names:
        if n not in seen:
            seen.add(n)
            out.append(n)
    return out


def property_theorems(pid, extra_modules=()):
    """Lists the theorem names (fully qualified) declared in Props/<pid>.lean."""
    out = []
    files = [os.path.join(LEAN, "CdiProofs", "Props", pid + ".lean")] + [
        os.path.join(LEAN, *m.split(".")) + ".lean" for m in extra_modules]
    for path in files:
        if not os.path.exists(path):
            continue
        ns = []
        for line in open(path):
            m = re.match(r"namespace\s+(\S+)", line)
            if m:
                ns.append(m.group(1))
                continue
            m = re.match(r"end\s+(\S+)", line)
            if m and ns and ns[-1] == m.group(1):
                ns.pop()
                continue
            m = re.match(r"\s*theorem\s+([A-Za-z0-9_.']+)", line)
            if m:
                out.append(".".join(ns + [m.group(1)]))
    return out


def forbidden_tokens():
    """Scans model, driver and proof sources for forbidden constructs (comments stripped)."""
    hits = []
    for sub in ("CdiModel", "CdiProofs", "Driver"):
        for root, _, files in os.walk(os.path.join(LEAN, sub)):
            for f in files:
                if not f.endswith(".lean"):
                    continue
                p = os.path.join(root, f)
                text = open(p).read()
                text = re.sub(r"/-.*?-/", lambda m: "\n" * m.group(0).count("\n"), text, flags=re.S)
                for i, line in enumerate(text.split("\n")):
                    line = re.sub(r"--.*", "", line)
                    line = re.sub(r'"(?:[^"\\]|\\.)*"', '""', line)
                    if FORBIDDEN.search(line):
                        hits.append("%s:%d: %s" % (os.path.relpath(p, LEAN), i + 1, line.strip()))
    return hits


def axiom_audit(pid, theorems, module=None):
    """`#print axioms` for every property theorem. Returns (ok, {thm: [axioms]}, raw)."""
    os.makedirs(os.path.join(LEAN, ".audit"), exist_ok=True)
    path = os.path.join(LEAN, ".audit", pid + ".lean")
    with open(path, "w") as f:
        f.write("import %s\n" % (module or ("CdiProofs.Props." + pid)))
        for t in theorems:
            f.write("#print axioms %s\n" % t)
    rc, out, _ = run(["lake", "env", "lean", path], cwd=LEAN, timeout=1200)
    res = {}
    flat = re.sub(r"\n\s+", " ", out)
    for line in flat.split("\n"):
        m = re.match(r"'(.+)' depends on axioms: \[(.*)\]", line)
        if m:
            res[m.group(1)] = [a.strip() for a in m.group(2).split(",") if a.strip()]
            continue
        m = re.match(r"'(.+)' does not depend on any axioms", line)
        if m:
            res[m.group(1)] = []
    bad = {t: ax for t, ax in res.items() if not set(ax) <= ALLOWED_AXIOMS}
    missing = [t for t in theorems if t not in res]
    return rc == 0 and not bad and not missing, res, out, bad, missing


def leanchecker(modules):
    rc, out, dt = run(["lake", "env", "leanchecker"] + modules, cwd=LEAN, timeout=3000)
    return rc == 0, out, dt


# ---------------------------------------------------------------- harness

def build_harness(race=False):
    os.makedirs(BUILD, exist_ok=True)
    sums = []
    for p in ("go.sum", "schema/go.sum", "cmd/cdi/go.sum"):
        fp = os.path.join(REPO, p)
        if os.path.exists(fp):
            sums += open(fp).read().splitlines()
    extra = os.path.join(HARNESS, "go.sum.extra")
    if os.path.exists(extra):
        sums += open(extra).read().splitlines()
    with open(os.path.join(HARNESS, "go.sum"), "w") as f:
        f.write("\n".join(sorted(set(sums))) + "\n")
    # the harness go.mod points at /repo; honour VERIF_REPO for scratch trees
    gomod = open(os.path.join(HARNESS, "go.mod.in")).read().replace("@REPO@", REPO)
    with open(os.path.join(HARNESS, "go.mod"), "w") as f:
        f.write(gomod)
    outs = []
    targets = [("corr", "./cmd/corr", [])]
    for name, pkg, flags in targets:
        cmd = ["go", "build", "-tags", "verif"] + flags + ["-o", os.path.join(BUILD, name), pkg]
        rc, out, dt = run(cmd, cwd=HARNESS, env=GOENV, timeout=1200)
        outs.append(out)
        if rc != 0:
            return False, "\n".join(outs)
    return True, "\n".join(outs)


TABLES_FALLBACK = """/- FALLBACK written by ./check: the tables could not be produced by executing the working tree (%s). -/
namespace Cdi.Generated
def isLetterRanges : List (Nat × Nat) := []
def isDigitRanges : List (Nat × Nat) := []
def isAlphaNumericRanges : List (Nat × Nat) := []
def deviceTypesAccepted : List (List UInt8) := []
def permissionBytes : List (Nat × Nat) := []
def hookNamesAccepted : List (List UInt8) := []
def tableErrors : List String := ["tables not produced"]
end Cdi.Generated
"""


def regenerate_tables(harness_ok):
    """Total tables by execution (harness/cmd/corr/tables.go): runs the freshly built harness, which links the
    working tree, on every element of the finite domains and rewrites Generated/Tables.lean when it changed.
    Returns None or an error string (a fallback file is written so that the Lean build names the obligations)."""
    dst = os.path.join(LEAN, "CdiModel", "Generated", "Tables.lean")
    err = None
    new = None
    if harness_ok:
        try:
            rc, out, _ = run([os.path.join(BUILD, "corr"), "child", "tables"], timeout=600)
            if rc == 0 and "end Cdi.Generated" in out:
                new = out
            else:
                err = "corr child tables failed (rc=%s): %s" % (rc, out[-500:])
        except subprocess.TimeoutExpired:
            err = "corr child tables timed out"
    else:
        err = "harness does not build"
    if new is None:
        new = TABLES_FALLBACK % err
    old = open(dst).read() if os.path.exists(dst) else None
    if new != old:
        with open(dst, "w") as f:
            f.write(new)
    return err


def build_race():
    """Builds the harness a second time with the race detector (C12). Returns an error string or None."""
    cmd = ["go", "build", "-race", "-tags", "verif", "-o", os.path.join(BUILD, "corr-race"), "./cmd/corr"]
    rc, out, dt = run(cmd, cwd=HARNESS, env=GOENV, timeout=1800)
    return None if rc == 0 else "race build failed:\n" + out


def build_cli():
    """Rebuilds the cdi and validate binaries from /repo's working tree (C19). Returns an error string or None."""
    for name, sub in (("cdi", "cmd/cdi"), ("validate", "cmd/validate")):
        cmd = ["go", "build", "-o", os.path.join(BUILD, name), "."]
        rc, out, dt = run(cmd, cwd=os.path.join(REPO, sub), env=GOENV, timeout=1800)
        if rc != 0:
            return "cannot build %s from %s: %s" % (name, sub, out[-2000:])
    return None


def go_build(name, pkg, flags=(), cwd=None, tags="verif"):
    cmd = ["go", "build", "-tags", tags] + list(flags) + ["-o", os.path.join(BUILD, name), pkg]
    rc, out, dt = run(cmd, cwd=cwd or HARNESS, env=GOENV, timeout=1800)
    return rc == 0, out


def run_stream(stream, tier, seed, extra_args=(), timeout=3000, replay=None):
    out = os.path.join(BUILD, "sum-%s-%s-%d-%d.json" % (stream, tier, seed, os.getpid()))
    cmd = [os.path.join(BUILD, "corr"), "-stream", stream, "-tier", tier, "-seed", str(seed),
           "-driver", DRIVER, "-out", out, "-maxfail", "5000"]
    corpus = os.path.join(HARNESS, "corpus", stream)
    if replay:
        cmd += ["-replay", replay]
    elif os.path.isdir(corpus):
        cmd += ["-corpus", corpus]
    cmd += list(extra_args)
    cur = out + ".current"
    if os.path.exists(cur):
        os.remove(cur)

    def died(why, text):
        """the harness process did not finish: if it left the case it was executing, that case is the failing input"""
        if not os.path.exists(cur):
            return None
        try:
            case = json.load(open(cur))
        except Exception:
            return None
        finally:
            os.remove(cur)
        f = {"case": case, "judge": "panic-or-hang: the harness process %s while executing this case" % why, "agree": False,
             "readable": text[-1500:]}
        return {"stream": stream, "tier": tier, "seed": seed, "evaluations": 1, "agreements": 0, "distinct_inputs": 1,
                "distinct_nontrivial": 1, "n_disagreements": 1, "n_judge_failures": 1, "judge_failures": [f],
                "disagreements": [f], "driver_errors": [], "tags": {"process-died": 1}, "ops": {str(case.get("op")): 1},
                "obs_kinds": {}, "samples": [], "wall_s": 0}
    try:
        rc, text, dt = run(cmd, cwd=HARNESS, env=GOENV, timeout=timeout)
    except subprocess.TimeoutExpired:
        s = died("was still running after %ss" % timeout, "")
        if s:
            return s, "stream %s timed out" % stream
        return None, "stream %s timed out after %ss" % (stream, timeout)
    if rc != 0 or not os.path.exists(out):
        s = died("died (exit status %s)" % rc, text)
        if s:
            return s, text
        return None, "stream %s failed (rc=%s):\n%s" % (stream, rc, text[-4000:])
    s = json.load(open(out))
    os.remove(out)
    return s, text


# ---------------------------------------------------------------- known findings

def load_known(pid):
    """known-findings.txt lines:
         known: property=<id> stream=<s> judge=<clause-regex> match=<regex on canonical case JSON> :: text
         fixed: property=<id> <commit> <what failed>      (suppresses nothing)
    """
    out = []
    path = os.path.join(VERIF, "known-findings.txt")
    if not os.path.exists(path):
        return out
    for line in open(path):
        line = line.strip()
        if not line.startswith("known:"):
            continue
        body, _, text = line[len("known:"):].partition("::")
        kv = dict(re.findall(r"(\w+)=(\S+)", body))
        if kv.get("property") == pid:
            kv["text"] = text.strip()
            out.append(kv)
    return out


def match_known(known, stream, failure):
    blob = json.dumps(failure.get("case", failure), sort_keys=True)
    for k in known:
        if k.get("stream", stream) != stream:
            continue
        if "judge" in k and not re.search(k["judge"], failure.get("judge", "")):
            continue
        if "match" in k and not re.search(k["match"], blob):
            continue
        return k
    return None


# ---------------------------------------------------------------- replay / evidence

def write_replay(pid, kind, payload):
    d = os.path.join(VERIF, "replays")
    os.makedirs(d, exist_ok=True)
    blob = json.dumps(payload, sort_keys=True, indent=1)
    h = hashlib.sha256(blob.encode()).hexdigest()[:10]
    path = os.path.join(d, "%s-%s-%s.json" % (pid, kind, h))
    with open(path, "w") as f:
        f.write(blob + "\n")
    return path


def write_evidence(pid, ev):
    d = os.path.join(VERIF, "evidence")
    os.makedirs(d, exist_ok=True)
    with open(os.path.join(d, pid + ".json"), "w") as f:
        json.dump(ev, f, indent=1, sort_keys=True)
        f.write("\n")
