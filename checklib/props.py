"""Per-property configuration of ./check."""
from checklib import core as _core

UTF8 = "A-utf8: ranging over a Go string yields each ASCII byte as itself and every other byte as a rune >= 0x80"

PROPS = {
    "C07": {
        "level": "proof",
        "streams": ["parser"],
        "trusted_base": ["Go slice/index bounds semantics as modelled by goSlice/goIndex", UTF8,
                         "strings.SplitN(s, sep, 2) modelled by splitFirst"],
        "assumptions": [UTF8],
        "technique": "Lean 4 proof: parser model = regular-language spec (accept-iff, totality, round-trip); character classes tied to the code by a total table produced by execution (obligations T1); exhaustive/random correspondence with pkg/parser",
        "level_text": "Kernel-checked theorems for every byte string: the model of ParseQualifiedName never panics, accepts exactly the qualified-name language, returns parts that recompose to the input, fails with (\"\", \"\", input), and parses every composition of valid parts back. The model is tied to pkg/parser by running all public parser entry points on every string over an 11-letter alphabet up to length 4 (5 in thorough) plus random near-valid strings and comparing with the model; the decidable judge the theorem is about also judges the implementation's own outputs. For the three character classes the tie is exhaustive, not sampled: on every run parser.IsLetter/IsDigit/IsAlphaNumeric of the working tree are executed on every code point 0..0x10FFFF, the result is written as a Lean table, and obligations T1_* prove that the model's classes equal the table on every byte and that no code point >= 128 is in any class (what assumption A-utf8 needs).",
        "level_note": "Trusted: Lean kernel (+propext, Classical.choice, Quot.sound); Go slice/index semantics as modelled (goSlice/goIndex), strings.SplitN modelled by splitFirst, rune iteration on bytes (A-utf8); the hand-written model corresponds to the code only as far as the correspondence stream exercises it.",
    },
}

PROPS["C15"] = {
    "level": "proof",
    "streams": ["annot"],
    "trusted_base": ["Go slice/index semantics (goSlice/goIndex)", UTF8,
                     "strings.Split/ReplaceAll/HasPrefix/ToLower modelled by splitAll/replaceByte/hasPrefix/K8s.toLower",
                     "the k8s regular expressions replaced by hand-written recognisers (regex literals are regenerated facts)",
                     "Go map iteration order: the model is fed the entries in the order the real call returned the keys"],
    "assumptions": [UTF8],
    "technique": "Lean 4 proof: closed forms of AnnotationKey/Value/Update/Parse, key legality under the k8s rule, Split∘Join round trip; correspondence with pkg/cdi annotations.go",
    "level_text": "Kernel-checked theorems for all plugin/device-id strings, device lists and maps: UpdateAnnotations never panics, on failure returns the map unchanged, on success appends exactly one previously unused key that carries the CDI prefix and is a legal Kubernetes annotation key and whose value splits back into exactly the requested devices; ParseAnnotations ignores foreign keys, fails with empty results iff some device is unqualified, and acceptance is independent of map iteration order. The model is compared with the real functions on every character class in first/middle/last position at lengths around the 63-byte limit, nil/empty/populated maps, used keys and malformed values; a judge written against the property text convicts the implementation's own outputs.",
    "level_note": "Trusted: Lean kernel (+propext, Classical.choice, Quot.sound); the byte-level models of strings.* and of the two k8s regexes; constants regenerated from annotations.go and k8s/validation.go (named obligations F5_*).",
}

PROPS["C16"] = {
    "level": "proof",
    "streams": ["names", "path"],
    "trusted_base": ["path/filepath (Clean, Join, Dir, Base, Ext) modelled lexically in CdiModel/Path.lean and compared with the real functions on every string over {/ . a b} up to length 6 (8 thorough) on every run",
                     "os.MkdirAll / CreateTemp / renameat2 behaviour observed on a scratch tree (tree snapshots before/after)"],
    "assumptions": ["configured directories are lexically cleaned by WithSpecDirs (checked by the stream)"],
    "technique": "Lean 4 proof over a lexical filepath model: single-component names, component-level confinement of the write target, write/remove symmetry, encoding choice; tree-snapshot correspondence on real directories",
    "level_text": "Kernel-checked theorems: for every valid vendor/class and every transient id the generated names are single path components; for every directory list and single-component name the WriteSpec target has exactly the components of the cleaned last directory plus one (the name, with .yaml appended unless it already ends in .json/.yaml) and is rooted iff the directory is; RemoveSpec computes the identical path; JSON is chosen iff the extension is .json. The model is tied to the code by running the real name generators on adversarial ids ('../../etc/passwd', 'a/b', '..', extensions, NUL) and the real WriteSpec/RemoveSpec on scratch trees, diffing full tree snapshots (exactly one file may change, directly inside the last directory; removal removes exactly what was written; removing a missing name succeeds) and comparing the path the cache reports after a refresh.",
    "level_note": "Trusted: Lean kernel; the lexical filepath model (validated by the path stream every run); factgen for the extension-test facts (F6_*). Clean idempotence on its own output is checked by the stream, not proved.",
}

PROPS["C06"] = {
    "level": "proof",
    "streams": ["version"],
    "trusted_base": ["golang.org/x/mod/semver.Compare on the released-version table, modelled by the lexicographic order on (major, minor, patch)",
                     "Go loop-variable semantics of module specs-go (regenerated fact F11: go directive + address-of-range-variable sites)",
                     "Go map iteration = some permutation of the keys (the model is proved order-independent)"],
    "assumptions": ["declared versions may carry one leading 'v' (I4)"],
    "technique": "Lean 4 proof: requiredVersion = max introduction version of the features used (any placement, any device order, any map iteration order); ValidateVersion iff released and >= minimum; fact obligations on the version table and loop-variable aliasing; exhaustive placement correspondence with specs-go",
    "level_text": "Kernel-checked theorems for every Spec: the model of MinimumRequiredVersion equals the declarative maximum over the features used at spec level or in any device, is invariant under device permutations and under moving edit blocks between levels, does not depend on the order in which Go iterates the version map (right-commutativity of the update + Perm.foldl_eq'), and ValidateVersion accepts iff the declared version is released and not lower. The regenerated facts (version table, predicate names, absence of address-of-range-variable under per-loop scoping) are named obligations. The model is compared with specs.MinimumRequiredVersion/ValidateVersion on every single feature and every pair of features at every placement for 0-3 devices, all declared version strings incl. near-misses, and random larger Specs with permuted devices and nil entries; every feature is also used with unusual values (zero group ids, an all-default intelRdt block, odd mount types and host paths), the deprecated cdi.MinimumRequiredVersion must agree, and evaluations are repeated while other goroutines evaluate other (large) Specs. Obligation F2 compares the released versions with the table regenerated from SPEC.md.",
    "level_note": "Trusted: Lean kernel; semver.Compare only on the nine released versions (validated by the stream); factgen's reading of version.go and go.mod.",
}

PROPS["C05"] = {
    "level": "proof",
    "streams": ["validate"],
    "trusted_base": ["sigs.k8s.io/yaml UnmarshalStrict modelled at the value level by CdiModel/Decode.lean (unknown/duplicate member, null, type and integer-range rules); text-level parsing is third-party",
                     "the k8s annotation-key rule as modelled in CdiModel/K8s.lean", UTF8],
    "assumptions": ["document space = JSON values with correctly typed scalars and exact-case member names (I5)",
                    "an RDT class id is legal iff shorter than 4096 bytes, not '.'/'..', without '/' or newline (I11)"],
    "technique": "Lean 4 proof: validation pipeline = declarative WellFormed (total, exact), single-defect corollaries, strict decoding; mutation correspondence through ReadSpec/Refresh/WriteSpec in JSON and YAML",
    "level_text": "Kernel-checked theorem for every raw Spec: the model of newSpec/validate returns ok(WellFormed s) - it never panics and accepts exactly the Specs that satisfy the conjunction of the SPEC.md rules at every position (version via C06, kind via C07, annotations, edits incl. nil entries, devices, unique names); corollaries give rejection for each single defect at any position, and decoding rejects unknown and duplicate members. Tied to the code by generating well-formed documents over the optional fields and ~20 kinds of single-defect mutants at spec level and first/middle/last device, rendering each as JSON and as block YAML, and pushing it through cdi.ReadSpec (both encodings), Cache.Refresh+GetErrors (both) and Cache.WriteSpec of the parsed value; every verdict must equal the model's and satisfy the WellFormed judge; the exported component validators (ValidateEnv, DeviceNode/Hook/Mount/IntelRdt.Validate, the deprecated ValidateIntelRdt, ContainerEdits.Validate) are cross-checked on every block of every parsed document. Device-node types and permission characters are tied exhaustively: DeviceNode.Validate of the working tree is executed on all 65 793 type strings of at most two bytes and on every permission byte, and obligations T2/T3 compare the resulting tables with the SPEC.md sets.",
    "level_note": "Trusted: Lean kernel; the value-level decoding model; the yaml/json text codecs (third-party, fuzzed under C08); fact obligations F1/F4 on the regenerated tables.",
}

CACHE_TB = ["filepath.Walk modelled as: lstat root, sorted names, lstat each entry, no symlink following (scanDir); os.ReadFile follows links",
                     "file content is given to the model as the typed Spec the harness wrote (decoding is C05/C09); validity is decided by the C05 model",
                     "Go map iteration over a Spec's devices = some order (device names are unique per Spec)"]

PROPS["C01"] = {
    "level": "proof",
    "streams": ["cache"],
    "ops": ["refresh"],
    "clauses": "panic|resolution|listing|api-consistency",
    "trusted_base": CACHE_TB,
    "assumptions": ["files taking part in a same-priority conflict count as files in error (I1)"],
    "technique": "Lean 4 proof: refresh fold refined to a per-name fold, invariant over ascending-priority scans => resolution = declarative winner; lower-priority irrelevance, walk-order invariance, listings; correspondence on real directory trees",
    "level_text": "Kernel-checked theorems for every directory population: the scan delivers only .json/.yaml files directly inside the configured directories in non-decreasing priority; the literal fold of the refresh callback resolves a name to d iff, among the loaded files defining it, the highest priority has exactly one definer and d is its definition (C01_resolve_iff, by a fold invariant, no bound on directories/files/devices); anything at lower priorities is irrelevant; permuting files does not matter; the Spec index is exactly the loaded files. Tied to the code by building random layouts (1-4 configured directories with repeats, missing/ENOTDIR/regular-file paths, valid/invalid/unparsable/empty files, non-Spec names, subdirectories, dangling and directory symlinks, files defining the same devices at equal and different priorities) on a scratch tree, refreshing a real cache and comparing ListDevices, GetDevice path/priority/definition, ListVendors, ListClasses, GetVendorSpecs and the error keys with the model and with the declarative judge. Histories on one cache (an earlier population of the same directories is scanned first, then files are rewritten in place with the same size and modification time, repaired, broken, added, removed; or the cache first has the directories in another order) must give what the final state alone gives; sockets and character devices under Spec names; the accessor-style entry points (GetSpecErrors, Spec.GetDevice/GetVendor/GetClass, Device.GetSpec/GetQualifiedName, GetSpecDirErrors, Configure without options) are cross-checked against the primary ones on every refreshed cache.",
    "level_note": "Trusted: Lean kernel; the Walk model; the harness' description of what it put on disk. Automatic-refresh mode is covered by C11.",
}

PROPS["C13"] = {
    "level": "proof",
    "streams": ["cache", "watch"],
    "ops": ["refresh", "inject", "permrestore", "history"],
    "trusted_base": CACHE_TB,
    "assumptions": ["files taking part in a same-priority conflict count as files in error (I1)",
                    "directories that cannot be listed because of permissions are exercised only when the harness can drop privileges (counted as skipped otherwise)"],
    "technique": "Lean 4 proof: faulty directories are skipped not fatal (scan append law), isolation via C01, soundness of the error report by an invariant over the event fold, refresh-error characterisation; fault-placement correspondence on real trees",
    "level_text": "Kernel-checked theorems: a missing/unscannable/unreadable directory at any position contributes nothing and the scan continues with the later directories; every name resolves by the precedence rule over the files that did load (so a bad file or directory affects only itself); every path in the error report is a file that failed to load or a participant of a same-priority conflict, every failed file is reported, and Refresh returns no error exactly when there is nothing to report; the report is a function of the current directory state only. Tied to the code by the cache stream, which places each fault kind (syntax/semantic error, empty file, dangling link, link to a directory, missing directory, ENOTDIR path, regular file as directory) at every position of the directory list and compares devices, error keys and the Refresh error with the model and the judge.",
    "level_note": "Trusted: Lean kernel; the Walk model incl. which lstat errors reach the callback; completeness of conflict participants in the report is checked by correspondence (judge), the theorem proves soundness and completeness for failed files.",
}

PROPS["C02"] = {
    "level": "proof",
    "streams": ["cache", "defaultapi"],
    "ops": ["inject", "defaultapi"],
    "clauses": "panic|combined|applying|applied-with|resolvable-name|package-level|api-consistency",
    "trusted_base": CACHE_TB + ["identity of a loaded *Spec modelled by (path, priority)"],
    "assumptions": [],
    "technique": "Lean 4 proof: loop invariant of InjectDevices => one Apply of the declaratively defined combined edit list; dependence only on requested names; metamorphic correspondence (real InjectDevices vs real Apply of the combined list)",
    "level_text": "Kernel-checked theorems for every resolution function, request list and cache: when all names resolve, InjectDevices performs exactly one Apply of `combined` = for each device in request order the spec-level edits of its file (first time only) followed by the device's edits; the outcome depends on the cache only through the requested names. Tied to the code by random ordered requests on the C01 layouts (interleaving devices of one file with others, shadowed twins, repetitions): the harness rebuilds the combined list through the query API, applies it with the real ContainerEdits.Apply to an equal OCI spec and requires the same result as the real InjectDevices, and the model/judge require that list to equal `combined` of the declarative winners. Every injection is repeated on the same cache (the same request twice; after a request that fails half-way) and must give the same result; every listed device is also injected through an auto-refresh cache created while no descriptor was free (no watcher: every query rescans).",
    "level_note": "Trusted: Lean kernel; ContainerEdits.Apply itself is the subject of C03, not of this check.",
}

PROPS["C04"] = {
    "level": "proof",
    "streams": ["cache", "defaultapi"],
    "ops": ["inject", "defaultapi"],
    "clauses": "panic|unresolv|nil-oci|oci-spec-modified|no-error|package-level|api-consistency",
    "trusted_base": CACHE_TB,
    "assumptions": [],
    "technique": "Lean 4 proof: same loop invariant => error with exactly the unresolved names in request order (with repetitions), no Apply; nil OCI guard; unresolved iff no declarative winner; before/after comparison of the real OCI spec",
    "level_text": "Kernel-checked theorems for every request list: if some name does not resolve, the outcome is `unresolved (req.filter unresolved)` - request order, repetitions kept - and no Apply is performed; a nil OCI spec returns all names; a name is unresolved iff the precedence rule gives no winner. Tied to the code by mixed requests (resolvable, unknown, syntactically invalid, shadowed-only, conflict-removed, repeated) on populated OCI specs with a JSON deep comparison of the spec before and after, and nil-spec calls; requests of 9-14 names most of which do not resolve; the same failing request twice on one cache. Further theorems: a name without `/` or `=` (the empty name, a blank) never resolves in a refreshed cache; with a miss the outcome is neither an Apply nor an empty list; every miss is named exactly as often as it was requested. Requests whose only miss is the empty or a blank name, and conventional names no Spec defines (`=all`, `=*`), are part of the stream.",
    "level_note": "Trusted: Lean kernel; that returning before Apply leaves the caller's object untouched is observed, not proved (Go aliasing).",
}

PROPS["C03"] = {
    "level": "proof",
    "streams": ["apply", "path"],
    "trusted_base": ["opencontainers/runtime-tools generate: NewFromSpec/AddMultipleProcessEnv/addEnv/RemoveDevice/AddDevice/AddLinuxResourcesDevice/RemoveMount/AddMount/ClearMounts/Add*Hook/SetLinuxIntelRdtClosID/AddProcessAdditionalGid modelled method by method (incl. the env cache keyed by whole initial entries)",
                     "sort.Stable = a stable sort (modelled by stable insertion sort; the judge only needs sortedness + per-key order)",
                     "lstat of host device nodes given to the model as data (type, major, minor)",
                     "filepath.Clean for the mount-depth key (path stream)"],
    "assumptions": ["I2: the value of a variable is that of the last entry naming it; initial env entries are NAME=value",
                    "I3: initial device paths and mount destinations are unique",
                    "edit lists contain no nil entries (validated Specs, C05)"],
    "technique": "Lean 4 proof: clause-wise postcondition of the Apply model (env cache invariant, remove/replace folds = filter ++ last occurrence, stable-sort invariants, hook dispatch, gid dedup) => judge; correspondence on generated OCI specs x edit lists with real mknod host nodes",
    "level_text": "Kernel-checked theorem: for every well-formed initial OCI spec, nil-free edit list and host, whenever the Apply model succeeds its result satisfies the declarative judge: env = initial entries ++ one entry per edited variable holding its last edit; devices = untouched initial devices ++ the last edit per container path with host-derived type/major/minor and uid/gid defaulting; one allow rule per b/c node with its permissions or rwm; mounts = untouched initial mounts ++ last edit per destination, ordered by depth and, per depth, in the previous order; hooks appended per stage; gids appended without 0 or repeats; RDT replaced; it never panics and fails exactly on a host lookup failure or unknown hook. Tied to the code by running ContainerEdits.Apply on generated specs (nil/empty/populated sections, colliding devices and mounts, non-clean destinations, repeated variable names/paths/destinations, every hook stage, process uid/gid zero or not) with host nodes created by mknod (c, b, fifo, regular file, missing), comparing the canonical OCI image with the model, judging it with the same judge, and checking that everything outside the modelled sections is byte-identical. The host nodes behind the fixed host paths change from case to case (nothing remembered about a path from an earlier Apply in the process is still true).",
    "level_note": "Trusted: Lean kernel; the generator model; host stat given as data. Partial application after a failing Apply is not modelled.",
}

PROPS["C14"] = {
    "level": "proof",
    "streams": ["purity"],
    # the injections of the cache stream carry repeatability / snapshot observations (clause api-consistency)
    "secondary": {"cache": {"ops": ["inject"], "clauses": "not repeatable|served other requests|re-used OCI spec|reload its directories|same failing request twice|which no Spec defines"}},
    "trusted_base": ["Go pointer aliasing between the raw Spec, the Device and the per-call edit list modelled as indices into a heap of device-node records",
                     "lstat of host device nodes given to the model as data"],
    "assumptions": ["container paths inside one request are distinct (so the OCI device list is in node order)"],
    "technique": "Lean 4 proof on a heap model: injection with fill-a-copy leaves every cached record unchanged, hence any later injection equals a fresh cache's; in-place fill refuted by witness; before/after cache images and host-change histories on the real cache",
    "level_text": "Kernel-checked theorems for every heap of cached device-node records, reference list and sequence of host states: the repaired injection writes no cached record (whether it succeeds or fails at any node), so after any number of injections the next one returns exactly what a fresh cache returns under the current host state; the in-place variant (pinned tree) is refuted by a two-step witness (stale major/minor, cached record changed). Tied to the code by histories on a real cache: spec files with device nodes leaving type/major/minor/hostPath unspecified, host nodes created with mknod, injection (InjectDevices / Device.ApplyEdits / Spec.ApplyEdits), host nodes replaced by other types and numbers (or removed), second injection, then the cached nodes read back through the query API and Cache.WriteSpec of the cached Spec. The injections of the cache stream add (read as a secondary stream): every listed device injected in between and compared with a new cache, a re-used OCI spec object, and - on a manually refreshed cache - a Spec file appearing on disk while failing requests are made: the listings must not move.",
    "level_note": "Trusted: Lean kernel; the heap abstraction (only device-node records are shared mutable state reachable from Apply).",
}

PROPS["C17"] = {
    "level": "translation_validation",
    "streams": ["schema", "cli"],
    "prebuild": [_core.build_cli],
    "ops": ["verdicts", "validatetool", "firstuse", "typed"],
    "trusted_base": ["the Lean draft-07 semantics in CdiModel/Schema.lean define what the schema files mean; gojsonschema's conformance to it is established by this correspondence only",
                     "factgen F8: schema.json/defs.json -> Schema term ($ref resolution, keyword classification)",
                     "yaml/json text codecs (documents are generated at the value level and rendered)"],
    "assumptions": ["documents have no duplicate member names", "I9: byte entry points may add the annotation verdict, identically for both encodings"],
    "technique": "translation validation: Lean draft-07 evaluator over the regenerated schema term vs gojsonschema through every entry point x encoding x schema choice; Lean theorems for the glue (none/nil accept, entry points agree on well-formed annotations, encoding independence)",
    "level_text": "The schema files are regenerated into a Lean Schema term on every run and evaluated by a Lean definition of draft-07 (type, properties, required, items, patternProperties, minimum, maximum on exact decimals). Documents generated from the Spec shape - valid ones, and one violation of each keyword at each level (wrong member types incl. scalars, missing required members, extra members, numbers at and beyond every bound incl. +-2^63 and 2^32, fractions, 7.0) - are pushed through ValidateData (JSON and YAML bytes), ValidateFile (.json and .yaml), ValidateReader and ReadAndValidate for the builtin schema, an externally loaded copy, the none schema and a nil schema; every verdict must equal the Lean verdict, JSON and YAML bytes must agree, none/nil must accept; the same JSON document in other spellings (escaped solidus, \\u escapes incl. surrogate pairs, indentation); the accessor/constructor forms (Set/Get, WithSchema, WithNamedSchema, WithDefaultSchema, ValidateType); and the very first use of the builtin schema by 32 goroutines at once in fresh processes. Kernel-checked theorems cover the glue: a nil or none schema accepts every document, all entry points return the engine verdict on documents whose annotations are well-formed, and the byte entry point is encoding-independent. The regenerated fact F12 (which exported methods of *Schema reach the content check / the engine, by following calls in schema/schema.go) ties the model's table of entry points to the code (F12_content_check_where_the_code_has_it). Documents with unconstrained members holding numbers beyond float64 and documents beyond 1 MiB go through every entry point.",
    "level_note": "Partial: engine conformance is tested, not proved. Trusted: Lean kernel for the glue theorems; factgen; renderers.",
}

PROPS["C18"] = {
    "level": "proof",
    "observational": "library-valid-spec-fails-builtin-schema|written-json-file-fails-builtin-schema|written-yaml-file-fails-builtin-schema|schema-validator-rejects",
    "streams": ["schema"],
    "ops": ["typed"],
    "trusted_base": ["encoding/json struct encoding modelled by CdiModel/Encode.lean per the struct tags (F3)",
                     "draft-07 semantics of CdiModel/Schema.lean on the regenerated schema term (F8); gojsonschema conformance via C17"],
    "assumptions": ["hook timeouts within 0..2^32-1 (property statement); integer fields within their Go types"],
    "technique": "Lean 4 proof over the regenerated schema term: every library-valid Spec's JSON encoding validates; correspondence: library-valid typed Specs with numeric extremes through schema.Validate, the written .json/.yaml files through ValidateFile, ReadSpec/WriteSpec with the schema installed as validator",
    "level_text": "Kernel-checked theorem: for every Spec accepted by the validation model (C05) whose integer fields are within their Go types and whose hook timeouts are within 0..2^32-1, the JSON value encoding/json produces validates against the builtin schema term regenerated from schema.json/defs.json. Tied to the code by generating library-valid typed Specs over all optional fields with the extremes of every integer field, validating them with schema.Validate, writing them with Cache.WriteSpec as .json and .yaml and validating the files with ValidateFile, and reading/writing them with the builtin schema installed through cdi.SetSpecValidator. `admitWith` models newSpec with a Spec validator installed; C18_validator_changes_nothing proves that with the builtin schema as validator admission equals admission without one. The stream also validates the library's own JSON/YAML text through the byte entry point (strings with DEL, C1 controls, U+FFFE), annotation keys in every spelling the library takes, and in-memory Specs from eight goroutines at once.",
    "level_note": "Trusted: Lean kernel; Encode model; factgen. That the real validator implements the Lean semantics is C17's correspondence.",
}

PROPS["C10"] = {
    "level": "proof",
    "streams": ["fswrite"],
    "timeout": 1200,
    "trusted_base": ["rename(2)/renameat2 rebinds a name atomically; an inode keeps its data for whoever opened it (the kernel)",
                     "os.CreateTemp returns a fresh name (O_EXCL) built from the pattern by replacing the last '*'",
                     "strace output as the record of the writer's file-system calls; the build-tag hook verifPoint for kill points"],
    "assumptions": ["page-cache visibility and durability after a machine crash are outside the model (process crash/kill only)"],
    "technique": "Lean 4 proof: publication invariant over every prefix (crash point) and fault of the writer's operation sequence on an inode-level FS model; strace trace validation against the model; SIGKILL at every hook point; RLIMIT_FSIZE write failures; concurrent directory snapshots",
    "level_text": "Kernel-checked theorems: any name CreateTemp can return for the regenerated pattern ends in .tmp and is not a Spec name; for every initial directory, target, content, fault (create fails, write stops after k bytes, rename fails) and every prefix of the writer's operations, each Spec-named entry reads exactly as before or is the target holding the complete new content; after any failed or interrupted write every Spec-named entry reads as before. Tied to the code on every run: (i) the writer runs in a child under strace and its openat/write/renameat2/unlink calls are parsed, checked to be one of the model's sequences and replayed on the model FS with the publication judge after every call (an in-place write or a Spec-named temp file is convicted by its own trace); (ii) the child is SIGKILLed at each of the five named points, with and without a previous file, for .json, .yaml and extension-less names, and the directory is listed and loaded by a fresh cache; (iii) RLIMIT_FSIZE makes the write fail at swept offsets; (iv) a reader takes whole-directory snapshots while a writer alternates two Specs.",
    "level_note": "Partial: rename atomicity and inode semantics are the kernel's. Trusted: Lean kernel; strace parsing; the hook commit (build tag verif).",
}

PROPS["C09"] = {
    "level": "translation_validation",
    "streams": ["codec"],
    "timeout": 1800,
    "trusted_base": ["encoding/json, gopkg.in/yaml.v3 (writers) and sigs.k8s.io/yaml / yaml.v2 (reader): third-party text codecs, entering the theorem only through the law CodecOK; the sweep tests that law on the real libraries",
                     "factgen F3 (struct tags)"],
    "assumptions": ["values of the Go type cdi.Spec: integers within their field types, map keys unique"],
    "technique": "Lean 4 proof of the data-model round trip (decodeSpec . encodeSpec = id for every typed Spec; tags agree) parametric in a text-codec law + translation validation of that law: whole-system WriteSpec/ReadSpec round trips and a sweep of the string space through both real codecs",
    "level_text": "Kernel-checked: the json and yaml struct tags coincide for every field (regenerated table), and for every value of the Go type cdi.Spec - all optional fields, nil entries, integer extremes - decoding the JSON value the library encodes returns exactly that Spec; hence with any text codec that preserves the document, the file written under a .json, .yaml or extension-less name reads back equal and both encodings are interchangeable. The codec law itself is third-party behaviour and is validated, not proved: every run writes Specs filled with YAML-sensitive spellings and integer extremes through Cache.WriteSpec under all three kinds of name and reads them back with cdi.ReadSpec and through a cache, and sweeps every BMP code point (and samples of the other planes) in several contexts through both writer/reader pairs. The sweep pins two classes of strings that do not survive (known findings); any other failure is a violation. Each kind of edit alone at Spec level and at device level, and twelve goroutines writing their own Specs under their own names through one cache (each reading its file back after every write) are part of every run.",
    "level_note": "Partial: string survival in the text codecs is tested, not proved. Known findings: JSON files with U+007F-U+009F/U+FFFE/U+FFFF; YAML files with multi-line strings starting with a space or line break.",
}

PROPS["C19"] = {
    "level": "translation_validation",
    "streams": ["cli"],
    "prebuild": [_core.build_cli],
    "timeout": 1800,
    "trusted_base": ["cobra/pflag option parsing; the JSON/YAML pretty-printers of the inject command (third-party)",
                     "factgen F10: which cache the helpers consult and whether --spec-dirs configures it"],
    "assumptions": ["directory names contain no comma (pflag StringSlice)"],
    "technique": "translation validation of the rebuilt cdi/validate binaries against in-process library calls through the Lean renderers (listing lines, error files, exit status) + Lean theorems: renderers are injective, exit status iff errors; fact obligation on the cache wiring; model of --verbose/--output/dirs/vendor arguments/inject pattern selection with injectivity and set-semantics theorems",
    "level_text": "On every run the cdi and validate binaries are rebuilt from /repo. For generated directory populations (the C01 layouts incl. invalid files, conflicts, missing directories) each listing sub-command is run with --spec-dirs and its stdout must equal the Lean renderer applied to what the library computes in-process for the same directories; when the library reports cache errors the tool must exit non-zero and name exactly the files in error, otherwise exit zero. `cdi inject` output is parsed back and compared with library injection of the glob-selected devices. The validate tool's exit status is compared with schema validation of the same document for the builtin and none schemas, JSON and YAML. Kernel-checked theorems: each renderer is injective (the printed listing determines the list), and the exit-status functions are exact; a regenerated fact states that the sub-commands read the cache that --spec-dirs configures. The detailed forms are covered the same way: `devices -v` and `specs -v` with every --output choice (also one the tool does not know), `specs` with vendor arguments, `dirs`; the Lean model holds chooseFormat, the choice of pretty-printer, marshalObject's indentation, the verbose blocks and the device selection of `inject` (patterns act as a set; exactly the matched devices, once each, sorted - proved), the harness supplies the pretty-printed objects and filepath.Match's verdicts. OCI specs given to `inject` also carry members the tool's runtime-spec version does not know.",
    "level_note": "Partial: cobra parsing and the pretty-printers are third-party and only exercised. Trusted: Lean kernel for the renderer theorems; factgen F10.",
}

PROPS["C11"] = {
    "level": "proof",
    "widen": ("quick", 1),
    "streams": ["watch", "cache"],
    "ops": ["events", "history", "bigdir", "slowscan", "overflow", "permrestore"],
    "timeout": 2400,
    "trusted_base": ["inotify event generation as abstracted by the model's event table (validated against a plain fsnotify watcher on every run): which operations produce an event that passes the watcher's filter",
                     "fsnotify delivers queued events in order and does not overflow its queue for these histories",
                     "the cache mutex serialises update+scan of the watcher and of queries (C12)"],
    "assumptions": ["I8: the alphabet is the one of the statement (files created, rewritten, replaced by rename, moved or linked in, renamed away, removed; the directory missing at start, created, removed, recreated) - the configured directory itself is not renamed",
                    "'soon' = within the polling deadline (4 s) after the history ends"],
    "technique": "Lean 4 proof: inductive invariant of the watch/update/scan/query state machine over every interleaving with file-system operations => convergence once the queue is drained; pinned defects refuted by witnesses; histories on the real kernel at several pacings incl. controlled pacing through the exported cache mutex",
    "level_text": "Kernel-checked theorem over the abstract state machine of one configured directory (kernel watch attached or not, watcher's belief, event queue, pending scan, staleness): for every finite history of file-system operations interleaved in any way with the watcher's event handling, its scans (file-system operations may fall between update and scan) and queries, once the queue is drained the next query is not stale, i.e. returns what a fresh cache returns; the proof is an invariant preserved by every step, with no bound on the history. Both defects of the pinned tree (Create events dropped; a directory scanned while unwatched and then removed) are counterexamples proved in Lean and reproduced on the real code. Tied to the code by validating the event table with a plain fsnotify watcher and by running fixed and random histories against a real auto-refresh cache (no Refresh call) at three pacings plus controlled pacing (the harness holds the exported cache mutex across groups of operations), polling queries until they equal a fresh cache; histories over two and three directories (a later directory goes away and comes back with a Spec overriding a device that still resolves), a query that falls into a slow scan of the watcher goroutine, and observation the way a container runtime does it (one InjectDevices call naming the expected devices and no other query). Obligation F9_scan_and_publication_atomic (regenerated from cache.go): in every entry point and in the watcher goroutine a directory scan happens under the mutex and its result is published before the mutex is released - the atomicity of the machine's scan and query steps. Events may be lost: the machine has a `drop` step (the kernel drops the newest queued event and leaves its overflow marker), the invariant does not count events, and the convergence theorems (one directory, any number of directories, from the creation of the cache on) quantify over schedules with losses; the regenerated fact F7b says the watcher's Errors case rescans. The watch stream makes the real inotify queue overflow (op `overflow`) and requires the file written meanwhile, and a later one, to show up; Specs installed as symbolic links are part of the fixed histories.",
    "level_note": "Partial: inotify semantics, queue overflow, goroutine scheduling and timing are the kernel's and runtime's; the model covers one directory (directories are independent in watch.update).",
}

PROPS["C08"] = {
    "level": "proof",
    "streams": ["crash", "parser", "annot", "validate", "apply", "schema"],
    "clauses": "panic|hang|died|stopped|without-error-entry",
    "timeout": 3600,
    "trusted_base": ["the JSON/YAML decoders (encoding/json, sigs.k8s.io/yaml, gopkg.in/yaml) and gojsonschema are not modelled: their totality on arbitrary bytes is searched, not proved",
                     "a Go slice-bounds / nil-dereference panic of the modelled functions is a Res.panic outcome of the model (checked by the per-property correspondence streams: parser, annot, validate, apply)",
                     "Go runtime: an unrecovered panic on any goroutine terminates the process (observed in a child process for the watcher goroutine)"],
    "assumptions": ["'hang' = an entry point does not return within 20 s (60 s for a batch of files fed to an auto-refresh cache)",
                    "OCI specs and edits are finite values; host device lookups are any function"],
    "technique": "Lean 4 proof: union of the totality theorems of the models (validation and minimum version on every decoded value incl. null entries; names; annotations; directory scan; apply on everything validation admits, via 'admitted => no nil entry'); crash stream: byte-mutated .json/.yaml documents, names and annotation maps through every entry point C08 names, incl. auto-refresh caches in a child process",
    "level_text": "Kernel-checked theorems: for every value of the decoded data model (any strings, null list entries, any integers) validation and the minimum-version computation return without a panic outcome; everything validation admits has no null entries and applying its Spec-level and device edits to any OCI spec on any host never panics; the name parser/validators, ParseAnnotations, AnnotationKey and UpdateAnnotations return a result for every byte string / map; a directory scan completes whatever its entries are. Tied to the code by the correspondence streams of C03/C05/C07/C15/C17 (each compares panics too) and by a crash stream: thousands of byte-level mutations of JSON and YAML Spec documents (incl. deep nesting, alias bombs, nulls, huge numbers, invalid UTF-8), written as .json/.yaml and passed to ReadSpec, ParseSpec, schema validation (data, reader, file, typed), MinimumRequiredVersion, Cache.Refresh + InjectDevices of every loaded device into several OCI specs, under recover and a deadline; batches of the same files fed to an auto-refresh cache in a child process, after which a valid Spec must still be picked up by the background goroutine; mutated names and annotation maps through every parser/annotation entry point. Every case of every stream runs under a deadline: a call that does not return is reported as `hang` with the case.",
    "level_note": "Partial: the decoders and the schema library are searched, not proved; 'never hangs' is a deadline in the search and structural termination in the models.",
}

PROPS["C12"] = {
    "level": "proof",
    "widen": ("quick", 1),
    "streams": ["race"],
    # the names stream carries a deterministic snapshot scenario (a shadowing Spec removed again: the device never resolves to nothing)
    "secondary": {"names": {"ops": ["write"], "clauses": "resolves to nothing|not the one in force"}},
    "prebuild": [_core.build_race],
    "timeout": 3600,
    "trusted_base": ["factgen F9: the per-entry-point sequence of Lock/Unlock and accesses to the fields of Cache and watch, internal methods inlined, control flow flattened in source order (pkg/cdi/cache.go); the dirErrors parameter of the watch methods is the cache's dirErrors map",
                     "sync.Mutex: mutual exclusion and the happens-before edge from Unlock to the next Lock (Go memory model)",
                     "Go race detector (ThreadSanitizer) for the searched executions",
                     "Spec objects and the maps handed out by queries are not mutated after a refresh published them (not modelled)"],
    "assumptions": ["a data race = two different goroutines simultaneously about to access shared cache state, in some schedule",
                    "'switches atomically between two states' = one Spec file replaced by rename(2) between two contents"],
    "technique": "Lean 4 proof: lock-set theorem over all thread counts, programs and schedules (guarded programs => no two threads ever both at an access, critical sections atomic, no deadlock) + decide that every entry point extracted from cache.go is guarded + inductive invariant of the refresh/query machine (every finished query read all index maps from one scan); race-detector build of the harness running operation sets with the watcher and an atomically flipping directory",
    "level_text": "Kernel-checked theorems: (1) for every assignment of guarded programs (every access between Lock and Unlock, no nested Lock, mutex released at the end) to any number of threads and every schedule, no reachable state has two threads about to access shared state, while one thread is in its critical section no other thread can step, and some thread can always step while work is left; (2) the fact obligation that every exported Cache method and the watcher goroutine, as extracted from the source on each run, is guarded, and that the index maps are replaced / read within one critical section; (3) for any number of refreshers and queries under every schedule a finished query has read all maps from one admissible scan. Tied to the code by the regenerated access table and by running pairs and sets of the 14 public operations concurrently with the watcher goroutine and a directory flipping atomically between two states, in a race-detector build, classifying every ListDevices/GetVendorSpecs/InjectDevices result as state A or state B, with a watchdog for hangs. A deterministic snapshot scenario of the names stream is read as a secondary stream: a Spec that shadows a lower-priority definition is removed again, and at every moment the device resolves to one of the two.",
    "level_note": "Partial: goroutine scheduling, the memory model and the race detector are the runtime's; the access table flattens control flow; objects reachable from returned values are assumed immutable.",
}

PROPS["C20"] = {
    "level": "proof",
    "widen": ("quick", 1),
    "streams": ["reconf", "defaultapi"],
    "timeout": 2400,
    "trusted_base": ["closing an fsnotify watcher releases its inotify descriptor, its kernel watches and its reader goroutine (observed per case through /proc/self/fd, fdinfo and runtime.NumGoroutine)",
                     "descriptor shortage is produced with RLIMIT_NOFILE lowered to the number of open descriptors for the duration of one Configure call",
                     "the cache mutex serialises Configure with queries (C12)"],
    "assumptions": ["I11: 'behaves like a cache newly created with the resulting options' is observed on devices, file errors, configured directories, and on whether new Specs in final/dropped directories become visible without/with Refresh",
                    "resource footprint = open descriptors, inotify instances, kernel watches and goroutines of the process, relative to the footprint before the cache existed"],
    "technique": "Lean 4 proof: Configure over any option history equals newCache of the accumulated options (fold lemma), resources bounded by one watcher and |dirs| watches whatever the history, nil watcher => every query rescans; correspondence on option histories up to 200 steps with /proc resource accounting, descriptor exhaustion at a chosen step, and the package default cache in a child process",
    "level_text": "Kernel-checked theorems over the model of configure/Configure/NewCache/default Configure: for every initial option list and every non-empty history of option lists (every environment: which directories exist, whether a descriptor can be had at each step) the final state equals the state of a cache freshly created with the accumulated options under the last step's environment; the resources held (watchers, watch goroutines, kernel watches) are at most 1, 1 and the number of distinct configured directories whatever the history length; when no descriptor can be had, auto-refresh queries always rescan. Tied to the code by running generated histories (1-200 steps) on a real cache and comparing with a fresh cache: same answers, the same descriptor/inotify/watch/goroutine footprint as the fresh cache and as the model predicts, nothing left after stop, new Specs picked up automatically iff auto-refresh is finally on and never from dropped directories; plus RLIMIT_NOFILE exhaustion at a chosen step and the default cache in a child process (Configure first / after use / twice). Histories also contain steps that make the watcher's event queue overflow before a reconfiguration, and after every history a Spec file of a final directory is rewritten in place and must be picked up.",
    "level_note": "Partial: descriptor and goroutine release is the runtime's and fsnotify's; the model counts resources per watcher.",
}

NOT_APPLICABLE = {}
