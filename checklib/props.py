"""Per-property configuration of ./check."""

UTF8 = "A-utf8: ranging over a Go string yields each ASCII byte as itself and every other byte as a rune >= 0x80"

PROPS = {
    "C07": {
        "level": "proof",
        "streams": ["parser"],
        "trusted_base": ["Go slice/index bounds semantics as modelled by goSlice/goIndex", UTF8,
                         "strings.SplitN(s, sep, 2) modelled by splitFirst"],
        "assumptions": [UTF8],
        "technique": "Lean 4 proof: parser model = regular-language spec (accept-iff, totality, round-trip) + exhaustive/random correspondence with pkg/parser",
        "level_text": "Kernel-checked theorems for every byte string: the model of ParseQualifiedName never panics, accepts exactly the qualified-name language, returns parts that recompose to the input, fails with (\"\", \"\", input), and parses every composition of valid parts back. The model is tied to pkg/parser by running all public parser entry points on every string over an 11-letter alphabet up to length 4 (5 in thorough) plus random near-valid strings and comparing with the model; the decidable judge the theorem is about also judges the implementation's own outputs.",
        "level_note": "Trusted: Lean kernel (+propext, Classical.choice, Quot.sound); Go slice/index semantics as modelled (goSlice/goIndex), strings.SplitN modelled by splitFirst, rune iteration on bytes (A-utf8); the hand-written model corresponds to the code only as far as the correspondence stream exercises it.",
    },
}

PROPS["C15"] = {
    "level": "proof",
    "streams": ["annot"],
    "trusted_base": ["Go slice/index semantics (goSlice/goIndex)", UTF8,
                     "strings.Split/ReplaceAll/HasPrefix/ToLower modelled by splitAll/replaceByte/hasPrefix/K8s.toLower",
                     "the k8s regular expressions replaced by hand-written recognisers (regex literals are regenerated facts)",
                     "Go map iteration order: the model is fed the entries in the order the real call returned the keys"],
    "assumptions": [UTF8],
    "technique": "Lean 4 proof: closed forms of AnnotationKey/Value/Update/Parse, key legality under the k8s rule, Split∘Join round trip; correspondence with pkg/cdi annotations.go",
    "level_text": "Kernel-checked theorems for all plugin/device-id strings, device lists and maps: UpdateAnnotations never panics, on failure returns the map unchanged, on success appends exactly one previously unused key that carries the CDI prefix and is a legal Kubernetes annotation key and whose value splits back into exactly the requested devices; ParseAnnotations ignores foreign keys, fails with empty results iff some device is unqualified, and acceptance is independent of map iteration order. The model is compared with the real functions on every character class in first/middle/last position at lengths around the 63-byte limit, nil/empty/populated maps, used keys and malformed values; a judge written against the property text convicts the implementation's own outputs.",
    "level_note": "Trusted: Lean kernel (+propext, Classical.choice, Quot.sound); the byte-level models of strings.* and of the two k8s regexes; constants regenerated from annotations.go and k8s/validation.go (named obligations F5_*).",
}

PROPS["C16"] = {
    "level": "proof",
    "streams": ["names", "path"],
    "trusted_base": ["path/filepath (Clean, Join, Dir, Base, Ext) modelled lexically in CdiModel/Path.lean and compared with the real functions on every string over {/ . a b} up to length 6 (8 thorough) on every run",
                     "os.MkdirAll / CreateTemp / renameat2 behaviour observed on a scratch tree (tree snapshots before/after)"],
    "assumptions": ["configured directories are lexically cleaned by WithSpecDirs (checked by the stream)"],
    "technique": "Lean 4 proof over a lexical filepath model: single-component names, component-level confinement of the write target, write/remove symmetry, encoding choice; tree-snapshot correspondence on real directories",
    "level_text": "Kernel-checked theorems: for every valid vendor/class and every transient id the generated names are single path components; for every directory list and single-component name the WriteSpec target has exactly the components of the cleaned last directory plus one (the name, with .yaml appended unless it already ends in .json/.yaml) and is rooted iff the directory is; RemoveSpec computes the identical path; JSON is chosen iff the extension is .json. The model is tied to the code by running the real name generators on adversarial ids ('../../etc/passwd', 'a/b', '..', extensions, NUL) and the real WriteSpec/RemoveSpec on scratch trees, diffing full tree snapshots (exactly one file may change, directly inside the last directory; removal removes exactly what was written; removing a missing name succeeds) and comparing the path the cache reports after a refresh.",
    "level_note": "Trusted: Lean kernel; the lexical filepath model (validated by the path stream every run); factgen for the extension-test facts (F6_*). Clean idempotence on its own output is checked by the stream, not proved.",
}

PROPS["C06"] = {
    "level": "proof",
    "streams": ["version"],
    "trusted_base": ["golang.org/x/mod/semver.Compare on the released-version table, modelled by the lexicographic order on (major, minor, patch)",
                     "Go loop-variable semantics of module specs-go (regenerated fact F11: go directive + address-of-range-variable sites)",
                     "Go map iteration = some permutation of the keys (the model is proved order-independent)"],
    "assumptions": ["declared versions may carry one leading 'v' (I4)"],
    "technique": "Lean 4 proof: requiredVersion = max introduction version of the features used (any placement, any device order, any map iteration order); ValidateVersion iff released and >= minimum; fact obligations on the version table and loop-variable aliasing; exhaustive placement correspondence with specs-go",
    "level_text": "Kernel-checked theorems for every Spec: the model of MinimumRequiredVersion equals the declarative maximum over the features used at spec level or in any device, is invariant under device permutations and under moving edit blocks between levels, does not depend on the order in which Go iterates the version map (right-commutativity of the update + Perm.foldl_eq'), and ValidateVersion accepts iff the declared version is released and not lower. The regenerated facts (version table, predicate names, absence of address-of-range-variable under per-loop scoping) are named obligations. The model is compared with specs.MinimumRequiredVersion/ValidateVersion on every single feature and every pair of features at every placement for 0-3 devices, all declared version strings incl. near-misses, and random larger Specs with permuted devices and nil entries.",
    "level_note": "Trusted: Lean kernel; semver.Compare only on the nine released versions (validated by the stream); factgen's reading of version.go and go.mod.",
}

PROPS["C05"] = {
    "level": "proof",
    "streams": ["validate"],
    "trusted_base": ["sigs.k8s.io/yaml UnmarshalStrict modelled at the value level by CdiModel/Decode.lean (unknown/duplicate member, null, type and integer-range rules); text-level parsing is third-party",
                     "the k8s annotation-key rule as modelled in CdiModel/K8s.lean", UTF8],
    "assumptions": ["document space = JSON values with correctly typed scalars and exact-case member names (I5)",
                    "an RDT class id is legal iff shorter than 4096 bytes, not '.'/'..', without '/' or newline (I11)"],
    "technique": "Lean 4 proof: validation pipeline = declarative WellFormed (total, exact), single-defect corollaries, strict decoding; mutation correspondence through ReadSpec/Refresh/WriteSpec in JSON and YAML",
    "level_text": "Kernel-checked theorem for every raw Spec: the model of newSpec/validate returns ok(WellFormed s) - it never panics and accepts exactly the Specs that satisfy the conjunction of the SPEC.md rules at every position (version via C06, kind via C07, annotations, edits incl. nil entries, devices, unique names); corollaries give rejection for each single defect at any position, and decoding rejects unknown and duplicate members. Tied to the code by generating well-formed documents over the optional fields and ~20 kinds of single-defect mutants at spec level and first/middle/last device, rendering each as JSON and as block YAML, and pushing it through cdi.ReadSpec (both encodings), Cache.Refresh+GetErrors (both) and Cache.WriteSpec of the parsed value; every verdict must equal the model's and satisfy the WellFormed judge.",
    "level_note": "Trusted: Lean kernel; the value-level decoding model; the yaml/json text codecs (third-party, fuzzed under C08); fact obligations F1/F4 on the regenerated tables.",
}

NOT_APPLICABLE = {}
