"""Per-property configuration of ./check."""

UTF8 = "A-utf8: ranging over a Go string yields each ASCII byte as itself and every other byte as a rune >= 0x80"

PROPS = {
    "C07": {
        "level": "proof",
        "streams": ["parser"],
        "trusted_base": ["Go slice/index bounds semantics as modelled by goSlice/goIndex", UTF8,
                         "strings.SplitN(s, sep, 2) modelled by splitFirst"],
        "assumptions": [UTF8],
        "technique": "Lean 4 proof: parser model = regular-language spec (accept-iff, totality, round-trip) + exhaustive/random correspondence with pkg/parser",
        "level_text": "Kernel-checked theorems for every byte string: the model of ParseQualifiedName never panics, accepts exactly the qualified-name language, returns parts that recompose to the input, fails with (\"\", \"\", input), and parses every composition of valid parts back. The model is tied to pkg/parser by running all public parser entry points on every string over an 11-letter alphabet up to length 4 (5 in thorough) plus random near-valid strings and comparing with the model; the decidable judge the theorem is about also judges the implementation's own outputs.",
        "level_note": "Trusted: Lean kernel (+propext, Classical.choice, Quot.sound); Go slice/index semantics as modelled (goSlice/goIndex), strings.SplitN modelled by splitFirst, rune iteration on bytes (A-utf8); the hand-written model corresponds to the code only as far as the correspondence stream exercises it.",
    },
}

NOT_APPLICABLE = {}
