module verif/factgen

go 1.20
