package main

import (
	"encoding/json"
	"fmt"
	"os"
	"path/filepath"
	"sort"
	"strings"
)

// F8: schema/schema.json + schema/defs.json -> CdiModel/Generated/SchemaGen.lean.
// One Lean def per definition (dependency order), `$ref`s resolved to those defs,
// recognised keywords kept, every other keyword listed in `schemaIgnoredKeywords`.

func init() { extraGenerators = append(extraGenerators, genSchema) }

var recognisedKw = map[string]bool{"type": true, "properties": true, "required": true, "items": true,
	"patternProperties": true, "minimum": true, "maximum": true, "$ref": true}
var annotationKw = map[string]bool{"description": true, "$schema": true, "definitions": true, "title": true, "$id": true}

type schemaGen struct {
	defs     map[string]any
	emitted  map[string]bool
	visiting map[string]bool
	out      *strings.Builder
	ignored  map[string]bool
	order    []string
	hoisting map[string]bool
}

func leanName(def string) string { return "schema_" + strings.ReplaceAll(def, "-", "_") }

func (g *schemaGen) refTarget(ref string) string {
	// "defs.json#/definitions/X" or "#/definitions/X"
	i := strings.Index(ref, "#/definitions/")
	if i < 0 {
		die("schema: unsupported $ref %q", ref)
	}
	file := ref[:i]
	if file != "" && file != "defs.json" {
		die("schema: $ref into unknown file %q", ref)
	}
	return ref[i+len("#/definitions/"):]
}

// term renders a schema object as a Lean term; refs render as the def's name.
func (g *schemaGen) term(v any, where string) string {
	m, ok := v.(map[string]any)
	if !ok {
		die("schema: %s is not an object", where)
	}
	// inline object schemas nested inside another schema get a def of their own (named by their path)
	if _, hasProps := m["properties"]; hasProps && strings.Contains(where, ".") && !g.hoisting[where] {
		g.hoisting[where] = true
		name := "inline_" + strings.NewReplacer(".", "_", "-", "_").Replace(where)
		t := g.term(v, where)
		fmt.Fprintf(g.out, "def %s : Schema := %s\n", leanName(name), t)
		return leanName(name)
	}
	if ref, ok := m["$ref"]; ok {
		name := g.refTarget(ref.(string))
		g.emitDef(name)
		for k := range m {
			if k != "$ref" && !annotationKw[k] {
				// draft-07: siblings of $ref are ignored
				g.ignored[k] = true
			}
		}
		return leanName(name)
	}
	keys := make([]string, 0, len(m))
	for k := range m {
		keys = append(keys, k)
	}
	sort.Strings(keys)
	for _, k := range keys {
		if !recognisedKw[k] && !annotationKw[k] {
			g.ignored[k] = true
		}
	}
	typ := "none"
	if t, ok := m["type"]; ok {
		ts, ok := t.(string)
		if !ok {
			die("schema: %s: non-string type", where)
		}
		typ = "(some " + leanStr(ts) + ")"
	}
	props := "SchemaProps.nil"
	if p, ok := m["properties"]; ok {
		props = g.propsTerm(p, where+".properties")
	}
	req := "[]"
	if r, ok := m["required"]; ok {
		var l []string
		for _, x := range r.([]any) {
			l = append(l, x.(string))
		}
		req = leanStrList(l)
	}
	items := "SchemaOpt.none"
	if it, ok := m["items"]; ok {
		items = "(SchemaOpt.some " + g.term(it, where+".items") + ")"
	}
	pat := "SchemaProps.nil"
	if p, ok := m["patternProperties"]; ok {
		for k := range p.(map[string]any) {
			if k != ".{1,}" {
				die("schema: %s: pattern %q is not modelled", where, k)
			}
		}
		pat = g.propsTerm(p, where+".patternProperties")
	}
	num := func(k string) string {
		x, ok := m[k]
		if !ok {
			return "none"
		}
		n, ok := x.(json.Number)
		if !ok || strings.ContainsAny(n.String(), ".eE") {
			die("schema: %s.%s is not an integer literal", where, k)
		}
		s := n.String()
		if strings.HasPrefix(s, "-") {
			return "(some (" + s + "))"
		}
		return "(some " + s + ")"
	}
	return fmt.Sprintf("(Schema.node %s %s %s %s %s %s %s)", typ, props, req, items, pat, num("minimum"), num("maximum"))
}

func (g *schemaGen) propsTerm(v any, where string) string {
	m := v.(map[string]any)
	keys := make([]string, 0, len(m))
	for k := range m {
		keys = append(keys, k)
	}
	sort.Strings(keys)
	t := "SchemaProps.nil"
	for i := len(keys) - 1; i >= 0; i-- {
		t = fmt.Sprintf("(SchemaProps.cons %s %s %s)", leanStr(keys[i]), g.term(m[keys[i]], where+"."+keys[i]), t)
	}
	return t
}

func (g *schemaGen) emitDef(name string) {
	if g.emitted[name] {
		return
	}
	if g.visiting[name] {
		die("schema: recursive definition %q is not modelled", name)
	}
	d, ok := g.defs[name]
	if !ok {
		die("schema: unknown definition %q", name)
	}
	g.visiting[name] = true
	t := g.term(d, "definitions."+name)
	g.visiting[name] = false
	g.emitted[name] = true
	g.order = append(g.order, name)
	fmt.Fprintf(g.out, "def %s : Schema := %s\n", leanName(name), t)
}

func loadJSON(path string) map[string]any {
	b, err := os.ReadFile(path)
	if err != nil {
		die("schema: %v", err)
	}
	dec := json.NewDecoder(strings.NewReader(string(b)))
	dec.UseNumber()
	var m map[string]any
	if err := dec.Decode(&m); err != nil {
		die("schema: %s: %v", path, err)
	}
	return m
}

func genSchema(outDir string) {
	root := loadJSON(filepath.Join(*repo, "schema/schema.json"))
	defsDoc := loadJSON(filepath.Join(*repo, "schema/defs.json"))
	defs, ok := defsDoc["definitions"].(map[string]any)
	if !ok {
		die("schema: defs.json has no definitions object")
	}
	var body strings.Builder
	g := &schemaGen{defs: defs, emitted: map[string]bool{}, visiting: map[string]bool{}, out: &body, ignored: map[string]bool{}, hoisting: map[string]bool{}}
	rootTerm := g.term(root, "schema.json")
	var w strings.Builder
	w.WriteString("/- GENERATED by /verif/factgen from schema/schema.json and schema/defs.json. Do not edit. -/\n")
	w.WriteString("import CdiModel.Schema\nnamespace Cdi.Generated\nopen Cdi\n\n")
	w.WriteString(body.String())
	fmt.Fprintf(&w, "\n/-- F8: the builtin schema (schema.json with defs.json resolved) -/\ndef builtinSchema : Schema := %s\n", rootTerm)
	var ign []string
	for k := range g.ignored {
		ign = append(ign, k)
	}
	sort.Strings(ign)
	fmt.Fprintf(&w, "\n/-- F8: keywords present in the files that draft-07 validation ignores -/\ndef schemaIgnoredKeywords : List String := %s\n", leanStrList(ign))
	fmt.Fprintf(&w, "def schemaDefinitionsUsed : List String := %s\n", leanStrList(g.order))
	w.WriteString("\nend Cdi.Generated\n")
	if err := os.WriteFile(filepath.Join(outDir, "SchemaGen.lean"), []byte(w.String()), 0o644); err != nil {
		die("%v", err)
	}
}
