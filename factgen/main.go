// factgen — regenerates the source facts of the Lean model from /repo's working
// tree (DESIGN §3.1).  It reads Go sources with go/parser and the schema JSON
// files, and writes Lean modules under CdiModel/Generated.  It fails loudly when
// a construct it extracts no longer has the expected shape.
package main

import (
	"flag"
	"fmt"
	"go/ast"
	"go/parser"
	"go/token"
	"os"
	"path/filepath"
	"sort"
	"strconv"
	"strings"
)

var (
	repo   = flag.String("repo", "/repo", "repository root")
	outDir = flag.String("out", "", "output directory for Generated/*.lean")
	fset   = token.NewFileSet()
)

func die(format string, a ...any) {
	fmt.Fprintf(os.Stderr, "factgen: "+format+"\n", a...)
	os.Exit(1)
}

func parseFile(rel string) *ast.File {
	f, err := parser.ParseFile(fset, filepath.Join(*repo, rel), nil, parser.ParseComments)
	if err != nil {
		die("cannot parse %s: %v", rel, err)
	}
	return f
}

// constants of a file: name -> string value (string consts, incl. "a"+b concatenations)
func stringConsts(f *ast.File) map[string]string {
	out := map[string]string{}
	var eval func(e ast.Expr) (string, bool)
	eval = func(e ast.Expr) (string, bool) {
		switch t := e.(type) {
		case *ast.BasicLit:
			if t.Kind == token.STRING {
				s, err := strconv.Unquote(t.Value)
				return s, err == nil
			}
		case *ast.Ident:
			s, ok := out[t.Name]
			return s, ok
		case *ast.BinaryExpr:
			if t.Op == token.ADD {
				a, ok1 := eval(t.X)
				b, ok2 := eval(t.Y)
				return a + b, ok1 && ok2
			}
		case *ast.ParenExpr:
			return eval(t.X)
		case *ast.CallExpr: // conversions like version("v" + X)
			if len(t.Args) == 1 {
				return eval(t.Args[0])
			}
		}
		return "", false
	}
	for pass := 0; pass < 3; pass++ {
		for _, d := range f.Decls {
			gd, ok := d.(*ast.GenDecl)
			if !ok || (gd.Tok != token.CONST && gd.Tok != token.VAR) {
				continue
			}
			for _, sp := range gd.Specs {
				vs := sp.(*ast.ValueSpec)
				for i, n := range vs.Names {
					if i < len(vs.Values) {
						if s, ok := eval(vs.Values[i]); ok {
							out[n.Name] = s
						}
					}
				}
			}
		}
	}
	return out
}

func intConsts(f *ast.File) map[string]int {
	out := map[string]int{}
	ast.Inspect(f, func(n ast.Node) bool {
		vs, ok := n.(*ast.ValueSpec)
		if !ok {
			return true
		}
		for i, nm := range vs.Names {
			if i < len(vs.Values) {
				if bl, ok := vs.Values[i].(*ast.BasicLit); ok && bl.Kind == token.INT {
					v, err := strconv.Atoi(bl.Value)
					if err == nil {
						out[nm.Name] = v
					}
				}
			}
		}
		return true
	})
	return out
}

func findFunc(f *ast.File, name string) *ast.FuncDecl {
	for _, d := range f.Decls {
		if fd, ok := d.(*ast.FuncDecl); ok && fd.Name.Name == name {
			return fd
		}
	}
	return nil
}

func findMethod(f *ast.File, recv, name string) *ast.FuncDecl {
	for _, d := range f.Decls {
		fd, ok := d.(*ast.FuncDecl)
		if !ok || fd.Name.Name != name || fd.Recv == nil || len(fd.Recv.List) == 0 {
			continue
		}
		t := fd.Recv.List[0].Type
		if st, ok := t.(*ast.StarExpr); ok {
			t = st.X
		}
		if id, ok := t.(*ast.Ident); ok && id.Name == recv {
			return fd
		}
	}
	return nil
}

func findVarValue(f *ast.File, name string) ast.Expr {
	var out ast.Expr
	ast.Inspect(f, func(n ast.Node) bool {
		switch t := n.(type) {
		case *ast.ValueSpec:
			for i, nm := range t.Names {
				if nm.Name == name && i < len(t.Values) {
					out = t.Values[i]
				}
			}
		case *ast.AssignStmt:
			for i, l := range t.Lhs {
				if id, ok := l.(*ast.Ident); ok && id.Name == name && i < len(t.Rhs) && t.Tok == token.DEFINE {
					out = t.Rhs[i]
				}
			}
		}
		return true
	})
	return out
}

func leanStr(s string) string {
	var b strings.Builder
	b.WriteByte('"')
	for _, r := range s {
		switch {
		case r == '"':
			b.WriteString("\\\"")
		case r == '\\':
			b.WriteString("\\\\")
		case r == '\n':
			b.WriteString("\\n")
		case r == '\t':
			b.WriteString("\\t")
		case r < 0x20 || r == 0x7f:
			fmt.Fprintf(&b, "\\x%02x", r)
		default:
			b.WriteRune(r)
		}
	}
	b.WriteByte('"')
	return b.String()
}

func leanStrList(l []string) string {
	q := make([]string, len(l))
	for i, s := range l {
		q[i] = leanStr(s)
	}
	return "[" + strings.Join(q, ", ") + "]"
}

func leanBool(b bool) string {
	if b {
		return "true"
	}
	return "false"
}

// ---- F1: version table
type versionEntry struct {
	ver  string
	fn   string // "" when nil
}

func factsVersions(w *strings.Builder) {
	f := parseFile("specs-go/version.go")
	consts := stringConsts(f)
	val := findVarValue(f, "validSpecVersions")
	cl, ok := val.(*ast.CompositeLit)
	if !ok {
		die("version.go: validSpecVersions is not a composite literal")
	}
	var ents []versionEntry
	for _, e := range cl.Elts {
		kv, ok := e.(*ast.KeyValueExpr)
		if !ok {
			die("version.go: validSpecVersions element is not key:value")
		}
		k, ok := kv.Key.(*ast.Ident)
		if !ok {
			die("version.go: validSpecVersions key is not an identifier")
		}
		ver, ok := consts[k.Name]
		if !ok {
			die("version.go: cannot resolve constant %s", k.Name)
		}
		fn := ""
		if id, ok := kv.Value.(*ast.Ident); ok && id.Name != "nil" {
			fn = id.Name
		} else if !ok {
			die("version.go: validSpecVersions value for %s is not an identifier", k.Name)
		}
		ents = append(ents, versionEntry{ver, fn})
	}
	fmt.Fprintf(w, "/-- F1: keys of `validSpecVersions` in source order with the name of the predicate (\"\" = nil). -/\n")
	fmt.Fprintf(w, "def versionTable : List (String × String) := [")
	for i, e := range ents {
		if i > 0 {
			w.WriteString(", ")
		}
		fmt.Fprintf(w, "(%s, %s)", leanStr(e.ver), leanStr(e.fn))
	}
	w.WriteString("]\n")
	fmt.Fprintf(w, "def vEarliest : String := %s\n", leanStr(consts["vEarliest"]))
	fmt.Fprintf(w, "def currentVersion : String := %s\n", leanStr(consts["CurrentVersion"]))

	// F11 + aliasing: range-value variables whose address is taken inside the loop
	gomod, _ := os.ReadFile(filepath.Join(*repo, "specs-go/go.mod"))
	perIter := goVersionAtLeast(string(gomod), 1, 22)
	fmt.Fprintf(w, "/-- F11: does module specs-go get per-iteration `for` variables (go ≥ 1.22)? -/\n")
	fmt.Fprintf(w, "def specsGoLoopVarPerIteration : Bool := %s\n", leanBool(perIter))
	var aliased []string
	for _, d := range f.Decls {
		fd, ok := d.(*ast.FuncDecl)
		if !ok || fd.Body == nil {
			continue
		}
		ast.Inspect(fd.Body, func(n ast.Node) bool {
			rs, ok := n.(*ast.RangeStmt)
			if !ok || rs.Value == nil || rs.Tok != token.DEFINE {
				return true
			}
			v, ok := rs.Value.(*ast.Ident)
			if !ok {
				return true
			}
			ast.Inspect(rs.Body, func(m ast.Node) bool {
				ue, ok := m.(*ast.UnaryExpr)
				if !ok || ue.Op != token.AND {
					return true
				}
				root := ue.X
				for {
					if se, ok := root.(*ast.SelectorExpr); ok {
						root = se.X
						continue
					}
					break
				}
				if id, ok := root.(*ast.Ident); ok && id.Name == v.Name {
					aliased = append(aliased, fd.Name.Name+":"+v.Name)
				}
				return true
			})
			return true
		})
	}
	sort.Strings(aliased)
	fmt.Fprintf(w, "/-- F11: `func:var` where the address of (a field of) a range value variable is taken in specs-go/version.go. -/\n")
	fmt.Fprintf(w, "def rangeVarAddressTaken : List String := %s\n", leanStrList(aliased))
}

func goVersionAtLeast(gomod string, maj, min int) bool {
	for _, line := range strings.Split(gomod, "\n") {
		line = strings.TrimSpace(line)
		if strings.HasPrefix(line, "go ") {
			parts := strings.Split(strings.TrimSpace(line[3:]), ".")
			if len(parts) >= 2 {
				a, _ := strconv.Atoi(parts[0])
				b, _ := strconv.Atoi(parts[1])
				return a > maj || (a == maj && b >= min)
			}
		}
	}
	return false
}

// ---- F4: hook names, device types, Apply's hook dispatch
func factsEdits(w *strings.Builder) {
	f := parseFile("pkg/cdi/container-edits.go")
	consts := stringConsts(f)
	val := findVarValue(f, "validHookNames")
	cl, ok := val.(*ast.CompositeLit)
	if !ok {
		die("container-edits.go: validHookNames is not a composite literal")
	}
	var hooks []string
	for _, e := range cl.Elts {
		kv, ok := e.(*ast.KeyValueExpr)
		if !ok {
			die("container-edits.go: validHookNames element shape")
		}
		switch k := kv.Key.(type) {
		case *ast.Ident:
			hooks = append(hooks, consts[k.Name])
		case *ast.BasicLit:
			s, _ := strconv.Unquote(k.Value)
			hooks = append(hooks, s)
		default:
			die("container-edits.go: validHookNames key shape")
		}
	}
	fmt.Fprintf(w, "/-- F4: keys of `validHookNames`. -/\ndef hookNames : List String := %s\n", leanStrList(hooks))

	fd := findMethod(f, "DeviceNode", "Validate")
	if fd == nil {
		die("container-edits.go: (*DeviceNode).Validate not found")
	}
	var types []string
	found := false
	ast.Inspect(fd.Body, func(n ast.Node) bool {
		as, ok := n.(*ast.AssignStmt)
		if !ok || len(as.Lhs) != 1 {
			return true
		}
		if id, ok := as.Lhs[0].(*ast.Ident); !ok || id.Name != "validTypes" {
			return true
		}
		cl, ok := as.Rhs[0].(*ast.CompositeLit)
		if !ok {
			return true
		}
		found = true
		for _, e := range cl.Elts {
			kv := e.(*ast.KeyValueExpr)
			bl, ok := kv.Key.(*ast.BasicLit)
			if !ok {
				die("container-edits.go: validTypes key shape")
			}
			s, _ := strconv.Unquote(bl.Value)
			types = append(types, s)
		}
		return true
	})
	if !found {
		die("container-edits.go: validTypes literal not found in DeviceNode.Validate")
	}
	fmt.Fprintf(w, "/-- F4: keys of `validTypes` in `DeviceNode.Validate`. -/\ndef deviceTypes : List String := %s\n", leanStrList(types))

	// Apply: switch h.HookName arms -> which OCI hook list receives the hook
	ap := findMethod(f, "ContainerEdits", "Apply")
	if ap == nil {
		die("container-edits.go: (*ContainerEdits).Apply not found")
	}
	var arms []string
	ast.Inspect(ap.Body, func(n ast.Node) bool {
		sw, ok := n.(*ast.SwitchStmt)
		if !ok {
			return true
		}
		se, ok := sw.Tag.(*ast.SelectorExpr)
		if !ok || se.Sel.Name != "HookName" {
			return true
		}
		for _, st := range sw.Body.List {
			cc := st.(*ast.CaseClause)
			if cc.List == nil {
				continue
			}
			target := ""
			for _, b := range cc.Body {
				ast.Inspect(b, func(m ast.Node) bool {
					switch t := m.(type) {
					case *ast.CallExpr:
						if s, ok := t.Fun.(*ast.SelectorExpr); ok && strings.HasPrefix(s.Sel.Name, "Add") && strings.HasSuffix(s.Sel.Name, "Hook") {
							target = strings.TrimSuffix(strings.TrimPrefix(s.Sel.Name, "Add"), "Hook")
						}
					case *ast.AssignStmt:
						if s, ok := t.Lhs[0].(*ast.SelectorExpr); ok {
							if x, ok := s.X.(*ast.SelectorExpr); ok && x.Sel.Name == "Hooks" {
								target = s.Sel.Name
							}
						}
					}
					return true
				})
			}
			for _, e := range cc.List {
				id, ok := e.(*ast.Ident)
				if !ok {
					die("container-edits.go: Apply hook case is not a constant")
				}
				arms = append(arms, "("+leanStr(consts[id.Name])+", "+leanStr(strings.ToLower(target))+")")
			}
		}
		return false
	})
	if len(arms) == 0 {
		die("container-edits.go: no `switch h.HookName` in Apply")
	}
	fmt.Fprintf(w, "/-- F4: `Apply`'s hook dispatch: hook name -> OCI hook list (lower-cased). -/\ndef hookDispatch : List (String × String) := [%s]\n", strings.Join(arms, ", "))
}

// ---- F5: annotation constants
func factsAnnotations(w *strings.Builder) {
	f := parseFile("pkg/cdi/annotations.go")
	sc := stringConsts(f)
	ic := intConsts(f)
	if _, ok := sc["AnnotationPrefix"]; !ok {
		die("annotations.go: AnnotationPrefix not found")
	}
	if _, ok := ic["maxNameLen"]; !ok {
		die("annotations.go: maxNameLen not found")
	}
	fmt.Fprintf(w, "/-- F5 -/\ndef annotationPrefix : String := %s\ndef maxNameLen : Nat := %d\n", leanStr(sc["AnnotationPrefix"]), ic["maxNameLen"])
	k := parseFile("internal/validation/k8s/validation.go")
	kc := stringConsts(k)
	ki := intConsts(k)
	for _, n := range []string{"qualifiedNameFmt", "dns1123LabelFmt", "dns1123SubdomainFmt"} {
		if _, ok := kc[n]; !ok {
			die("k8s/validation.go: %s not found", n)
		}
	}
	fmt.Fprintf(w, "def k8sQualifiedNameFmt : String := %s\n", leanStr(kc["qualifiedNameFmt"]))
	fmt.Fprintf(w, "def k8sDns1123SubdomainFmt : String := %s\n", leanStr(kc["dns1123SubdomainFmt"]))
	fmt.Fprintf(w, "def k8sQualifiedNameMaxLength : Nat := %d\n", ki["qualifiedNameMaxLength"])
	fmt.Fprintf(w, "def k8sDns1123SubdomainMaxLength : Nat := %d\n", ki["DNS1123SubdomainMaxLength"])
	// TotalAnnotationSizeLimitB = 256 * (1 << 10): evaluate the constant expression
	o := parseFile("internal/validation/k8s/objectmeta.go")
	lim := -1
	ast.Inspect(o, func(n ast.Node) bool {
		vs, ok := n.(*ast.ValueSpec)
		if !ok {
			return true
		}
		for i, nm := range vs.Names {
			if nm.Name == "TotalAnnotationSizeLimitB" && i < len(vs.Values) {
				if v, ok := evalInt(vs.Values[i]); ok {
					lim = v
				}
			}
		}
		return true
	})
	if lim < 0 {
		die("objectmeta.go: cannot evaluate TotalAnnotationSizeLimitB")
	}
	fmt.Fprintf(w, "def totalAnnotationSizeLimit : Nat := %d\n", lim)
}

func evalInt(e ast.Expr) (int, bool) {
	switch t := e.(type) {
	case *ast.BasicLit:
		if t.Kind == token.INT {
			v, err := strconv.Atoi(t.Value)
			return v, err == nil
		}
	case *ast.ParenExpr:
		return evalInt(t.X)
	case *ast.BinaryExpr:
		a, ok1 := evalInt(t.X)
		b, ok2 := evalInt(t.Y)
		if !ok1 || !ok2 {
			return 0, false
		}
		switch t.Op {
		case token.MUL:
			return a * b, true
		case token.ADD:
			return a + b, true
		case token.SUB:
			return a - b, true
		case token.SHL:
			return a << uint(b), true
		}
	}
	return 0, false
}

// ---- F6: extensions and temp pattern
func extTestsIn(rel string, w *strings.Builder, acc *[]string) {
	f := parseFile(rel)
	for _, d := range f.Decls {
		fd, ok := d.(*ast.FuncDecl)
		if !ok || fd.Body == nil {
			continue
		}
		// collect `ext != "x"` / `ext == "x"` / filepath.Ext(..) == "x" comparisons per function
		var lits []string
		ast.Inspect(fd.Body, func(n ast.Node) bool {
			be, ok := n.(*ast.BinaryExpr)
			if !ok || (be.Op != token.NEQ && be.Op != token.EQL) {
				return true
			}
			isExt := func(e ast.Expr) bool {
				if id, ok := e.(*ast.Ident); ok && id.Name == "ext" {
					return true
				}
				if ce, ok := e.(*ast.CallExpr); ok {
					if se, ok := ce.Fun.(*ast.SelectorExpr); ok && se.Sel.Name == "Ext" {
						return true
					}
				}
				return false
			}
			if !isExt(be.X) {
				return true
			}
			if bl, ok := be.Y.(*ast.BasicLit); ok && bl.Kind == token.STRING {
				s, _ := strconv.Unquote(bl.Value)
				lits = append(lits, s)
			}
			return true
		})
		if len(lits) > 0 {
			sort.Strings(lits)
			// a set: a function may test the extension more than once
			uniq := lits[:0]
			for i, l := range lits {
				if i == 0 || l != lits[i-1] {
					uniq = append(uniq, l)
				}
			}
			lits = uniq
			*acc = append(*acc, "("+leanStr(rel+":"+fd.Name.Name)+", "+leanStrList(lits)+")")
		}
	}
}

func factsExts(w *strings.Builder) {
	var acc []string
	for _, rel := range []string{"pkg/cdi/spec.go", "pkg/cdi/cache.go", "pkg/cdi/spec-dirs.go"} {
		extTestsIn(rel, w, &acc)
	}
	fmt.Fprintf(w, "/-- F6: per function, the string literals an extension is compared with. -/\ndef extTests : List (String × List String) := [%s]\n", strings.Join(acc, ",\n  "))
	f := parseFile("pkg/cdi/spec.go")
	sc := stringConsts(f)
	if _, ok := sc["defaultSpecExt"]; !ok {
		die("spec.go: defaultSpecExt not found")
	}
	fmt.Fprintf(w, "def defaultSpecExt : String := %s\n", leanStr(sc["defaultSpecExt"]))
	wr := findMethod(f, "Spec", "write")
	if wr == nil {
		die("spec.go: (*Spec).write not found")
	}
	pattern := ""
	var calls []string
	ast.Inspect(wr.Body, func(n ast.Node) bool {
		ce, ok := n.(*ast.CallExpr)
		if !ok {
			return true
		}
		name := ""
		switch fn := ce.Fun.(type) {
		case *ast.SelectorExpr:
			if x, ok := fn.X.(*ast.Ident); ok {
				name = x.Name + "." + fn.Sel.Name
			} else {
				name = "." + fn.Sel.Name
			}
		case *ast.Ident:
			name = fn.Name
		}
		switch name {
		case "os.CreateTemp":
			if len(ce.Args) == 2 {
				if bl, ok := ce.Args[1].(*ast.BasicLit); ok {
					pattern, _ = strconv.Unquote(bl.Value)
				}
			}
			calls = append(calls, "createTemp")
		case "os.MkdirAll":
			calls = append(calls, "mkdirAll")
		case "tmp.Write":
			calls = append(calls, "write")
		case "tmp.Close":
			calls = append(calls, "close")
		case "renameIn":
			calls = append(calls, "rename")
		case "os.Remove":
			calls = append(calls, "remove")
		case "os.WriteFile", "os.Create", "os.OpenFile", "os.Rename":
			calls = append(calls, strings.TrimPrefix(name, "os."))
		}
		return true
	})
	fmt.Fprintf(w, "/-- F6: pattern given to `os.CreateTemp` in `(*Spec).write` (\"\" = no such call). -/\ndef tmpPattern : String := %s\n", leanStr(pattern))
	fmt.Fprintf(w, "/-- F6: file-system calls of `(*Spec).write` in source order. -/\ndef writeCalls : List String := %s\n", leanStrList(calls))
}

// ---- F7: event mask
func factsWatch(w *strings.Builder) {
	f := parseFile("pkg/cdi/cache.go")
	fd := findMethod(f, "watch", "watch")
	if fd == nil {
		die("cache.go: (*watch).watch not found")
	}
	var mask []string
	var darwinOnly []string
	collect := func(e ast.Expr, dst *[]string) {
		ast.Inspect(e, func(n ast.Node) bool {
			if se, ok := n.(*ast.SelectorExpr); ok {
				if x, ok := se.X.(*ast.Ident); ok && x.Name == "fsnotify" {
					*dst = append(*dst, se.Sel.Name)
				}
			}
			return true
		})
	}
	var walk func(n ast.Node, underDarwin bool)
	walk = func(n ast.Node, underDarwin bool) {
		ast.Inspect(n, func(m ast.Node) bool {
			switch t := m.(type) {
			case *ast.IfStmt:
				cond := fmt.Sprint(nodeString(t.Cond))
				if strings.Contains(cond, "darwin") {
					walk(t.Body, true)
					if t.Else != nil {
						walk(t.Else, underDarwin)
					}
					return false
				}
			case *ast.AssignStmt:
				if len(t.Lhs) == 1 {
					if id, ok := t.Lhs[0].(*ast.Ident); ok && id.Name == "eventMask" {
						if underDarwin {
							collect(t.Rhs[0], &darwinOnly)
						} else {
							collect(t.Rhs[0], &mask)
						}
					}
				}
			}
			return true
		})
	}
	walk(fd.Body, false)
	if len(mask) == 0 {
		die("cache.go: eventMask assignment not found in watch()")
	}
	sort.Strings(mask)
	fmt.Fprintf(w, "/-- F7: fsnotify ops in `eventMask` on non-darwin systems. -/\ndef eventMask : List String := %s\n", leanStrList(mask))
}

func nodeString(n ast.Node) string {
	var b strings.Builder
	ast.Inspect(n, func(m ast.Node) bool {
		switch t := m.(type) {
		case *ast.BasicLit:
			b.WriteString(t.Value)
		case *ast.Ident:
			b.WriteString(t.Name)
		}
		return true
	})
	return b.String()
}

func main() {
	flag.Parse()
	if *outDir == "" {
		die("-out required")
	}
	var w strings.Builder
	w.WriteString("/- GENERATED by /verif/factgen from the working tree of the repository. Do not edit. -/\n")
	w.WriteString("namespace Cdi.Generated\n\n")
	factsVersions(&w)
	factsEdits(&w)
	factsAnnotations(&w)
	factsExts(&w)
	factsWatch(&w)
	w.WriteString("\nend Cdi.Generated\n")
	if err := os.WriteFile(filepath.Join(*outDir, "Facts.lean"), []byte(w.String()), 0o644); err != nil {
		die("%v", err)
	}
	for _, g := range extraGenerators {
		g(*outDir)
	}
	fmt.Println("factgen: ok")
}

var extraGenerators []func(outDir string)

func writeOut(path, content string) {
	if err := os.WriteFile(path, []byte(content), 0o644); err != nil {
		die("%v", err)
	}
}
