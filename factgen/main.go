// factgen — regenerates the source facts of the Lean model from /repo's working
// tree (DESIGN §3.1).  It reads Go sources with go/parser and the schema JSON
// files, and writes Lean modules under CdiModel/Generated.  It fails loudly when
// a construct it extracts no longer has the expected shape.
package main

import (
	"flag"
	"fmt"
	"go/ast"
	"go/parser"
	"go/token"
	"os"
	"path/filepath"
	"sort"
	"strconv"
	"strings"
)

var (
	repo   = flag.String("repo", "/repo", "repository root")
	outDir = flag.String("out", "", "output directory for Generated/*.lean")
	fset   = token.NewFileSet()
)

// factFailure is what a fact extractor panics with; the generator writes fallback definitions for its
// group, so that only the obligations that use those facts fail (not every check of every property).
type factFailure string

var factErrors []string

func dieSoft(format string, a ...any) { panic(factFailure(fmt.Sprintf(format, a...))) }

// group runs one extractor; on failure its partial output is dropped and the fallback is written
func group(w *strings.Builder, name string, f func(w *strings.Builder), fallback string) {
	var local strings.Builder
	defer func() {
		if r := recover(); r != nil {
			ff, ok := r.(factFailure)
			if !ok {
				panic(r)
			}
			factErrors = append(factErrors, name+": "+string(ff))
			fmt.Fprintf(os.Stderr, "factgen: %s: %s (fallback facts written)\n", name, string(ff))
			w.WriteString(fallback)
		}
	}()
	f(&local)
	w.WriteString(local.String())
}

func die(format string, a ...any) {
	if inGroup {
		dieSoft(format, a...)
	}
	fmt.Fprintf(os.Stderr, "factgen: "+format+"\n", a...)
	os.Exit(1)
}

func parseFile(rel string) *ast.File {
	f, err := parser.ParseFile(fset, filepath.Join(*repo, rel), nil, parser.ParseComments)
	if err != nil {
		die("cannot parse %s: %v", rel, err)
	}
	return f
}

// constants of a file: name -> string value (string consts, incl. "a"+b concatenations)
func stringConsts(f *ast.File) map[string]string {
	out := map[string]string{}
	var eval func(e ast.Expr) (string, bool)
	eval = func(e ast.Expr) (string, bool) {
		switch t := e.(type) {
		case *ast.BasicLit:
			if t.Kind == token.STRING {
				s, err := strconv.Unquote(t.Value)
				return s, err == nil
			}
		case *ast.Ident:
			s, ok := out[t.Name]
			return s, ok
		case *ast.BinaryExpr:
			if t.Op == token.ADD {
				a, ok1 := eval(t.X)
				b, ok2 := eval(t.Y)
				return a + b, ok1 && ok2
			}
		case *ast.ParenExpr:
			return eval(t.X)
		case *ast.CallExpr: // conversions like version("v" + X)
			if len(t.Args) == 1 {
				return eval(t.Args[0])
			}
		}
		return "", false
	}
	for pass := 0; pass < 3; pass++ {
		for _, d := range f.Decls {
			gd, ok := d.(*ast.GenDecl)
			if !ok || (gd.Tok != token.CONST && gd.Tok != token.VAR) {
				continue
			}
			for _, sp := range gd.Specs {
				vs := sp.(*ast.ValueSpec)
				for i, n := range vs.Names {
					if i < len(vs.Values) {
						if s, ok := eval(vs.Values[i]); ok {
							out[n.Name] = s
						}
					}
				}
			}
		}
	}
	return out
}

func intConsts(f *ast.File) map[string]int {
	out := map[string]int{}
	ast.Inspect(f, func(n ast.Node) bool {
		vs, ok := n.(*ast.ValueSpec)
		if !ok {
			return true
		}
		for i, nm := range vs.Names {
			if i < len(vs.Values) {
				if bl, ok := vs.Values[i].(*ast.BasicLit); ok && bl.Kind == token.INT {
					v, err := strconv.Atoi(bl.Value)
					if err == nil {
						out[nm.Name] = v
					}
				}
			}
		}
		return true
	})
	return out
}

func findFunc(f *ast.File, name string) *ast.FuncDecl {
	for _, d := range f.Decls {
		if fd, ok := d.(*ast.FuncDecl); ok && fd.Name.Name == name {
			return fd
		}
	}
	return nil
}

func findMethod(f *ast.File, recv, name string) *ast.FuncDecl {
	for _, d := range f.Decls {
		fd, ok := d.(*ast.FuncDecl)
		if !ok || fd.Name.Name != name || fd.Recv == nil || len(fd.Recv.List) == 0 {
			continue
		}
		t := fd.Recv.List[0].Type
		if st, ok := t.(*ast.StarExpr); ok {
			t = st.X
		}
		if id, ok := t.(*ast.Ident); ok && id.Name == recv {
			return fd
		}
	}
	return nil
}

func findVarValue(f *ast.File, name string) ast.Expr {
	var out ast.Expr
	ast.Inspect(f, func(n ast.Node) bool {
		switch t := n.(type) {
		case *ast.ValueSpec:
			for i, nm := range t.Names {
				if nm.Name == name && i < len(t.Values) {
					out = t.Values[i]
				}
			}
		case *ast.AssignStmt:
			for i, l := range t.Lhs {
				if id, ok := l.(*ast.Ident); ok && id.Name == name && i < len(t.Rhs) && t.Tok == token.DEFINE {
					out = t.Rhs[i]
				}
			}
		}
		return true
	})
	return out
}

func leanStr(s string) string {
	var b strings.Builder
	b.WriteByte('"')
	for _, r := range s {
		switch {
		case r == '"':
			b.WriteString("\\\"")
		case r == '\\':
			b.WriteString("\\\\")
		case r == '\n':
			b.WriteString("\\n")
		case r == '\t':
			b.WriteString("\\t")
		case r < 0x20 || r == 0x7f:
			fmt.Fprintf(&b, "\\x%02x", r)
		default:
			b.WriteRune(r)
		}
	}
	b.WriteByte('"')
	return b.String()
}

func leanStrList(l []string) string {
	q := make([]string, len(l))
	for i, s := range l {
		q[i] = leanStr(s)
	}
	return "[" + strings.Join(q, ", ") + "]"
}

func leanBool(b bool) string {
	if b {
		return "true"
	}
	return "false"
}

// ---- F1: version table
type versionEntry struct {
	ver  string
	fn   string // "" when nil
}

func factsVersions(w *strings.Builder) {
	f := parseFile("specs-go/version.go")
	consts := stringConsts(f)
	val := findVarValue(f, "validSpecVersions")
	cl, ok := val.(*ast.CompositeLit)
	if !ok {
		die("version.go: validSpecVersions is not a composite literal")
	}
	var ents []versionEntry
	for _, e := range cl.Elts {
		kv, ok := e.(*ast.KeyValueExpr)
		if !ok {
			die("version.go: validSpecVersions element is not key:value")
		}
		k, ok := kv.Key.(*ast.Ident)
		if !ok {
			die("version.go: validSpecVersions key is not an identifier")
		}
		ver, ok := consts[k.Name]
		if !ok {
			die("version.go: cannot resolve constant %s", k.Name)
		}
		fn := ""
		if id, ok := kv.Value.(*ast.Ident); ok && id.Name != "nil" {
			fn = id.Name
		} else if !ok {
			die("version.go: validSpecVersions value for %s is not an identifier", k.Name)
		}
		ents = append(ents, versionEntry{ver, fn})
	}
	fmt.Fprintf(w, "/-- F1: keys of `validSpecVersions` in source order with the name of the predicate (\"\" = nil). -/\n")
	fmt.Fprintf(w, "def versionTable : List (String × String) := [")
	for i, e := range ents {
		if i > 0 {
			w.WriteString(", ")
		}
		fmt.Fprintf(w, "(%s, %s)", leanStr(e.ver), leanStr(e.fn))
	}
	w.WriteString("]\n")
	fmt.Fprintf(w, "def vEarliest : String := %s\n", leanStr(consts["vEarliest"]))
	fmt.Fprintf(w, "def currentVersion : String := %s\n", leanStr(consts["CurrentVersion"]))

	// F11 + aliasing: range-value variables whose address is taken inside the loop
	gomod, _ := os.ReadFile(filepath.Join(*repo, "specs-go/go.mod"))
	perIter := goVersionAtLeast(string(gomod), 1, 22)
	fmt.Fprintf(w, "/-- F11: does module specs-go get per-iteration `for` variables (go ≥ 1.22)? -/\n")
	fmt.Fprintf(w, "def specsGoLoopVarPerIteration : Bool := %s\n", leanBool(perIter))
	var aliased []string
	for _, d := range f.Decls {
		fd, ok := d.(*ast.FuncDecl)
		if !ok || fd.Body == nil {
			continue
		}
		ast.Inspect(fd.Body, func(n ast.Node) bool {
			rs, ok := n.(*ast.RangeStmt)
			if !ok || rs.Value == nil || rs.Tok != token.DEFINE {
				return true
			}
			v, ok := rs.Value.(*ast.Ident)
			if !ok {
				return true
			}
			ast.Inspect(rs.Body, func(m ast.Node) bool {
				ue, ok := m.(*ast.UnaryExpr)
				if !ok || ue.Op != token.AND {
					return true
				}
				root := ue.X
				for {
					if se, ok := root.(*ast.SelectorExpr); ok {
						root = se.X
						continue
					}
					break
				}
				if id, ok := root.(*ast.Ident); ok && id.Name == v.Name {
					aliased = append(aliased, fd.Name.Name+":"+v.Name)
				}
				return true
			})
			return true
		})
	}
	sort.Strings(aliased)
	fmt.Fprintf(w, "/-- F11: `func:var` where the address of (a field of) a range value variable is taken in specs-go/version.go. -/\n")
	fmt.Fprintf(w, "def rangeVarAddressTaken : List String := %s\n", leanStrList(aliased))
}

func goVersionAtLeast(gomod string, maj, min int) bool {
	for _, line := range strings.Split(gomod, "\n") {
		line = strings.TrimSpace(line)
		if strings.HasPrefix(line, "go ") {
			parts := strings.Split(strings.TrimSpace(line[3:]), ".")
			if len(parts) >= 2 {
				a, _ := strconv.Atoi(parts[0])
				b, _ := strconv.Atoi(parts[1])
				return a > maj || (a == maj && b >= min)
			}
		}
	}
	return false
}

// ---- F4: hook names, device types, Apply's hook dispatch
func factsEdits(w *strings.Builder) {
	f := parseFile("pkg/cdi/container-edits.go")
	consts := stringConsts(f)
	// the hook names Hook.Validate accepts: keys of the `validHookNames` map literal, or — if the set is
	// written as a predicate — the case constants of a function named like isValidHookName
	var hooks []string
	addHook := func(e ast.Expr) {
		switch k := e.(type) {
		case *ast.Ident:
			if v, ok := consts[k.Name]; ok {
				hooks = append(hooks, v)
			}
		case *ast.BasicLit:
			if s, err := strconv.Unquote(k.Value); err == nil {
				hooks = append(hooks, s)
			}
		}
	}
	if cl, ok := findVarValue(f, "validHookNames").(*ast.CompositeLit); ok {
		for _, e := range cl.Elts {
			if kv, ok := e.(*ast.KeyValueExpr); ok {
				addHook(kv.Key)
			} else {
				addHook(e)
			}
		}
	} else {
		for _, d := range f.Decls {
			fd, ok := d.(*ast.FuncDecl)
			if !ok || fd.Body == nil {
				continue
			}
			ln := strings.ToLower(fd.Name.Name)
			if !(strings.Contains(ln, "hook") && strings.Contains(ln, "name") && strings.Contains(ln, "valid")) {
				continue
			}
			ast.Inspect(fd.Body, func(n ast.Node) bool {
				if cc, ok := n.(*ast.CaseClause); ok {
					for _, e := range cc.List {
						addHook(e)
					}
				}
				return true
			})
		}
	}
	if len(hooks) == 0 {
		die("container-edits.go: the set of valid hook names was not found (map literal validHookNames or a predicate function)")
	}
	fmt.Fprintf(w, "/-- F4: keys of `validHookNames`. -/\ndef hookNames : List String := %s\n", leanStrList(hooks))

	fd := findMethod(f, "DeviceNode", "Validate")
	if fd == nil {
		die("container-edits.go: (*DeviceNode).Validate not found")
	}
	// the device types DeviceNode.Validate accepts, in whichever form they are written: keys of a map
	// literal, cases of a switch on the Type field, or equality tests on it
	var types []string
	seenT := map[string]bool{}
	addT := func(e ast.Expr) {
		s, ok := strLit(e)
		if id, isId := e.(*ast.Ident); isId && !ok {
			s, ok = consts[id.Name]
		}
		if ok && !seenT[s] {
			seenT[s] = true
			types = append(types, s)
		}
	}
	isTypeField := func(e ast.Expr) bool {
		se, ok := e.(*ast.SelectorExpr)
		return ok && se.Sel.Name == "Type"
	}
	ast.Inspect(fd.Body, func(n ast.Node) bool {
		switch t := n.(type) {
		case *ast.CompositeLit:
			if _, isMap := t.Type.(*ast.MapType); isMap {
				for _, e := range t.Elts {
					if kv, ok := e.(*ast.KeyValueExpr); ok {
						addT(kv.Key)
					}
				}
			}
		case *ast.SwitchStmt:
			if t.Tag != nil && isTypeField(t.Tag) {
				for _, cc := range t.Body.List {
					for _, e := range cc.(*ast.CaseClause).List {
						addT(e)
					}
				}
			}
		case *ast.BinaryExpr:
			if (t.Op == token.EQL || t.Op == token.NEQ) && isTypeField(t.X) {
				addT(t.Y)
			}
		case *ast.CallExpr:
			// a predicate applied to the Type field: its case constants / set literal
			passesType := false
			for _, a := range t.Args {
				if isTypeField(a) {
					passesType = true
				}
			}
			if id, ok := t.Fun.(*ast.Ident); ok && passesType {
				if callee := findFunc(f, id.Name); callee != nil && callee.Body != nil {
					ast.Inspect(callee.Body, func(m ast.Node) bool {
						switch c := m.(type) {
						case *ast.CaseClause:
							for _, e := range c.List {
								addT(e)
							}
						case *ast.CompositeLit:
							for _, e := range c.Elts {
								if kv, ok := e.(*ast.KeyValueExpr); ok {
									addT(kv.Key)
								} else {
									addT(e)
								}
							}
						}
						return true
					})
				}
			}
		}
		return true
	})
	if len(types) == 0 {
		die("container-edits.go: no device type literals found in DeviceNode.Validate")
	}
	fmt.Fprintf(w, "/-- F4: keys of `validTypes` in `DeviceNode.Validate`. -/\ndef deviceTypes : List String := %s\n", leanStrList(types))

	// Apply: switch h.HookName arms -> which OCI hook list receives the hook
	ap := findMethod(f, "ContainerEdits", "Apply")
	if ap == nil {
		die("container-edits.go: (*ContainerEdits).Apply not found")
	}
	var arms []string
	// the dispatch on the hook name: in Apply itself or in a helper of the same file
	_ = ap
	ast.Inspect(f, func(n ast.Node) bool {
		if len(arms) > 0 {
			return false
		}
		sw, ok := n.(*ast.SwitchStmt)
		if !ok {
			return true
		}
		se, ok := sw.Tag.(*ast.SelectorExpr)
		if !ok || se.Sel.Name != "HookName" {
			return true
		}
		for _, st := range sw.Body.List {
			cc := st.(*ast.CaseClause)
			if cc.List == nil {
				continue
			}
			target := ""
			for _, b := range cc.Body {
				ast.Inspect(b, func(m ast.Node) bool {
					switch t := m.(type) {
					case *ast.CallExpr:
						if s, ok := t.Fun.(*ast.SelectorExpr); ok && strings.HasPrefix(s.Sel.Name, "Add") && strings.HasSuffix(s.Sel.Name, "Hook") {
							target = strings.TrimSuffix(strings.TrimPrefix(s.Sel.Name, "Add"), "Hook")
						}
					case *ast.AssignStmt:
						if s, ok := t.Lhs[0].(*ast.SelectorExpr); ok {
							if x, ok := s.X.(*ast.SelectorExpr); ok && x.Sel.Name == "Hooks" {
								target = s.Sel.Name
							}
						}
					}
					return true
				})
			}
			for _, e := range cc.List {
				name := ""
				if id, ok := e.(*ast.Ident); ok {
					name = consts[id.Name]
				} else if s, ok := strLit(e); ok {
					name = s
				} else {
					die("container-edits.go: Apply hook case is not a constant")
				}
				if target == "" {
					continue // a switch on the hook name that adds nothing (e.g. a validity predicate)
				}
				arms = append(arms, "("+leanStr(name)+", "+leanStr(strings.ToLower(target))+")")
			}
		}
		return false
	})
	if len(arms) == 0 {
		die("container-edits.go: no switch on the hook name that adds hooks to the OCI spec")
	}
	fmt.Fprintf(w, "/-- F4: `Apply`'s hook dispatch: hook name -> OCI hook list (lower-cased). -/\ndef hookDispatch : List (String × String) := [%s]\n", strings.Join(arms, ", "))
}

// ---- F5: annotation constants
func factsAnnotations(w *strings.Builder) {
	f := parseFile("pkg/cdi/annotations.go")
	sc := stringConsts(f)
	ic := intConsts(f)
	if _, ok := sc["AnnotationPrefix"]; !ok {
		die("annotations.go: AnnotationPrefix not found")
	}
	if _, ok := ic["maxNameLen"]; !ok {
		die("annotations.go: maxNameLen not found")
	}
	fmt.Fprintf(w, "/-- F5 -/\ndef annotationPrefix : String := %s\ndef maxNameLen : Nat := %d\n", leanStr(sc["AnnotationPrefix"]), ic["maxNameLen"])
	k := parseFile("internal/validation/k8s/validation.go")
	kc := stringConsts(k)
	ki := intConsts(k)
	for _, n := range []string{"qualifiedNameFmt", "dns1123LabelFmt", "dns1123SubdomainFmt"} {
		if _, ok := kc[n]; !ok {
			die("k8s/validation.go: %s not found", n)
		}
	}
	fmt.Fprintf(w, "def k8sQualifiedNameFmt : String := %s\n", leanStr(kc["qualifiedNameFmt"]))
	fmt.Fprintf(w, "def k8sDns1123SubdomainFmt : String := %s\n", leanStr(kc["dns1123SubdomainFmt"]))
	fmt.Fprintf(w, "def k8sQualifiedNameMaxLength : Nat := %d\n", ki["qualifiedNameMaxLength"])
	fmt.Fprintf(w, "def k8sDns1123SubdomainMaxLength : Nat := %d\n", ki["DNS1123SubdomainMaxLength"])
	// TotalAnnotationSizeLimitB = 256 * (1 << 10): evaluate the constant expression
	o := parseFile("internal/validation/k8s/objectmeta.go")
	lim := -1
	ast.Inspect(o, func(n ast.Node) bool {
		vs, ok := n.(*ast.ValueSpec)
		if !ok {
			return true
		}
		for i, nm := range vs.Names {
			if nm.Name == "TotalAnnotationSizeLimitB" && i < len(vs.Values) {
				if v, ok := evalInt(vs.Values[i]); ok {
					lim = v
				}
			}
		}
		return true
	})
	if lim < 0 {
		die("objectmeta.go: cannot evaluate TotalAnnotationSizeLimitB")
	}
	fmt.Fprintf(w, "def totalAnnotationSizeLimit : Nat := %d\n", lim)
}

func evalInt(e ast.Expr) (int, bool) {
	switch t := e.(type) {
	case *ast.BasicLit:
		if t.Kind == token.INT {
			v, err := strconv.Atoi(t.Value)
			return v, err == nil
		}
	case *ast.ParenExpr:
		return evalInt(t.X)
	case *ast.BinaryExpr:
		a, ok1 := evalInt(t.X)
		b, ok2 := evalInt(t.Y)
		if !ok1 || !ok2 {
			return 0, false
		}
		switch t.Op {
		case token.MUL:
			return a * b, true
		case token.ADD:
			return a + b, true
		case token.SUB:
			return a - b, true
		case token.SHL:
			return a << uint(b), true
		}
	}
	return 0, false
}

// ---- F6: extensions and temp pattern
//
// Per function of the three files: the string literals a file-name extension is compared with —
// directly (ext == "x", switch ext { case "x": }, set[ext] with a package-level set literal) or
// through helper functions of the same package it calls (a predicate such as hasSpecExt).
type extFunc struct {
	rel     string
	fd      *ast.FuncDecl
	direct  map[string]bool
	callees map[string]bool
}

func isExtExpr(e ast.Expr) bool {
	switch t := e.(type) {
	case *ast.Ident:
		return t.Name == "ext"
	case *ast.CallExpr:
		if se, ok := t.Fun.(*ast.SelectorExpr); ok && se.Sel.Name == "Ext" {
			return true
		}
	case *ast.ParenExpr:
		return isExtExpr(t.X)
	}
	return false
}

func strLit(e ast.Expr) (string, bool) {
	if bl, ok := e.(*ast.BasicLit); ok && bl.Kind == token.STRING {
		s, err := strconv.Unquote(bl.Value)
		return s, err == nil
	}
	return "", false
}

func extFuncs(rels []string) map[string]*extFunc {
	out := map[string]*extFunc{}
	setLits := map[string][]string{} // package-level composite literals with string keys / elements
	var files []*ast.File
	for _, rel := range rels {
		f := parseFile(rel)
		files = append(files, f)
		ast.Inspect(f, func(n ast.Node) bool {
			vs, ok := n.(*ast.ValueSpec)
			if !ok {
				return true
			}
			for i, nm := range vs.Names {
				if i >= len(vs.Values) {
					break
				}
				if cl, ok := vs.Values[i].(*ast.CompositeLit); ok {
					for _, e := range cl.Elts {
						k := e
						if kv, ok := e.(*ast.KeyValueExpr); ok {
							k = kv.Key
						}
						if s, ok := strLit(k); ok {
							setLits[nm.Name] = append(setLits[nm.Name], s)
						}
					}
				}
			}
			return true
		})
	}
	for i, f := range files {
		for _, d := range f.Decls {
			fd, ok := d.(*ast.FuncDecl)
			if !ok || fd.Body == nil {
				continue
			}
			ef := &extFunc{rel: rels[i], fd: fd, direct: map[string]bool{}, callees: map[string]bool{}}
			ast.Inspect(fd.Body, func(n ast.Node) bool {
				switch t := n.(type) {
				case *ast.BinaryExpr:
					if t.Op == token.NEQ || t.Op == token.EQL {
						if isExtExpr(t.X) {
							if s, ok := strLit(t.Y); ok {
								ef.direct[s] = true
							}
						} else if isExtExpr(t.Y) {
							if s, ok := strLit(t.X); ok {
								ef.direct[s] = true
							}
						}
					}
				case *ast.SwitchStmt:
					if t.Tag != nil && isExtExpr(t.Tag) {
						for _, cc := range t.Body.List {
							for _, e := range cc.(*ast.CaseClause).List {
								if s, ok := strLit(e); ok {
									ef.direct[s] = true
								}
							}
						}
					}
				case *ast.IndexExpr:
					if id, ok := t.X.(*ast.Ident); ok && isExtExpr(t.Index) {
						for _, s := range setLits[id.Name] {
							ef.direct[s] = true
						}
					}
				case *ast.CallExpr:
					switch fn := t.Fun.(type) {
					case *ast.Ident:
						ef.callees[fn.Name] = true
					case *ast.SelectorExpr:
						ef.callees[fn.Sel.Name] = true
					}
				}
				return true
			})
			out[fd.Name.Name] = ef
		}
	}
	return out
}

func extTestsAll(rels []string) []string {
	funcs := extFuncs(rels)
	var closure func(name string, depth int, seen map[string]bool) map[string]bool
	closure = func(name string, depth int, seen map[string]bool) map[string]bool {
		res := map[string]bool{}
		ef := funcs[name]
		if ef == nil || seen[name] || depth > 3 {
			return res
		}
		seen[name] = true
		for l := range ef.direct {
			res[l] = true
		}
		for c := range ef.callees {
			// only through small helpers (a predicate or a path helper), not through the callers of a scan
			if cf := funcs[c]; cf != nil && len(cf.fd.Body.List) <= 8 {
				for l := range closure(c, depth+1, seen) {
					res[l] = true
				}
			}
		}
		return res
	}
	var acc []string
	var names []string
	for n := range funcs {
		names = append(names, n)
	}
	sort.Strings(names)
	for _, rel := range rels {
		for _, n := range names {
			ef := funcs[n]
			if ef.rel != rel {
				continue
			}
			set := closure(n, 0, map[string]bool{})
			if len(set) == 0 {
				continue
			}
			var lits []string
			for l := range set {
				lits = append(lits, l)
			}
			sort.Strings(lits)
			acc = append(acc, "("+leanStr(rel+":"+n)+", "+leanStrList(lits)+")")
		}
	}
	return acc
}

func factsExts(w *strings.Builder) {
	acc := extTestsAll([]string{"pkg/cdi/spec.go", "pkg/cdi/cache.go", "pkg/cdi/spec-dirs.go"})
	fmt.Fprintf(w, "/-- F6: per function, the string literals an extension is compared with. -/\ndef extTests : List (String × List String) := [%s]\n", strings.Join(acc, ",\n  "))
	f := parseFile("pkg/cdi/spec.go")
	sc := stringConsts(f)
	if _, ok := sc["defaultSpecExt"]; !ok {
		die("spec.go: defaultSpecExt not found")
	}
	fmt.Fprintf(w, "def defaultSpecExt : String := %s\n", leanStr(sc["defaultSpecExt"]))
	wr := findMethod(f, "Spec", "write")
	if wr == nil {
		die("spec.go: (*Spec).write not found")
	}
	pattern := ""
	var calls []string
	ast.Inspect(wr.Body, func(n ast.Node) bool {
		ce, ok := n.(*ast.CallExpr)
		if !ok {
			return true
		}
		name := ""
		switch fn := ce.Fun.(type) {
		case *ast.SelectorExpr:
			if x, ok := fn.X.(*ast.Ident); ok {
				name = x.Name + "." + fn.Sel.Name
			} else {
				name = "." + fn.Sel.Name
			}
		case *ast.Ident:
			name = fn.Name
		}
		switch name {
		case "os.CreateTemp":
			if len(ce.Args) == 2 {
				if bl, ok := ce.Args[1].(*ast.BasicLit); ok {
					pattern, _ = strconv.Unquote(bl.Value)
				}
			}
			calls = append(calls, "createTemp")
		case "os.MkdirAll":
			calls = append(calls, "mkdirAll")
		case "tmp.Write":
			calls = append(calls, "write")
		case "tmp.Close":
			calls = append(calls, "close")
		case "renameIn":
			calls = append(calls, "rename")
		case "os.Remove":
			calls = append(calls, "remove")
		case "os.WriteFile", "os.Create", "os.OpenFile", "os.Rename":
			calls = append(calls, strings.TrimPrefix(name, "os."))
		}
		return true
	})
	fmt.Fprintf(w, "/-- F6: pattern given to `os.CreateTemp` in `(*Spec).write` (\"\" = no such call). -/\ndef tmpPattern : String := %s\n", leanStr(pattern))
	fmt.Fprintf(w, "/-- F6: file-system calls of `(*Spec).write` in source order. -/\ndef writeCalls : List String := %s\n", leanStrList(calls))
}

// ---- F7: event mask
func factsWatch(w *strings.Builder) {
	f := parseFile("pkg/cdi/cache.go")
	fd := findMethod(f, "watch", "watch")
	if fd == nil {
		die("cache.go: (*watch).watch not found")
	}
	// the event mask: the |-combination of fsnotify operations with the most operands found in the file
	// (a local of watch(), a package-level constant, ...), outside branches guarded by a darwin test
	var mask []string
	orOperands := func(e ast.Expr) []string {
		var out []string
		ok := true
		var rec func(e ast.Expr)
		rec = func(e ast.Expr) {
			switch t := e.(type) {
			case *ast.BinaryExpr:
				if t.Op == token.OR {
					rec(t.X)
					rec(t.Y)
					return
				}
				ok = false
			case *ast.ParenExpr:
				rec(t.X)
			case *ast.SelectorExpr:
				if x, isId := t.X.(*ast.Ident); isId && x.Name == "fsnotify" {
					out = append(out, t.Sel.Name)
					return
				}
				ok = false
			default:
				ok = false
			}
		}
		rec(e)
		if !ok {
			return nil
		}
		return out
	}
	var walk func(n ast.Node)
	walk = func(n ast.Node) {
		ast.Inspect(n, func(m ast.Node) bool {
			switch t := m.(type) {
			case *ast.IfStmt:
				if strings.Contains(nodeString(t.Cond), "darwin") {
					if t.Else != nil {
						walk(t.Else)
					}
					return false
				}
			case *ast.BinaryExpr:
				if ops := orOperands(t); len(ops) > len(mask) {
					mask = ops
				}
				if t.Op == token.OR {
					return false
				}
			}
			return true
		})
	}
	walk(f)
	_ = fd
	if len(mask) == 0 {
		die("cache.go: no combination of fsnotify operations found")
	}
	sort.Strings(mask)
	fmt.Fprintf(w, "/-- F7: fsnotify ops in `eventMask` on non-darwin systems. -/\ndef eventMask : List String := %s\n", leanStrList(mask))
	// F7b: is a receive from the watcher's Errors channel followed by a rescan? R = the functions that (transitively)
	// call something named refresh; the select case that receives from `….Errors` must call one of them.
	calls := func(n ast.Node, names map[string]bool) bool {
		found := false
		ast.Inspect(n, func(m ast.Node) bool {
			if ce, ok := m.(*ast.CallExpr); ok {
				switch fn := ce.Fun.(type) {
				case *ast.Ident:
					found = found || names[fn.Name]
				case *ast.SelectorExpr:
					found = found || names[fn.Sel.Name]
				}
			}
			return !found
		})
		return found
	}
	rescanners := map[string]bool{"refresh": true}
	for changed := true; changed; {
		changed = false
		for _, d := range f.Decls {
			if fn, ok := d.(*ast.FuncDecl); ok && fn.Body != nil && !rescanners[fn.Name.Name] && calls(fn.Body, rescanners) {
				// (the watcher goroutine itself and the public entry points call refresh; what matters is the Errors case below)
				rescanners[fn.Name.Name] = true
				changed = true
			}
		}
	}
	handled := false
	ast.Inspect(f, func(m ast.Node) bool {
		cc, ok := m.(*ast.CommClause)
		if !ok || cc.Comm == nil {
			return true
		}
		if strings.Contains(nodeString(cc.Comm), "Errors") {
			for _, st := range cc.Body {
				if calls(st, rescanners) {
					handled = true
				}
			}
		}
		return true
	})
	fmt.Fprintf(w, "/-- F7b: the watcher goroutine rescans after an error of the event source (lost events). -/\ndef overflowRescans : Bool := %v\n", handled)
}

// F2: the tags in the first column of the "Released versions" table of SPEC.md
func factsSpecMd(w *strings.Builder) {
	data, err := os.ReadFile(filepath.Join(*repo, "SPEC.md"))
	if err != nil {
		die("SPEC.md: %v", err)
	}
	var tags []string
	in := false
	for _, line := range strings.Split(string(data), "\n") {
		t := strings.TrimSpace(line)
		if strings.HasPrefix(t, "#") {
			in = strings.Contains(strings.ToLower(t), "released versions")
			continue
		}
		if !in || !strings.HasPrefix(t, "|") {
			continue
		}
		cells := strings.Split(t, "|")
		if len(cells) < 3 {
			continue
		}
		tag := strings.TrimSpace(cells[1])
		if len(tag) > 1 && tag[0] == 'v' && tag[1] >= '0' && tag[1] <= '9' {
			tags = append(tags, tag)
		}
	}
	if len(tags) == 0 {
		die("SPEC.md: no 'Released versions' table with vX.Y.Z tags found")
	}
	fmt.Fprintf(w, "/-- F2: the tags listed in the \"Released versions\" table of SPEC.md. -/\ndef specMdReleased : List String := %s\n", leanStrList(tags))
}

// F12: which exported methods of *Schema (schema/schema.go) reach the content check - a function of that file which calls
// into the internal validation package - and which reach the JSON-schema engine (a method that calls `Validate` of the
// compiled gojsonschema schema, found as the unexported method named validate). Transitive over the functions of the file.
func factsSchemaGlue(w *strings.Builder) {
	f := parseFile("schema/schema.go")
	type fn struct {
		name  string
		decl  *ast.FuncDecl
		calls map[string]bool
		pkg   map[string]bool
	}
	var fns []*fn
	for _, d := range f.Decls {
		fd, ok := d.(*ast.FuncDecl)
		if !ok || fd.Body == nil {
			continue
		}
		x := &fn{name: fd.Name.Name, decl: fd, calls: map[string]bool{}, pkg: map[string]bool{}}
		if fd.Recv == nil {
			x.name = "pkg." + x.name // package-level functions are kept apart from the methods of the same name
		}
		ast.Inspect(fd.Body, func(m ast.Node) bool {
			if ce, ok := m.(*ast.CallExpr); ok {
				switch t := ce.Fun.(type) {
				case *ast.Ident:
					x.calls["pkg."+t.Name] = true
				case *ast.SelectorExpr:
					if id, ok := t.X.(*ast.Ident); ok && id.Name == "validation" {
						x.pkg["validation"] = true
					}
					x.calls[t.Sel.Name] = true
				}
			}
			return true
		})
		fns = append(fns, x)
	}
	reach := func(seed func(*fn) bool) map[string]bool {
		r := map[string]bool{}
		for _, x := range fns {
			if seed(x) {
				r[x.name] = true
			}
		}
		for changed := true; changed; {
			changed = false
			for _, x := range fns {
				if r[x.name] {
					continue
				}
				for c := range x.calls {
					if r[c] {
						r[x.name] = true
						changed = true
						break
					}
				}
			}
		}
		return r
	}
	content := reach(func(x *fn) bool { return x.pkg["validation"] })
	engine := reach(func(x *fn) bool { return x.name == "validate" })
	if len(content) == 0 || len(engine) == 0 {
		die("schema.go: no function calls the validation package / no method named validate")
	}
	exported := func(r map[string]bool) []string {
		var out []string
		for _, x := range fns {
			if r[x.name] && x.decl.Recv != nil && ast.IsExported(x.decl.Name.Name) {
				out = append(out, x.decl.Name.Name)
			}
		}
		sort.Strings(out)
		return out
	}
	fmt.Fprintf(w, "/-- F12: exported methods of *Schema that (transitively) run the annotation content check. -/\ndef schemaContentCheckers : List String := %s\n", leanStrList(exported(content)))
	fmt.Fprintf(w, "/-- F12: exported methods of *Schema that (transitively) run the JSON-schema engine. -/\ndef schemaEngineCallers : List String := %s\n", leanStrList(exported(engine)))
}

func nodeString(n ast.Node) string {
	var b strings.Builder
	ast.Inspect(n, func(m ast.Node) bool {
		switch t := m.(type) {
		case *ast.BasicLit:
			b.WriteString(t.Value)
		case *ast.Ident:
			b.WriteString(t.Name)
		}
		return true
	})
	return b.String()
}

func main() {
	flag.Parse()
	if *outDir == "" {
		die("-out required")
	}
	var w strings.Builder
	w.WriteString("/- GENERATED by /verif/factgen from the working tree of the repository. Do not edit. -/\n")
	w.WriteString("namespace Cdi.Generated\n\n")
	inGroup = true
	group(&w, "F1 versions", factsVersions, "def versionTable : List (String × String) := []\ndef vEarliest : String := \"\"\ndef currentVersion : String := \"\"\ndef specsGoLoopVarPerIteration : Bool := false\ndef rangeVarAddressTaken : List String := [\"factgen-failed\"]\n")
	group(&w, "F2 SPEC.md", factsSpecMd, "def specMdReleased : List String := []\n")
	group(&w, "F4 edits", factsEdits, "def hookNames : List String := []\ndef deviceTypes : List String := []\ndef hookDispatch : List (String × String) := []\n")
	group(&w, "F5 annotations", factsAnnotations, "def annotationPrefix : String := \"\"\ndef maxNameLen : Nat := 0\ndef k8sQualifiedNameFmt : String := \"\"\ndef k8sDns1123SubdomainFmt : String := \"\"\ndef k8sQualifiedNameMaxLength : Nat := 0\ndef k8sDns1123SubdomainMaxLength : Nat := 0\ndef totalAnnotationSizeLimit : Nat := 0\n")
	group(&w, "F6 extensions", factsExts, "def extTests : List (String × List String) := []\ndef defaultSpecExt : String := \"\"\ndef tmpPattern : String := \"\"\ndef writeCalls : List String := []\n")
	group(&w, "F12 schema glue", factsSchemaGlue, "def schemaContentCheckers : List String := [\"factgen-failed\"]\ndef schemaEngineCallers : List String := []\n")
	group(&w, "F7 watch", factsWatch, "def eventMask : List String := []\ndef overflowRescans : Bool := false\n")
	inGroup = false
	fmt.Fprintf(&w, "\n/-- extractors that failed on this tree (their facts above are empty fallbacks) -/\ndef factgenErrors : List String := %s\n", leanStrList(factErrors))
	w.WriteString("\nend Cdi.Generated\n")
	if err := os.WriteFile(filepath.Join(*outDir, "Facts.lean"), []byte(w.String()), 0o644); err != nil {
		die("%v", err)
	}
	for _, g := range extraGenerators {
		g(*outDir)
	}
	fmt.Println("factgen: ok")
}

var extraGenerators []func(outDir string)

var inGroup bool

func writeOut(path, content string) {
	if err := os.WriteFile(path, []byte(content), 0o644); err != nil {
		die("%v", err)
	}
}
