package main

import (
	"fmt"
	"go/ast"
	"path/filepath"
	"sort"
	"strings"
)

// F9: the sequence of mutex operations and shared-field accesses of every exported
// method of Cache and of the watcher goroutine (pkg/cdi/cache.go), internal methods
// inlined at their call sites, control flow flattened in source order.
//
// Tokens: "L" lock, "U" unlock, "R:<field>" read, "W:<field>" write.
func init() { extraGenerators = append(extraGenerators, genAccess) }

type accessGen struct {
	scanners map[string]bool
	funcs  map[string]*ast.FuncDecl // "Cache.Refresh", "watch.update"
	opts   []*ast.FuncLit           // option closures: func(c *Cache) { ... }
	fields map[string]map[string]bool
}

func recvOf(fd *ast.FuncDecl) (name, typ string) {
	if fd.Recv == nil || len(fd.Recv.List) == 0 {
		return "", ""
	}
	r := fd.Recv.List[0]
	if len(r.Names) > 0 {
		name = r.Names[0].Name
	}
	t := r.Type
	if s, ok := t.(*ast.StarExpr); ok {
		t = s.X
	}
	if id, ok := t.(*ast.Ident); ok {
		typ = id.Name
	}
	return
}

func structFields(f *ast.File, name string) map[string]bool {
	out := map[string]bool{}
	ast.Inspect(f, func(n ast.Node) bool {
		ts, ok := n.(*ast.TypeSpec)
		if !ok || ts.Name.Name != name {
			return true
		}
		if st, ok := ts.Type.(*ast.StructType); ok {
			for _, fl := range st.Fields.List {
				for _, n := range fl.Names {
					out[n.Name] = true
				}
			}
		}
		return false
	})
	return out
}

// walker of one function body
type accWalker struct {
	g        *accessGen
	recv     string // receiver identifier
	typ      string // Cache | watch
	out      *[]string
	deferred []string
	stack    map[string]bool
	top      bool // the entry point itself (not an inlined callee): a return ends the thread's program
}

func (w *accWalker) emit(t string) { *w.out = append(*w.out, t) }

func (w *accWalker) fieldName(typ, f string) string {
	if typ == "watch" {
		return "watch." + f
	}
	return f
}

// sharedRef classifies an expression as a reference to shared state: c.f, w.f, c.watch.f, or
// the dirErrors parameter of the watch methods (an alias of c.dirErrors).
func (w *accWalker) sharedRef(e ast.Expr) (field string, pre []string, ok bool) {
	switch x := e.(type) {
	case *ast.Ident:
		if w.typ == "watch" && x.Name == "dirErrors" {
			return "dirErrors", nil, true
		}
	case *ast.SelectorExpr:
		if id, isId := x.X.(*ast.Ident); isId && id.Name == w.recv && w.g.fields[w.typ][x.Sel.Name] {
			return w.fieldName(w.typ, x.Sel.Name), nil, true
		}
		if inner, isSel := x.X.(*ast.SelectorExpr); isSel {
			if id, isId := inner.X.(*ast.Ident); isId && id.Name == w.recv && w.typ == "Cache" && inner.Sel.Name == "watch" && w.g.fields["watch"][x.Sel.Name] {
				return "watch." + x.Sel.Name, []string{"R:watch"}, true
			}
		}
	}
	return "", nil, false
}

func (w *accWalker) writeTarget(e ast.Expr) bool {
	if f, pre, ok := w.sharedRef(e); ok {
		for _, p := range pre {
			w.emit(p)
		}
		w.emit("W:" + f)
		return true
	}
	if ix, ok := e.(*ast.IndexExpr); ok {
		if f, pre, ok := w.sharedRef(ix.X); ok {
			w.walk(ix.Index)
			for _, p := range pre {
				w.emit(p)
			}
			w.emit("W:" + f)
			return true
		}
	}
	return false
}

func (w *accWalker) inline(key string, args []ast.Expr) bool {
	fd := w.g.funcs[key]
	if fd == nil || fd.Body == nil {
		return false
	}
	for _, a := range args {
		if id, ok := a.(*ast.Ident); ok && w.typ == "watch" && id.Name == "dirErrors" {
			continue // the map reference handed on to a helper: not an access of the map
		}
		w.walk(a)
	}
	if w.stack[key] {
		return true
	}
	w.stack[key] = true
	name, typ := recvOf(fd)
	sub := &accWalker{g: w.g, recv: name, typ: typ, out: w.out, stack: w.stack}
	sub.walk(fd.Body)
	for _, d := range sub.deferred {
		w.emit(d)
	}
	delete(w.stack, key)
	return true
}

func isMutexCall(ce *ast.CallExpr) string {
	se, ok := ce.Fun.(*ast.SelectorExpr)
	if !ok || len(ce.Args) != 0 {
		return ""
	}
	switch se.Sel.Name {
	case "Lock":
		return "L"
	case "Unlock":
		return "U"
	}
	return ""
}

func (w *accWalker) walk(n ast.Node) {
	if n == nil {
		return
	}
	ast.Inspect(n, func(n ast.Node) bool {
		switch x := n.(type) {
		case *ast.AssignStmt:
			for _, r := range x.Rhs {
				w.walk(r)
			}
			for _, l := range x.Lhs {
				if !w.writeTarget(l) {
					w.walk(l)
				}
			}
			return false
		case *ast.IncDecStmt:
			if !w.writeTarget(x.X) {
				w.walk(x.X)
			}
			return false
		case *ast.FuncLit:
			// a closure runs on behalf of its caller; its returns are not returns of the entry point
			sub := &accWalker{g: w.g, recv: w.recv, typ: w.typ, out: w.out, stack: w.stack}
			sub.walk(x.Body)
			for _, d := range sub.deferred {
				w.emit(d)
			}
			return false
		case *ast.ReturnStmt:
			for _, r := range x.Results {
				w.walk(r)
			}
			if w.top && len(w.deferred) == 0 {
				// an explicit return of the entry point with no deferred Unlock pending: the mutex must
				// not be held here (control flow is flattened, so this is recorded as a checkpoint)
				w.emit("RET")
			}
			return false
		case *ast.DeferStmt:
			if t := isMutexCall(x.Call); t != "" {
				w.deferred = append([]string{t}, w.deferred...)
				return false
			}
			return true
		case *ast.GoStmt:
			// a new goroutine: its body is a thread of its own; only the arguments are evaluated here
			for _, a := range x.Call.Args {
				w.walk(a)
			}
			return false
		case *ast.CallExpr:
			if t := isMutexCall(x); t != "" {
				w.emit(t)
				return false
			}
			if id, ok := x.Fun.(*ast.Ident); ok && w.g.scanners[id.Name] {
				// a scan of the Spec directories: recorded as a read of the pseudo-field "fs:scan" (the directory
				// contents as seen by this scan), so that where the scan happens relative to Lock/Unlock and to the
				// publication of its result is part of the extracted program
				w.emit("R:fs:scan")
			}
			if id, ok := x.Fun.(*ast.Ident); ok && w.typ == "watch" && id.Name == "refresh" && len(x.Args) == 0 {
				// the refresh callback handed to watch.start is c.refresh
				if w.inline("Cache.refresh", nil) {
					return false
				}
			}
			if id, ok := x.Fun.(*ast.Ident); ok && len(x.Args) == 1 && w.typ == "Cache" {
				// o(c): an Option applied to the cache — any of the option closures of the file
				if a, ok := x.Args[0].(*ast.Ident); ok && a.Name == w.recv && id.Obj != nil && id.Obj.Kind == ast.Var {
					for _, fl := range w.g.opts {
						sub := &accWalker{g: w.g, recv: fl.Type.Params.List[0].Names[0].Name, typ: "Cache", out: w.out, stack: w.stack}
						sub.walk(fl.Body)
					}
					return false
				}
			}
			if id, ok := x.Fun.(*ast.Ident); ok && id.Name == "delete" && len(x.Args) == 2 {
				w.walk(x.Args[1])
				if !w.writeTarget(x.Args[0]) {
					w.walk(x.Args[0])
				}
				return false
			}
			if se, ok := x.Fun.(*ast.SelectorExpr); ok {
				if id, ok := se.X.(*ast.Ident); ok && id.Name == w.recv {
					if w.inline(w.typ+"."+se.Sel.Name, x.Args) {
						return false
					}
				}
				if inner, ok := se.X.(*ast.SelectorExpr); ok {
					if id, ok := inner.X.(*ast.Ident); ok && id.Name == w.recv && w.typ == "Cache" && inner.Sel.Name == "watch" {
						w.emit("R:watch")
						if w.inline("watch."+se.Sel.Name, x.Args) {
							return false
						}
					}
				}
			}
			return true
		case *ast.SelectorExpr, *ast.Ident:
			if f, pre, ok := w.sharedRef(x.(ast.Expr)); ok {
				for _, p := range pre {
					w.emit(p)
				}
				w.emit("R:" + f)
				return false
			}
			return true
		}
		return true
	})
}

func genAccess(outDir string) {
	g := &accessGen{funcs: map[string]*ast.FuncDecl{}, fields: map[string]map[string]bool{}}
	f := parseFile("pkg/cdi/cache.go")
	g.fields["Cache"] = structFields(f, "Cache")
	g.fields["watch"] = structFields(f, "watch")
	if len(g.fields["Cache"]) == 0 || len(g.fields["watch"]) == 0 {
		die("pkg/cdi/cache.go: Cache/watch struct not found")
	}
	for _, of := range []*ast.File{f, parseFile("pkg/cdi/spec-dirs.go")} {
		ast.Inspect(of, func(n ast.Node) bool {
			fl, ok := n.(*ast.FuncLit)
			if !ok || len(fl.Type.Params.List) != 1 || len(fl.Type.Params.List[0].Names) != 1 {
				return true
			}
			if st, ok := fl.Type.Params.List[0].Type.(*ast.StarExpr); ok {
				if id, ok := st.X.(*ast.Ident); ok && id.Name == "Cache" {
					g.opts = append(g.opts, fl)
				}
			}
			return true
		})
	}
	// scanner functions: package-level functions of cache.go / spec-dirs.go that walk a directory
	g.scanners = map[string]bool{}
	for _, of := range []*ast.File{f, parseFile("pkg/cdi/spec-dirs.go")} {
		for _, d := range of.Decls {
			fd, ok := d.(*ast.FuncDecl)
			if !ok || fd.Body == nil || fd.Recv != nil {
				continue
			}
			ast.Inspect(fd.Body, func(n ast.Node) bool {
				if ce, ok := n.(*ast.CallExpr); ok {
					if se, ok := ce.Fun.(*ast.SelectorExpr); ok {
						if pk, ok := se.X.(*ast.Ident); ok && (pk.Name == "filepath" || pk.Name == "os" || pk.Name == "fs") {
							switch se.Sel.Name {
							case "Walk", "WalkDir", "ReadDir", "Readdir", "Readdirnames":
								g.scanners[fd.Name.Name] = true
							}
						}
					}
				}
				return true
			})
		}
	}
	if len(g.scanners) == 0 {
		die("pkg/cdi: no function that walks a directory found (scanSpecDirs?)")
	}
	// ... and, transitively, the package-level functions that call one of those
	for changed := true; changed; {
		changed = false
		for _, of := range []*ast.File{f, parseFile("pkg/cdi/spec-dirs.go")} {
			for _, d := range of.Decls {
				fd, ok := d.(*ast.FuncDecl)
				if !ok || fd.Body == nil || fd.Recv != nil || g.scanners[fd.Name.Name] {
					continue
				}
				ast.Inspect(fd.Body, func(n ast.Node) bool {
					if ce, ok := n.(*ast.CallExpr); ok {
						if id, ok := ce.Fun.(*ast.Ident); ok && g.scanners[id.Name] && !g.scanners[fd.Name.Name] {
							g.scanners[fd.Name.Name] = true
							changed = true
						}
					}
					return true
				})
			}
		}
	}
	var entries []string
	for _, d := range f.Decls {
		fd, ok := d.(*ast.FuncDecl)
		if !ok || fd.Body == nil {
			continue
		}
		_, typ := recvOf(fd)
		if typ != "Cache" && typ != "watch" {
			continue
		}
		key := typ + "." + fd.Name.Name
		g.funcs[key] = fd
		if (typ == "Cache" && ast.IsExported(fd.Name.Name)) || key == "watch.watch" {
			entries = append(entries, key)
		}
	}
	sort.Strings(entries)
	var w strings.Builder
	w.WriteString("/- GENERATED by /verif/factgen from pkg/cdi/cache.go. Do not edit. -/\nimport CdiModel.Locks\nnamespace Cdi.Generated\nopen Cdi.Locks\n\n")
	w.WriteString("/-- F9: per entry point (exported Cache methods, the watcher goroutine) the mutex operations and shared-field accesses in source order, internal methods inlined -/\ndef accessTable : List (String × Prog) := [\n")
	for i, key := range entries {
		fd := g.funcs[key]
		var out []string
		name, typ := recvOf(fd)
		wk := &accWalker{g: g, recv: name, typ: typ, out: &out, stack: map[string]bool{key: true}, top: true}
		wk.walk(fd.Body)
		out = append(out, wk.deferred...)
		sep := ","
		if i == len(entries)-1 {
			sep = ""
		}
		var acts []string
		for _, t := range out {
			switch {
			case t == "L":
				acts = append(acts, ".lock")
			case t == "U":
				acts = append(acts, ".unlock")
			case t == "RET":
				acts = append(acts, ".ret")
			case strings.HasPrefix(t, "R:"):
				acts = append(acts, ".read "+leanStr(t[2:]))
			default:
				acts = append(acts, ".write "+leanStr(t[2:]))
			}
		}
		fmt.Fprintf(&w, "  (%s, [%s])%s\n", leanStr(key), strings.Join(acts, ", "), sep)
	}
	w.WriteString("]\n")
	var shared []string
	for k := range g.fields["Cache"] {
		shared = append(shared, k)
	}
	for k := range g.fields["watch"] {
		shared = append(shared, "watch."+k)
	}
	sort.Strings(shared)
	fmt.Fprintf(&w, "\n/-- F9: the fields of Cache and watch -/\ndef sharedFields : List String := %s\n", leanStrList(shared))
	w.WriteString("\nend Cdi.Generated\n")
	writeOut(filepath.Join(outDir, "Access.lean"), w.String())
}
