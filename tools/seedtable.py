#!/usr/bin/env python3
"""Prints the DESIGN.md table of seeded changes from seeded/*/*/{meta,confirm,result}.json."""
import json, glob, os
FIRST = {  # outcome of the first run, before any strengthening, and what was strengthened
 "C01/m1": ("missed by quick, caught by thorough", "cache stream: fixed layouts with 2-5 files of one directory defining the same device, alone / above / below a single definition"),
 "C02/m1": ("missed by quick, caught by thorough", "cache stream: the refresh case spawns injections of every listed device (listing order, reversed with a repetition, a selection), so injections resolve and span several files of one kind"),
 "C02/m2": ("missed by quick and thorough", "cache stream: generated Specs now carry intelRdt (Spec level / first device), device nodes and several hook kinds, varying per file"),
 "C03/m2": ("missed by quick and thorough", "apply stream: every tenth case has 8-24 existing mounts of mixed depth with ties, 2-10 mounts, long env and hook lists in the edits"),
 "C05/m1": ("missed by quick and thorough (C05 and C06)", "version stream: every first byte of a device name at every device position; validate stream: digit-boundary names declared as 0.3.0/0.4.0/0.5.0"),
 "C09/m2": ("missed by quick", "codec stream: strings ending in one or more line breaks; every sensitive string as the last leaf and the first leaf of the document; round trips judged against the two codec classes over all strings of the Spec"),
 "C11/m1": ("missed by quick", "watch stream: fixed histories repeating the same kind of event (rewrite x3, write-via-temp x3, move-in x3, write/unlink alternation); random histories repeat the previous operation with probability 1/4"),
 "C12/m1": ("reported, but every case waited for its 120 s deadline (run aborted by hand)", "race stream: 30 s watchdog / 45 s deadline, remaining cases skipped after two hangs: reported in 74 s"),
 "C18/m1": ("missed by C18 (C17 reported it: F8_ignored_keywords)", "C18 proof module now carries the F8 obligation 'every schema keyword is modelled'; well-formed generator draws free-form strings (permissions of length 0-12 over r/w/m, paths, options, arguments, ...)"),
 "C19/m2": ("missed by quick", "cli stream: the validate tool is run with one to three documents (valid and invalid in any order) and on standard input; model: exit status and output lines over the list of documents"),
 "C20/m1": ("missed by quick", "reconf stream: fixed histories closing the watcher and setting it up again during a shortage for a directory that does not exist; after every history a configured but missing directory is created with a Spec and must be picked up"),
 "C12/m3": ("missed by quick", "F9 extraction records early returns of the entry point as checkpoints (`retOK`: the mutex is not held there); race stream: caches without any Spec directory"),
 "C13/m3": ("missed by quick", "cache stream: every fifth layout also through an auto-refresh cache (explicit Refresh() on an up-to-date cache)"),
 "C14/m3": ("missed by quick", "purity stream: whole-Spec image cases (edits of every kind at Spec and device level, several injections into OCI specs of different users; cache image unchanged, every injection equals a fresh cache's)"),
 "C14/m4": ("missed by quick", "same whole-Spec image cases (non-zero process users, nodes without uid/gid)"),
 "C19/m3": ("missed by quick", "cli stream: two thirds of the layouts are error-free (the tool stops at the first cache error), overlapping glob patterns that actually match ('*' does not cross '/'), device-level hooks"),
 "C20/m3": ("missed by quick", "reconf stream: file-system changes as history steps (new Spec file, removed Spec file), Configure with the options the cache already has"),
 "C05/m4": ("missed by quick", "validate stream: annotation maps over the size limit in total with every entry within it; exactly at and one byte over the limit"),
 "C08/m4": ("missed by quick", "crash stream: annotation maps whose keys the schema's patternProperties do not cover ('', newline, blank) with values of every JSON type, both levels, both encodings"),
 "C09/m4": ("missed by quick", "codec stream: strings that look like references or templates ($HOME, ${X}, $1, $(..), backticks, %s, ~user, {{.X}})"),
 "C10/m4": ("reported without a failing input (F6 temporary-name fact broke; two concurrent writers of one name are outside the property's quantifier)", ""),
 "C11/m4": ("missed by quick", "watch stream: files with an old modification time moved or linked into the directory"),
 "C16/m4": ("missed by quick", "names stream: after write / remove / remove again, the same Spec is written again under the same name (no refresh in between)"),
 "C18/m4": ("missed by C18 (C05 reported it)", "C18's judge uses the library's observed acceptance (not the model's); typed Specs for every defect kind; mount defects combined with mount types"),
 "C02/m5": ("missed by C02 (the package-level functions were only exercised under C20)", "stream `defaultapi` (cdi.Configure/Refresh/GetErrors/InjectDevices in a child process against the methods of an explicit cache) shared by C02, C04 and C20"),
 "C04/m5": ("missed by C04 (same)", "same `defaultapi` stream, with nil OCI specs and empty requests"),
 "C06/m5": ("missed: the protocol did not carry an empty, non-nil map to the library", "version stream: `emptyann` flag re-creates the empty map on the library side"),
 "C09/m5": ("missed: the protocol did not carry empty, non-nil lists", "codec stream: `emptylists` flag; the driver expects `unwritable` for Specs the model rejects"),
 "C10/m5": ("missed", "fswrite stream: the target is a bind mount of a file on a 16 KiB tmpfs, in a private mount namespace (`unshare -m`)"),
 "C10/m6": ("missed (C12's race build reports the data race)", "fswrite stream: a second writer of another name runs a complete write at each named point of the first (pinned through the `verif` hook)"),
 "C11/m5": ("missed", "watch stream: a Spec file is moved into a directory of 1200 Specs at 20/50/80 % of the measured scan time of the cache being created"),
 "C11/m6": ("missed", "cache stream `permrestore`: watched directories lose read permission, a refresh is triggered through another directory, permission returns (unprivileged child); run under C11 and C13"),
 "C13/m5": ("missed by C13 (C04 reported it)", "C13 also judges injections; the refresh case spawns a late-directories injection of every listed device"),
 "C13/m6": ("missed by C13 (C11 reported it)", "watch stream also under C13, with files in error repaired by rename / unlink / rewrite"),
 "C14/m6": ("missed", "purity stream: a second Spec file with Spec-level edits; the same request repeated 24 times on one cache"),
 "C17/m5": ("missed by C17 (C19 reported it)", "the validate-tool cases of the cli stream also run under C17"),
 "C19/m6": ("missed", "cli stream: fixed layouts with two files of one directory in conflict"),
 # round 4 (m7, m8)
 "C01/m7": ("missed", "cache stream: the cache first has the same directories in another order (or one twice), then is given the list (`predirs`)"),
 "C01/m8": ("missed", "cache stream: histories on one cache - an earlier population is scanned first, then files are rewritten in place with the same size and modification time, repaired, broken, added, removed (`prelayout`)"),
 "C02/m7": ("missed", "cache stream: every listed device injected through an auto-refresh cache created while no descriptor was free (no watcher: every query rescans)"),
 "C03/m7": ("missed", "apply stream: the host nodes behind the fixed host paths change from case to case"),
 "C04/m7": ("missed", "cache stream: requests of 9-14 names most of which do not resolve"),
 "C04/m8": ("missed", "cache stream: every injection repeated on the same cache - the same request twice, after a request that fails half-way, the same failing request twice"),
 "C06/m7": ("missed", "version stream: every feature with unusual values of the same feature (zero group ids, an all-default intelRdt block, odd mount types and host paths)"),
 "C06/m8": ("missed (a schedule, outside the property's quantifier)", "version stream: the same Specs blown up to 20000 devices and evaluated by 32 goroutines"),
 "C09/m7": ("missed", "codec stream: twelve goroutines write their own Specs under their own names through one cache, each reading its file back after every write"),
 "C09/m8": ("missed", "codec stream: each kind of edit alone at Spec level and at device level"),
 "C10/m8": ("reported without a failing input (F6 writeCalls fact; the trigger needs a stale temporary file, a disk filling part-way and reclaimed space)", ""),
 "C11/m7": ("missed", "watch stream: a query falls into a slow scan of the watcher goroutine (`slowscan`); obligation F9_scan_and_publication_atomic"),
 "C11/m8": ("missed", "watch stream: operations tagged with a directory are executed on it (they had not been); a later directory goes away and comes back overriding a device that still resolves; observation through one InjectDevices call and nothing else"),
 "C12/m7": ("reported without a failing input (F9: RLock is not a guard)", "race stream: query-only sets on an auto-refresh cache with a directory that does not exist (the race detector now supplies the replay)"),
 "C12/m8": ("missed", "race stream: transient Specs written and removed while the directory is rescanned and listed, for six seconds (`Churn`, `RefreshList`)"),
 "C13/m7": ("missed", "the same `prelayout` histories (files behind symbolic links repaired in place)"),
 "C13/m8": ("missed", "cache stream: sockets and character devices under Spec names"),
 "C14/m7": ("missed", "purity stream: group ids with zeros; ApplyEdits of cached devices and Specs, twice, against a fresh cache"),
 "C14/m8": ("missed", "purity stream: a request that resolves its devices and then fails before every injection"),
 "C15/m8": ("reported (the prefix-boundary keys had been added after reading the report, before the first run)", ""),
 "C17/m7": ("missed", "schema stream: other spellings of the same JSON document (escaped solidus, \\u escapes incl. surrogate pairs, indentation)"),
 "C17/m8": ("missed", "schema stream: the first use of the builtin schema by 32 goroutines at once, in twelve fresh processes"),
 "C19/m7": ("missed", "cli stream: a Spec valid for the library and invalid for the schema, under the validator the tool installs (--schema builtin / none)"),
 "C19/m8": ("missed", "cli stream: documents beyond 1 MiB for the validate tool, as a file and on standard input"),
 "C20/m8": ("missed", "reconf stream: Configure while another goroutine is in the middle of the first use of the default cache (slow default directories)"),
 # round 5 (m9, m10)
 "C01/m9": ("missed", "watch stream: vendor and class listings are part of the compared image and are asked for once before anything changes"),
 "C03/m9": ("missed", "apply stream: a prelude on a scratch copy of the OCI spec (the same edit object applied there, then overwritten by foreign edits)"),
 "C04/m9": ("missed", "cache stream: all Spec files removed, refresh, the same request into the OCI spec that was injected into last"),
 "C04/m10": ("missed", "default-cache child: the nil-spec injection is the first thing the process does with the package"),
 # round 6 (m11, m12)
 "C01/m11": ("missed", "cache stream: an auto-refresh cache whose directories are removed altogether, which it notices, and come back with the same content (`rmdirs`)"),
 "C02/m11": ("missed", "cache stream, every injection: each listed device injected on its own in between and compared with a cache created just now, then the first request once more"),
 "C03/m12": ("missed", "apply stream: explicit uid/gid 0 (and 1, 2^32-1) on device nodes in containers of a non-zero user; file modes with special bits"),
 "C04/m12": ("missed", "cache stream: requests whose only miss is the empty or a blank name, first / last; odd one-byte names among random requests"),
 "C05/m12": ("missed", "validate stream: admission through a cache that loaded another document (well-formed / unparsable) from the same path before - replaced in place, same size, same modification time"),
 "C06/m12": ("missed", "version stream: the Spec parsed from its own JSON and YAML text requires the same version as the Spec itself"),
 "C08/m12": ("missed: the call never returns and the stream waited for its 50-minute limit", "harness: every case runs under a deadline on a copy; a call that does not return is the outcome `hang`, reported with the case"),
 "C09/m11": ("missed", "codec stream: the name has a past - a longer Spec was written under it before and the file has a second hard link; the link must keep the earlier content"),
 "C10/m12": ("missed", "fswrite stream: the previous file has a second hard link outside the directory"),
 "C11/m11": ("missed", "watch stream: Specs installed as symbolic links, links re-pointed by rename (fixed histories)"),
 "C11/m12": ("missed (written against the tree before fix 86b9bb3; rebased by hand)", "watch stream op `overflow`: the kernel's event queue overflows; afterwards the cache must go on following the directory"),
 "C12/m12": ("reported without a failing input (F9: RemoveSpec writes the index)", "names stream: a Spec that shadows a lower-priority definition is removed again - at every moment the device resolves to one of the two (C12 reads this clause)"),
 "C13/m12": ("missed", "cache stream: layouts scanned with the builtin schema installed as Spec validator, a file only the schema refuses scanned first"),
 "C14/m11": ("missed", "cache stream, every injection on a manually refreshed cache: a Spec file appears on disk, a failing request and a request for the new device follow - the listings must not move (C14 reads these clauses of the cache stream)"),
 "C14/m12": ("missed", "same: the caller re-uses one OCI spec object, reset to the same content"),
 "C15/m12": ("missed", "annot stream: requested names that contain the list separator (every piece qualified), padded names, empty and blank list elements at every position"),
 "C16/m11": ("reported without a failing input (F6 writeCalls fact)", "names stream: bystander files in the very directory written to - the same stem with the other Spec extension, writer leftovers, backups, hidden files: now with a failing input"),
 "C16/m12": ("missed", "same bystander files (`spec.*.tmp`)"),
 "C18/m12": ("missed (a schedule)", "schema stream: eight goroutines validate in-memory Specs of different sizes at the same time"),
 "C19/m11": ("missed", "cli stream: OCI specs with members the tool's runtime-spec version does not know, a vendor extension, a repeated member"),
 "C20/m11": ("missed (written against the tree before fix 86b9bb3; rebased by hand)", "reconf stream: history steps that make the watcher's event queue overflow, before reconfigurations"),
 "C20/m12": ("missed", "reconf stream: after every history a Spec file of a final directory is rewritten in place"),
 # round 7 (m13, m14; ten properties)
 "C03/m14": ("missed", "apply stream: the same hook twice in one edit list, hooks the OCI spec already holds"),
 "C06/m14": ("missed", "version stream: null entries before and between the real ones, in devices and at Spec level"),
 "C09/m14": ("missed", "codec stream: names whose extension is a case variant of a Spec extension must be loaded by the cache of the directory"),
 "C14/m13": ("missed", "cache stream injections: requests for conventional names no Spec defines (`=all`, `=*`, `=0`, `=none`) are misses and leave the listings alone"),
 "C14/m14": ("missed", "purity stream: container paths that are legal but not in clean form (trailing slash, `//`, `/./`, `/../`)"),
 "C16/m13": ("missed", "names stream: the name to be written exists as a symbolic or hard link to a file kept elsewhere - that file must stay as it is"),
 "C17/m13": ("missed", "schema stream: members the schema does not mention holding numbers beyond float64 (401-digit integers)"),
 "C17/m14": ("missed", "schema stream: documents beyond 1 MiB (valid, and with a defect) through every entry point"),
 "C18/m13": ("missed", "schema stream: the library's own JSON/YAML text of typed Specs with DEL, C1 controls and U+FFFE through the byte entry point"),
 "C18/m14": ("reported without a failing input (factgen F8: a regex pattern the schema model does not have)", "schema stream: annotation keys in every spelling the library takes; check: clauses that compare two observations of the real code stay failing inputs when a fact extractor fails"),
 "C19/m13": ("missed", "cli stream: strings that look like printf verbs in the OCI spec"),
 "C19/m14": ("missed", "cli stream: documents given to the validate tool through symbolic links"),
}
rows = []
for d in sorted(glob.glob("/verif/seeded/C*/m*")):
    s = d.split("/")[-2] + "/" + d.split("/")[-1]
    meta = json.load(open(d + "/meta.json"))
    conf = json.load(open(d + "/confirm.json")) if os.path.exists(d + "/confirm.json") else {}
    res = json.load(open(d + "/result.json")) if os.path.exists(d + "/result.json") else {}
    q = res.get("quick", {}).get(s.split("/")[0], {})
    now = "reported (quick, %ss)" % q.get("wall_s") if q.get("exit") == 1 else ("NOT reported" if q else "not run")
    first, what = FIRST.get(s, ("reported by quick", ""))
    summ = meta.get("summary", "").replace("\n", " ").replace("|", "/")
    if len(summ) > 210: summ = summ[:207] + "..."
    ok = conf.get("suite") == "ok" and conf.get("demo_with_patch") == "VIOLATED" and conf.get("demo_without_patch") == "HOLDS"
    rows.append("| %s | %s | %s | %s | %s |" % (s, summ, "yes" if ok else "NO", first + ("; strengthened: " + what if what else ""), now))
print("| Seed | Change (compiles, unedited suite passes) | Confirmed | First run | Now |")
print("|------|------------------------------------------|-----------|-----------|-----|")
print("\n".join(rows))
