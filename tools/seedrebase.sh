#!/bin/bash
# re-creates seeded/<id>/<m>/patch.diff against /repo's current HEAD, in the scratch worktree (3-way apply); keeps the original as patch.orig.diff
id=$1; m=$2; wt=/tmp/seed-wt/$id; sd=/verif/seeded/$id/$m
head=$(git -C /repo rev-parse HEAD)
cd $wt && git checkout -q -- . && git checkout -q --detach $head || exit 2
if git apply --check $sd/patch.diff 2>/dev/null; then echo "$id/$m applies as is"; exit 0; fi
git apply --3way $sd/patch.diff >/dev/null 2>&1
if git diff --name-only --diff-filter=U | grep -q .; then echo "$id/$m CONFLICT"; git checkout -q -f $head; git reset -q --hard; exit 1; fi
cp $sd/patch.diff $sd/patch.orig.diff
git diff HEAD > $sd/patch.diff
git reset -q --hard; echo "$id/$m rebased"
