#!/bin/bash
# confirm a seeded change in its scratch worktree: applies, builds, runs the unedited suite, runs the demo with and without the patch
# usage: tools/seedconfirm.sh C01 m1
export GOFLAGS=-mod=mod GOPROXY=off GOSUMDB=off GOTOOLCHAIN=local
id=$1; m=$2; wt=/tmp/seed-wt/$id; sd=/verif/seeded/$id/$m
cd $wt || exit 2
git checkout -q -- . ; 
git apply $sd/patch.diff || { echo "{\"applies\": false}" > $sd/confirm.json; exit 1; }
build=ok; tests=ok
for mod in . cmd/cdi cmd/validate schema specs-go; do (cd $mod && go build ./... >/dev/null 2>&1) || build=fail; done
for mod in . cmd/cdi cmd/validate schema specs-go; do (cd $mod && go test -vet=off -count=1 ./... >/tmp/seedconfirm-$id-$m.log 2>&1) || tests=fail; done
mkdir -p SEED/$m && cp -r $sd/demo SEED/$m/ 2>/dev/null
with=$(bash SEED/$m/demo/run.sh 2>&1 | grep -o "VIOLATED\|HOLDS" | tail -1)
git checkout -q -- .
without=$(bash SEED/$m/demo/run.sh 2>&1 | grep -o "VIOLATED\|HOLDS" | tail -1)
git checkout -q -- . ; git clean -fdq -e SEED
echo "{\"applies\": true, \"build\": \"$build\", \"suite\": \"$tests\", \"demo_with_patch\": \"$with\", \"demo_without_patch\": \"$without\"}" > $sd/confirm.json
cat $sd/confirm.json; rm -f /tmp/seedconfirm-$id-$m.log
