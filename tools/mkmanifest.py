#!/usr/bin/env python3
"""Regenerates MANIFEST.json from checklib/props.py (checks + not_applicable)."""
import json, os, sys
ROOT = os.path.dirname(os.path.dirname(os.path.abspath(__file__)))
sys.path.insert(0, ROOT)
from checklib.props import PROPS, NOT_APPLICABLE  # noqa
m = json.load(open(os.path.join(ROOT, "MANIFEST.json")))
ids = [json.loads(l)["id"] for l in open(os.path.join(ROOT, "properties.jsonl"))]
checks = []
for pid in ids:
    if pid not in PROPS:
        continue
    c = PROPS[pid]
    checks.append({
        "property_id": pid,
        "quick_cmd": "./check %s --tier quick" % pid,
        "thorough_cmd": "./check %s --tier thorough" % pid,
        "evidence_file": "evidence/%s.json" % pid,
        "replay_cmd_template": "./check %s --replay {path}" % pid,
        "engine": "lean-model",
        "level_claimed": {"category": c["level"], "text": c["level_text"], "design_ref": c.get("design_ref", "DESIGN.md §5 " + pid)},
        "level_note": c["level_note"],
        "technique": c["technique"],
    })
m["checks"] = checks
m["not_applicable"] = [{"property_id": p, "reason": NOT_APPLICABLE.get(p, "check not built yet; planned in DESIGN.md §5")} for p in ids if p not in PROPS]
for e in m["engines"]:
    e["serves_properties"] = [c["property_id"] for c in checks]
json.dump(m, open(os.path.join(ROOT, "MANIFEST.json"), "w"), indent=1)
print("checks:", [c["property_id"] for c in checks])
