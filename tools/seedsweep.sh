#!/bin/bash
# runs every seeded change against its property's quick check (sequentially; uses /repo's working tree)
cd /verif
for d in seeded/C*/m*; do
  s=${d#seeded/}
  tools/seedrebase.sh ${s%/*} ${s#*/} >/dev/null 2>&1
  tools/seedrun.py $s 2>&1 | tail -1 | cut -c1-160
done
