#!/bin/bash
# runs seeded changes against their property's quick check, sequentially.
#   tools/seedsweep.sh                 every seeded/C*/m*
#   tools/seedsweep.sh 'm[78]'         only those (shell pattern on the change name)
#   tools/seedsweep.sh 'm[78]' 'C1[2-9] C20'   ... of these properties (shell patterns)
# Uses /repo's working tree (patch applied, check run, patch undone), or the tree named by VERIF_REPO
# (e.g. a scratch copy, so that a sweep can run next to other work); results go to seeded/<id>/<m>/result.json.
cd "$(dirname "$0")/.."
pat=${1:-m*}
props=${2:-C*}
[ -n "$VERIF_REPO" ] && ./setup.sh >/dev/null 2>&1
for pp in $props; do
for d in seeded/$pp/$pat; do
  [ -f $d/patch.diff ] || continue
  s=${d#seeded/}
  [ -z "$VERIF_REPO" ] && tools/seedrebase.sh ${s%/*} ${s#*/} >/dev/null 2>&1
  echo "$s: $(tools/seedrun.py $s 2>&1 | tail -1 | cut -c1-200)"
done
done
