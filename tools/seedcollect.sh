#!/bin/bash
# collects the changes a sub-agent left in its scratch worktree (/tmp/seed-wt/<id>/SEED/<m>) into seeded/<id>/<m>
# and confirms each there (tools/seedconfirm.sh).   usage: tools/seedcollect.sh C01 m11 m12
cd "$(dirname "$0")/.."
id=$1; shift
for m in "$@"; do
  src=/tmp/seed-wt/$id/SEED/$m
  [ -f $src/patch.diff ] || { echo "$id/$m: no patch"; continue; }
  mkdir -p seeded/$id/$m
  cp -r $src/patch.diff $src/meta.json $src/demo seeded/$id/$m/ 2>/dev/null
  echo "$id/$m: $(tools/seedconfirm.sh $id $m 2>&1 | tail -1)"
done
