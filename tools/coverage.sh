#!/bin/bash
# Statement coverage of the repository's packages by the correspondence streams: which code of /repo the
# harness never reaches (a change there cannot be noticed by any stream). Not part of any check; a tool for
# finding generator gaps.   usage: tools/coverage.sh [tier]      (writes build/coverage.txt)
export GOFLAGS=-mod=mod GOPROXY=off GOSUMDB=off GOTOOLCHAIN=local
cd "$(dirname "$0")/.."
tier=${1:-quick}
cov=$(mktemp -d /tmp/cdi-verif-cov.XXXXXX); chmod 777 $cov
(cd harness && go build -tags verif -cover -coverpkg=./...,tags.cncf.io/container-device-interface/... -o ../build/corr-cover ./cmd/corr) || exit 2
for st in parser annot names path version validate cache defaultapi apply purity schema cli fswrite codec crash reconf watch; do
  (cd harness && GOCOVERDIR=$cov ../build/corr-cover -stream $st -tier $tier -seed 1 -driver ../lean/.lake/build/bin/cdidriver -out /dev/null -maxfail 5 >/dev/null 2>&1)
done
(cd harness && go tool covdata textfmt -i=$cov -o ../build/coverage.txt)
(cd harness && go tool cover -func=../build/coverage.txt) | grep -v 'verif/harness' | awk '$NF != "100.0%"' | grep -v "internal/validation/k8s/validation.go.*\(IsValidLabelValue\|IsDNS1123Label\|IsDNS1035Label\|IsWildcardDNS1123Subdomain\|InclusiveRangeError\)"
rm -rf $cov build/corr-cover
