#!/bin/sh
# Runs every registered check's quick (or $1) tier and prints one line per property.
cd "$(dirname "$0")/.."
tier=${1:-quick}
for p in $(python3 -c "import json; print(' '.join(c['property_id'] for c in json.load(open('MANIFEST.json'))['checks']))"); do
  out=$(./check $p --tier $tier 2>/dev/null | grep -E "^(OK|VIOLATION|KNOWN)" | cut -c1-160 | tr '\n' '|')
  echo "$p: $out"
done
