import json,os,glob,re,sys
R=sys.argv[1]; A=sys.argv[2]; B=sys.argv[3]
props={}
for l in open('/verif/properties.jsonl'):
    p=json.loads(l); props[p['id']]=p
for pid,p in props.items():
    prev=[]
    ms=glob.glob('/verif/seeded/%s/m*/meta.json'%pid)
    ms.sort(key=lambda s:int(re.search(r'/m(\d+)/',s).group(1)))
    for m in ms:
        try:
            s=json.load(open(m)).get('summary','')
            prev.append('- '+s[:260])
        except Exception as e: pass
    txt=f"""# Task: write two realistic property-breaking changes for a Go repository

You work ONLY inside the git worktree `{R}/{pid}` (a checkout of the Go repository
cncf-tags/container-device-interface: reference library + CLI for the Container Device Interface).
Do not read or write anything under /verif or /repo. Do not commit. The sandbox has no network; before any
go command run: `export GOFLAGS=-mod=mod GOPROXY=off GOSUMDB=off GOTOOLCHAIN=local`.
The repository has several Go modules: `.`, `cmd/cdi`, `cmd/validate`, `schema`, `specs-go`.
The existing test suite is: for each of those module directories, `go test -vet=off -count=1 ./...`.

## The property (a semantic property users of the library rely on)

**{p['id']} — {p['title']}**

Statement: {p['statement']}

Holds for: {p['quantifier']['text']}

Why the existing tests cannot settle it: {p['why_tests_cant']}

## What to produce

TWO independent changes (call them `{A}` and `{B}`) to the repository's non-test source code (Go files, or the
schema JSON files), each of which:

1. still compiles in every module, and the existing test suite (unedited) still passes;
2. BREAKS the property above on the current code - i.e. with the change there is a concrete input / history /
   schedule / configuration on which the statement is false, and without the change the statement is true there;
3. looks like something a maintainer could plausibly write (an optimisation, refactoring, clean-up, "hardening",
   a feature, caching, a helper reuse), not sabotage;
4. needs **something specific to manifest** - a particular interleaving, a crash or fault at a particular point,
   a multi-step sequence of operations, carried state from an earlier call, an unusual-but-legal input, a boundary
   size, or two cooperating code sites that each look fine alone. NOT something ordinary use would expose at once.
5. The two changes must differ from each other in location and mechanism, and must differ from these changes that
   were already written for this property in earlier rounds (different code site, different mechanism, different trigger):

{chr(10).join(prev)}

Ideas for where to look this time: less-travelled exported API and option combinations; behaviour at the second/N-th
call; interactions between two features; error paths that leave state behind; boundary values of sizes, counts and
numeric ranges; platform/file-system peculiarities (symlinks, permissions, file modes, hard links, long names, odd but
legal file names); ordering assumptions (map iteration, sort stability, directory order); Unicode / byte-level
details; the command-line tools' flags and formats (where the property concerns them).

## Deliverables (per change, under `{R}/{pid}/SEED/{A}/` and `{R}/{pid}/SEED/{B}/`)

- `patch.diff` : output of `git diff` in the worktree containing ONLY that change (source files only; apply-able with
  `git apply` to a clean checkout). After saving it, restore the tree (`git checkout -- .`) before starting the next change.
- `demo/run.sh` + the files it needs: a demonstration run from the worktree root (`bash SEED/{A}/demo/run.sh`) that
  copies a Go test file (store it with the suffix `.go.txt` so it is not part of the tree) or small program into place,
  runs it, removes it again, prints the program's output and finally prints a last line that is exactly `VIOLATED` if
  the property is seen to be broken or `HOLDS` if not. It must print `VIOLATED` with the patch applied and `HOLDS` on the
  clean tree. It must be deterministic (retry loops/timeouts for anything timing dependent), finish within 2 minutes, and
  begin with `export GOFLAGS=-mod=mod GOPROXY=off GOSUMDB=off GOTOOLCHAIN=local`.
- `meta.json` : {{"property": "{pid}", "summary": "<one or two sentences: what now goes wrong, in user-visible terms>",
  "mechanism": "<what the diff does and where>", "trigger": "<exactly what is needed for it to manifest>",
  "why_tests_pass": "<why the existing suite does not notice>"}}

Before you finish, verify for each change yourself: patch applies to a clean tree; all modules build; the whole existing
suite passes with the patch; demo prints VIOLATED with the patch and HOLDS without. Leave the worktree clean
(`git checkout -- .`, no stray files outside `SEED/`). Your final message: two or three lines per change.
"""
    open(f'{R}/{pid}/SEED/TASK.md','w').write(txt)
