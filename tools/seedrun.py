#!/usr/bin/env python3
"""Runs checks against a seeded change: applies seeded/<id>/<m>/patch.diff to /repo's working
tree, runs ./check for the given properties (default: the seeded property), restores /repo.
Never commits anything in /repo.   usage: tools/seedrun.py C01/m1 [--tier quick] [--also C02,C13]"""
import json, os, subprocess, sys, time
VERIF = os.path.dirname(os.path.dirname(os.path.abspath(__file__)))
REPO = os.environ.get("VERIF_REPO", "/repo")   # a scratch worktree may stand in for /repo (./check honours VERIF_REPO too)
def sh(cmd, **kw): return subprocess.run(cmd, shell=True, capture_output=True, text=True, **kw)
def main():
    seed = sys.argv[1]; tier = "quick"; also = []
    a = sys.argv[2:]
    while a:
        if a[0] == "--tier": tier = a[1]; a = a[2:]
        elif a[0] == "--also": also = a[1].split(","); a = a[2:]
        else: a = a[1:]
    pid = seed.split("/")[0]
    patch = os.path.join(VERIF, "seeded", seed, "patch.diff")
    if sh("git -C %s status --porcelain --untracked-files=no" % REPO).stdout.strip():
        print("refusing: %s has local modifications" % REPO); return 2
    r = sh("git -C %s apply %s" % (REPO, patch))
    if r.returncode != 0:
        print("patch does not apply:", r.stderr[:500]); return 2
    results = {}
    try:
        for p in [pid] + also:
            t0 = time.time()
            r = sh("./check %s --tier %s" % (p, tier), cwd=VERIF)
            lines = [l for l in r.stdout.splitlines() if l.startswith(("VIOLATION", "OK", "KNOWN-FINDING"))]
            results[p] = {"exit": r.returncode, "lines": lines[:6], "wall_s": round(time.time() - t0, 1)}
            print(p, r.returncode, lines[:3])
    finally:
        # undo exactly the patch (it may have added files, which a checkout would leave behind)
        if sh("git -C %s apply -R %s" % (REPO, patch)).returncode != 0:
            sh("git -C %s checkout -- ." % REPO)
            for line in open(patch):
                if line.startswith("+++ b/"):
                    f = os.path.join(REPO, line[6:].strip())
                    if sh("git -C %s ls-files --error-unmatch %s" % (REPO, f)).returncode != 0 and os.path.exists(f):
                        os.remove(f)
    out = os.path.join(VERIF, "seeded", seed, "result.json")
    old = json.load(open(out)) if os.path.exists(out) else {}
    old.setdefault(tier, {}).update(results)
    json.dump(old, open(out, "w"), indent=1)
    return 0
if __name__ == "__main__":
    sys.exit(main())
