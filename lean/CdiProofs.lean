import CdiProofs.Props.C07
