import CdiProofs.Props.C07
import CdiProofs.Props.C15
import CdiProofs.Props.C16
import CdiProofs.Props.C06
import CdiProofs.Props.C05
