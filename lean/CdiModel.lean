import CdiModel.Basic
import CdiModel.Parser
import CdiModel.ParserSpec
import CdiModel.Generated.Facts
