import Driver.Common
open Lean Cdi
namespace Driver.Crash

/-- C08's theorems predict one thing for every input: no panic.  This handler is the judge of
the observations; there is no input-dependent model value to compare. -/
def handle : Handler := fun j => do
  let op ← (← j.getObjVal? "op").getStr?
  let obs ← getObj j "obs"
  let p ← getBool obs "panic"
  let hang ← getBool obs "hang"
  let died ← getBool obs "died"
  let where_ := match obs.getObjVal? "where" with | .ok (.str s) => s | _ => ""
  let base : Option String :=
    if p then some s!"panic-in-{where_}" else if hang then some s!"hang-in-{where_}"
    else if died then some "process-died-on-background-refresh-panic" else none
  match op with
  | "file" =>
    let readok ← getBool obs "readok"
    let errentry ← getBool obs "errentry"
    let ndev ← getNat obs "ndev"
    let ext ← (← j.getObjVal? "ext").getStr?
    let judge := match base with
      | some b => some b
      | none => if !readok && !errentry then some "malformed-file-without-error-entry" else none
    pure (verdict true judge (Json.str "no-panic")
      [s!"file{ext}", if readok then "readable" else "rejected", if ndev > 0 then "devices-loaded-and-injected" else "no-devices"])
  | "watch" =>
    let alive := getBoolD obs "alive" false
    let judge := match base with
      | some b => some b
      | none => if !alive then some "background-refresh-stopped" else none
    pure (verdict true judge (Json.str "no-panic") ["watch-batch"])
  | "name" => pure (verdict true base (Json.str "no-panic") ["name"])
  | "annotations" => pure (verdict true base (Json.str "no-panic") ["annotations"])
  | _ => throw s!"crash: unknown op {op}"

end Driver.Crash
