import Driver.Common
import CdiModel.Locks
import CdiModel.Generated.Access
open Lean Cdi Cdi.Locks
namespace Driver.Race

def progOf (name : String) : Option Prog := (Generated.accessTable.find? (·.1 == name)).map (·.2)

def handle : Handler := fun j => do
  let obs ← getObj j "obs"
  let ops ← (← getArr j "ops").toList.mapM (·.getStr?)
  let auto ← getBool j "auto"
  let race ← getBool obs "race"
  let hang ← getBool obs "hang"
  let mixture ← getBool obs "mixture"
  let crash ← getBool obs "crash"
  -- the threads of this run: the operations, the watcher goroutine, and the refreshes inside
  -- NewCache and the package-level default cache are not methods of the table: their locking is the
  -- constructor's and getOrCreateDefaultCache's (searched by the race detector only)
  -- composite operations of the harness are sequences of methods
  let expand (o : String) : List String :=
    if o == "Churn" then ["WriteSpec", "RemoveSpec"] else if o == "RefreshList" then ["Refresh", "ListDevices"] else [o]
  let entries := (((ops.flatMap expand).filter (fun o => o != "NewCache" && o != "DefaultCache")).map (fun o => "Cache." ++ o)) ++ ["watch.watch"]
  let missing := entries.filter (fun e => (progOf e).isNone)
  let unguarded := entries.eraseDups.filter (fun e => match progOf e with | some p => !(guarded false (strip p) && retOK false p) | none => false)
  -- the model predicts: all guarded ⇒ no race, no hang, no mixture (C12_race_free, C12_no_deadlock,
  -- C12_one_snapshot); with an unguarded entry point a race is possible but need not show in one run
  let agree := missing.isEmpty && (unguarded != [] || (!race && !hang && !mixture))
  let judge : Option String :=
    if race then some "data-race"
    else if hang then some "deadlock-or-hang"
    else if mixture then some "result-mixes-two-states"
    else if crash then some "crash"
    else none
  let rf := match obs.getObjVal? "racefuncs" with
    | .ok (.arr a) => a.toList.filterMap (fun (x : Json) => x.getStr?.toOption)
    | _ => []
  pure (verdict agree judge (Json.mkObj [("unguarded", Json.arr (unguarded.map Json.str).toArray)])
    ((ops.eraseDups.map (fun o => s!"op-{o}")) ++ [s!"threads{min ops.length 6}", s!"auto-{auto}"] ++
     unguarded.map (fun u => s!"model-unguarded-{u}") ++ rf.map (fun f => s!"race-in-{f}") ++
     missing.map (fun m => s!"no-table-entry-{m}")))

end Driver.Race
