/-
  Driver.SpecProto — protocol decoding of typed Specs and of JSON documents.
  Typed Spec: strings hex, numbers plain JSON integers, nil entries `null`.
  Document (JVal): null → null, bool → true/false, number → {"n":[mant,scale]},
  string → "hex", array → [...], object → {"o":[[khex, v], ...]}.
-/
import Driver.Common
import CdiModel.Spec
import CdiModel.Json
open Lean Cdi
namespace Driver.SpecProto

def optField (j : Json) (k : String) : Option Json :=
  match j.getObjVal? k with
  | .ok Json.null => none
  | .ok v => some v
  | _ => none

def strD (j : Json) (k : String) : Except String Str :=
  match optField j k with
  | none => pure []
  | some _ => getStr j k

def strListD (j : Json) (k : String) : Except String (List Str) :=
  match optField j k with
  | none => pure []
  | some _ => getStrList j k

def intD (j : Json) (k : String) : Except String Int :=
  match optField j k with
  | none => pure 0
  | some v => v.getInt?

def optNat (j : Json) (k : String) : Except String (Option Nat) :=
  match optField j k with
  | none => pure none
  | some v => do pure (some (← v.getNat?))

def optInt (j : Json) (k : String) : Except String (Option Int) :=
  match optField j k with
  | none => pure none
  | some v => do pure (some (← v.getInt?))

def boolD (j : Json) (k : String) : Bool := getBoolD j k false

def readMap (j : Json) (k : String) : Except String (List (Str × Str)) :=
  match optField j k with
  | none => pure []
  | some v => do
    let a ← v.getArr?
    a.toList.mapM fun e => do pure (← getStr e "k", ← getStr e "v")

def readNullable {α} (f : Json → Except String α) (j : Json) (k : String) : Except String (List (Option α)) :=
  match optField j k with
  | none => pure []
  | some v => do
    let a ← v.getArr?
    a.toList.mapM fun e => match e with
      | Json.null => pure none
      | e => do pure (some (← f e))

def readDeviceNode (j : Json) : Except String DeviceNode := do
  pure { path := ← strD j "path", hostPath := ← strD j "hostPath", type := ← strD j "type",
         major := ← intD j "major", minor := ← intD j "minor", fileMode := ← optNat j "fileMode",
         permissions := ← strD j "permissions", uid := ← optNat j "uid", gid := ← optNat j "gid" }

def readMount (j : Json) : Except String Mount := do
  pure { hostPath := ← strD j "hostPath", containerPath := ← strD j "containerPath",
         options := ← strListD j "options", type := ← strD j "type" }

def readHook (j : Json) : Except String Hook := do
  pure { hookName := ← strD j "hookName", path := ← strD j "path", args := ← strListD j "args",
         env := ← strListD j "env", timeout := ← optInt j "timeout" }

def readRdt (j : Json) : Except String IntelRdt := do
  pure { closID := ← strD j "closID", l3CacheSchema := ← strD j "l3CacheSchema",
         memBwSchema := ← strD j "memBwSchema", enableCMT := boolD j "enableCMT", enableMBM := boolD j "enableMBM" }

def readEdits (j : Json) : Except String Edits := do
  let gids ← match optField j "additionalGids" with
    | none => pure []
    | some v => do let a ← v.getArr?; a.toList.mapM (·.getNat?)
  let rdt ← match optField j "intelRdt" with
    | none => pure none
    | some v => do pure (some (← readRdt v))
  pure { env := ← strListD j "env", deviceNodes := ← readNullable readDeviceNode j "deviceNodes",
         hooks := ← readNullable readHook j "hooks", mounts := ← readNullable readMount j "mounts",
         intelRdt := rdt, additionalGids := gids }

def readEditsField (j : Json) (k : String) : Except String Edits :=
  match optField j k with
  | none => pure {}
  | some v => readEdits v

def readDevice (j : Json) : Except String Device := do
  pure { name := ← strD j "name", annotations := ← readMap j "annotations", edits := ← readEditsField j "containerEdits" }

def readSpec (j : Json) : Except String Spec := do
  let devs ← match optField j "devices" with
    | none => pure []
    | some v => do let a ← v.getArr?; a.toList.mapM readDevice
  pure { version := ← strD j "cdiVersion", kind := ← strD j "kind", annotations := ← readMap j "annotations",
         devices := devs, edits := ← readEditsField j "containerEdits" }

partial def readJVal (j : Json) : Except String JVal :=
  match j with
  | Json.null => pure .null
  | Json.bool b => pure (.bool b)
  | Json.str s => match Cdi.fromHex s with
    | some b => pure (.str b)
    | none => throw "bad hex in document string"
  | Json.arr a => do
    let l ← a.toList.mapM readJVal
    pure (JVal.mkArr l)
  | Json.obj _ =>
    match j.getObjVal? "n" with
    | .ok (Json.arr #[m, s]) => do pure (.num (← m.getInt?) (← s.getNat?))
    | _ =>
      match j.getObjVal? "o" with
      | .ok (Json.arr ms) => do
        let l ← ms.toList.mapM fun e => match e with
          | Json.arr #[k, v] => do
            let ks ← k.getStr?
            match Cdi.fromHex ks with
            | some kb => do pure (kb, ← readJVal v)
            | none => throw "bad hex in member name"
          | _ => throw "bad member"
        pure (JVal.mkObj l)
      | _ => throw "bad document node"
  | Json.num _ => throw "bare number in document"

end Driver.SpecProto
