import Driver.Common
import CdiModel.WatchMulti
open Lean Cdi Cdi.Watch
namespace Driver.Watch

def fsOfName (n : String) : Option FsOp :=
  match n with
  | "writeInPlace" | "writeViaTemp" | "rewrite" | "unlink" | "renameAway" | "writeBad" => some .writeSpec
  | "moveIn" | "linkIn" | "creatEmpty" | "moveInOld" | "linkInOld" | "replaceKeepStat" | "symlinkIn" | "retarget" => some .moveIn
  | "tempFile" => some .tempFile
  | "rmdir" => some .rmdir
  | "mkdir" => some .mkdir
  | _ => none

/-- drain the watcher: take events and run pending scans until nothing is left (bounded by fuel) -/
def drain (c : Cfg) : Nat → St → St
  | 0, s => s
  | n + 1, s =>
    match cacheStep c s .scan with
    | some s' => drain c n s'
    | none => match cacheStep c s .watcherTake with
      | some s' => drain c n s'
      | none => s

/-- replay the applied operations: file-system steps; the watcher runs whenever the harness does
not hold the cache mutex (eager draining — one of the interleavings the theorem covers) -/
def replay (c : Cfg) (ops : List String) (s : St) (locked : Bool) : St :=
  match ops with
  | [] => drain c 1000 s
  | o :: rest =>
    if o == "lock" then replay c rest s true
    else if o == "unlock" then replay c rest (drain c 1000 s) false
    else if o == "pause" then replay c rest (drain c 1000 s) locked
    else match fsOfName o with
      | some f =>
        let s1 := (fsStep s f).getD s
        replay c rest (if locked then s1 else drain c 1000 s1) locked
      | none => replay c rest s locked

/-! several directories: the shared machine of CdiModel/WatchMulti.lean -/
open Cdi.WatchMulti in
def mdrain (c : Cfg) (n : Nat) : Nat → MSt → MSt
  | 0, s => s
  | k + 1, s =>
    match mstep c n s .scan with
    | some s' => mdrain c n k s'
    | none => match mstep c n s .watcherTake with
      | some s' => mdrain c n k s'
      | none => s

/-- "op@i" ↦ (op, i) -/
def splitAt (o : String) : String × Nat :=
  match o.splitOn "@" with
  | [b, i] => (b, i.toNat?.getD 0)
  | _ => (o, 0)

open Cdi.WatchMulti in
def mreplay (c : Cfg) (n : Nat) (ops : List String) (s : MSt) (locked : Bool) : MSt :=
  match ops with
  | [] => mdrain c n 1000 s
  | o :: rest =>
    if o == "lock" then mreplay c n rest s true
    else if o == "unlock" then mreplay c n rest (mdrain c n 1000 s) false
    else if o == "pause" then mreplay c n rest (mdrain c n 1000 s) locked
    else
      let (b, i) := splitAt o
      match fsOfName b with
      | some f =>
        let s1 := (mstep c n s (.fs i f)).getD s
        mreplay c n rest (if locked then s1 else mdrain c n 1000 s1) locked
      | none => mreplay c n rest s locked

def handle : Handler := fun j => do
  let op ← (← j.getObjVal? "op").getStr?
  let obs ← getObj j "obs"
  match op with
  | "events" =>
    let fsop ← (← j.getObjVal? "fsop").getStr?
    let evs ← getArr obs "events"
    let parsed ← evs.toList.mapM fun e => do
      let name ← (← e.getObjVal? "name").getStr?
      let ops ← (← getArr e "ops").toList.mapM (·.getStr?)
      pure (name, ops)
    let specOps := (parsed.filter (·.1 == "spec")).flatMap (·.2)
    let dirOps := (parsed.filter (·.1 == "dir")).flatMap (·.2)
    let anyOps := parsed.flatMap (·.2)
    -- passes the watcher's filter whatever the mask says about Create: Rename/Remove of any name,
    -- Write of a Spec-named file
    let strong := anyOps.any (fun o => o == "RENAME" || o == "REMOVE") || specOps.contains "WRITE"
    let createOnly := !strong && specOps.contains "CREATE"
    -- the model's event table
    let agree := match fsOfName fsop with
      | some .writeSpec => strong
      | some .moveIn => createOnly
      | some .tempFile => true          -- the model lets temp files cause no refresh (fewer refreshes than reality)
      | some .rmdir => dirOps.contains "REMOVE"
      | _ => true
    pure (verdict agree none (Json.str fsop) [s!"table-{fsop}"])
  | "bigdir" =>
    -- the cache is tracked and scanned from its creation on (`init`): a file that appears during the
    -- construction is either seen by the scan or announced by an event
    let converged ← getBool obs "converged"
    let p ← getBool obs "panic"
    let judge : Option String := if p then some "panic"
      else if converged then none else some "file-created-during-cache-construction-never-noticed"
    pure (verdict converged judge (Json.bool true) ["created-during-construction"])
  | "overflow" =>
    -- events were lost (queue overflow): the kernel leaves a marker, on which the watcher re-establishes its
    -- watches and rescans (the machine's `drop` step and `.lost` event); the file written meanwhile must show up
    let converged ← getBool obs "converged"
    let p ← getBool obs "panic"
    let judge : Option String := if p then some "panic"
      else if converged then none else some "file-written-while-events-were-lost-never-noticed"
    pure (verdict converged judge (Json.bool true) ["event-queue-overflow"])
  | "slowscan" =>
    -- the watcher's update+scan and a query's update+scan are serialised by the cache mutex (the machine's steps
    -- are atomic): a query that falls into a slow scan of the watcher runs after it, and its result stands
    let converged ← getBool obs "converged"
    let p ← getBool obs "panic"
    let judge : Option String := if p then some "panic"
      else if converged then none else some "cache-did-not-converge-after-a-query-during-a-slow-scan"
    pure (verdict converged judge (Json.bool true) ["query-during-slow-scan"])
  | "history" =>
    let applied ← (← getArr j "applied").toList.mapM (·.getStr?)
    let start ← getBool j "dirAtStart"
    let converged ← getBool obs "converged"
    let p ← getBool obs "panic"
    let nd := match j.getObjVal? "ndirs" with | .ok v => (v.getNat?.toOption.getD 0) | _ => 0
    -- one directory: the single-directory machine; several: the shared machine, every directory fresh
    let multiStale (c : Cfg) : Bool :=
      let s := WatchMulti.mqueryNow c nd (mreplay c nd applied (WatchMulti.minit (fun _ => start)) false)
      (List.range nd).any (fun d => (s.dir d).stale)
    let final : St := if nd ≥ 2 then { init start with stale := multiStale repaired }
      else queryNow repaired (replay repaired applied (init start) false)
    let pinnedFinal : St := if nd ≥ 2 then { init start with stale := multiStale pinned }
      else queryNow pinned (replay pinned applied (init start) false)
    let judge : Option String :=
      if p then some "panic"
      else if converged then none else some "cache-did-not-converge-to-the-directory-content"
    pure (verdict (converged == !final.stale) judge (Json.bool (!final.stale))
      ([s!"len{min applied.length 8}"] ++ (if pinnedFinal.stale then ["pinned-model-would-stay-stale"] else []) ++
       (if applied.contains "lock" then ["controlled-pacing"] else []) ++ (if nd ≥ 2 then [s!"dirs{nd}"] else []) ++
       (if applied.contains "rmdir" then ["dir-removed"] else []) ++ (if !start then ["dir-missing-at-start"] else [])))
  | _ => throw s!"watch: unknown op {op}"

end Driver.Watch
