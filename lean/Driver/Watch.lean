import Driver.Common
import CdiModel.Watch
open Lean Cdi Cdi.Watch
namespace Driver.Watch

def fsOfName (n : String) : Option FsOp :=
  match n with
  | "writeInPlace" | "writeViaTemp" | "rewrite" | "unlink" | "renameAway" => some .writeSpec
  | "moveIn" | "linkIn" | "creatEmpty" | "moveInOld" | "linkInOld" => some .moveIn
  | "tempFile" => some .tempFile
  | "rmdir" => some .rmdir
  | "mkdir" => some .mkdir
  | _ => none

/-- drain the watcher: take events and run pending scans until nothing is left (bounded by fuel) -/
def drain (c : Cfg) : Nat → St → St
  | 0, s => s
  | n + 1, s =>
    match cacheStep c s .scan with
    | some s' => drain c n s'
    | none => match cacheStep c s .watcherTake with
      | some s' => drain c n s'
      | none => s

/-- replay the applied operations: file-system steps; the watcher runs whenever the harness does
not hold the cache mutex (eager draining — one of the interleavings the theorem covers) -/
def replay (c : Cfg) (ops : List String) (s : St) (locked : Bool) : St :=
  match ops with
  | [] => drain c 1000 s
  | o :: rest =>
    if o == "lock" then replay c rest s true
    else if o == "unlock" then replay c rest (drain c 1000 s) false
    else if o == "pause" then replay c rest (drain c 1000 s) locked
    else match fsOfName o with
      | some f =>
        let s1 := (fsStep s f).getD s
        replay c rest (if locked then s1 else drain c 1000 s1) locked
      | none => replay c rest s locked

def handle : Handler := fun j => do
  let op ← (← j.getObjVal? "op").getStr?
  let obs ← getObj j "obs"
  match op with
  | "events" =>
    let fsop ← (← j.getObjVal? "fsop").getStr?
    let evs ← getArr obs "events"
    let parsed ← evs.toList.mapM fun e => do
      let name ← (← e.getObjVal? "name").getStr?
      let ops ← (← getArr e "ops").toList.mapM (·.getStr?)
      pure (name, ops)
    let specOps := (parsed.filter (·.1 == "spec")).flatMap (·.2)
    let dirOps := (parsed.filter (·.1 == "dir")).flatMap (·.2)
    let anyOps := parsed.flatMap (·.2)
    -- passes the watcher's filter whatever the mask says about Create: Rename/Remove of any name,
    -- Write of a Spec-named file
    let strong := anyOps.any (fun o => o == "RENAME" || o == "REMOVE") || specOps.contains "WRITE"
    let createOnly := !strong && specOps.contains "CREATE"
    -- the model's event table
    let agree := match fsOfName fsop with
      | some .writeSpec => strong
      | some .moveIn => createOnly
      | some .tempFile => true          -- the model lets temp files cause no refresh (fewer refreshes than reality)
      | some .rmdir => dirOps.contains "REMOVE"
      | _ => true
    pure (verdict agree none (Json.str fsop) [s!"table-{fsop}"])
  | "history" =>
    let applied ← (← getArr j "applied").toList.mapM (·.getStr?)
    let start ← getBool j "dirAtStart"
    let converged ← getBool obs "converged"
    let p ← getBool obs "panic"
    let final := queryNow repaired (replay repaired applied (init start) false)
    let pinnedFinal := queryNow pinned (replay pinned applied (init start) false)
    let judge : Option String :=
      if p then some "panic"
      else if converged then none else some "cache-did-not-converge-to-the-directory-content"
    pure (verdict (converged == !final.stale) judge (Json.bool (!final.stale))
      ([s!"len{min applied.length 8}"] ++ (if pinnedFinal.stale then ["pinned-model-would-stay-stale"] else []) ++
       (if applied.contains "lock" then ["controlled-pacing"] else []) ++
       (if applied.contains "rmdir" then ["dir-removed"] else []) ++ (if !start then ["dir-missing-at-start"] else [])))
  | _ => throw s!"watch: unknown op {op}"

end Driver.Watch
