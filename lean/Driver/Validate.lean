import Driver.SpecProto
import CdiModel.SpecWF
import CdiModel.Decode
open Lean Cdi Cdi.Validate
namespace Driver.Validate

def toAdmit (s : String) : Option SpecWF.Admit :=
  if s == "accepted" then some .accepted
  else if s == "rejected" then some .rejected
  else if s == "panicked" then some .panicked
  else none   -- "skipped"

def admitOfRes : Res Bool → SpecWF.Admit
  | .ok true => .accepted
  | .ok false => .rejected
  | _ => .panicked

def admitStr : SpecWF.Admit → String
  | .accepted => "accepted" | .rejected => "rejected" | .panicked => "panicked"

/-- which part of `WellFormed` fails first (evidence tags only) -/
def whyIllFormed (s : Spec) : String :=
  if !SpecWF.versionValid s then "ill-version"
  else if !SpecWF.kindWF s.kind then "ill-kind"
  else if !SpecWF.annotationsWF s.annotations then "ill-annotations"
  else if !SpecWF.editsWF s.edits then "ill-spec-edits"
  else if s.devices == [] then "ill-no-devices"
  else if !s.devices.all SpecWF.deviceWF then "ill-device"
  else if !SpecWF.namesUnique (s.devices.map (·.name)) then "ill-duplicate-name"
  else "well-formed"

def handle : Handler := fun j => do
  let op ← (← j.getObjVal? "op").getStr?
  let obs ← getObj j "obs"
  match op with
  | "admit_doc" =>
    let doc ← SpecProto.readJVal (← getObj j "doc")
    let decoded := Decode.decodeSpec doc
    -- model verdict and the declarative verdict
    let (model, wf, tag) : SpecWF.Admit × Bool × String := match decoded with
      | none => (.rejected, false, "decode-error")
      | some none => (.rejected, false, "nil-spec")
      | some (some s) => (admitOfRes (validateSpec s), SpecWF.WellFormed s, whyIllFormed s)
    let entries := ["json", "yaml", "refresh_json", "refresh_yaml", "write"]
    let mut agree := true
    let mut judge : Option String := none
    for e in entries do
      let o ← (← obs.getObjVal? e).getStr?
      match toAdmit o with
      | none => pure ()
      | some a =>
        if a != model then agree := false
        let verdict : Option String := match a with
          | .panicked => some s!"panic@{e}"
          | .accepted => if wf then none else some s!"accepted-ill-formed-document@{e}"
          | .rejected => if wf then some s!"rejected-well-formed-document@{e}" else none
        if judge.isNone then judge := verdict
    pure (verdict agree judge (Json.str (admitStr model)) [tag])
  | "admit_typed" =>
    let s ← SpecProto.readSpec (← getObj j "spec")
    let o ← (← obs.getObjVal? "write").getStr?
    let model := admitOfRes (validateSpec s)
    match toAdmit o with
    | none => pure (verdict true none (Json.str (admitStr model)) ["skipped"])
    | some a =>
      pure (verdict (a == model) (SpecWF.judgeAdmit s a) (Json.str (admitStr model)) [whyIllFormed s])
  | _ => throw s!"validate: unknown op {op}"

end Driver.Validate
