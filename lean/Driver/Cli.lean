import Driver.Common
import CdiModel.Cli
import CdiModel.AnnotationsSpec
open Lean Cdi Cdi.Cli
namespace Driver.Cli

def getLines (j : Json) (k : String) : Except String (List Str) := getStrList j k

def handle : Handler := fun j => do
  let op ← (← j.getObjVal? "op").getStr?
  let obs ← getObj j "obs"
  let lib ← getObj j "lib"
  match op with
  | "list" =>
    let cmd ← (← j.getObjVal? "cmd").getStr?
    let out ← getLines obs "stdout"
    let exit ← getNat obs "exit"
    let errKeys ← getStrList lib "errorkeys"
    let expectedExit := cdiExit errKeys
    -- with cache errors the tool prints the error report and exits before the sub-command runs
    let specFiles := out.filterMap (fun l => if hasPrefix (lit "Spec file ") l then some ((l.drop 10).dropLast) else none)
    let verbose := getBoolD j "verbose" false
    let format : Str := match getStr j "format" with | .ok f => f | .error _ => []
    let args : List Str := match getStrList j "args" with | .ok a => a | .error _ => []
    let expected : List Str ← match cmd with
      | "devices" => do
        if verbose then
          let vs ← (← getArr lib "devviews").toList.mapM fun e => do
            pure ({ name := ← getStr e "name", path := ← getStr e "path", devJson := ← getStr e "devjson",
                    devYaml := ← getStr e "devyaml", nGlobal := ← getNat e "nglobal",
                    editsJson := ← getStr e "editsjson", editsYaml := ← getStr e "editsyaml" } : DevView)
          pure (renderDevicesV true format vs)
        else pure (renderDevices (← getStrList lib "devices"))
      | "dirs" => do pure (renderDirs (← getStrList lib "dirs"))
      | "vendors" => do
        let vs ← (← getArr lib "vendors").toList.mapM fun e => do pure (← getStr e "vendor", ← getNat e "nspecs")
        pure (renderVendors vs)
      | "classes" => do
        let cs ← (← getArr lib "classes").toList.mapM fun e => do pure (← getStr e "class", ← getStrList e "vendors")
        pure (renderClasses cs)
      | "specs" => do
        if verbose || args != [] then
          let vs ← (← getArr lib "specviews").toList.mapM fun e => do
            let ss ← (← getArr e "specs").toList.mapM fun x => do
              pure ({ path := ← getStr x "path", json := ← getStr x "json", yaml := ← getStr x "yaml" } : SpecView)
            pure (← getStr e "vendor", ss)
          pure (renderSpecsV verbose format args vs)
        else
          let vs ← (← getArr lib "specs").toList.mapM fun e => do pure (← getStr e "vendor", ← getStrList e "paths")
          pure (renderSpecs vs)
      | "validate" => pure [line "No CDI cache errors."]
      | _ => throw s!"cli: unknown sub-command {cmd}"
    let (agree, judge) : Bool × Option String :=
      if errKeys != [] then
        let sameKeys := Cdi.Annotations.sortStrs specFiles == Cdi.Annotations.sortStrs errKeys
        (sameKeys && exit == 1,
         if exit == 0 then some "exit-status-zero-despite-cache-errors"
         else if !sameKeys then some "reported-error-files-differ-from-library" else none)
      else
        (out == expected && exit == 0,
         if exit != expectedExit then some "exit-status-nonzero-without-cache-errors"
         else if out != expected then some s!"{cmd}-listing-differs-from-library" else none)
    pure (verdict agree judge (hexList expected) [s!"cmd-{cmd}", if errKeys != [] then "with-errors" else "clean",
      if verbose then s!"verbose-{String.ofList (format.map (fun b => Char.ofNat b.toNat))}" else "plain", if args != [] then "vendor-args" else "no-args"])
  | "monitor" =>
    -- `cdi --spec-dirs … monitor devices`: the listing printed after the last change is the device renderer applied
    -- to what the library computes for the directories as they are then
    let out ← getLines obs "stdout"
    let expected := renderDevices (← getStrList lib "devices")
    let skipped := getBoolD obs "skipped" false
    let judge : Option String := if skipped || out == expected then none else some "monitor-listing-differs-from-library"
    pure (verdict judge.isNone judge (hexList expected) [if skipped then "monitor-skipped" else "cmd-monitor"])
  | "inject" =>
    -- which devices the patterns select: the harness sends filepath.Match's verdict per (device, pattern)
    let selOK : Bool := match (do
        let devs ← getStrList lib "listed"
        let pats ← getStrList j "patterns"
        let rows ← (← getArr lib "matrix").toList.mapM fun r => do (← r.getArr?).toList.mapM (·.getNat?)
        let chosen ← getStrList lib "selected"
        let m : Str → Str → Option Bool := fun p d =>
          match devs.idxOf? d, pats.idxOf? p with
          | some i, some k => match (rows.getD i []).getD k 2 with | 0 => some false | 1 => some true | _ => none
          | _, _ => none
        pure (selectDevices m pats devs == some chosen || (selectDevices m pats devs).isNone) : Except String Bool) with
      | .ok b => b | .error _ => true
    let same ← getBool obs "sameaslibrary"
    let exit ← getNat obs "exit"
    let libErr ← getBool lib "err"
    let judge : Option String :=
      if libErr then (if exit == 0 then some "inject-exit-zero-despite-library-error" else none)
      else if exit != 0 then some "inject-failed-although-library-succeeds"
      else if !same then some "printed-oci-spec-differs-from-library-injection"
      else if !selOK then some "selected-devices-differ-from-the-matched-set" else none
    pure (verdict judge.isNone judge Json.null [if libErr then "inject-error" else "inject-ok"])
  | "validatetool" =>
    let exit ← getNat obs "exit"
    let oks ← (← getArr lib "schemaok").toList.mapM (·.getBool?)
    let names ← (← getArr lib "names").toList.mapM (·.getStr?)
    let lines ← (← getArr obs "stdout").toList.mapM (·.getStr?)
    let allOK := oks.all id
    let judge :=
      if exit != validateExit oks then
        some (if allOK then "validate-tool-rejects-valid-document" else "validate-tool-accepts-invalid-document")
      else if lines != validateLines (names.zip oks) then some "validate-tool-output-differs-from-library-verdicts"
      else none
    pure (verdict judge.isNone judge Json.null
      [if allOK then "docs-valid" else "some-doc-invalid", s!"docs{oks.length}"] )
  | _ => throw s!"cli: unknown op {op}"

end Driver.Cli
