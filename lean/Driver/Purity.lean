import Driver.SpecProto
import Driver.Apply
import CdiModel.Purity
open Lean Cdi Cdi.Purity
namespace Driver.Purity
open Driver.SpecProto

def readHostAt (j : Json) (k : String) : Except String (Str → Option HostNode) := do
  let a ← getArr j k
  let l ← a.toList.mapM fun e => do
    let p ← getStr e "path"
    let kd ← (← e.getObjVal? "kind").getStr?
    let n : HostNode ← match kd with
      | "other" => pure HostNode.other
      | _ => do pure (HostNode.dev (lit kd) (← intD e "major") (← intD e "minor"))
    pure (p, n)
  pure (fun p => lookup p l)

def readViews (j : Json) (k : String) : Except String (Option (List (Str × Str × Int × Int))) :=
  match optField j k with
  | none => pure none
  | some v => do
    let a ← v.getArr?
    let l ← a.toList.mapM fun e => do
      pure (← strD e "path", ← strD e "type", ← intD e "major", ← intD e "minor")
    pure (some l)

/-- whole-Spec image cases: the theorems (C14_cache_unchanged, C14_repeatable) predict one thing
for every history: the cache image does not change and every injection equals the one on a
fresh cache -/
def handleImage (j : Json) : Except String Json := do
  let obs ← getObj j "obs"
  let p ← getBool obs "panic"
  let unchanged ← getBool obs "cacheunchanged"
  let rep ← getBool obs "repeatable"
  let wb ← getBool obs "writeback"
  let n ← getNat obs "injections"
  let judge : Option String :=
    if p then some "panic"
    else if !unchanged then some "cached-spec-changed-by-injection"
    else if !rep then some "later-injection-remembers-earlier-injection"
    else if !wb then some "cached-spec-no-longer-writable"
    else none
  pure (verdict judge.isNone judge Json.null [s!"image-injections{min n 4}"])

def handle : Handler := fun j => do
  let op := match j.getObjVal? "op" with | .ok (.str s) => s | _ => "purity"
  if op == "image" then return (← handleImage j)
  let obs ← getObj j "obs"
  let nodes ← (← getArr j "nodes").toList.mapM readDeviceNode
  let host1 ← readHostAt j "host1"
  let host2 ← readHostAt j "host2"
  let refs := List.range nodes.length
  let f1 ← readViews obs "filled1"
  let f2 ← readViews obs "filled2"
  let after ← (← getArr obs "cacheafter").toList.mapM readDeviceNode
  let wb ← getBool obs "writeback"
  let p ← getBool obs "panic"
  let r1 := injectNodes false host1 refs ⟨nodes⟩
  let r2 := injectNodes false host2 refs r1.1
  let m1 := r1.2.map (·.map ociView)
  let m2 := r2.2.map (·.map ociView)
  let agree := !p && m1 == f1 && m2 == f2 && r2.1.nodes == after
  -- the judge works on views: rebuild PurityObs-like verdict directly
  let fresh (h : Str → Option HostNode) := (injectNodes false h refs ⟨nodes⟩).2.map (·.map ociView)
  let judge : Option String :=
    if p then some "panic"
    else if after != nodes then some "cached-spec-changed-by-injection"
    else if f1 != fresh host1 then some "first-injection-differs-from-fresh-cache"
    else if f2 != fresh host2 then some "later-injection-remembers-earlier-host-state"
    else if !wb then some "cached-spec-no-longer-writable"
    else none
  let tags := [s!"nodes{min nodes.length 4}"] ++
    (if m1 != m2 then ["host-change-visible"] else []) ++
    (if m1.isNone then ["first-fails"] else []) ++ (if m2.isNone then ["second-fails"] else []) ++
    (if nodes.any (fun d => d.type == [] || d.major == 0) then ["needs-host-info"] else [])
  pure (verdict agree judge (Json.null) tags)

end Driver.Purity
