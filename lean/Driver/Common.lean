/-
  Driver.Common — line protocol helpers for `cdidriver`.
  One JSON object per input line, one JSON object per output line.
  Byte strings travel hex-encoded.
-/
import Lean.Data.Json
import CdiModel.Basic
open Lean
namespace Driver

abbrev Handler := Json → Except String Json

def getStr (j : Json) (k : String) : Except String Cdi.Str := do
  let s ← (← j.getObjVal? k).getStr?
  match Cdi.fromHex s with
  | some b => pure b
  | none => throw s!"bad hex in field {k}"

def getBool (j : Json) (k : String) : Except String Bool := do
  (← j.getObjVal? k).getBool?

def getBoolD (j : Json) (k : String) (d : Bool) : Bool :=
  match j.getObjVal? k with
  | .ok v => (v.getBool?.toOption).getD d
  | _ => d

def getNat (j : Json) (k : String) : Except String Nat := do
  (← j.getObjVal? k).getNat?

def getInt (j : Json) (k : String) : Except String Int := do
  (← j.getObjVal? k).getInt?

def getObj (j : Json) (k : String) : Except String Json := j.getObjVal? k

def getArr (j : Json) (k : String) : Except String (Array Json) := do
  (← j.getObjVal? k).getArr?

def getStrList (j : Json) (k : String) : Except String (List Cdi.Str) := do
  let a ← getArr j k
  a.toList.mapM fun x => do
    let s ← x.getStr?
    match Cdi.fromHex s with
    | some b => pure b
    | none => throw s!"bad hex in list {k}"

def hex (s : Cdi.Str) : Json := Json.str (Cdi.toHex s)
def hexList (l : List Cdi.Str) : Json := Json.arr (l.map hex).toArray

/-- standard verdict line -/
def verdict (agree : Bool) (judge : Option String) (model : Json) (tags : List String := []) : Json :=
  Json.mkObj [("agree", Json.bool agree), ("judge", Json.str (judge.getD "ok")),
              ("model", model), ("tags", Json.arr (tags.map Json.str).toArray)]

end Driver
