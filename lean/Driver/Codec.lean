import Driver.SpecProto
import CdiModel.Codec
import CdiModel.Validate
open Lean Cdi Cdi.Codec
namespace Driver.Codec
open Driver.SpecProto

def statusOK (s : String) : Bool := s == "equal"

def handle : Handler := fun j => do
  let op ← (← j.getObjVal? "op").getStr?
  let obs ← getObj j "obs"
  match op with
  | "roundtrip" =>
    -- whole-system round trip of a typed Spec under a .json, a .yaml and an extension-less name
    let s ← readSpec (← getObj j "spec")
    let typed := specTyped s
    let valueRT := Decode.decodeSpec (Encode.encodeSpec s) == some (some s)
    let strs := specStrings s
    let riskJ := strs.any jsonUnsafe
    let riskY := strs.any yamlUnsafe
    -- a Spec the library must refuse to write (model: not valid): every encoding reports "unwritable"
    let libValid := Validate.validateSpec s == .ok true
    let mut judge : Option String := none
    let mut agree := true
    for enc in ["json", "yaml", "noext", "cachejson", "cacheyaml"] do
      let o ← (← obs.getObjVal? enc).getStr?
      if o == "skipped" then continue
      if !libValid then
        if o != "unwritable" then
          agree := false
          if judge.isNone then judge := some s!"invalid-spec-was-written-{enc}:{o}"
        continue
      -- the model (value layer + codec law) predicts a faithful round trip for every typed Spec
      -- … except through the text codecs' two known classes of strings, where a failure may (need not) occur
      let risk := if enc == "json" || enc == "cachejson" then riskJ else riskY
      let consistent := if o == "equal" then typed && valueRT else risk
      if !consistent then agree := false
      if o != "equal" && judge.isNone then judge := some s!"{enc}-roundtrip:{o}"
    pure (verdict agree judge (Json.bool valueRT)
      ([if typed then "typed" else "untyped", s!"devices{min s.devices.length 3}"] ++
       (if riskJ then ["has-json-unsafe-string"] else []) ++ (if riskY then ["has-yaml-unsafe-string"] else [])))
  | "string" =>
    -- one string placed in a string field, written and parsed back in both encodings
    let str ← getStr j "s"
    let oj ← (← obs.getObjVal? "json").getStr?
    let oy ← (← obs.getObjVal? "yaml").getStr?
    let risky := jsonUnsafe str
    let riskyY := yamlUnsafe str
    -- the model predicts failure only inside the two known classes; a failure elsewhere is a disagreement
    let agree := (oj == "equal" || risky) && (oy == "equal" || riskyY)
    let judge : Option String :=
      if oj != "equal" then some s!"json-roundtrip:{oj}"
      else if oy != "equal" then some s!"yaml-roundtrip:{oy}"
      else none
    pure (verdict agree judge (Json.bool (!risky)) [if risky then "json-unsafe-string" else if riskyY then "yaml-unsafe-string" else "plain-string"])
  | _ => throw s!"codec: unknown op {op}"

end Driver.Codec
