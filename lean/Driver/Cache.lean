import Driver.SpecProto
import CdiModel.Inject
open Lean Cdi Cdi.Cache
namespace Driver.Cache

def readEntry (j : Json) : Except String Entry := do
  let name ← getStr j "name"
  let kind ← (← j.getObjVal? "kind").getStr?
  let k ← match kind with
    | "file" => match SpecProto.optField j "spec" with
        | none => pure (EntryKind.file none)
        | some s => do pure (EntryKind.file (some (← SpecProto.readSpec s)))
    | "subdir" => pure EntryKind.subdir
    | "vanished" => pure EntryKind.vanished
    | "lstaterror" => pure EntryKind.lstatError
    | _ => throw s!"cache: unknown entry kind {kind}"
  pure ⟨name, k⟩

def readDir (j : Json) : Except String (Str × DirState) := do
  let path ← getStr j "path"
  let state ← (← j.getObjVal? "state").getStr?
  let st ← match state with
    | "missing" => pure DirState.missing
    | "unscannable" => pure DirState.unscannable
    | "unreadable" => pure DirState.unreadable
    | "notdir" => match SpecProto.optField j "spec" with
        | none => pure (DirState.notDir none)
        | some s => do pure (DirState.notDir (some (← SpecProto.readSpec s)))
    | "dir" => do
        let es ← (← getArr j "entries").toList.mapM readEntry
        pure (DirState.dir es)
    | _ => throw s!"cache: unknown dir state {state}"
  pure (path, st)

structure ResObs where
  q : Str
  found : Bool
  path : Str
  prio : Nat
  device : Device

def readRes (j : Json) : Except String ResObs := do
  let found ← getBool j "found"
  if found then
    pure ⟨← getStr j "q", true, ← getStr j "path", ← getNat j "prio", ← SpecProto.readDevice (← getObj j "device")⟩
  else pure ⟨← getStr j "q", false, [], 0, {}⟩

def sorted := Cdi.Cache.sortedKeys

def handle : Handler := fun j => do
  let op ← (← j.getObjVal? "op").getStr?
  let obs ← getObj j "obs"
  let dirs ← (← getArr j "dirs").toList.mapM readDir
  let items := scan dirs
  let st := refresh items
  match op with
  | "refresh" | "permrestore" =>
    let oDevices ← getStrList obs "devices"
    let oVendors ← getStrList obs "vendors"
    let oClasses ← getStrList obs "classes"
    let oErrKeys ← getStrList obs "errorkeys"
    -- the directories the cache says it uses: the configured list, cleaned, in order (absent in old replays)
    let oDirsOK := match getStrList obs "specdirs" with
      | .ok l => l == dirs.map (fun d => Path.clean d.1)
      | .error _ => true
    let oRefreshErr ← getBool obs "refresherr"
    let oRes ← (← getArr obs "resolve").toList.mapM readRes
    let oVS ← (← getArr obs "vendorspecs").toList.mapM fun e => do
      pure (← getStr e "vendor", ← getStrList e "paths")
    let p ← getBool obs "panic"
    -- model
    let mDevices := sorted st.listDevices
    let mVendors := sorted st.listVendors
    let mClasses := sorted st.listClasses
    let mErrKeys := sorted st.errorKeys
    let resAgree := oRes.all fun r =>
      match st.device r.q with
      | none => !r.found
      | some m => r.found && m.path == r.path && m.prio == r.prio && m.device == r.device
    let vsAgree := oVS.all fun (v, ps) => st.vendorSpecs v == ps
    let agree := !p && mDevices == oDevices && mVendors == oVendors && mClasses == oClasses &&
      mErrKeys == oErrKeys && resAgree && vsAgree && (oRefreshErr == (mErrKeys != [])) && oDirsOK
    -- judge (declarative)
    let badRes := oRes.find? fun r =>
      match resolution r.q items with
      | none => r.found
      | some w => !(r.found && w.path == r.path && w.prio == r.prio && w.device == r.device)
    let judge : Option String :=
      if p then some "panic"
      else if !oDirsOK then some "directory-listing-differs-from-the-configured-list"
      else if badRes.isSome then some "resolution-differs-from-precedence-rule"
      else if oDevices != devicesSpec items then some "device-listing"
      else if oVendors != vendorsSpec items then some "vendor-listing"
      else if oClasses != classesSpec items then some "class-listing"
      else if !(oVS.all fun (v, ps) =>
          ps == ((loadedSpecs items).filter (fun x => (Parser.parseQualifier x.2.2.kind).1 == v)).map (·.1)) then
        some "vendor-spec-listing"
      else if oErrKeys != errorKeysSpec items then some "error-report-keys"
      else if oRefreshErr != (errorKeysSpec items != []) then some "refresh-error-iff-files-in-error"
      else none
    let tags :=
      [s!"dirs{min dirs.length 4}", s!"items{min items.length 6}"] ++
      (if (failedPaths items) != [] then ["has-failed-file"] else []) ++
      (if (conflictPaths items) != [] then ["has-conflict"] else []) ++
      (if dirs.any (fun d => match d.2 with | .unscannable => true | _ => false) then ["has-unscannable-dir"] else []) ++
      (if dirs.any (fun d => match d.2 with | .missing => true | _ => false) then ["has-missing-dir"] else []) ++
      (if dirs.any (fun d => match d.2 with | .unreadable => true | _ => false) then ["has-unlistable-dir"] else []) ++
      (if dirs.any (fun d => match d.2 with
          | .dir es => es.any (fun e => match e.kind with | .lstatError => true | _ => false) | _ => false) then ["has-unexaminable-entries"] else []) ++
      (if (allRefs items).any (fun r => (allRefs items).any (fun r' => r'.qname == r.qname && r'.prio < r.prio)) then ["has-shadowing"] else [])
    pure (verdict agree judge (Json.mkObj [("devices", hexList mDevices), ("errorkeys", hexList mErrKeys)]) tags)
  | "inject" =>
    let req ← getStrList j "req"
    let nilOci := getBoolD j "niloci" false
    let p ← getBool obs "panic"
    let oUnres ← getStrList obs "unresolved"
    let oErr ← getBool obs "err"
    let oChanged ← getBool obs "ocichanged"
    let oMatches ← getBool obs "matchesapply"
    let oCombined ← SpecProto.readEditsField obs "combined"
    let outcome := Inject.injectDevices st.device nilOci req
    let wdev : Str → Option Ref := fun q => resolution q items
    let refs := req.filterMap wdev
    let (agree, judge, tag) : Bool × Option String × String := match outcome with
      | .nilOci ret =>
        (oUnres == ret && oErr, (if p then some "panic" else if oUnres != req || !oErr then some "nil-oci-not-refused-with-all-names" else none), "nil-oci")
      | .unresolved names =>
        (oUnres == names && oErr && !oChanged,
         (if p then some "panic"
          else if oUnres != Inject.unresolvedOf wdev req then some "unresolved-names-differ"
          else if !oErr then some "no-error-for-unresolvable-request"
          else if oChanged then some "oci-spec-modified-on-failed-injection" else none), "unresolved")
      | .apply edits =>
        (oUnres == [] && oCombined == edits,
         (if p then some "panic"
          else if Inject.unresolvedOf wdev req != [] then some "applied-with-unresolvable-names"
          else if oUnres != [] then some "resolvable-name-reported-unresolved"
          else if oCombined != Inject.combined refs then some "combined-edits-differ-from-ordered-composition"
          else if !oErr && !oMatches then some "injection-differs-from-applying-the-combined-edits" else none), "applied")
    pure (verdict (agree && !p) judge (Json.str tag) [tag, s!"req{min req.length 5}"])
  | _ => throw s!"cache: unknown op {op}"

end Driver.Cache
