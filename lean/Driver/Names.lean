import Driver.Common
import CdiModel.NamesSpec
import CdiModel.ParserSpec
open Lean Cdi Cdi.Names
namespace Driver.Names

def readWriteObs (o : Json) : Except String WriteObs := do
  pure ⟨← getBool o "err", ← getStrList o "changed", ← getStrList o "newdirs"⟩

def handle : Handler := fun j => do
  let op ← (← j.getObjVal? "op").getStr?
  let obs ← getObj j "obs"
  match op with
  | "genname" =>
    let v ← getStr j "vendor"; let c ← getStr j "class"; let id ← getStr j "id"
    let on ← getStr obs "name"; let ot ← getStr obs "transient"
    let mn := generateSpecName v c
    let mt := generateTransientSpecName v c id
    let valid := Cdi.Parser.vcOK v && Cdi.Parser.vcOK c
    let judge : Option String :=
      if valid && !(singleComponent on) then some "spec-name-not-a-single-component"
      else if valid && !(singleComponent ot) then some "transient-name-not-a-single-component"
      else none
    pure (verdict (mn == on && mt == ot) judge (Json.mkObj [("name", Driver.hex mn), ("transient", Driver.hex mt)])
      [if valid then "valid-kind" else "invalid-kind", if id.contains cSlash then "id-with-slash" else "id-plain"])
  | "gennamespec" =>
    let kind ← getStr j "kind"; let id ← getStr j "id"
    let ook ← getBool obs "ok"; let on ← getStr obs "name"; let ot ← getStr obs "transient"
    let mn := generateNameForSpec kind
    let mt := generateNameForTransientSpec kind id
    let agree := ook == mn.isSome && (!ook || (mn == some on && mt == some ot))
    pure (verdict agree (if agree then none else some "generated-name-differs")
      (Json.mkObj [("ok", mn.isSome), ("name", Driver.hex (mn.getD [])), ("transient", Driver.hex (mt.getD []))])
      [if mn.isSome then "kind-ok" else "kind-error"])
  | "write" =>
    let dirs ← getStrList j "dirs"; let name ← getStr j "name"
    let o ← readWriteObs obs
    let mp := writePath dirs name
    let specPath ← getStr obs "specpath"      -- path the cache reports for the device after a refresh ("" if unresolved)
    let agreePath := o.err || (match mp with | some p => o.changed == [p] | none => false)
    let agreeSpec := o.err || specPath == [] || some specPath == mp.map newSpecPath
    let judge := judgeWrite dirs name o
    let judge := if judge.isNone && !o.err && specPath != [] && !o.changed.contains specPath
      then some "device-does-not-resolve-to-the-written-file" else judge
    let judge := if judge.isNone && !o.err && specPath == [] && o.changed != []
      then some "device-of-the-written-spec-does-not-resolve-after-refresh" else judge
    pure (verdict (agreePath && agreeSpec) judge (Json.mkObj [("path", Driver.hex (mp.getD []))])
      [if isSpecExt (Path.ext name) then "name-with-ext" else "name-no-ext",
       if o.err then "write-error" else "write-ok", s!"dirs{min dirs.length 3}"])
  | "remove" =>
    let dirs ← getStrList j "dirs"; let name ← getStr j "name"
    let written ← getStrList j "written"
    let o ← readWriteObs obs
    let mp := removePath dirs name
    let agree := o.err || o.changed == [] || (match mp with | some p => o.changed == [p] | none => false)
    let which := match j.getObjVal? "which" with | .ok (.str w) => w | _ => "remove"
    -- "rewrite": the same Spec written again under the same name after its removal — the same file
    -- appears again (the judge is the same equation: what changed = what the first write created)
    let judge := (judgeRemove written o).map (fun m => if which == "rewrite" then "rewrite-after-remove-" ++ m else m)
    pure (verdict agree judge (Json.mkObj [("path", Driver.hex (mp.getD []))])
      [if which == "rewrite" then "rewrite-after-remove" else if written == [] then "remove-missing" else "remove-existing"])
  | _ => throw s!"names: unknown op {op}"

end Driver.Names
