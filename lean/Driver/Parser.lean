import Driver.Common
import CdiModel.ParserSpec
open Lean Cdi Cdi.Parser
namespace Driver.Parser

def resBoolJson : Res Bool → Json
  | .ok b => Json.mkObj [("panic", false), ("ok", b)]
  | _ => Json.mkObj [("panic", true), ("ok", false)]

def pqnJson : Obs → Json
  | .panic => Json.mkObj [("panic", true)]
  | .ret r => Json.mkObj [("panic", false), ("v", Driver.hex r.vendor), ("c", Driver.hex r.cls),
                          ("n", Driver.hex r.name), ("ok", r.ok)]

def readObsPQN (o : Json) : Except String Obs := do
  if (← getBool o "panic") then pure .panic else
  pure (.ret ⟨← getStr o "v", ← getStr o "c", ← getStr o "n", ← getBool o "ok"⟩)

def readObsBool (o : Json) : Except String (Res Bool) := do
  if (← getBool o "panic") then pure .panic else pure (.ok (← getBool o "ok"))

/-- judge for the validators: no panic, verdict equals the grammar -/
def judgeValidator (spec : Bool) : Res Bool → Option String
  | .ok b => if b = spec then none else some (if spec then "rejected-valid" else "accepted-invalid")
  | _ => some "panic"

def handle : Handler := fun j => do
  let op ← (← j.getObjVal? "op").getStr?
  let obs ← getObj j "obs"
  match op with
  | "pqn" =>
    let s ← getStr j "s"
    let o ← readObsPQN obs
    let m := obsOfRes (parseQualifiedName s)
    let tags := [if qualifiedB s then "qualified" else "unqualified"]
    pure (verdict (m == o) (judgePQN s o) (pqnJson m) tags)
  | "charclass" =>
    -- the exported character classes on a code point: ASCII letters / digits only (a code point ≥ 128 is in no class)
    let r ← getNat j "r"
    let fn ← (← j.getObjVal? "fn").getStr?
    let o ← readObsBool obs
    let cls : Byte → Bool := match fn with
      | "letter" => isLetter
      | "digit" => isDigit
      | _ => isAlnum
    let m : Bool := if r < 128 then cls r.toUInt8 else false
    pure (verdict (o == .ok m) (judgeValidator m o) (resBoolJson (.ok m)) [if r < 128 then "ascii" else "non-ascii", fn])
  | "isq" =>
    let s ← getStr j "s"
    let o ← readObsBool obs
    let m := isQualifiedName s
    pure (verdict (m == o) (judgeValidator (qualifiedB s) o) (resBoolJson m))
  | "vendor" | "class" =>
    let s ← getStr j "s"
    let o ← readObsBool obs
    let m := validateVC s
    pure (verdict (m == o) (judgeValidator (vcOK s) o) (resBoolJson m)
      [if vcOK s then "vc-valid" else "vc-invalid"])
  | "devname" =>
    let s ← getStr j "s"
    let o ← readObsBool obs
    let m := validateDeviceName s
    pure (verdict (m == o) (judgeValidator (devOK s) o) (resBoolJson m)
      [if devOK s then "dev-valid" else "dev-invalid"])
  | "parsedev" =>
    let s ← getStr j "s"
    let (v, c, n) := parseDevice s
    let ov ← getStr obs "v"; let oc ← getStr obs "c"; let on ← getStr obs "n"
    let p ← getBool obs "panic"
    let agree := !p && v == ov && c == oc && n == on
    -- contract of ParseDevice: either ("", "", input) or parts recomposing to the input
    let judge : Option String :=
      if p then some "panic"
      else if ov == [] then (if oc == [] && on == s then none else some "parsedev-failure-shape")
      else if qualifiedName ov oc on == s then none else some "parsedev-recompose"
    pure (verdict agree judge (Json.mkObj [("v", Driver.hex v), ("c", Driver.hex c), ("n", Driver.hex n)]))
  | "qname" =>
    let v ← getStr j "v"; let c ← getStr j "c"; let n ← getStr j "n"
    let os ← getStr obs "s"
    let m := qualifiedName v c n
    pure (verdict (m == os) (if m == os then none else some "qualifiedName-composition") (Driver.hex m))
  | _ => throw s!"parser: unknown op {op}"

end Driver.Parser
