import Driver.SpecProto
import CdiModel.SchemaGlue
import CdiModel.Encode
import CdiModel.SpecWF
import CdiModel.Decode
open Lean Cdi Cdi.SchemaGlue
namespace Driver.Schema
open Driver.SpecProto

def entries : List (String × Entry) :=
  [("dataJson", .dataJson), ("dataYaml", .dataYaml), ("fileJson", .fileJson), ("fileYaml", .fileYaml),
   ("reader", .reader), ("readAndValidate", .readAndValidate)]

def choices : List (String × SchemaChoice) := [("builtin", .builtin), ("loaded", .builtin), ("none", .none), ("nil", .nil),
  -- the same schemas made the active one (schema.Set) and used through the package-level functions
  ("active-builtin", .builtin), ("active-none", .none), ("active-nil", .nil)]

/-- integer fields within the Go types of specs-go/config.go -/
def nodeInRange (d : DeviceNode) : Bool :=
  decide (Decode.int64Min ≤ d.major ∧ d.major ≤ Decode.int64Max ∧ Decode.int64Min ≤ d.minor ∧ d.minor ≤ Decode.int64Max) &&
  (d.uid.all (· ≤ 4294967295)) && (d.gid.all (· ≤ 4294967295)) && (d.fileMode.all (· ≤ 4294967295))

def handle : Handler := fun j => do
  let op ← (← j.getObjVal? "op").getStr?
  let obs ← getObj j "obs"
  match op with
  | "verdicts" =>
    let doc ← readJVal (← getObj j "doc")
    let mut agree := true
    let mut judge : Option String := none
    let eng := engine .builtin doc
    let cont := contentsOK doc
    for (cn, c) in choices do
      let oc ← match obs.getObjVal? cn with | .ok v => pure v | .error _ => continue   -- absent in old replays
      for (en, e) in entries do
        let o ← (← oc.getObjVal? en).getStr?
        if o == "skipped" then continue
        let m := SchemaGlue.verdict c e doc
        if o == "panic" then
          agree := false
          if judge.isNone then judge := some s!"panic@{cn}.{en}"
        else
          let ok := o == "ok"
          if ok != m then agree := false
          -- judge: builtin/loaded = draft-07 verdict of the schema files (plus, for byte entry points,
          -- the annotation verdict — identically for both encodings); none/nil never reject
          let expected : Option Bool := match c with
            | .builtin => if cont then some eng else (if eng then none else some false)
            | _ => some true
          match expected with
          | some b => if ok != b && judge.isNone then
              judge := some (if b then s!"rejected-schema-valid-document@{cn}.{en}" else s!"accepted-schema-invalid-document@{cn}.{en}")
          | none => pure ()
      -- encodings must agree
      let dj ← (← oc.getObjVal? "dataJson").getStr?
      let dy ← (← oc.getObjVal? "dataYaml").getStr?
      if dj != "skipped" && dy != "skipped" && dj != dy && judge.isNone then
        judge := some s!"json-and-yaml-bytes-get-different-verdicts@{cn}"
    pure (Driver.verdict agree judge (Json.mkObj [("engine", eng), ("contents", cont)])
      [if eng then "schema-valid" else "schema-invalid", if cont then "annotations-ok" else "annotations-bad"])
  | "typed" =>
    let s ← readSpec (← getObj j "spec")
    let doc := Encode.encodeSpec s
    let m := SchemaGlue.verdict .builtin .typed doc
    let o ← (← obs.getObjVal? "typed").getStr?
    let fj ← (← obs.getObjVal? "fileJson").getStr?
    let fy ← (← obs.getObjVal? "fileYaml").getStr?
    let rv ← (← obs.getObjVal? "readWithValidator").getStr?
    let wv ← (← obs.getObjVal? "writeWithValidator").getStr?
    let libValid := Validate.validateSpec s == .ok true
    let inRange := s.allEdits.all (fun e => e.deviceNodes.all (fun n => n.all nodeInRange) &&
      e.hooks.all (fun h => h.all (fun h => h.timeout.all (fun t => decide (0 ≤ t ∧ t ≤ 4294967295)))) &&
      e.additionalGids.all (· ≤ 4294967295))
    -- what the real library did with it (WriteSpec validates before writing)
    let libAccepts := getBoolD obs "libaccepts" libValid
    let agree := (o == "skipped" || (o == "ok") == m) && libAccepts == libValid
    let bad (x : String) := x == "err" || x == "panic"
    let judge : Option String :=
      if o == "panic" then some "panic"
      else if (libValid || libAccepts) && inRange then
        (if bad o then some "library-valid-spec-fails-builtin-schema"
         else if bad fj then some "written-json-file-fails-builtin-schema"
         else if bad fy then some "written-yaml-file-fails-builtin-schema"
         else if bad rv then some "schema-validator-rejects-loadable-spec"
         else if bad wv then some "schema-validator-rejects-writable-spec"
         else none)
      else none
    pure (Driver.verdict agree judge (Json.bool m)
      [if libValid then "lib-valid" else "lib-invalid", if inRange then "in-range" else "out-of-range",
       if m then "schema-valid" else "schema-invalid"])
  | "firstuse" =>
    -- fresh processes in which many goroutines validate an invalid document at once as their very first use of the
    -- builtin schema: the schema is one fixed value (`Generated.builtinSchema`), there is no state in which it is
    -- "not there yet", so every one of those validations rejects
    let accepted ← getNat obs "accepted"
    let ran ← getNat obs "ran"
    let judge : Option String := if accepted == 0 then none else some "invalid-document-accepted-at-first-use-of-the-builtin-schema"
    pure (verdict (accepted == 0) judge (Json.num 0) [if ran == 0 then "firstuse-not-run" else "firstuse"])
  | _ => throw s!"schema: unknown op {op}"

end Driver.Schema
