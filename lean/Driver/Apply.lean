import Driver.SpecProto
import CdiModel.ApplySpec
open Lean Cdi Cdi.Apply
namespace Driver.Apply
open Driver.SpecProto

def readLinuxDevice (j : Json) : Except String LinuxDevice := do
  pure { path := ← strD j "path", type := ← strD j "type", major := ← intD j "major", minor := ← intD j "minor",
         fileMode := ← optNat j "fileMode", uid := ← optNat j "uid", gid := ← optNat j "gid" }

def readRule (j : Json) : Except String DevRule := do
  pure { allow := boolD j "allow", type := ← strD j "type", major := ← optInt j "major", minor := ← optInt j "minor",
         access := ← strD j "access" }

def readOMount (j : Json) : Except String OMount := do
  pure { destination := ← strD j "destination", type := ← strD j "type", source := ← strD j "source",
         options := ← strListD j "options" }

def readOHook (j : Json) : Except String OHook := do
  pure { path := ← strD j "path", args := ← strListD j "args", env := ← strListD j "env", timeout := ← optInt j "timeout" }

def listOf {α} (f : Json → Except String α) (j : Json) (k : String) : Except String (List α) :=
  match optField j k with
  | none => pure []
  | some v => do let a ← v.getArr?; a.toList.mapM f

def readOci (j : Json) : Except String Oci := do
  let gids ← listOf (·.getNat?) j "addGids"
  let rdt ← match optField j "rdt" with
    | none => pure none
    | some v => do pure (some (← readRdt v))
  pure { hasProcess := boolD j "hasProcess", env := ← strListD j "env", uid := (← optNat j "uid").getD 0,
         gid := (← optNat j "gid").getD 0, addGids := gids, devices := ← listOf readLinuxDevice j "devices",
         rules := ← listOf readRule j "rules", rdt := rdt, mounts := ← listOf readOMount j "mounts",
         prestart := ← listOf readOHook j "prestart", createRuntime := ← listOf readOHook j "createRuntime",
         createContainer := ← listOf readOHook j "createContainer", startContainer := ← listOf readOHook j "startContainer",
         poststart := ← listOf readOHook j "poststart", poststop := ← listOf readOHook j "poststop" }

def readHost (j : Json) : Except String (Str → Option HostNode) := do
  let a ← getArr j "host"
  let l ← a.toList.mapM fun e => do
    let p ← getStr e "path"
    let k ← (← e.getObjVal? "kind").getStr?
    let n : HostNode ← match k with
      | "other" => pure HostNode.other
      | _ => do pure (HostNode.dev (lit k) (← intD e "major") (← intD e "minor"))
    pure (p, n)
  pure (fun p => lookup p l)

def handle : Handler := fun j => do
  let obs ← getObj j "obs"
  let e ← readEdits (← getObj j "edits")
  let o ← readOci (← getObj j "oci")
  let host ← readHost j
  let p ← getBool obs "panic"
  let err ← getBool obs "err"
  let r ← if p || err then pure ({} : Oci) else readOci (← getObj obs "result")
  let frame := getBoolD obs "frame" true
  let m := apply host e o
  -- the model creates the process section lazily exactly like the code; compare only content
  let agree := match m with
    | .ok mo => !p && !err && { mo with hasProcess := false } == { r with hasProcess := false }
    | .err => !p && err
    | .panic => p
  let judge := judgeApply host e o ⟨err, p, r, frame⟩
  let tags :=
    (if e.env != [] then ["env"] else []) ++ (if e.deviceNodes != [] then ["nodes"] else []) ++
    (if e.mounts != [] then ["mounts"] else []) ++ (if e.hooks != [] then ["hooks"] else []) ++
    (if e.intelRdt.isSome then ["rdt"] else []) ++ (if e.additionalGids != [] then ["gids"] else []) ++
    (if WFOci o then [] else ["non-wf-oci"]) ++
    (match m with | .ok _ => ["applied"] | .err => ["apply-error"] | .panic => ["apply-panic"]) ++
    (if o.devices.any (fun d => e.deviceNodes.any (fun n => match n with | some n => n.path == d.path | none => false))
      then ["replaces-device"] else []) ++
    (if o.mounts.any (fun d => e.mounts.any (fun n => match n with | some n => n.containerPath == d.destination | none => false))
      then ["replaces-mount"] else []) ++
    (if o.hasProcess && (o.uid > 0 || o.gid > 0) then ["uidgid-default"] else [])
  pure (verdict agree judge (Json.str (match m with | .ok _ => "ok" | .err => "err" | .panic => "panic")) tags)

end Driver.Apply
