import Driver.SpecProto
import CdiModel.SpecWF
open Lean Cdi Cdi.Version
namespace Driver.Version

def featureTags (s : Spec) : List String :=
  (if SpecWF.usesMountType s then ["f-mounttype"] else []) ++
  (if SpecWF.usesHostPath s then ["f-hostpath"] else []) ++
  (if SpecWF.usesDigitName s then ["f-digitname"] else []) ++
  (if SpecWF.usesAnnotations s then ["f-annotations"] else []) ++
  (if SpecWF.usesDottedClass s then ["f-dottedclass"] else []) ++
  (if SpecWF.usesRdtOrGids s then ["f-rdt-gids"] else []) ++
  [s!"devices{min s.devices.length 4}"]

def handle : Handler := fun j => do
  let op ← (← j.getObjVal? "op").getStr?
  let obs ← getObj j "obs"
  let s ← SpecProto.readSpec (← getObj j "spec")
  let p ← getBool obs "panic"
  match op with
  | "minver" =>
    let ov ← getStr obs "v"
    let m := minimumRequiredVersion s
    let (mp, mv) := match m with | .ok v => (false, v) | _ => (true, [])
    pure (verdict (p == mp && (p || ov == mv)) (SpecWF.judgeMinVersion s p ov)
      (Json.mkObj [("panic", mp), ("v", Driver.hex mv)]) (featureTags s))
  | "validver" =>
    let ook ← getBool obs "ok"
    let m := validateVersion s
    let (mp, mok) := match m with | .ok b => (false, b) | _ => (true, false)
    let judge : Option String :=
      if p then some "panic"
      else if ook == SpecWF.versionValid s then none
      else some (if ook then "accepted-version-invalid-spec" else "rejected-version-valid-spec")
    pure (verdict (p == mp && (p || ook == mok)) judge (Json.mkObj [("panic", mp), ("ok", mok)])
      (featureTags s ++ [if SpecWF.versionValid s then "version-valid" else "version-invalid"]))
  | _ => throw s!"version: unknown op {op}"

end Driver.Version
