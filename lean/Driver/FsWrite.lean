import Driver.Common
import CdiModel.FsWrite
open Lean Cdi Cdi.FsWrite
namespace Driver.FsWrite

def readEntries (j : Json) (k : String) : Except String (List (Str × Str)) := do
  let a ← getArr j k
  a.toList.mapM fun e => do pure (← getStr e "name", ← getStr e "content")

def readOp (j : Json) : Except String Op := do
  let k ← (← j.getObjVal? "op").getStr?
  match k with
  | "createTemp" => pure (.createTemp (← getStr j "name"))
  | "append" => pure (.append (← getStr j "name") (← getStr j "bytes"))
  | "rename" => pure (.rename (← getStr j "src") (← getStr j "dst"))
  | "remove" => pure (.remove (← getStr j "name"))
  | _ => throw s!"fswrite: unknown fs op {k}"

/-- directory listing of a model FS -/
def listing (fs : FS) : List (Str × Str) :=
  fs.names.filterMap (fun p => (fs.content p.2).map (fun c => (p.1, c)))

def fsOf (entries : List (Str × Str)) : FS :=
  let idx := entries.zipIdx
  { names := idx.map (fun p => (p.1.1, p.2)), data := idx.map (fun p => (p.2, p.1.2)), next := entries.length }

def sameListing (a b : List (Str × Str)) : Bool :=
  a.length == b.length && a.all (fun e => lookup e.1 b == some e.2)

def handle : Handler := fun j => do
  let op ← (← j.getObjVal? "op").getStr?
  let obs ← getObj j "obs"
  if op == "twowriters" then
    -- two writers of different names are independent in the model: each file holds its own writer's content
    let a ← (← obs.getObjVal? "a").getStr?
    let b ← (← obs.getObjVal? "b").getStr?
    let inter ← getBool obs "interleaved"
    let judge : Option String :=
      if a != "equal" then some s!"first-writer-file-{a}-after-interleaved-write"
      else if b != "equal" then some s!"second-writer-file-{b}-after-interleaved-write" else none
    return verdict judge.isNone judge Json.null [if inter then "writers-interleaved" else "writers-not-interleaved"]
  if op == "mountpoint" then
    -- rename onto a mount point fails (`Fault.renameFails`): the model leaves the previous content and reports the error
    let err ← getBool obs "err"
    let status ← (← obs.getObjVal? "status").getStr?
    let judge : Option String :=
      if status == "partial" then some "spec-named-file-with-partial-or-foreign-content"
      else if !err && status != "new" then some "write-reported-success-but-target-lacks-new-content" else none
    return verdict ((err && status == "previous") || (!err && status == "new")) judge Json.null
      [if getBoolD obs "skipped" false then "mount-namespace-unavailable" else "target-is-a-mount-point"]
  let before ← readEntries j "before"
  let dst ← getStr j "dst"
  let new ← getStr j "new"
  let admissible : Str → List Str := fun n =>
    (match lookup n before with | some c => [c] | none => []) ++ (if n == dst then [new] else [])
  let fs0 := fsOf before
  match op with
  | "trace" =>
    -- the writer's file-system operations as observed with strace
    let ops ← (← getArr obs "ops").toList.mapM readOp
    let tmp := match ops with | (.createTemp t) :: _ => t | _ => []
    let ok ← getBool obs "ok"
    -- agreement: the observed sequence is one of the model's sequences
    let cands : List (List Op) :=
      [writerOps tmp dst new .none, writerOps tmp dst new .renameFails, writerOps tmp dst new .createFails] ++
      (List.range (new.length + 1)).map (fun k => writerOps tmp dst new (.writeFailsAfter k))
    -- consecutive appends are one write in the model
    let merged := ops.foldl (fun acc o => match acc.getLast?, o with
      | some (.append n b), .append n' b' => if n == n' then acc.dropLast ++ [.append n (b ++ b')] else acc ++ [o]
      | _, _ => acc ++ [o]) []
    let agree := cands.contains merged && (tmp == [] || (!isSpecName tmp && tmp == tempNameOf tmpPattern ((tmp.drop 5).take (tmp.length - 9))))
    -- judge: replay the *observed* operations on the model FS; after every one of them the directory is publishable
    let states := (List.range (ops.length + 1)).map (fun k => run fs0 (ops.take k))
    let bad := states.findSome? (fun st => pubOK admissible (listing st))
    let judge := if bad.isSome then bad
      else if ok && (run fs0 ops).read dst != some new then some "write-reported-success-but-target-lacks-new-content"
      else none
    pure (verdict agree judge (Json.null) [s!"ops{ops.length}", if ok then "write-ok" else "write-failed"])
  | "crash" | "fsize" | "snapshot" =>
    -- the directory as found after a kill / failure / at some instant
    let entries ← readEntries obs "entries"
    let point ← (← j.getObjVal? "point").getStr?
    let judge := pubOK admissible entries
    -- model state at that point (temp names differ: compare Spec-named entries only)
    let tmp : Str := lit "spec.0.tmp"
    let prefixLen : Nat := match point with
      | "marshalled" => 0 | "created" => 1 | "written" => 2 | "closed" => 2 | "renamed" => 3 | "done" => 3 | _ => 0
    let fault : Fault := if op == "fsize" then
        (match (j.getObjVal? "limit") with | .ok l => .writeFailsAfter ((l.getNat?.toOption).getD 0) | _ => .none)
      else .none
    let mstate := run fs0 ((writerOps tmp dst new fault).take prefixLen)
    let specOnly (l : List (Str × Str)) := l.filter (fun e => isSpecName e.1)
    let agree := op == "snapshot" || sameListing (specOnly (listing mstate)) (specOnly entries)
    let leftovers := entries.filter (fun e => !isSpecName e.1 && (lookup e.1 before).isNone)
    pure (verdict agree judge (Json.null)
      [s!"point-{point}", if leftovers != [] then "temp-left-behind" else "no-temp",
       if (lookup dst before).isSome then "overwrite" else "fresh-target"])
  | _ => throw s!"fswrite: unknown op {op}"

end Driver.FsWrite
