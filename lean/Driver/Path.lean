import Driver.Common
import CdiModel.Path
open Lean Cdi
namespace Driver.Path

def handle : Handler := fun j => do
  let op ← (← j.getObjVal? "op").getStr?
  let obs ← getObj j "obs"
  let o ← getStr obs "s"
  let p ← getStr j "p"
  let m ← match op with
    | "clean" => pure (Cdi.Path.clean p)
    | "base" => pure (Cdi.Path.base p)
    | "dir" => pure (Cdi.Path.dir p)
    | "ext" => pure (Cdi.Path.ext p)
    | "join" => do let q ← getStr j "q"; pure (Cdi.Path.join2 p q)
    | "depth" => pure (Cdi.lit (toString (Cdi.Path.mountDepth p)))
    | _ => throw s!"path: unknown op {op}"
  pure (verdict (m == o) (if m == o then none else some ("filepath-" ++ op)) (Driver.hex m)
    [if Cdi.Path.clean p == p then "clean-path" else "unclean-path"])

end Driver.Path
