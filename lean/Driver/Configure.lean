import Driver.Common
import CdiModel.Configure
open Lean Cdi Cdi.Configure
namespace Driver.Configure

def parseOpt (root : String) (j : Json) : Except String Opt := do
  match j.getObjVal? "auto" with
  | .ok b => pure (.autoRefresh (← b.getBool?))
  | .error _ =>
    -- no "dirs" member, null or [] all denote WithSpecDirs() with no directory
    let ds : List String := match j.getObjVal? "dirs" with
      | .ok (.arr a) => a.toList.filterMap (fun (x : Json) => x.getStr?.toOption)
      | _ => []
    pure (.specDirs (ds.map fun d => (root ++ "/" ++ d).toUTF8.toList))

def endsWith (s suffix : Str) : Bool := (s.drop (s.length - suffix.length)) == suffix

def envAt (short : Bool) : Env := ⟨fun d => !endsWith d (lit "missing"), if short then 0 else 1000⟩

def getRes (j : Json) (k : String) : Except String (Int × Int × Int × Int) := do
  let o ← getObj j k
  pure (← getInt o "fds", ← getInt o "inotify", ← getInt o "watches", ← getInt o "goroutines")

def handle : Handler := fun j => do
  let op ← (← j.getObjVal? "op").getStr?
  let obs ← getObj j "obs"
  let p ← getBool obs "panic"
  match op with
  | "reconf" =>
    let root ← (← j.getObjVal? "root").getStr?
    let shortage ← getInt j "shortage"
    let hist ← (← getArr j "hist").toList.mapM fun st => do
      match st.getArr? with
      | .ok a => (a.toList.filter (fun o => (o.getObjVal? "fs").toOption.isNone)).mapM (parseOpt root)
      | .error e => throw e
    let init := newCache (envAt false) [.specDirs [(root ++ "/P0").toUTF8.toList]]
    let (final, _) := hist.foldl (fun (acc : CState × Int) os =>
      (Configure (envAt (acc.2 == shortage)) acc.1 os, acc.2 + 1)) (init, 0)
    let same ← getBool obs "sameasfresh"
    let target ← getRes obs "target"
    let fresh ← getRes obs "fresh"
    let leak ← getRes obs "leak"
    let active ← getBool obs "autoactive"
    let dropped ← getBool obs "reactstodropped"
    let hasExisting ← getBool obs "hasexisting"
    let visible := getBoolD obs "visibleafterrefresh" true
    let (tFds, tInot, tWatches, tGor) := target
    -- the shortage hit the last Configure call of the history (file-system steps after it do not reconfigure)
    let lastCfg : Int := ((List.range hist.length).filter (fun i => hist.getD i [] != [])).getLast?.map Int.ofNat |>.getD (-1)
    let shortLast := shortage ≥ 0 && shortage == lastCfg
    -- after the history the harness queries the cache (in manual mode after a shortage at the last
    -- step it refreshes explicitly first), descriptors being available again
    let afterQueries := if shortLast && !final.fields.auto then refresh (envAt false) final else query (envAt false) final
    -- the model's resources: one inotify instance with its descriptors, its reader goroutine and the
    -- cache's watch goroutine; and the model's answer to "same as a fresh cache"
    let agree := tInot == final.res.watchers && tWatches == final.res.watches &&
      tGor == 2 * final.res.watchers && tFds == watcherCost * final.res.watchers && same == !afterQueries.stale
    -- does the final state see new Specs by itself? a live watcher or the nil-watcher rescans
    let modelActive := final.fields.auto
    let judge : Option String :=
      if p then some "panic"
      else if !same then some "differs-from-fresh-cache"
      else if leak != (0, 0, 0, 0) then some "resources-left-behind-after-stop"
      else if !shortLast && target != fresh then some "holds-different-resources-than-a-fresh-cache"
      else if tInot > 1 then some "more-than-one-watcher"
      else if dropped then some "reacts-to-a-dropped-directory"
      else if hasExisting && active != modelActive then
        some (if modelActive then "auto-refresh-enabled-but-inactive" else "auto-refresh-disabled-but-active")
      else if hasExisting && !active && !visible then some "explicit-refresh-does-not-see-the-final-directories"
      else if getBoolD obs "late" false && !getBoolD obs "lateseen" true then
        some "directory-created-after-the-configuration-is-not-picked-up"
      else if !getBoolD obs "inplaceseen" true then some "spec-file-rewritten-in-place-is-not-picked-up"
      else none
    pure (verdict agree judge
      (Json.mkObj [("watchers", final.res.watchers), ("watches", final.res.watches), ("auto", final.fields.auto)])
      ([s!"len{min hist.length 8}", s!"auto-{final.fields.auto}", s!"watches{final.res.watches}"] ++
       (if shortage ≥ 0 then [if shortLast then "descriptor-shortage-at-last-step" else "descriptor-shortage-midway"] else []) ++
       (if final.stale then ["scan-failed-in-shortage"] else []) ++
       (if shortLast && final.watcherLive then ["watcher-reused-released-descriptors"] else []) ++
       (if shortLast && final.fields.auto && !final.watcherLive then ["nil-watcher"] else []) ++
       (if getBoolD obs "late" false then ["directory-created-afterwards"] else []) ++
       (if hist.any (· == []) then ["file-system-change-between-steps"] else []) ++
       (if hist.length ≥ 100 then ["long-history"] else [])))
  | "defaultapi" =>
    let same ← getBool obs "sameasfresh"
    let judge : Option String := if p then some "panic" else if same then none
      else some "package-level-function-differs-from-the-method-of-an-explicit-cache"
    pure (verdict true judge Json.null ["default-cache-functions"])
  | "default" =>
    let same ← getBool obs "sameasfresh"
    let mode ← (← j.getObjVal? "mode").getStr?
    let judge : Option String := if p then some "panic" else if same then none else some "default-cache-differs-from-fresh-cache"
    pure (verdict true judge (Json.str mode) [s!"default-{mode}"])
  | _ => throw s!"reconf: unknown op {op}"

end Driver.Configure
