import Driver.Common
import CdiModel.AnnotationsSpec
open Lean Cdi Cdi.Annotations
namespace Driver.Annotations

def getMap (j : Json) (k : String) : Except String (List (Str × Str)) := do
  let a ← getArr j k
  a.toList.mapM fun e => do
    pure (← getStr e "k", ← getStr e "v")

def mapJson (m : List (Str × Str)) : Json :=
  Json.arr (m.map (fun kv => Json.mkObj [("k", Driver.hex kv.1), ("v", Driver.hex kv.2)])).toArray

def handle : Handler := fun j => do
  let op ← (← j.getObjVal? "op").getStr?
  let obs ← getObj j "obs"
  match op with
  | "key" =>
    let plugin ← getStr j "plugin"; let dev ← getStr j "dev"
    let p ← getBool obs "panic"; let ok ← getBool obs "ok"; let k ← getStr obs "key"
    let m := annotationKey plugin dev
    let (mp, mok, mk) := match m with
      | .ok (some k) => (false, true, k) | .ok none => (false, false, []) | _ => (true, false, [])
    let agree := p == mp && ok == mok && (!ok || k == mk)
    let judge : Option String :=
      if p then some "panic"
      else if ok && !(hasPrefix annotationPrefix k && legalKey k) then some "key-not-a-legal-k8s-annotation-key"
      else none
    pure (verdict agree judge (Json.mkObj [("panic", mp), ("ok", mok), ("key", Driver.hex mk)])
      [if mok then "key-ok" else "key-error", s!"len{min (plugin.length + dev.length + 1) 70 / 8}"])
  | "value" =>
    let devices ← getStrList j "devices"
    let p ← getBool obs "panic"; let ok ← getBool obs "ok"; let v ← getStr obs "value"
    let m := annotationValue devices
    let (mp, mok, mv) := match m with
      | .ok (some v) => (false, true, v) | .ok none => (false, false, []) | _ => (true, false, [])
    let agree := p == mp && ok == mok && (!ok || v == mv)
    let judge : Option String :=
      if p then some "panic"
      else if ok && devices ≠ [] && valueDevices v != some devices then some "value-does-not-parse-back"
      else if !ok && devices.all Parser.qualifiedB then some "rejected-qualified-devices"
      else none
    pure (verdict agree judge (Json.mkObj [("panic", mp), ("ok", mok), ("value", Driver.hex mv)])
      [if mok then "value-ok" else "value-error"])
  | "update" =>
    let ann ← getMap j "ann"
    let plugin ← getStr j "plugin"; let dev ← getStr j "dev"
    let devices ← getStrList j "devices"
    let o : UpdateObs := ⟨← getBool obs "panic", ← getBool obs "ok", ← getMap obs "result"⟩
    let m := updateAnnotations ann plugin dev devices
    let (mp, mok, mres) := match m with
      | .ok r => (false, r.ok, r.annotations) | _ => (true, false, [])
    let agree := o.panic == mp && o.ok == mok && (mp || sameMap mres o.result)
    pure (verdict agree (judgeUpdate ann devices o)
      (Json.mkObj [("panic", mp), ("ok", mok), ("result", mapJson mres)])
      [if mok then "update-ok" else "update-error", if ann == [] then "empty-map" else "populated-map"])
  | "parse" =>
    let entries ← getMap j "entries"
    let o : ParseObs := ⟨← getBool obs "panic", ← getBool obs "ok", ← getStrList obs "keys", ← getStrList obs "devices"⟩
    -- the model visits the entries in the order the real iteration returned the CDI keys
    let ordered := (o.keys.filterMap (fun k => (lookup k entries).map (fun v => (k, v)))) ++
      entries.filter (fun kv => !o.keys.contains kv.1)
    let m := parseAnnotations ordered
    let (mp, mok, mk, md) := match m with
      | .ok r => (false, r.ok, r.keys, r.devices) | _ => (true, false, [], [])
    let agree := o.panic == mp && o.ok == mok && (mp || (sortStrs mk == sortStrs o.keys && (o.ok == false || md == o.devices)))
    pure (verdict agree (judgeParse entries o)
      (Json.mkObj [("panic", mp), ("ok", mok), ("keys", hexList mk), ("devices", hexList md)])
      [if mok then "parse-ok" else "parse-error"])
  | _ => throw s!"annot: unknown op {op}"

end Driver.Annotations
