/-
  cdidriver — line-protocol driver of the executable model.
  Input: one JSON object per line with fields "stream", "op", inputs and "obs"
  (the implementation's observed outcome).  Output: one verdict per line:
  {"agree":…, "judge":"ok"|"<violated clause>", "model":…, "tags":[…]}.
-/
import Driver.Common
import Driver.Parser
import Driver.Path
import Driver.Annotations
import Driver.Names
import Driver.Version
import Driver.Validate
import Driver.Cache
import Driver.Apply
import Driver.Purity
import Driver.Schema
import Driver.FsWrite
import Driver.Codec
import Driver.Cli
import Driver.Watch
import Driver.Configure
import Driver.Race
import Driver.Crash
open Lean

def dispatch (j : Json) : Except String Json := do
  let stream ← (← j.getObjVal? "stream").getStr?
  match stream with
  | "parser" => Driver.Parser.handle j
  | "path" => Driver.Path.handle j
  | "annot" => Driver.Annotations.handle j
  | "names" => Driver.Names.handle j
  | "version" => Driver.Version.handle j
  | "validate" => Driver.Validate.handle j
  | "cache" => Driver.Cache.handle j
  | "apply" => Driver.Apply.handle j
  | "purity" => Driver.Purity.handle j
  | "schema" => Driver.Schema.handle j
  | "fswrite" => Driver.FsWrite.handle j
  | "codec" => Driver.Codec.handle j
  | "cli" => Driver.Cli.handle j
  | "watch" => Driver.Watch.handle j
  | "reconf" => Driver.Configure.handle j
  | "defaultapi" => Driver.Configure.handle j
  | "race" => Driver.Race.handle j
  | "crash" => Driver.Crash.handle j
  | _ => throw s!"unknown stream {stream}"

/-- Redundant entry points (deprecated wrappers, accessors, package-level forms of methods) are not
modelled one by one: the model's statement about them is that they agree with the primary entry point
it does model.  The harness compares them in-process and lists every discrepancy in `obs.aux`; a
non-empty list is a disagreement with the model and a failure of the clause `api-consistency`. -/
def auxFailure (j : Json) : Option String :=
  match j.getObjVal? "obs" with
  | .ok obs => match obs.getObjVal? "aux" with
    | .ok (Json.arr a) => match a.toList with
      | (Json.str s) :: _ => some s
      | _ :: _ => some "?"
      | [] => none
    | _ => none
  | _ => none

def withAux (j : Json) (v : Json) : Json :=
  match auxFailure j with
  | none => v
  | some what =>
    let judge := match v.getObjVal? "judge" with
      | .ok (Json.str "ok") => Json.str s!"api-consistency: {what}"
      | .ok x => x
      | _ => Json.str s!"api-consistency: {what}"
    (v.setObjVal! "agree" (Json.bool false)).setObjVal! "judge" judge

partial def loop (hin hout : IO.FS.Stream) : IO Unit := do
  let line ← hin.getLine
  if line.isEmpty then return ()
  let out :=
    match Json.parse line with
    | .error e => Json.mkObj [("error", Json.str s!"parse: {e}")]
    | .ok j =>
      match dispatch j with
      | .ok v => withAux j v
      | .error e => Json.mkObj [("error", Json.str e)]
  hout.putStrLn out.compress
  loop hin hout

def main : IO Unit := do
  let hin ← IO.getStdin
  let hout ← IO.getStdout
  loop hin hout
  hout.flush
