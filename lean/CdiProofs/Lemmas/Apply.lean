import CdiModel.ApplySpec
namespace Cdi.Apply
open Cdi

/-! ### removeFirst / replaceOrAppend on lists with unique keys -/

theorem removeFirst_of_not_mem {α} (p : α → Bool) : ∀ (l : List α), (∀ x ∈ l, p x = false) → removeFirst p l = l := by
  intro l
  induction l with
  | nil => intro _; rfl
  | cons x rest ih =>
    intro h
    simp only [removeFirst, h x (by simp), Bool.false_eq_true, if_false]
    rw [ih (fun y hy => h y (by simp [hy]))]

/-- with pairwise distinct keys, removing the first match is removing all matches -/
theorem removeFirst_eq_filter {α β} [BEq β] [LawfulBEq β] (key : α → β) (k : β) : ∀ (l : List α),
    (l.map key).Nodup → removeFirst (fun x => key x == k) l = l.filter (fun x => !(key x == k)) := by
  intro l
  induction l with
  | nil => intro _; rfl
  | cons x rest ih =>
    intro hnd
    simp only [List.map_cons, List.nodup_cons] at hnd
    by_cases hk : key x = k
    · have hb : (key x == k) = true := by simp [hk]
      simp only [removeFirst, hb, if_true, List.filter_cons, Bool.not_true, Bool.false_eq_true, if_false]
      have : ∀ y ∈ rest, (!(key y == k)) = true := by
        intro y hy
        have : key y ≠ k := by
          intro e; apply hnd.1; rw [hk, ← e]; exact List.mem_map_of_mem hy
        simp [this]
      exact (List.filter_eq_self.mpr this).symm
    · have hb : (key x == k) = false := by simp [hk]
      simp only [removeFirst, hb, Bool.false_eq_true, if_false, List.filter_cons, Bool.not_false, if_true]
      rw [ih hnd.2]

theorem replaceOrAppend_of_not_mem (dev : LinuxDevice) : ∀ (l : List LinuxDevice),
    (∀ x ∈ l, x.path ≠ dev.path) → replaceOrAppend dev l = l ++ [dev] := by
  intro l
  induction l with
  | nil => intro _; rfl
  | cons x rest ih =>
    intro h
    simp only [replaceOrAppend, h x (by simp), if_false, List.cons_append]
    rw [ih (fun y hy => h y (by simp [hy]))]

/-- `putDevice` on a list with unique paths: drop the device at that path, append the new one -/
theorem putDevice_eq (devices : List LinuxDevice) (dev : LinuxDevice) (hnd : (devices.map (·.path)).Nodup) :
    putDevice devices dev = devices.filter (fun x => !(x.path == dev.path)) ++ [dev] := by
  unfold putDevice
  have := removeFirst_eq_filter (fun x : LinuxDevice => x.path) dev.path devices hnd
  rw [this]
  apply replaceOrAppend_of_not_mem
  intro x hx
  simp only [List.mem_filter, Bool.not_eq_true', beq_eq_false_iff_ne, ne_eq] at hx
  exact hx.2

theorem nodup_put {α β} [BEq β] [LawfulBEq β] (key : α → β) (l : List α) (x : α) (hnd : (l.map key).Nodup) :
    ((l.filter (fun y => !(key y == key x)) ++ [x]).map key).Nodup := by
  rw [List.map_append, List.nodup_append]
  refine ⟨(hnd.sublist ((List.filter_sublist).map key)), by simp, ?_⟩
  intro a ha b hb
  simp only [List.map_cons, List.map_nil, List.mem_singleton] at hb
  subst hb
  simp only [List.mem_map, List.mem_filter, Bool.not_eq_true', beq_eq_false_iff_ne, ne_eq] at ha
  obtain ⟨y, ⟨_, hy⟩, rfl⟩ := ha
  exact hy

/-! ### "filter then append" folds compute `filter ++ lastOcc` -/

def putKey {α β} [BEq β] (key : α → β) (l : List α) (x : α) : List α :=
  l.filter (fun y => !(key y == key x)) ++ [x]

theorem foldl_putKey {α β} [BEq β] [LawfulBEq β] (key : α → β) : ∀ (news init : List α),
    news.foldl (putKey key) init =
      init.filter (fun y => !news.any (fun x => key x == key y)) ++ lastOcc key news := by
  intro news
  induction news with
  | nil =>
    intro init
    simp only [List.foldl_nil, List.any_nil, Bool.not_false, lastOcc, List.append_nil]
    exact (List.filter_eq_self.mpr (fun _ _ => rfl)).symm
  | cons x rest ih =>
    intro init
    simp only [List.foldl_cons, ih, putKey, List.filter_append, lastOcc, List.any_cons]
    have hA : (init.filter (fun y => !(key y == key x))).filter (fun y => !rest.any (fun z => key z == key y)) =
        init.filter (fun y => !(key x == key y || rest.any (fun z => key z == key y))) := by
      rw [List.filter_filter]
      apply List.filter_congr
      intro y _
      have : (key y == key x) = (key x == key y) := by
        apply Bool.eq_iff_iff.mpr; simp only [beq_iff_eq]; exact ⟨Eq.symm, Eq.symm⟩
      rw [this]; cases (key x == key y) <;> cases rest.any (fun z => key z == key y) <;> rfl
    rw [hA, List.append_assoc]
    congr 1
    by_cases hx : rest.any (fun y => key y == key x) = true
    · simp [hx, List.filter_cons]
    · simp only [Bool.not_eq_true] at hx
      simp [hx, List.filter_cons]

/-! ### stable insertion sort -/

theorem insertByKey_filter {α} (key : α → Nat) (x : α) (k : Nat) : ∀ (l : List α),
    sortedBy key l = true →
    (insertByKey key x l).filter (fun m => key m == k) =
      l.filter (fun m => key m == k) ++ (if key x == k then [x] else []) := by
  intro l
  induction l with
  | nil => intro _; simp only [insertByKey, List.filter_cons, List.filter_nil, List.nil_append]
  | cons y rest ih =>
    intro hs
    have hs' : sortedBy key rest = true := by
      cases rest with
      | nil => rfl
      | cons z r => simp only [sortedBy, Bool.and_eq_true] at hs; exact hs.2
    unfold insertByKey
    by_cases hle : key y ≤ key x
    · simp only [hle, if_true, List.filter_cons]
      rw [ih hs']
      split <;> simp
    · simp only [hle, if_false]
      -- x goes in front of y: every element of y :: rest has a key > key x, so none equals key x
      have hall : ∀ z ∈ y :: rest, key x < key z := by
        have hy : key x < key y := by omega
        have : ∀ (l : List α) (a : α), sortedBy key (a :: l) = true → ∀ z ∈ l, key a ≤ key z := by
          intro l
          induction l with
          | nil => intro a _ z hz; cases hz
          | cons b r ihr =>
            intro a hsab z hz
            simp only [sortedBy, Bool.and_eq_true, decide_eq_true_eq] at hsab
            rcases List.mem_cons.mp hz with rfl | hz
            · exact hsab.1
            · exact Nat.le_trans hsab.1 (ihr b hsab.2 z hz)
        intro z hz
        rcases List.mem_cons.mp hz with rfl | hz
        · exact hy
        · exact Nat.lt_of_lt_of_le hy (this rest y hs z hz)
      by_cases hk : key x = k
      · have hb : (key x == k) = true := by simp [hk]
        have hnone : (y :: rest).filter (fun m => key m == k) = [] := by
          apply List.filter_eq_nil_iff.mpr
          intro z hz
          have := hall z hz
          simp; omega
        simp only [List.filter_cons, hb, if_true]
        rw [List.filter_cons] at hnone
        rw [hnone]; simp
      · have hb : (key x == k) = false := by simp [hk]
        simp only [List.filter_cons, hb, Bool.false_eq_true, if_false, List.append_nil]

theorem insertByKey_sorted {α} (key : α → Nat) (x : α) : ∀ (l : List α),
    sortedBy key l = true → sortedBy key (insertByKey key x l) = true := by
  intro l
  induction l with
  | nil => intro _; rfl
  | cons y rest ih =>
    intro hs
    have hs' : sortedBy key rest = true := by
      cases rest with
      | nil => rfl
      | cons z r => simp only [sortedBy, Bool.and_eq_true] at hs; exact hs.2
    unfold insertByKey
    by_cases hle : key y ≤ key x
    · simp only [hle, if_true]
      have ih' := ih hs'
      cases rest with
      | nil => simp [insertByKey, sortedBy, hle]
      | cons z r =>
        simp only [sortedBy, Bool.and_eq_true, decide_eq_true_eq] at hs
        unfold insertByKey at ih' ⊢
        by_cases hzx : key z ≤ key x
        · simp only [hzx, if_true] at ih' ⊢
          simp only [sortedBy, Bool.and_eq_true, decide_eq_true_eq]
          exact ⟨hs.1, ih'⟩
        · simp only [hzx, if_false] at ih' ⊢
          simp only [sortedBy, Bool.and_eq_true, decide_eq_true_eq] at ih' ⊢
          exact ⟨hle, ih'⟩
    · simp only [hle, if_false]
      simp only [sortedBy, Bool.and_eq_true, decide_eq_true_eq]
      exact ⟨by omega, hs⟩

theorem stableSort_inv {α} (key : α → Nat) : ∀ (l acc : List α), sortedBy key acc = true →
    sortedBy key (l.foldl (fun acc x => insertByKey key x acc) acc) = true ∧
    ∀ k, (l.foldl (fun acc x => insertByKey key x acc) acc).filter (fun m => key m == k) =
      acc.filter (fun m => key m == k) ++ l.filter (fun m => key m == k) := by
  intro l
  induction l with
  | nil => intro acc h; exact ⟨h, fun k => by simp⟩
  | cons x rest ih =>
    intro acc h
    simp only [List.foldl_cons]
    obtain ⟨h1, h2⟩ := ih (insertByKey key x acc) (insertByKey_sorted key x acc h)
    refine ⟨h1, fun k => ?_⟩
    rw [h2 k, insertByKey_filter key x k acc h, List.filter_cons]
    split <;> simp

/-- **stable sort**: the result is ordered by the key and, for every key value, the
elements with that key appear exactly as in the input (same elements, same order). -/
theorem stableSortBy_spec {α} (key : α → Nat) (l : List α) :
    sortedBy key (stableSortBy key l) = true ∧
    ∀ k, (stableSortBy key l).filter (fun m => key m == k) = l.filter (fun m => key m == k) := by
  obtain ⟨h1, h2⟩ := stableSort_inv key l [] rfl
  exact ⟨h1, fun k => by rw [stableSortBy, h2 k]; simp⟩

end Cdi.Apply

namespace Cdi.Apply
open Cdi

/-! ### the device-node loop -/

theorem foldl_putDevice : ∀ (devs init : List LinuxDevice), (init.map (·.path)).Nodup →
    devs.foldl putDevice init = devs.foldl (putKey (·.path)) init := by
  intro devs
  induction devs with
  | nil => intro init _; rfl
  | cons d rest ih =>
    intro init hnd
    simp only [List.foldl_cons]
    rw [putDevice_eq init d hnd]
    exact ih _ (nodup_put (·.path) init d hnd)

/-- the rules appended by the node loop -/
def rulesOf (o : Oci) (orig filled : List DeviceNode) : List DevRule :=
  (orig.zip filled).flatMap (fun p => ruleFor (nodeToOci o p.2) p.1.permissions)

theorem fill_no_panic (host : Str → Option HostNode) (d : DeviceNode) : fillMissingInfo host d ≠ .panic := by
  unfold fillMissingInfo fillFromHost
  split
  · simp
  · split
    · simp
    · simp
    · split <;> simp

theorem applyNodes_eq (host : Str → Option HostNode) (o : Oci) : ∀ (nodes : List DeviceNode)
    (st : List LinuxDevice × List DevRule),
    applyNodes host o (nodes.map some) st =
      match filledNodes host (nodes.map some) with
      | none => .err
      | some filled =>
        .ok ((filled.map (nodeToOci o)).foldl putDevice st.1, st.2 ++ rulesOf o nodes filled) := by
  intro nodes
  induction nodes with
  | nil => intro st; simp [applyNodes, filledNodes, rulesOf]
  | cons d rest ih =>
    intro st
    simp only [List.map_cons, applyNodes, applyNode]
    cases hf : fillMissingInfo host d with
    | err => simp [filledNodes, hf]
    | panic => exact absurd hf (fill_no_panic host d)
    | ok d' =>
      simp only
      rw [ih]
      simp only [filledNodes, List.mapM_cons, hf]
      cases hr : List.mapM (fun n => match n with
          | some d => match fillMissingInfo host d with
            | .ok d' => some d'
            | _ => none
          | none => none) (rest.map some) with
      | none => simp [hr]
      | some filled => simp [hr, rulesOf, List.append_assoc]

/-! ### the mount loop -/

def putMount (l : List OMount) (m : OMount) : List OMount :=
  removeFirst (fun x => x.destination == m.destination) l ++ [m]

theorem applyMounts_eq : ∀ (ms : List Mount) (init : List OMount),
    applyMounts (ms.map some) init = .ok ((ms.map mountToOci).foldl putMount init) := by
  intro ms
  induction ms with
  | nil => intro init; rfl
  | cons m rest ih =>
    intro init
    simp only [List.map_cons, applyMounts, applyMount, List.foldl_cons]
    rw [ih]; rfl

theorem foldl_putMount : ∀ (news init : List OMount), (init.map (·.destination)).Nodup →
    news.foldl putMount init = news.foldl (putKey (·.destination)) init := by
  intro news
  induction news with
  | nil => intro init _; rfl
  | cons m rest ih =>
    intro init hnd
    simp only [List.foldl_cons]
    have h1 : putMount init m = putKey (·.destination) init m := by
      unfold putMount putKey
      rw [removeFirst_eq_filter (fun x : OMount => x.destination) m.destination init hnd]
    rw [h1]
    exact ih _ (nodup_put (·.destination) init m hnd)

/-! ### additional GIDs -/

def keepFirst (acc : List Nat) (x : Nat) : List Nat := if acc.any (fun y => y == x) then acc else acc ++ [x]

theorem foldl_addGid (init : List Nat) : ∀ (l added : List Nat),
    l.foldl addGid (init ++ added) =
      init ++ (l.filter (fun g => g != 0 && !init.contains g)).foldl keepFirst added := by
  intro l
  induction l with
  | nil => intro added; rfl
  | cons g rest ih =>
    intro added
    simp only [List.foldl_cons, addGid]
    by_cases h0 : g = 0
    · subst h0
      simp only [if_true]
      rw [ih added]
      simp [List.filter_cons]
    · simp only [h0, if_false]
      by_cases hin : g ∈ init
      · have hc : (init ++ added).contains g = true := by simp [hin]
        simp only [hc, if_true]
        rw [ih added]
        simp [List.filter_cons, h0, hin]
      · have hf : (g :: rest).filter (fun g => g != 0 && !init.contains g) =
            g :: rest.filter (fun g => g != 0 && !init.contains g) := by
          simp [List.filter_cons, h0, hin]
        rw [hf, List.foldl_cons]
        by_cases hadded : g ∈ added
        · have hc : (init ++ added).contains g = true := by simp [hadded]
          have hk : keepFirst added g = added := by simp [keepFirst, hadded]
          simp only [hc, if_true, hk]
          exact ih added
        · have hc : (init ++ added).contains g = false := by simp [hin, hadded]
          have hk : keepFirst added g = added ++ [g] := by simp [keepFirst, hadded]
          simp only [hc, Bool.false_eq_true, if_false, hk]
          rw [List.append_assoc]
          exact ih (added ++ [g])

/-- **additional GIDs**: initial ones kept, new ones appended in order, never 0, never twice -/
theorem gids_eq (init edits : List Nat) : edits.foldl addGid init = gidsSpec init edits := by
  have := foldl_addGid init edits []
  simp only [List.append_nil] at this
  rw [this]; rfl

end Cdi.Apply
