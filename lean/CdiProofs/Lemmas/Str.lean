import CdiModel.Basic
namespace Cdi
open Cdi

theorem splitFirst_some {sep : Byte} : ∀ {s a b : Str},
    splitFirst sep s = some (a, b) → s = a ++ sep :: b ∧ sep ∉ a := by
  intro s
  induction s with
  | nil => intro a b h; simp [splitFirst] at h
  | cons c cs ih =>
    intro a b h
    unfold splitFirst at h
    split at h
    · next hc => cases h; simp [hc]
    · next hc =>
      split at h
      · next a' b' h' =>
        cases h
        obtain ⟨h1, h2⟩ := ih h'
        refine ⟨by simp [h1], ?_⟩
        intro hm
        cases hm with
        | head => exact hc rfl
        | tail _ hm => exact h2 hm
      · cases h

theorem splitFirst_none {sep : Byte} : ∀ {s : Str}, splitFirst sep s = none → sep ∉ s := by
  intro s
  induction s with
  | nil => intro _; simp
  | cons c cs ih =>
    intro h
    unfold splitFirst at h
    split at h
    · cases h
    · next hc =>
      split at h
      · cases h
      · next h' =>
        intro hm
        cases hm with
        | head => exact hc rfl
        | tail _ hm => exact ih h' hm

theorem splitFirst_append {sep : Byte} : ∀ {a b : Str}, sep ∉ a →
    splitFirst sep (a ++ sep :: b) = some (a, b) := by
  intro a
  induction a with
  | nil => intro b _; simp [splitFirst]
  | cons c cs ih =>
    intro b h
    have hc : c ≠ sep := fun e => h (by simp [e])
    have hcs : sep ∉ cs := fun e => h (by simp [e])
    simp [splitFirst, hc, ih hcs]

theorem splitFirst_not_mem {sep : Byte} {s : Str} (h : sep ∉ s) : splitFirst sep s = none := by
  cases hs : splitFirst sep s with
  | none => rfl
  | some p =>
    obtain ⟨a, b⟩ := p
    obtain ⟨h1, _⟩ := splitFirst_some hs
    exact absurd (by simp [h1]) h

end Cdi

namespace Cdi
/-- A property of bytes holds for every byte if it holds for the 256 values
(used with `decide +kernel`: the quantifier is a finite table). -/
theorem byte_forall (P : Byte → Prop) (h : ∀ n : Fin 256, P (UInt8.ofNat n.val)) : ∀ c, P c := by
  intro c
  have := h ⟨c.toNat, c.toNat_lt⟩
  simpa using this
end Cdi
