import CdiModel.AnnotationsSpec
import CdiProofs.Lemmas.Str
namespace Cdi.K8s
open Cdi

def lowerB (c : Byte) : Byte := if 65 ≤ c && c ≤ 90 then c + 32 else c

set_option maxRecDepth 100000 in
theorem qext_ascii : ∀ c : Byte, isQNameExt c = true → c < 128 := by
  apply byte_forall; decide +kernel
set_option maxRecDepth 100000 in
theorem qext_lower : ∀ c : Byte, isQNameExt c = true → isQNameExt (lowerB c) = true := by
  apply byte_forall; decide +kernel
set_option maxRecDepth 100000 in
theorem alnum_lower : ∀ c : Byte, isAlnum c = true → isAlnum (lowerB c) = true := by
  apply byte_forall; decide +kernel
set_option maxRecDepth 100000 in
theorem qext_lower_ne_slash : ∀ c : Byte, isQNameExt c = true → lowerB c ≠ cSlash := by
  apply byte_forall; decide +kernel

theorem toLower_cons_ascii (c : Byte) (rest : Str) (h : c < 128) :
    toLower (c :: rest) = lowerB c :: toLower rest := by
  conv => lhs; unfold toLower
  split
  · next heq => simp at heq; obtain ⟨rfl, _⟩ := heq; exact absurd h (by decide)
  · next heq => simp at heq; obtain ⟨rfl, _⟩ := heq; exact absurd h (by decide)
  · next heq => simp at heq; obtain ⟨rfl, rfl⟩ := heq; rfl
  · next heq => simp at heq

theorem toLower_qext : ∀ {s : Str}, s.all isQNameExt = true → toLower s = s.map lowerB := by
  intro s
  induction s with
  | nil => intro _; simp [toLower]
  | cons c rest ih =>
    intro h
    simp only [List.all_cons, Bool.and_eq_true] at h
    rw [toLower_cons_ascii c rest (qext_ascii c h.1), ih h.2]; rfl

theorem toLower_append_ascii : ∀ (a b : Str), (∀ c ∈ a, c < 128) → toLower (a ++ b) = a.map lowerB ++ toLower b := by
  intro a
  induction a with
  | nil => intro b _; simp
  | cons c rest ih =>
    intro b h
    rw [List.cons_append, toLower_cons_ascii c _ (h c (by simp)), ih b (fun x hx => h x (by simp [hx]))]
    simp

/-- lower-casing keeps a string in the qualified-name language -/
theorem matchQName_lower {s : Str} (h : matchQName s = true) : matchQName (s.map lowerB) = true := by
  unfold matchQName at h ⊢
  cases s with
  | nil => simp at h
  | cons c rest =>
    have hl : (List.map lowerB (c :: rest)).getLast? = ((c :: rest).getLast?).map lowerB := by
      rw [List.getLast?_map]
    rw [hl]
    simp only [List.map_cons, List.head?_cons]
    cases hlast : (c :: rest).getLast? with
    | none => rw [hlast] at h; simp at h
    | some l =>
      rw [hlast] at h
      simp only [List.head?_cons, Bool.and_eq_true] at h
      obtain ⟨⟨h1, h2⟩, h3⟩ := h
      simp only [Option.map_some, Bool.and_eq_true]
      refine ⟨⟨alnum_lower c h1, alnum_lower l h2⟩, ?_⟩
      rw [← List.map_cons, List.all_map]
      apply List.all_eq_true.mpr
      intro x hx
      exact qext_lower x (List.all_eq_true.mp h3 x hx)

theorem matchQName_all {s : Str} (h : matchQName s = true) : s.all isQNameExt = true := by
  unfold matchQName at h
  split at h
  · simp only [Bool.and_eq_true] at h; exact h.2
  · cases h

theorem matchQName_ne_nil {s : Str} (h : matchQName s = true) : s ≠ [] := by
  intro e; subst e; simp [matchQName] at h

end Cdi.K8s
