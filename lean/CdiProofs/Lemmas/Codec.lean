import CdiModel.Codec
import CdiProofs.Lemmas.Schema
namespace Cdi.Codec
open Cdi Cdi.Encode Cdi.Decode

theorem hasDup_false_of_nodup : ∀ (l : List Str), l.Nodup → hasDup l = false := by
  intro l
  induction l with
  | nil => intro _; rfl
  | cons a r ih =>
    intro h
    simp only [List.nodup_cons] at h
    simp [hasDup, h.1, ih h.2]

theorem present_keys_sublist (fs : List Field) : ((present fs).map (·.1)).Sublist (fs.map (·.1)) := by
  induction fs with
  | nil => simp [present]
  | cons f r ih =>
    obtain ⟨k, v⟩ := f
    cases v with
    | none => simp only [present, List.filterMap_cons, Option.map_none, List.map_cons]; exact List.Sublist.cons _ ih
    | some x => simp only [present, List.filterMap_cons, Option.map_some, List.map_cons]; exact List.Sublist.cons₂ _ ih

theorem members_mkObjF (known : List Str) (fs : List Field) (hnd : (fs.map (·.1)).Nodup)
    (hk : (fs.map (·.1)).all (fun k => known.contains k) = true) :
    members known (mkObjF fs) = some (present fs) := by
  unfold members mkObjF JVal.mkObj
  simp only [toList_ofList]
  have h1 : hasDup ((present fs).map (·.1)) = false :=
    hasDup_false_of_nodup _ (hnd.sublist (present_keys_sublist fs))
  have h2 : (present fs).all (fun kv => known.contains kv.1) = true := by
    apply List.all_eq_true.mpr
    intro kv hkv
    simp only [present, List.mem_filterMap] at hkv
    obtain ⟨f, hf, hfe⟩ := hkv
    cases hv : f.2 with
    | none => rw [hv] at hfe; simp at hfe
    | some v =>
      rw [hv] at hfe; simp at hfe; subst hfe
      exact List.all_eq_true.mp hk f.1 (List.mem_map_of_mem hf)
  rw [if_neg (by simp [h1]), if_pos h2]

theorem lookup_none_of_keys (k : Str) : ∀ (l : List (Str × JVal)), (∀ kv ∈ l, kv.1 ≠ k) → lookup k l = none := by
  intro l
  induction l with
  | nil => intro _; rfl
  | cons a t ih =>
    intro h
    obtain ⟨ka, va⟩ := a
    have hne : ka ≠ k := h (ka, va) (by simp)
    simp only [lookup, hne, if_false]
    exact ih (fun kv hkv => h kv (by simp [hkv]))

theorem field_present (fs : List Field) (k : String) (hnd : (fs.map (·.1)).Nodup) :
    field (present fs) k = (fieldValue fs (lit k)).getD .null := by
  unfold field
  have : lookup (lit k) (present fs) = fieldValue fs (lit k) := by
    induction fs with
    | nil => rfl
    | cons f r ih =>
      obtain ⟨k', v⟩ := f
      simp only [List.map_cons, List.nodup_cons] at hnd
      by_cases hk : k' = lit k
      · subst hk
        cases v with
        | none =>
          have hp : present ((lit k, (none : Option JVal)) :: r) = present r := by simp [present]
          rw [hp]
          simp only [fieldValue, if_true]
          apply lookup_none_of_keys
          intro kv hkv e
          have := (present_keys_sublist r).subset (List.mem_map_of_mem (f := (·.1)) hkv)
          exact hnd.1 (e ▸ this)
        | some x =>
          have hp : present ((lit k, some x) :: r) = (lit k, x) :: present r := by simp [present]
          rw [hp]; simp [lookup, fieldValue]
      · cases v with
        | none =>
          have hp : present ((k', (none : Option JVal)) :: r) = present r := by simp [present]
          rw [hp]; simp only [fieldValue, hk, if_false]; exact ih hnd.2
        | some x =>
          have hp : present ((k', some x) :: r) = (k', x) :: present r := by simp [present]
          rw [hp]; simp only [lookup, hk, if_false, fieldValue]; exact ih hnd.2
  rw [this]
  cases fieldValue fs (lit k) <;> rfl

theorem rt_str_req (s : Str) : dStr (jstr s) = some s := rfl
theorem rt_str (s : Str) : dStr ((if s = [] then none else some (jstr s)).getD .null) = some s := by
  by_cases h : s = [] <;> simp [h, dStr, jstr]
theorem rt_strs_raw (l : List Str) : dStrList (jstrs l) = some l := by
  simp only [dStrList, dList, jstrs, JVal.mkArr, jlist_toList_ofList]
  induction l with
  | nil => rfl
  | cons a r ih => simp [List.mapM_cons, dStr, jstr, ih]
theorem rt_strs (l : List Str) : dStrList ((if l = [] then none else some (jstrs l)).getD .null) = some l := by
  by_cases h : l = []
  · simp [h, dStrList, dList]
  · simp [h, rt_strs_raw]


theorem mapM_map_some {α β} (f : β → Option α) (g : α → β) : ∀ (l : List α), (∀ x ∈ l, f (g x) = some x) →
    (l.map g).mapM f = some l := by
  intro l
  induction l with
  | nil => intro _; rfl
  | cons a r ih =>
    intro h
    simp only [List.map_cons, List.mapM_cons, h a (by simp), ih (fun x hx => h x (by simp [hx]))]
    rfl

theorem rt_int64 (n : Int) (h1 : int64Min ≤ n) (h2 : n ≤ int64Max) :
    dInt64 ((if n = 0 then none else some (jint n)).getD .null) = some n := by
  by_cases h : n = 0
  · simp [h, dInt64, dIntRange]
  · simp [h, dInt64, dIntRange, jint, h1, h2]

theorem rt_optInt64 (o : Option Int) (h : ∀ t, o = some t → int64Min ≤ t ∧ t ≤ int64Max) :
    dOptInt64 ((o.map jint).getD .null) = some o := by
  cases o with
  | none => rfl
  | some t => have := h t rfl; simp [dOptInt64, dIntRange, jint, this.1, this.2]

theorem rt_optNat32 (o : Option Nat) (h : ∀ t, o = some t → (t : Int) ≤ uint32Max) :
    dOptUint32 ((o.map jnat).getD .null) = some o := by
  cases o with
  | none => rfl
  | some t => have := h t rfl; simp [dOptUint32, dIntRange, jnat, this]

theorem rt_bool (b : Bool) : dBool ((if (!b) = true then none else some (JVal.bool true)).getD .null) = some b := by
  cases b <;> simp [dBool]

theorem rt_bool' (b : Bool) : dBool ((if b = false then none else some (JVal.bool true)).getD .null) = some b := by
  cases b <;> simp [dBool]

theorem rt_gids (l : List Nat) (h : ∀ g ∈ l, (g : Int) ≤ uint32Max) :
    dList dUint32Elem ((if l = [] then none else some (JVal.mkArr (l.map jnat))).getD .null) = some l := by
  by_cases hl : l = []
  · simp [hl, dList]
  · simp only [hl, if_false, Option.getD_some, dList, JVal.mkArr, jlist_toList_ofList]
    apply mapM_map_some
    intro g hg
    have := h g hg
    simp [dUint32Elem, dOptUint32, dIntRange, jnat, this]

/-- a list of nullable struct pointers -/
theorem rt_ptr_list {α} (enc : α → JVal) (dec : JVal → Option α) (l : List (Option α))
    (hne : ∀ x, enc x ≠ .null) (h : ∀ x, some x ∈ l → dec (enc x) = some x) :
    dList (dPtr dec) ((if l = [] then none else some (JVal.mkArr (l.map (encOpt enc)))).getD .null) = some l := by
  by_cases hl : l = []
  · simp [hl, dList]
  · simp only [hl, if_false, Option.getD_some, dList, JVal.mkArr, jlist_toList_ofList]
    apply mapM_map_some
    intro o ho
    cases o with
    | none => rfl
    | some x =>
      simp only [encOpt]
      have hx := h x ho
      cases he : enc x with
      | null => exact absurd he (hne x)
      | bool b => simp [dPtr, ← he, hx]
      | num a b => simp [dPtr, ← he, hx]
      | str a => simp [dPtr, ← he, hx]
      | arr a => simp [dPtr, ← he, hx]
      | obj a => simp [dPtr, ← he, hx]

theorem mkObjF_ne_null (fs : List Field) : mkObjF fs ≠ .null := by simp [mkObjF, JVal.mkObj]

theorem rt_annotations (a : List (Str × Str)) (hu : keysUnique a = true) :
    dStrMap ((if a = [] then none else some (encAnnotations a)).getD .null) = some a := by
  by_cases ha : a = []
  · simp [ha, dStrMap]
  · simp only [ha, if_false, Option.getD_some, encAnnotations, JVal.mkObj, dStrMap, toList_ofList]
    have hm : (a.map (fun kv => (kv.1, jstr kv.2))).map (·.1) = a.map (·.1) := by
      rw [List.map_map]; rfl
    have hd : hasDup ((a.map (fun kv => (kv.1, jstr kv.2))).map (·.1)) = false := by
      simp only [keysUnique, Bool.not_eq_true'] at hu
      rw [hm]; exact hu
    rw [if_neg (by rw [hd]; simp)]
    apply mapM_map_some (fun kv : Str × JVal => (dStr kv.2).map (fun s => (kv.1, s))) (fun kv : Str × Str => (kv.1, jstr kv.2))
    intro kv _
    simp [dStr, jstr]

end Cdi.Codec
