/-
  Total tables by execution (lean/CdiModel/Generated/Tables.lean, written on every run by
  `corr child tables`, which EXECUTES the working tree's code on every element of a finite domain):
  helper definitions and the lifting lemma used by the obligations T1 (C07), T2/T3 (C05).
-/
import CdiModel.Basic
import CdiModel.Generated.Tables
namespace Cdi

/-- membership in a list of closed ranges -/
def inRanges (rs : List (Nat × Nat)) (n : Nat) : Bool := rs.any (fun r => decide (r.1 ≤ n) && decide (n ≤ r.2))

/-- if every range ends below `b`, nothing from `b` on is a member -/
theorem inRanges_false_of_bound (rs : List (Nat × Nat)) (b : Nat) (h : ∀ r ∈ rs, r.2 < b) (c : Nat) (hc : b ≤ c) :
    inRanges rs c = false := by
  unfold inRanges
  rw [List.any_eq_false]
  intro r hr
  have := h r hr
  simp only [Bool.and_eq_true, decide_eq_true_eq, not_and, Nat.not_le]
  intro _
  omega

end Cdi
