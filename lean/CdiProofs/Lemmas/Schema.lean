import CdiModel.SchemaGlue
import CdiModel.Encode
namespace Cdi.Encode
open Cdi Cdi.Schema

/-! ### objects written as field lists -/

theorem toList_ofList (l : List (Str × JVal)) : (JMembers.ofList l).toList = l := by
  induction l with
  | nil => rfl
  | cons a r ih => obtain ⟨k, v⟩ := a; simp [JMembers.ofList, JMembers.toList, ih]

theorem jlist_toList_ofList (l : List JVal) : (JList.ofList l).toList = l := by
  induction l with
  | nil => rfl
  | cons a r ih => simp [JList.ofList, JList.toList, ih]

/-- value of a field by name (first field with that name) -/
def fieldValue (fs : List Field) (k : Str) : Option JVal :=
  match fs with
  | [] => none
  | (k', v) :: rest => if k' = k then v else fieldValue rest k

theorem present_filter_none (fs : List Field) (k : Str) (h : ∀ f ∈ fs, f.1 ≠ k) :
    (present fs).filter (fun kv => kv.1 == k) = [] := by
  apply List.filter_eq_nil_iff.mpr
  intro kv hkv
  simp only [present, List.mem_filterMap] at hkv
  obtain ⟨f, hf, hfe⟩ := hkv
  cases hv : f.2 with
  | none => rw [hv] at hfe; simp at hfe
  | some v =>
    rw [hv] at hfe; simp at hfe; subst hfe
    simp; exact h f hf

/-- with distinct field names, the last member with a name is the field of that name -/
theorem memberLast_mkObjF (fs : List Field) (k : Str) (hnd : (fs.map (·.1)).Nodup) :
    memberLast (JMembers.ofList (present fs)) k = fieldValue fs k := by
  unfold memberLast
  rw [toList_ofList]
  induction fs with
  | nil => rfl
  | cons f rest ih =>
    obtain ⟨k', v⟩ := f
    simp only [List.map_cons, List.nodup_cons] at hnd
    by_cases hk : k' = k
    · subst hk
      have hrest : (present rest).filter (fun kv => kv.1 == k') = [] := by
        apply present_filter_none
        intro f hf e
        exact hnd.1 (e ▸ List.mem_map_of_mem hf)
      cases v with
      | none =>
        have : present ((k', (none : Option JVal)) :: rest) = present rest := by simp [present]
        rw [this, hrest]; simp [fieldValue]
      | some x =>
        have : present ((k', some x) :: rest) = (k', x) :: present rest := by simp [present]
        rw [this, List.filter_cons]
        simp [hrest, fieldValue]
    · have : fieldValue ((k', v) :: rest) k = fieldValue rest k := by simp [fieldValue, hk]
      rw [this, ← ih hnd.2]
      cases v with
      | none => simp [present]
      | some x => simp [present, List.filter_cons, hk]

/-- a declared property is fine when the field, if present, validates -/
theorem prop_ok (fs : List Field) (k : Str) (sub : Schema) (hnd : (fs.map (·.1)).Nodup)
    (h : ∀ v, fieldValue fs k = some v → validates sub v = true) :
    (match memberLast (JMembers.ofList (present fs)) k with
     | some v => validates sub v
     | none => true) = true := by
  rw [memberLast_mkObjF fs k hnd]
  cases hf : fieldValue fs k with
  | none => rfl
  | some v => exact h v hf

/-! ### leaf schemas -/

theorem v_string (s : Str) : validates (Schema.node (some "string") .nil [] .none .nil none none) (.str s) = true := by
  simp [validates, typeOK]

theorem v_bool (b : Bool) : validates (Schema.node (some "boolean") .nil [] .none .nil none none) (.bool b) = true := by
  simp [validates, typeOK]

theorem itemsAll_map {α} (sub : Schema) (f : α → JVal) (l : List α) (h : ∀ x ∈ l, validates sub (f x) = true) :
    itemsAll sub (l.map f) = true := by
  induction l with
  | nil => simp [itemsAll]
  | cons a r ih =>
    simp only [List.map_cons, itemsAll, Bool.and_eq_true]
    exact ⟨h a (by simp), ih (fun x hx => h x (by simp [hx]))⟩

theorem v_array {α} (sub : Schema) (f : α → JVal) (l : List α) (h : ∀ x ∈ l, validates sub (f x) = true) :
    validates (Schema.node (some "array") .nil [] (.some sub) .nil none none) (JVal.mkArr (l.map f)) = true := by
  simp only [validates, typeOK, JVal.mkArr, Bool.true_and, itemsOK, jlist_toList_ofList]
  exact itemsAll_map sub f l h

theorem v_strs (l : List Str) : validates Generated.schema_ArrayOfStrings (jstrs l) = true := by
  unfold Generated.schema_ArrayOfStrings jstrs
  exact v_array _ jstr l (fun x _ => v_string x)

theorem v_uint32 (n : Nat) (h : n ≤ 4294967295) : validates Generated.schema_uint32 (jnat n) = true := by
  simp [Generated.schema_uint32, validates, typeOK, jnat, geBound, leBound]
  omega

theorem v_uint32_int (n : Int) (h0 : 0 ≤ n) (h : n ≤ 4294967295) : validates Generated.schema_uint32 (jint n) = true := by
  simp [Generated.schema_uint32, validates, typeOK, jint, geBound, leBound]
  omega

theorem v_int64 (n : Int) (h1 : -9223372036854775808 ≤ n) (h2 : n ≤ 9223372036854775807) :
    validates Generated.schema_int64 (jint n) = true := by
  simp [Generated.schema_int64, validates, typeOK, jint, geBound, leBound]
  omega

end Cdi.Encode
