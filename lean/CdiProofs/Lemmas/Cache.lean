import CdiModel.CacheSpec
namespace Cdi.Cache
open Cdi

/-! ### per-name view of the refresh loop -/

/-- what one more definition of a fixed name does to (current holder, conflict mark) -/
def qStep (clear : Bool) (acc : Option Ref × Bool) (r : Ref) : Option Ref × Bool :=
  match acc.1 with
  | none => (some r, acc.2)
  | some old =>
    if r.prio > old.prio then (some r, if clear then false else acc.2)
    else if r.prio = old.prio then (some old, true)
    else acc

theorem addDevice_same (clear : Bool) (st : RState) (r : Ref) :
    ((addDevice clear st r).devices r.qname, (addDevice clear st r).conflicts r.qname) =
      qStep clear (st.devices r.qname, st.conflicts r.qname) r := by
  unfold addDevice qStep
  simp only
  cases h : st.devices r.qname with
  | none => simp [setDev]
  | some old =>
    simp only
    by_cases h1 : r.prio > old.prio
    · cases clear <;> simp [h1, setDev, setFlag]
    · by_cases h2 : r.prio = old.prio
      · simp [h1, h2, setFlag, h]
      · simp [h1, h2, h]

theorem addDevice_other (clear : Bool) (st : RState) (r : Ref) (q : Str) (hq : r.qname ≠ q) :
    (addDevice clear st r).devices q = st.devices q ∧ (addDevice clear st r).conflicts q = st.conflicts q := by
  have hq' : ¬ q = r.qname := fun e => hq e.symm
  unfold addDevice
  simp only
  cases h : st.devices r.qname with
  | none => simp [setDev, hq']
  | some old =>
    simp only
    by_cases h1 : r.prio > old.prio
    · cases clear <;> simp [h1, setDev, setFlag, hq']
    · by_cases h2 : r.prio = old.prio
      · simp [h1, h2, setFlag, hq']
      · simp [h1, h2]

theorem foldl_addDevice_proj (clear : Bool) (q : Str) : ∀ (refs : List Ref) (st : RState),
    ((refs.foldl (addDevice clear) st).devices q, (refs.foldl (addDevice clear) st).conflicts q) =
      (refs.filter (fun r => r.qname == q)).foldl (qStep clear) (st.devices q, st.conflicts q) := by
  intro refs
  induction refs with
  | nil => intro st; rfl
  | cons r rest ih =>
    intro st
    simp only [List.foldl_cons]
    rw [ih]
    by_cases hq : r.qname = q
    · have hb : (r.qname == q) = true := by simp [hq]
      simp only [List.filter_cons, hb, if_true, List.foldl_cons]
      have := addDevice_same clear st r
      rw [hq] at this
      rw [this]
    · have hb : (r.qname == q) = false := by simp [hq]
      simp only [List.filter_cons, hb, Bool.false_eq_true, if_false]
      obtain ⟨h1, h2⟩ := addDevice_other clear st r q hq
      rw [h1, h2]

theorem step_proj (clear : Bool) (q : Str) (st : RState) (it : ScanItem) :
    ((step clear st it).devices q, (step clear st it).conflicts q) =
      ((match it.spec with
        | some s => refsOf (Path.clean it.path) it.prio s
        | none => []).filter (fun r : Ref => r.qname == q)).foldl (qStep clear) (st.devices q, st.conflicts q) := by
  unfold step
  cases h : it.spec with
  | none => rfl
  | some s =>
    simp only
    rw [foldl_addDevice_proj]

theorem refresh_proj (clear : Bool) (q : Str) : ∀ (items : List ScanItem) (st : RState),
    ((items.foldl (step clear) st).devices q, (items.foldl (step clear) st).conflicts q) =
      ((allRefs items).filter (fun r => r.qname == q)).foldl (qStep clear) (st.devices q, st.conflicts q) := by
  intro items
  induction items with
  | nil => intro st; rfl
  | cons it rest ih =>
    intro st
    simp only [List.foldl_cons]
    rw [ih, step_proj]
    simp only [allRefs, List.flatMap_cons, List.filter_append, List.foldl_append]
    rfl

/-! ### the per-name fold on an ascending list computes the declarative winner -/

def Asc (l : List Ref) : Prop := l.Pairwise (fun a b => a.prio ≤ b.prio)

theorem foldl_max_ge (l : List Ref) : ∀ m : Nat, m ≤ l.foldl (fun m r => max m r.prio) m := by
  induction l with
  | nil => intro m; exact Nat.le_refl _
  | cons r rest ih => intro m; exact Nat.le_trans (Nat.le_max_left _ _) (ih _)

theorem foldl_max_mono (l : List Ref) : ∀ a b : Nat, a ≤ b →
    l.foldl (fun m r => max m r.prio) a ≤ l.foldl (fun m r => max m r.prio) b := by
  induction l with
  | nil => intro a b h; exact h
  | cons r rest ih =>
    intro a b h
    exact ih _ _ (by show max a r.prio ≤ max b r.prio; omega)

theorem le_maxPrio {l : List Ref} {x : Ref} (h : x ∈ l) : x.prio ≤ maxPrio l := by
  unfold maxPrio
  induction l with
  | nil => cases h
  | cons r rest ih =>
    simp only [List.foldl_cons]
    rcases List.mem_cons.mp h with rfl | h
    · exact Nat.le_trans (Nat.le_max_right _ _) (foldl_max_ge _ _)
    · exact Nat.le_trans (ih h) (foldl_max_mono _ _ _ (Nat.zero_le _))

theorem maxPrio_snoc (l : List Ref) (r : Ref) : maxPrio (l ++ [r]) = max (maxPrio l) r.prio := by
  simp [maxPrio, List.foldl_append]

theorem maxPrio_nil : maxPrio [] = 0 := rfl

/-- invariant of the per-name fold after processing `done` (ascending) -/
def QInv (acc : Option Ref × Bool) (done : List Ref) : Prop :=
  acc.1 = (top done).head? ∧ acc.2 = decide (2 ≤ (top done).length) ∧
  (∀ old, acc.1 = some old → old.prio = maxPrio done) ∧ (acc.1 = none ↔ done = [])

theorem top_snoc_gt {done : List Ref} {r : Ref} (h : maxPrio done < r.prio) : top (done ++ [r]) = [r] := by
  unfold top
  rw [maxPrio_snoc]
  have hm : max (maxPrio done) r.prio = r.prio := by omega
  rw [hm, List.filter_append]
  have : done.filter (fun x => x.prio == r.prio) = [] := by
    apply List.filter_eq_nil_iff.mpr
    intro x hx
    have := le_maxPrio hx
    simp; omega
  simp [this]

theorem top_snoc_eq {done : List Ref} {r : Ref} (h : maxPrio done = r.prio) :
    top (done ++ [r]) = top done ++ [r] := by
  unfold top
  rw [maxPrio_snoc]
  have hm : max (maxPrio done) r.prio = maxPrio done := by omega
  rw [hm, List.filter_append]
  simp [h]

theorem top_ne_nil {l : List Ref} (h : l ≠ []) : top l ≠ [] := by
  -- some element attains the maximum
  have hgen : ∀ (l : List Ref) (m : Nat), l.foldl (fun m r => max m r.prio) m = m ∨
      ∃ x ∈ l, x.prio = l.foldl (fun m r => max m r.prio) m := by
    intro l
    induction l with
    | nil => intro m; exact Or.inl rfl
    | cons r rest ih =>
      intro m
      simp only [List.foldl_cons]
      rcases ih (max m r.prio) with h | ⟨x, hx, hxe⟩
      · by_cases hc : m ≤ r.prio
        · right; exact ⟨r, by simp, by rw [h]; omega⟩
        · left; rw [h]; omega
      · right; exact ⟨x, by simp [hx], hxe⟩
  have : ∃ x ∈ l, x.prio = maxPrio l := by
    rcases hgen l 0 with h0 | h0
    · obtain ⟨x, rest, rfl⟩ := List.exists_cons_of_ne_nil h
      refine ⟨x, by simp, ?_⟩
      have := le_maxPrio (l := x :: rest) (x := x) (by simp)
      unfold maxPrio at this ⊢
      omega
    · exact h0
  obtain ⟨x, hx, hxe⟩ := this
  intro ht
  have : x ∈ top l := by
    unfold top; simp [List.mem_filter, hx, hxe]
  rw [ht] at this; cases this

theorem qStep_inv (acc : Option Ref × Bool) (done : List Ref) (r : Ref)
    (hinv : QInv acc done) (hasc : ∀ x ∈ done, x.prio ≤ r.prio) :
    QInv (qStep true acc r) (done ++ [r]) := by
  obtain ⟨h1, h2, h3, h4⟩ := hinv
  unfold qStep
  cases hc : acc.1 with
  | none =>
    have hd : done = [] := h4.mp hc
    subst hd
    simp only [List.nil_append]
    refine ⟨?_, ?_, ?_, ?_⟩
    · simp [top, maxPrio]
    · rw [h2]; simp [top, maxPrio]
    · intro old ho; simp at ho; subst ho; simp [maxPrio]
    · simp
  | some old =>
    have hne : done ≠ [] := fun e => by rw [h4.mpr e] at hc; cases hc
    have hold : old.prio = maxPrio done := h3 old hc
    have hle : maxPrio done ≤ r.prio := by
      obtain ⟨x, hx⟩ := List.exists_mem_of_ne_nil _ (top_ne_nil hne)
      have hx' : x ∈ done ∧ x.prio = maxPrio done := by
        unfold top at hx; simpa [List.mem_filter] using hx
      have := hasc x hx'.1; omega
    simp only
    by_cases hgt : r.prio > old.prio
    · have ht := top_snoc_gt (done := done) (r := r) (by omega)
      simp only [hgt, if_true]
      refine ⟨by simp [ht], by simp [ht], ?_, by simp⟩
      intro o ho; simp at ho; subst ho; rw [maxPrio_snoc]; omega
    · have heq : r.prio = old.prio := by omega
      have ht := top_snoc_eq (done := done) (r := r) (by omega)
      simp only [hgt, if_false, heq, if_true]
      have htop : (top done).head? = some old := by rw [← h1, hc]
      refine ⟨?_, ?_, ?_, by simp⟩
      · rw [ht]
        cases htd : top done with
        | nil => rw [htd] at htop; cases htop
        | cons a b => rw [htd] at htop; simpa using htop.symm
      · rw [ht]
        cases htd : top done with
        | nil => rw [htd] at htop; cases htop
        | cons a b => simp
      · intro o ho; simp at ho; subst ho; rw [maxPrio_snoc]; omega

theorem qFold_inv : ∀ (l done : List Ref) (acc : Option Ref × Bool),
    QInv acc done → Asc (done ++ l) → QInv (l.foldl (qStep true) acc) (done ++ l) := by
  intro l
  induction l with
  | nil => intro done acc h _; simpa using h
  | cons r rest ih =>
    intro done acc h hasc
    simp only [List.foldl_cons]
    have hasc' : ∀ x ∈ done, x.prio ≤ r.prio := by
      intro x hx
      have := List.pairwise_append.mp hasc
      exact this.2.2 x hx r (by simp)
    have := ih (done ++ [r]) (qStep true acc r) (qStep_inv acc done r h hasc') (by simpa using hasc)
    simpa using this

/-- the per-name fold, after the final deletion of conflicting names, is the declarative winner -/
theorem qFold_winner (l : List Ref) (hasc : Asc l) :
    (let acc := l.foldl (qStep true) (none, false); if acc.2 then none else acc.1) = winner l := by
  have hinv : QInv (l.foldl (qStep true) (none, false)) ([] ++ l) :=
    qFold_inv l [] (none, false) ⟨rfl, by simp [top, maxPrio], by simp, by simp⟩ (by simpa using hasc)
  simp only [List.nil_append] at hinv
  obtain ⟨h1, h2, _, _⟩ := hinv
  simp only [winner]
  rw [h2, h1]
  cases ht : top l with
  | nil => simp
  | cons a rest =>
    cases rest with
    | nil => simp
    | cons b rest' => simp

end Cdi.Cache
