import CdiModel.SpecWF
namespace Cdi.Version
open Cdi Cdi.SpecWF

/-! ### with the nil guards, the feature predicates are total and equal the declarative ones -/

theorem anyMountType_guard (l : List (Option Mount)) :
    anyMountType true l = .ok (l.any mountHasType) := by
  induction l with
  | nil => rfl
  | cons m rest ih =>
    cases m with
    | none => simp [anyMountType, ih, mountHasType]
    | some m =>
      by_cases h : m.type = []
      · simp [anyMountType, ih, mountHasType, h]
      · simp [anyMountType, mountHasType, h]

theorem anyHostPath_guard (l : List (Option DeviceNode)) :
    anyHostPath true l = .ok (l.any nodeHasHostPath) := by
  induction l with
  | nil => rfl
  | cons m rest ih =>
    cases m with
    | none => simp [anyHostPath, ih, nodeHasHostPath]
    | some m =>
      by_cases h : m.hostPath = []
      · simp [anyHostPath, ih, nodeHasHostPath, h]
      · simp [anyHostPath, nodeHasHostPath, h]

theorem firstTrue_ok {α} (f : α → Res Bool) (g : α → Bool) (h : ∀ x, f x = .ok (g x)) (l : List α) :
    firstTrue f l = .ok (l.any g) := by
  induction l with
  | nil => rfl
  | cons x rest ih =>
    simp only [firstTrue, h x, List.any_cons]
    cases g x <;> simp [ih]

theorem any_editsList (g : Edits → Bool) (s : Spec) :
    (editsList false s).any g = s.allEdits.any g := by
  simp only [editsList, Bool.false_eq_true, if_false, List.any_append, List.any_cons, List.any_nil,
    Bool.or_false, Spec.allEdits]
  exact Bool.or_comm _ _

theorem requiresV040_fixed (s : Spec) : requiresV040 false true s = .ok (usesMountType s) := by
  unfold requiresV040
  rw [firstTrue_ok _ (fun e => e.mounts.any mountHasType) (fun e => anyMountType_guard e.mounts)]
  rw [any_editsList]; rfl

theorem requiresV050_fixed (s : Spec) :
    requiresV050 false true s = .ok (usesDigitName s || usesHostPath s) := by
  unfold requiresV050
  rw [firstTrue_ok _ (fun e => e.deviceNodes.any nodeHasHostPath) (fun e => anyHostPath_guard e.deviceNodes)]
  rw [any_editsList]
  unfold usesDigitName usesHostPath
  cases (s.devices.any fun d => startsWithDigit d.name) <;> simp

theorem requiresV060_eq (s : Spec) : requiresV060 s = (usesAnnotations s || usesDottedClass s) := by
  simp [requiresV060, usesAnnotations, usesDottedClass]

theorem requiresV070_eq (s : Spec) : requiresV070 s = usesRdtOrGids s := by
  simp [requiresV070, usesRdtOrGids, Spec.allEdits, editsUseV070, List.any_map]
  rfl

/-! ### triples: a strict total order -/

theorem tripleLt_iff (a b : Nat × Nat × Nat) :
    tripleLt a b = true ↔ (a.1 < b.1 ∨ (a.1 = b.1 ∧ (a.2.1 < b.2.1 ∨ (a.2.1 = b.2.1 ∧ a.2.2 < b.2.2)))) := by
  simp [tripleLt]

def raiseT (t x : Nat × Nat × Nat) : Nat × Nat × Nat := if tripleLt t x then x else t

/-- "raise to the larger" on triples is right-commutative -/
theorem raiseT_comm (t x y : Nat × Nat × Nat) : raiseT (raiseT t x) y = raiseT (raiseT t y) x := by
  obtain ⟨t1, t2, t3⟩ := t
  obtain ⟨x1, x2, x3⟩ := x
  obtain ⟨y1, y2, y3⟩ := y
  unfold raiseT
  by_cases h1 : tripleLt (t1, t2, t3) (x1, x2, x3) = true <;>
  by_cases h2 : tripleLt (t1, t2, t3) (y1, y2, y3) = true <;>
  by_cases h3 : tripleLt (x1, x2, x3) (y1, y2, y3) = true <;>
  by_cases h4 : tripleLt (y1, y2, y3) (x1, x2, x3) = true <;>
  simp only [h1, h2, h3, h4, if_true, if_false, Bool.false_eq_true] <;>
  simp only [tripleLt_iff, Prod.mk.injEq] at * <;> omega

end Cdi.Version

namespace Cdi.Version
open Cdi Cdi.SpecWF

/-- "raise `mv` to `x` when the predicate holds and `x` is greater" -/
def raiseS (mv x : Str) (b : Bool) : Str := if b && versionGt x mv then x else mv

theorem raiseS_comm (mv x y : Str) (bx b_y : Bool) (tx ty : Nat × Nat × Nat)
    (hx : parseTriple x = some tx) (hy : parseTriple y = some ty) (hinj : tx = ty → x = y) :
    raiseS (raiseS mv x bx) y b_y = raiseS (raiseS mv y b_y) x bx := by
  cases bx <;> cases b_y <;> simp only [raiseS, Bool.false_and, Bool.true_and, Bool.false_eq_true, if_false]
  cases hmv : parseTriple mv with
  | none => simp [versionGt, hmv]
  | some t =>
    obtain ⟨t1, t2, t3⟩ := t
    obtain ⟨x1, x2, x3⟩ := tx
    obtain ⟨y1, y2, y3⟩ := ty
    have gx : versionGt x mv = tripleLt (t1, t2, t3) (x1, x2, x3) := by simp [versionGt, hx, hmv]
    have gy : versionGt y mv = tripleLt (t1, t2, t3) (y1, y2, y3) := by simp [versionGt, hy, hmv]
    have gxy : versionGt x y = tripleLt (y1, y2, y3) (x1, x2, x3) := by simp [versionGt, hx, hy]
    have gyx : versionGt y x = tripleLt (x1, x2, x3) (y1, y2, y3) := by simp [versionGt, hx, hy]
    rw [gx, gy]
    by_cases h1 : tripleLt (t1, t2, t3) (x1, x2, x3) = true <;>
    by_cases h2 : tripleLt (t1, t2, t3) (y1, y2, y3) = true <;>
    by_cases h3 : tripleLt (x1, x2, x3) (y1, y2, y3) = true <;>
    by_cases h4 : tripleLt (y1, y2, y3) (x1, x2, x3) = true <;>
    simp only [h1, h2, h3, h4, if_true, if_false, Bool.false_eq_true, gx, gy, gxy, gyx] <;>
    first
    | rfl
    | (exfalso; simp only [tripleLt_iff] at *; omega)
    | (apply hinj; simp only [tripleLt_iff, Prod.mk.injEq] at *; omega)
    | (symm; apply hinj; simp only [tripleLt_iff, Prod.mk.injEq] at *; omega)

end Cdi.Version
