import CdiModel.ParserSpec
import CdiProofs.Lemmas.Str
namespace Cdi.Parser
open Cdi

theorem isLetter_alnum {c : Byte} (h : isLetter c = true) : isAlnum c = true := by
  simp [isAlnum, h]
theorem isAlnum_vcMid {c : Byte} (h : isAlnum c = true) : isVCMid c = true := by
  simp [isVCMid, h]
theorem isAlnum_devMid {c : Byte} (h : isAlnum c = true) : isDevMid c = true := by
  simp [isDevMid, h]
theorem isVCMid_devMid {c : Byte} (h : isVCMid c = true) : isDevMid c = true := by
  simp [isVCMid] at h; simp [isDevMid]; rcases h with ((h|h)|h)|h <;> simp [h]

theorem vcMid_not_slash : isVCMid cSlash = false := by decide
theorem vcMid_not_eq : isVCMid cEq = false := by decide
theorem devMid_not_eq : isDevMid cEq = false := by decide
theorem devMid_not_slash : isDevMid cSlash = false := by decide

/-- Go `s[1:len(s)-1]` on a string of length ≥ 2 is the string without its ends. -/
theorem goSlice_middle (c0 : Byte) (mid : Str) (l : Byte) :
    goSlice (c0 :: (mid ++ [l])) 1 (mid.length + 1) = .ok mid := by
  simp [goSlice]

theorem goIndex_zero (c0 : Byte) (r : Str) : goIndex (c0 :: r) 0 = .ok c0 := by
  simp [goIndex]

theorem goIndex_last (c0 : Byte) (mid : Str) (l : Byte) :
    goIndex (c0 :: (mid ++ [l])) (mid.length + 1) = .ok l := by
  simp [goIndex]

theorem vcOK_single (c : Byte) : vcOK [c] = isLetter c := by
  simp only [vcOK, List.head?, List.getLast?_singleton, List.all_cons, List.all_nil, Bool.and_true]
  cases h : isLetter c
  · simp
  · simp [isLetter_alnum h, isAlnum_vcMid (isLetter_alnum h)]

theorem vcOK_long (c0 : Byte) (mid : Str) (l : Byte) :
    vcOK (c0 :: (mid ++ [l])) = (isLetter c0 && mid.all isVCMid && isAlnum l) := by
  have hl : (c0 :: (mid ++ [l])).getLast? = some l := by
    simp [List.getLast?_cons]
  simp only [vcOK, List.head?, hl, List.all_cons, List.all_append, List.all_nil, Bool.and_true]
  cases h0 : isLetter c0 <;> cases h1 : isAlnum l <;> simp [*, isLetter_alnum, isAlnum_vcMid]

theorem devOK_single (c : Byte) : devOK [c] = isAlnum c := by
  simp only [devOK, List.head?, List.getLast?_singleton, List.all_cons, List.all_nil, Bool.and_true]
  cases h : isAlnum c
  · simp
  · simp [isAlnum_devMid h]

theorem devOK_long (c0 : Byte) (mid : Str) (l : Byte) :
    devOK (c0 :: (mid ++ [l])) = (isAlnum c0 && mid.all isDevMid && isAlnum l) := by
  have hl : (c0 :: (mid ++ [l])).getLast? = some l := by
    simp [List.getLast?_cons]
  simp only [devOK, List.head?, hl, List.all_cons, List.all_append, List.all_nil, Bool.and_true]
  cases h0 : isAlnum c0 <;> cases h1 : isAlnum l <;> simp [*, isAlnum_devMid]

/-- The repaired validator is total and decides exactly the grammar. -/
theorem validateVC_eq (s : Str) : validateVC s = .ok (vcOK s) := by
  cases s with
  | nil => simp [validateVC, validateVCWith, vcOK]
  | cons c0 rest =>
    rcases List.eq_nil_or_concat rest with h | ⟨mid, l, h⟩
    · subst h
      simp only [validateVC, validateVCWith, goIndex_zero, vcOK_single]
      cases isLetter c0 <;> simp
    · subst h
      rw [List.concat_eq_append, vcOK_long]
      cases h0 : isLetter c0 <;> cases h1 : mid.all isVCMid <;>
        simp [validateVC, validateVCWith, goIndex_zero, goSlice_middle, goIndex_last, h0, h1]

theorem validateDeviceName_eq (s : Str) : validateDeviceName s = .ok (devOK s) := by
  cases s with
  | nil => simp [validateDeviceName, devOK]
  | cons c0 rest =>
    rcases List.eq_nil_or_concat rest with h | ⟨mid, l, h⟩
    · subst h
      simp only [validateDeviceName, goIndex_zero, devOK_single]
      cases isAlnum c0 <;> simp
    · subst h
      rw [List.concat_eq_append, devOK_long]
      cases h0 : isAlnum c0 <;> cases h1 : mid.all isDevMid <;>
        simp [validateDeviceName, goIndex_zero, goSlice_middle, goIndex_last, h0, h1]

/-- The pinned validator panics on every one-letter name (the C07/C08 defect). -/
theorem validateVCPinned_one_letter (c : Byte) (h : isLetter c = true) :
    validateVCPinned [c] = .panic := by
  simp [validateVCPinned, validateVCWith, goIndex, h, goSlice]

theorem vcOK_ne_nil {s : Str} (h : vcOK s = true) : s ≠ [] := by
  intro e; subst e; simp [vcOK] at h
theorem devOK_ne_nil {s : Str} (h : devOK s = true) : s ≠ [] := by
  intro e; subst e; simp [devOK] at h

theorem vcOK_all {s : Str} (h : vcOK s = true) : s.all isVCMid = true := by
  unfold vcOK at h
  split at h
  · simp only [Bool.and_eq_true] at h; exact h.2
  · cases h

theorem devOK_all {s : Str} (h : devOK s = true) : s.all isDevMid = true := by
  unfold devOK at h
  split at h
  · simp only [Bool.and_eq_true] at h; exact h.2
  · cases h

theorem vcOK_no_slash {s : Str} (h : vcOK s = true) : cSlash ∉ s := by
  intro hm
  have := List.all_eq_true.mp (vcOK_all h) _ hm
  rw [vcMid_not_slash] at this; cases this

theorem vcOK_no_eq {s : Str} (h : vcOK s = true) : cEq ∉ s := by
  intro hm
  have := List.all_eq_true.mp (vcOK_all h) _ hm
  rw [vcMid_not_eq] at this; cases this

theorem vcOK_head_ne_slash {c : Byte} {r : Str} (h : vcOK (c :: r) = true) : c ≠ cSlash := by
  intro e; exact vcOK_no_slash h (by simp [e])

end Cdi.Parser
