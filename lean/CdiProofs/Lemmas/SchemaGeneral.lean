/-
  General facts about the draft-07 evaluator of CdiModel/Schema.lean, for ANY schema term (so also for whatever
  factgen regenerates from the schema files): an object schema accepts objects only and insists on its required
  members; a member the schema does not mention at that level has no influence on the verdict.
-/
import CdiModel.SchemaGlue
namespace Cdi.Schema
open Cdi

def stype : Schema → Option String | .node t _ _ _ _ _ _ => t
def srequired : Schema → List String | .node _ _ r _ _ _ _ => r
def sprops : Schema → SchemaProps | .node _ p _ _ _ _ _ => p
def spattern : Schema → SchemaProps | .node _ _ _ _ pp _ _ => pp
def propNames : SchemaProps → List String
  | .nil => []
  | .cons n _ r => n :: propNames r

/-- a schema of type "object" accepts objects only, and only those that have every required member -/
theorem validates_object_required (s : Schema) (doc : JVal) (ht : stype s = some "object")
    (h : validates s doc = true) :
    ∃ m, doc = .obj m ∧ ∀ r ∈ srequired s, (memberLast m (lit r)).isSome = true := by
  cases s with
  | node t p req it pp mn mx =>
    have ht' : t = some "object" := ht
    subst ht'
    cases doc with
    | obj m =>
      refine ⟨m, rfl, ?_⟩
      unfold validates at h
      simp only [typeOK, Bool.and_eq_true, Bool.true_and] at h
      have hall := h.1.2
      rw [List.all_eq_true] at hall
      intro r hr
      exact hall r hr
    | null => unfold validates at h; simp [typeOK] at h
    | bool b => unfold validates at h; simp [typeOK] at h
    | num a b => unfold validates at h; simp [typeOK] at h
    | str a => unfold validates at h; simp [typeOK] at h
    | arr a => unfold validates at h; simp [typeOK] at h

theorem typeOK_obj (t : String) (a : JMembers) : typeOK t (.obj a) = decide (t = "object") := by
  by_cases h : t = "object"
  · subst h; simp [typeOK]
  · unfold typeOK
    split <;> simp_all

theorem memberLast_cons_ne (m : JMembers) (k k' : Str) (v : JVal) (h : k ≠ k') :
    memberLast (.cons k v m) k' = memberLast m k' := by
  unfold memberLast
  simp only [JMembers.toList]
  rw [List.filter_cons]
  have : ((k, v).1 == k') = false := by simpa using h
  simp [this]

theorem propsOK_cons_ne (k : Str) (v : JVal) : ∀ (p : SchemaProps) (m : JMembers),
    (∀ n ∈ propNames p, lit n ≠ k) → propsOK p (.cons k v m) = propsOK p m
  | .nil, _, _ => by simp [propsOK]
  | .cons n s rest, m, h => by
    have hn : k ≠ lit n := fun e => h n (by simp [propNames]) e.symm
    simp only [propsOK]
    rw [memberLast_cons_ne m k (lit n) v hn, propsOK_cons_ne k v rest m (fun n' hn' => h n' (by simp [propNames, hn']))]

/-- a member whose name the object schema does not mention (no property, not required, no pattern
properties at that level) has no influence on the verdict -/
theorem validates_ignores_unmentioned (s : Schema) (k : Str) (v : JVal) (m : JMembers)
    (hp : ∀ n ∈ propNames (sprops s), lit n ≠ k) (hr : ∀ n ∈ srequired s, lit n ≠ k) (hpp : spattern s = .nil) :
    validates s (.obj (.cons k v m)) = validates s (.obj m) := by
  cases s with
  | node t p req it pp mn mx =>
    simp only [spattern] at hpp
    subst hpp
    simp only [sprops, srequired] at hp hr
    unfold validates
    simp only [patternOK, Bool.and_true]
    rw [propsOK_cons_ne k v p m hp]
    have hreq : req.all (fun r => (memberLast (.cons k v m) (lit r)).isSome) = req.all (fun r => (memberLast m (lit r)).isSome) := by
      apply Bool.eq_iff_iff.mpr
      simp only [List.all_eq_true]
      constructor
      · intro h r hr'
        rw [← memberLast_cons_ne m k (lit r) v (fun e => hr r hr' e.symm)]; exact h r hr'
      · intro h r hr'
        rw [memberLast_cons_ne m k (lit r) v (fun e => hr r hr' e.symm)]; exact h r hr'
    rw [hreq]
    cases t with
    | none => rfl
    | some ty => simp only [typeOK_obj]

end Cdi.Schema

