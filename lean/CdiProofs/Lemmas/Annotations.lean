import CdiModel.AnnotationsSpec
import CdiProofs.Props.C07
namespace Cdi.Annotations
open Cdi Cdi.Parser

/-! ### splitAll / joinWith -/

theorem splitAll_ne_nil (sep : Byte) (s : Str) : splitAll sep s ≠ [] := by
  induction s with
  | nil => simp [splitAll]
  | cons c cs ih =>
    unfold splitAll
    split
    · simp
    · split
      · simp
      · simp

theorem splitAll_no_sep {sep : Byte} {s : Str} (h : sep ∉ s) : splitAll sep s = [s] := by
  induction s with
  | nil => simp [splitAll]
  | cons c cs ih =>
    have hc : c ≠ sep := fun e => h (by simp [e])
    have hcs : sep ∉ cs := fun e => h (by simp [e])
    simp [splitAll, hc, ih hcs]

theorem splitAll_append_sep {sep : Byte} {a : Str} (b : Str) (h : sep ∉ a) :
    splitAll sep (a ++ sep :: b) = a :: splitAll sep b := by
  induction a with
  | nil => simp [splitAll]
  | cons c cs ih =>
    have hc : c ≠ sep := fun e => h (by simp [e])
    have hcs : sep ∉ cs := fun e => h (by simp [e])
    simp [splitAll, hc, ih hcs]

/-- `strings.Split(strings.Join(ds, ","), ",") = ds` for a non-empty list of
separator-free items. -/
theorem splitAll_joinWith {sep : Byte} : ∀ {ds : List Str}, ds ≠ [] → (∀ d ∈ ds, sep ∉ d) →
    splitAll sep (joinWith sep ds) = ds := by
  intro ds
  induction ds with
  | nil => intro h; exact absurd rfl h
  | cons d rest ih =>
    intro _ hall
    cases rest with
    | nil => simp [joinWith, splitAll_no_sep (hall d (by simp))]
    | cons e rest' =>
      simp only [joinWith]
      rw [splitAll_append_sep _ (hall d (by simp))]
      rw [ih (by simp) (fun x hx => hall x (by simp [hx]))]

/-! ### qualified names contain no comma -/

theorem vcMid_not_comma : isVCMid cComma = false := by decide
theorem devMid_not_comma : isDevMid cComma = false := by decide

theorem qualified_no_comma {d : Str} (h : Qualified d) : cComma ∉ d := by
  obtain ⟨v, c, n, rfl, hv, hc, hn⟩ := h
  intro hm
  simp only [qualifiedName, List.mem_append, List.mem_cons] at hm
  rcases hm with hm | hm | hm | hm | hm
  · have := List.all_eq_true.mp (vcOK_all hv) _ hm; rw [vcMid_not_comma] at this; cases this
  · exact absurd hm (by decide)
  · have := List.all_eq_true.mp (vcOK_all hc) _ hm; rw [vcMid_not_comma] at this; cases this
  · exact absurd hm (by decide)
  · have := List.all_eq_true.mp (devOK_all hn) _ hm; rw [devMid_not_comma] at this; cases this

/-- `parseQualifiedName d` succeeds iff `d` is in the language (boolean form). -/
theorem pqn_ok_iff (d : Str) : ∃ r, parseQualifiedName d = .ok r ∧ (r.ok = true ↔ Qualified d) := by
  rcases C07_dichotomy d with ⟨v, c, n, hp, hq⟩ | ⟨hp, hq⟩
  · exact ⟨_, hp, by simp [hq]⟩
  · exact ⟨_, hp, by simp [hq]⟩

theorem isQualifiedName_eq (d : Str) : isQualifiedName d = .ok (qualifiedB d) := by
  obtain ⟨r, hr, hiff⟩ := pqn_ok_iff d
  simp only [isQualifiedName, hr, Res.map]
  congr 1
  cases hb : qualifiedB d
  · cases ho : r.ok
    · rfl
    · have := (qualifiedB_iff d).mpr (hiff.mp ho); rw [hb] at this; cases this
  · exact hiff.mpr ((qualifiedB_iff d).mp hb)

/-! ### AnnotationValue -/

theorem annotationValue_go (ds : List Str) : ∀ (value sep : Str),
    annotationValue.go ds value sep =
      if ds.all qualifiedB then
        .ok (some (match ds with
          | [] => value
          | d :: rest => value ++ sep ++ joinWith cComma (d :: rest)))
      else .ok none := by
  induction ds with
  | nil => intro value sep; simp [annotationValue.go]
  | cons d rest ih =>
    intro value sep
    obtain ⟨r, hr, hiff⟩ := pqn_ok_iff d
    unfold annotationValue.go
    rw [hr]
    simp only
    cases ho : r.ok
    · have : qualifiedB d = false := by
        cases hb : qualifiedB d
        · rfl
        · have := hiff.mpr ((qualifiedB_iff d).mp hb); rw [ho] at this; cases this
      simp [this]
    · have hq : qualifiedB d = true := (qualifiedB_iff d).mpr (hiff.mp ho)
      simp only [Bool.not_true, Bool.false_eq_true, if_false, List.all_cons, hq, Bool.true_and]
      rw [ih]
      cases rest with
      | nil => simp [joinWith]
      | cons e rest' => simp [joinWith, List.append_assoc]

/-- `AnnotationValue` never panics, fails iff some device is not qualified, and
otherwise returns the comma-joined list. -/
theorem annotationValue_eq (ds : List Str) :
    annotationValue ds = if ds.all qualifiedB then .ok (some (joinWith cComma ds)) else .ok none := by
  unfold annotationValue
  rw [annotationValue_go]
  cases ds with
  | nil => simp [joinWith]
  | cons d rest => simp

/-! ### parseValue -/

theorem parseValue_go (ds : List Str) : ∀ acc : List Str,
    parseValue.go ds acc = if ds.all qualifiedB then .ok (some (acc ++ ds)) else .ok none := by
  induction ds with
  | nil => intro acc; simp [parseValue.go]
  | cons d rest ih =>
    intro acc
    unfold parseValue.go
    rw [isQualifiedName_eq]
    cases hb : qualifiedB d
    · simp [hb]
    · simp [ih, List.append_assoc, hb]

theorem parseValue_eq (v : Str) : parseValue v = .ok (valueDevices v) := by
  unfold parseValue valueDevices
  rw [parseValue_go]
  simp only [List.nil_append]
  split <;> rfl

end Cdi.Annotations
