import CdiModel.ApplySpec
import CdiProofs.Lemmas.Str
namespace Cdi.Apply
open Cdi

/-! ### process env: the index cache of the generator computes "last edit per name" -/

theorem envName_no_eq (v : Str) : cEq ∉ envName v := by
  unfold envName
  cases h : splitFirst cEq v with
  | none => exact splitFirst_none h
  | some p => obtain ⟨a, b⟩ := p; exact (splitFirst_some h).2

theorem createEnvCache_keys (init : List Str) : ∀ kv ∈ createEnvCache init, kv.1 ∈ init := by
  intro kv hkv
  simp only [createEnvCache, List.mem_reverse, List.mem_map] at hkv
  obtain ⟨p, hp, rfl⟩ := hkv
  exact (List.mem_zipIdx hp).2.2 ▸ List.getElem_mem _

theorem lookup_append_none {k : Str} : ∀ (a b : List (Str × Nat)), (∀ kv ∈ a, kv.1 ≠ k) →
    lookup k (a ++ b) = lookup k b := by
  intro a
  induction a with
  | nil => intro b _; rfl
  | cons x rest ih =>
    intro b h
    obtain ⟨k', v⟩ := x
    have : k' ≠ k := h (k', v) (by simp)
    simp only [List.cons_append, lookup, this, if_false]
    exact ih b (fun kv hkv => h kv (by simp [hkv]))

/-- the entries `addEnv` appends to the cache: name ↦ position -/
def idxCache (b : Nat) : List Str → List (Str × Nat)
  | [] => []
  | n :: r => (n, b) :: idxCache (b + 1) r

theorem idxCache_append (N M : List Str) : ∀ b, idxCache b (N ++ M) = idxCache b N ++ idxCache (b + N.length) M := by
  induction N with
  | nil => intro b; simp [idxCache]
  | cons n r ih =>
    intro b
    simp only [List.cons_append, idxCache, ih, List.length_cons]
    rw [show b + 1 + r.length = b + (r.length + 1) by omega]

theorem lookup_idxCache_none {n : Str} : ∀ (N : List Str) (b : Nat), n ∉ N → lookup n (idxCache b N) = none := by
  intro N
  induction N with
  | nil => intro b _; rfl
  | cons m r ih =>
    intro b h
    have h1 : m ≠ n := fun e => h (by simp [e])
    simp only [idxCache, lookup, h1, if_false]
    exact ih (b + 1) (fun hm => h (by simp [hm]))

theorem lookup_idxCache_some {n : Str} : ∀ (pre post : List Str) (b : Nat), n ∉ pre →
    lookup n (idxCache b (pre ++ n :: post)) = some (b + pre.length) := by
  intro pre
  induction pre with
  | nil => intro post b _; simp [idxCache, lookup]
  | cons m r ih =>
    intro post b h
    have h1 : m ≠ n := fun e => h (by simp [e])
    simp only [List.cons_append, idxCache, lookup, h1, if_false]
    rw [ih post (b + 1) (fun hm => h (by simp [hm]))]
    simp only [List.length_cons]; congr 1; omega

theorem set_at_append {α} (a : List α) (b x : α) (c : List α) : (a ++ b :: c).set a.length x = a ++ x :: c := by
  induction a with
  | nil => rfl
  | cons y r ih => simp [List.set, ih]

/-- value of the last of `done` that names `n` -/
def lastD (done : List Str) (n : Str) : Str := ((done.filter (fun v => envName v == n)).getLast?).getD []

theorem lastD_snoc (done : List Str) (val n : Str) :
    lastD (done ++ [val]) n = if envName val = n then val else lastD done n := by
  unfold lastD
  rw [List.filter_append]
  by_cases h : envName val = n
  · simp [h]
  · have : (envName val == n) = false := by simp [h]
    simp [List.filter_cons, this, h]

def namesOf (done : List Str) : List Str := firstOcc id (done.map envName)

theorem namesOf_snoc (done : List Str) (val : Str) :
    namesOf (done ++ [val]) =
      if envName val ∈ namesOf done then namesOf done else namesOf done ++ [envName val] := by
  unfold namesOf firstOcc
  rw [List.map_append, List.foldl_append]
  simp only [List.map_cons, List.map_nil, List.foldl_cons, List.foldl_nil, id]
  generalize List.foldl (fun acc x => if (acc.any fun y => y == x) = true then acc else acc ++ [x]) []
    (List.map envName done) = acc
  by_cases h : envName val ∈ acc
  · have : acc.any (fun y => y == envName val) = true := List.any_eq_true.mpr ⟨_, h, by simp⟩
    simp [this, h]
  · have : acc.any (fun y => y == envName val) = false := by
      apply Bool.eq_false_iff.mpr
      intro ht
      obtain ⟨y, hy, hye⟩ := List.any_eq_true.mp ht
      exact h ((beq_iff_eq.mp hye) ▸ hy)
    simp [this, h]

/-- state of the env loop after the edits `done` -/
def EnvInv (init : List Str) (st : List (Str × Nat) × List Str) (done : List Str) : Prop :=
  st.1 = createEnvCache init ++ idxCache init.length (namesOf done) ∧
  st.2 = init ++ (namesOf done).map (lastD done) ∧
  (namesOf done).Nodup ∧ ∀ n ∈ namesOf done, cEq ∉ n

theorem map_lastD_snoc (done : List Str) (val : Str) (l : List Str) (h : envName val ∉ l) :
    l.map (lastD (done ++ [val])) = l.map (lastD done) := by
  apply List.map_congr_left
  intro m hm
  rw [lastD_snoc]
  have : envName val ≠ m := fun e => h (e ▸ hm)
  simp [this]

theorem lastD_snoc_self (done : List Str) (val : Str) : lastD (done ++ [val]) (envName val) = val := by
  rw [lastD_snoc]; simp

theorem addEnv_inv (init : List Str) (hinit : ∀ x ∈ init, cEq ∈ x) (st : List (Str × Nat) × List Str)
    (done : List Str) (val : Str) (h : EnvInv init st done) : EnvInv init (addEnv st val) (done ++ [val]) := by
  obtain ⟨h1, h2, h3, h4⟩ := h
  have hname := envName_no_eq val
  have hcache0 : ∀ kv ∈ createEnvCache init, kv.1 ≠ envName val := by
    intro kv hkv e
    exact hname (e ▸ hinit kv.1 (createEnvCache_keys init kv hkv))
  unfold EnvInv addEnv
  simp only
  rw [h1, lookup_append_none _ _ hcache0, namesOf_snoc]
  by_cases hin : envName val ∈ namesOf done
  · -- the name already has a slot: overwrite it in place
    obtain ⟨pre, post, hN⟩ := List.append_of_mem hin
    have hnd := h3
    rw [hN] at hnd
    have hpre : envName val ∉ pre := by
      intro hm
      exact (List.nodup_append.mp hnd).2.2 _ hm _ (List.mem_cons_self) rfl
    have hpost : envName val ∉ post := (List.nodup_cons.mp (List.nodup_append.mp hnd).2.1).1
    simp only [hin, if_true]
    have hl : lookup (envName val) (idxCache init.length (namesOf done)) = some (init.length + pre.length) := by
      rw [hN]; exact lookup_idxCache_some pre post init.length hpre
    rw [hl]
    simp only
    refine ⟨trivial, ?_, h3, h4⟩
    rw [h2, hN]
    simp only [List.map_append, List.map_cons]
    have hlen : init.length + pre.length = (init ++ pre.map (lastD done)).length := by simp
    rw [← List.append_assoc, hlen, set_at_append, List.append_assoc]
    rw [map_lastD_snoc done val pre hpre, map_lastD_snoc done val post hpost, lastD_snoc_self]
  · -- a new name: append a slot and remember its position
    simp only [hin, if_false]
    rw [lookup_idxCache_none _ _ hin]
    simp only
    refine ⟨?_, ?_, ?_, ?_⟩
    · rw [idxCache_append, List.append_assoc]
      congr 2
      simp [idxCache, h2]
    · rw [h2, List.map_append, map_lastD_snoc done val _ hin, List.append_assoc]
      congr 2
      simp [lastD_snoc_self]
    · rw [List.nodup_append]
      refine ⟨h3, by simp, ?_⟩
      intro a ha b hb
      simp only [List.mem_singleton] at hb
      subst hb
      exact fun e => hin (e ▸ ha)
    · intro n hn
      rcases List.mem_append.mp hn with hn | hn
      · exact h4 n hn
      · simp only [List.mem_singleton] at hn; subst hn; exact hname

theorem foldl_addEnv_inv (init : List Str) (hinit : ∀ x ∈ init, cEq ∈ x) : ∀ (edits done : List Str)
    (st : List (Str × Nat) × List Str), EnvInv init st done →
    EnvInv init (edits.foldl addEnv st) (done ++ edits) := by
  intro edits
  induction edits with
  | nil => intro done st h; simpa using h
  | cons v rest ih =>
    intro done st h
    simp only [List.foldl_cons]
    have := ih (done ++ [v]) _ (addEnv_inv init hinit st done v h)
    simpa using this

/-- **env**: when every initial entry is NAME=value, the result is the initial entries
followed by one entry per variable the edits name (in order of first mention)
holding the value of its last edit. -/
theorem env_eq (init edits : List Str) (hinit : ∀ x ∈ init, cEq ∈ x) :
    addMultipleProcessEnv init edits = envSpec init edits := by
  have h0 : EnvInv init (createEnvCache init, init) [] := by
    refine ⟨by simp [namesOf, firstOcc, idxCache], by simp [namesOf, firstOcc], by simp [namesOf, firstOcc],
      by simp [namesOf, firstOcc]⟩
  have := foldl_addEnv_inv init hinit edits [] _ h0
  simp only [List.nil_append] at this
  unfold addMultipleProcessEnv envSpec
  rw [this.2.1]
  rfl

end Cdi.Apply
