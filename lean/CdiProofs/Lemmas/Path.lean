import CdiModel.Path
import CdiProofs.Lemmas.Annotations
namespace Cdi.Path
open Cdi

/-- pieces of `splitAll` contain no separator -/
theorem splitAll_pieces_no_sep (sep : Byte) : ∀ (s : Str) (p : Str), p ∈ splitAll sep s → sep ∉ p := by
  intro s
  induction s with
  | nil => intro p hp; simp [splitAll] at hp; subst hp; simp
  | cons c cs ih =>
    intro p hp
    unfold splitAll at hp
    split at hp
    · rcases List.mem_cons.mp hp with h | h
      · subst h; simp
      · exact ih p h
    · next hc =>
      split at hp
      · next h0 => exact absurd h0 (Annotations.splitAll_ne_nil sep cs)
      · next q qs hq =>
        rcases List.mem_cons.mp hp with h | h
        · subst h
          have hq' : sep ∉ q := ih q (by rw [hq]; simp)
          intro hm
          rcases List.mem_cons.mp hm with h1 | h1
          · exact hc h1.symm
          · exact hq' h1
        · exact ih p (by rw [hq]; simp [h])

theorem splitAll_append (sep : Byte) (a b : Str) :
    splitAll sep (a ++ sep :: b) = splitAll sep a ++ splitAll sep b := by
  induction a with
  | nil => simp [splitAll]
  | cons c cs ih =>
    by_cases hc : c = sep
    · simp [splitAll, hc, ih]
    · obtain ⟨p, ps, hps⟩ := List.exists_cons_of_ne_nil (Annotations.splitAll_ne_nil sep cs)
      simp only [List.cons_append, splitAll, hc, if_false, ih, hps]

/-- components of `a/b` are those of `a` followed by those of `b` -/
theorem components_append (a b : Str) :
    components (a ++ cSlash :: b) = components a ++ components b := by
  simp [components, splitAll_append]

theorem components_single {n : Str} (hne : n ≠ []) (hs : cSlash ∉ n) : components n = [n] := by
  simp [components, Annotations.splitAll_no_sep hs, hne]

/-- every component is non-empty and slash-free -/
theorem components_wf (p : Str) : ∀ c ∈ components p, c ≠ [] ∧ cSlash ∉ c := by
  intro c hc
  simp only [components, List.mem_filter, decide_eq_true_eq] at hc
  exact ⟨hc.2, splitAll_pieces_no_sep cSlash p c hc.1⟩

/-- `joinWith '/'` of non-empty slash-free parts splits back into them -/
theorem components_joinWith : ∀ (l : List Str), (∀ c ∈ l, c ≠ [] ∧ cSlash ∉ c) →
    components (joinWith cSlash l) = l := by
  intro l
  induction l with
  | nil => intro _; simp [joinWith, components, splitAll]
  | cons a rest ih =>
    intro h
    cases rest with
    | nil =>
      have := h a (by simp)
      simp [joinWith, components_single this.1 this.2]
    | cons b rest' =>
      have ha := h a (by simp)
      simp only [joinWith]
      rw [components_append, components_single ha.1 ha.2, ih (fun c hc => h c (by simp [hc]))]
      simp

/-- the reversed output stack `Clean` builds for `p` -/
def cleanStack (p : Str) : List Str := (components p).foldl (pushComp (isRooted p)) []

/-- how `Clean` renders its stack -/
def render (rooted : Bool) (stack : List Str) : Str :=
  let body := joinWith cSlash stack.reverse
  if rooted then cSlash :: body else if body = [] then dot else body

theorem clean_eq_render {p : Str} (h : p ≠ []) : clean p = render (isRooted p) (cleanStack p) := by
  unfold clean render cleanStack
  rw [if_neg h]

def WfComp (c : Str) : Prop := c ≠ [] ∧ cSlash ∉ c

theorem dotdot_wf : WfComp dotdot := by
  constructor
  · decide
  · decide

theorem pushComp_wf (r : Bool) (st : List Str) (c : Str) (hst : ∀ x ∈ st, WfComp x) (hc : WfComp c) :
    ∀ x ∈ pushComp r st c, WfComp x := by
  unfold pushComp
  split
  · exact hst
  · split
    · split
      · split
        · intro x hx; cases hx
        · intro x hx; simp at hx; subst hx; exact dotdot_wf
      · next top rest =>
        split
        · intro x hx
          rcases List.mem_cons.mp hx with h | h
          · subst h; exact dotdot_wf
          · exact hst x h
        · intro x hx; exact hst x (by simp [hx])
    · intro x hx
      rcases List.mem_cons.mp hx with h | h
      · subst h; exact hc
      · exact hst x h

theorem foldl_pushComp_wf (r : Bool) : ∀ (cs : List Str) (st : List Str), (∀ x ∈ st, WfComp x) →
    (∀ c ∈ cs, WfComp c) → ∀ x ∈ cs.foldl (pushComp r) st, WfComp x := by
  intro cs
  induction cs with
  | nil => intro st hst _; exact hst
  | cons c rest ih =>
    intro st hst hcs
    simp only [List.foldl_cons]
    exact ih _ (pushComp_wf r st c hst (hcs c (by simp))) (fun x hx => hcs x (by simp [hx]))

theorem cleanStack_wf (p : Str) : ∀ x ∈ cleanStack p, WfComp x :=
  foldl_pushComp_wf _ _ [] (by simp) (components_wf p)

theorem joinWith_ne_nil : ∀ (l : List Str), l ≠ [] → (∀ c ∈ l, c ≠ []) → joinWith cSlash l ≠ [] := by
  intro l hl hc
  cases l with
  | nil => exact absurd rfl hl
  | cons a rest =>
    cases rest with
    | nil => simpa [joinWith] using hc a (by simp)
    | cons b r => simp [joinWith]

theorem components_nil : components [] = [] := by simp [components, splitAll]

/-- the components of a rendered non-empty stack are the stack (bottom first) -/
theorem components_render (r : Bool) (st : List Str) (hne : st ≠ []) (hwf : ∀ x ∈ st, WfComp x) :
    components (render r st) = st.reverse := by
  have hwf' : ∀ c ∈ st.reverse, c ≠ [] ∧ cSlash ∉ c := fun c hc => hwf c (List.mem_reverse.mp hc)
  have hbody : joinWith cSlash st.reverse ≠ [] :=
    joinWith_ne_nil _ (by simpa using hne) (fun c hc => (hwf' c hc).1)
  unfold render
  cases r with
  | true =>
    simp only [if_true]
    have : cSlash :: joinWith cSlash st.reverse = [] ++ cSlash :: joinWith cSlash st.reverse := rfl
    rw [this, components_append, components_nil, components_joinWith _ hwf']; simp
  | false =>
    simp only [Bool.false_eq_true, if_false, hbody]
    exact components_joinWith _ hwf'

theorem isRooted_render (r : Bool) (st : List Str) (hne : st ≠ []) (hwf : ∀ x ∈ st, WfComp x) :
    isRooted (render r st) = r := by
  have hwf' : ∀ c ∈ st.reverse, c ≠ [] ∧ cSlash ∉ c := fun c hc => hwf c (List.mem_reverse.mp hc)
  have hbody : joinWith cSlash st.reverse ≠ [] :=
    joinWith_ne_nil _ (by simpa using hne) (fun c hc => (hwf' c hc).1)
  unfold render
  cases r with
  | true => simp [isRooted]
  | false =>
    simp only [Bool.false_eq_true, if_false, hbody]
    -- the first byte of the body is the first byte of the bottom component, which is not '/'
    obtain ⟨b, bs, hb⟩ := List.exists_cons_of_ne_nil (show st.reverse ≠ [] by simpa using hne)
    have hbw := hwf' b (by rw [hb]; simp)
    obtain ⟨x, xs, hx⟩ := List.exists_cons_of_ne_nil hbw.1
    have hx' : x ≠ cSlash := fun e => hbw.2 (by rw [hx, e]; simp)
    rw [hb]
    cases bs with
    | nil => simp [joinWith, hx, isRooted, hx']
    | cons b2 bs2 => simp [joinWith, hx, isRooted, hx']

end Cdi.Path

namespace Cdi.Path
open Cdi

theorem joinWith_concat (sep : Byte) : ∀ (l : List Str) (n : Str),
    joinWith sep (l ++ [n]) = (if l = [] then [] else joinWith sep l ++ [sep]) ++ n := by
  intro l
  induction l with
  | nil => intro n; simp [joinWith]
  | cons a rest ih =>
    intro n
    cases rest with
    | nil => simp [joinWith]
    | cons b r =>
      have := ih n
      simp only [List.cons_append, joinWith] at this ⊢
      rw [this]; simp

/-- a rendered stack with top `n` is `X ++ n` where `X` is empty or ends in '/' -/
theorem render_top (r : Bool) (st : List Str) (n : Str) (hn : n ≠ []) :
    ∃ X, render r (n :: st) = X ++ n ∧ (X = [] ∨ ∃ Y, X = Y ++ [cSlash]) := by
  unfold render
  simp only [List.reverse_cons]
  rw [joinWith_concat]
  have hbody : (if st.reverse = [] then [] else joinWith cSlash st.reverse ++ [cSlash]) ++ n ≠ [] := by
    intro h; exact hn (List.append_eq_nil_iff.mp h).2
  cases r with
  | true =>
    simp only [if_true]
    by_cases hst : st.reverse = []
    · exact ⟨[cSlash], by simp [hst], Or.inr ⟨[], rfl⟩⟩
    · exact ⟨cSlash :: (joinWith cSlash st.reverse ++ [cSlash]), by simp [hst],
        Or.inr ⟨cSlash :: joinWith cSlash st.reverse, by simp⟩⟩
  | false =>
    simp only [Bool.false_eq_true, if_false, hbody]
    by_cases hst : st.reverse = []
    · exact ⟨[], by simp [hst], Or.inl rfl⟩
    · exact ⟨joinWith cSlash st.reverse ++ [cSlash], by simp [hst], Or.inr ⟨_, rfl⟩⟩

theorem ext_go_nodot : ∀ (a acc : Str), cSlash ∉ a → cDot ∉ a → ext.go a acc = [] := by
  intro a
  induction a with
  | nil => intro acc _ _; simp [ext.go]
  | cons c cs ih =>
    intro acc hs hd
    have h1 : c ≠ cSlash := fun e => hs (by simp [e])
    have h2 : c ≠ cDot := fun e => hd (by simp [e])
    simp only [ext.go, h1, h2, if_false]
    exact ih _ (fun h => hs (by simp [h])) (fun h => hd (by simp [h]))

theorem ext_go_prefix : ∀ (a b acc : Str), cSlash ∉ a → (b = [] ∨ ∃ b', b = cSlash :: b') →
    ext.go (a ++ b) acc = ext.go a acc := by
  intro a
  induction a with
  | nil =>
    intro b acc _ hb
    rcases hb with rfl | ⟨b', rfl⟩
    · rfl
    · simp [ext.go]
  | cons c cs ih =>
    intro b acc hs hb
    have h1 : c ≠ cSlash := fun e => hs (by simp [e])
    simp only [List.cons_append, ext.go, h1, if_false]
    split
    · rfl
    · exact ih b _ (fun h => hs (by simp [h])) hb

/-- `Ext` looks at the last path element only -/
theorem ext_append_last (X n : Str) (hn : cSlash ∉ n) (hX : X = [] ∨ ∃ Y, X = Y ++ [cSlash]) :
    ext (X ++ n) = ext n := by
  unfold ext
  rw [List.reverse_append]
  apply ext_go_prefix
  · simpa using hn
  · rcases hX with rfl | ⟨Y, rfl⟩
    · exact Or.inl rfl
    · exact Or.inr ⟨Y.reverse, by simp⟩

/-- appending a slash-free suffix to a rendered stack extends its top element -/
theorem render_append_top (r : Bool) (st : List Str) (n s : Str) (hn : n ≠ []) :
    render r (n :: st) ++ s = render r ((n ++ s) :: st) := by
  unfold render
  simp only [List.reverse_cons]
  rw [joinWith_concat, joinWith_concat]
  have h1 : (if st.reverse = [] then [] else joinWith cSlash st.reverse ++ [cSlash]) ++ n ≠ [] := by
    intro h; exact hn (List.append_eq_nil_iff.mp h).2
  have h2 : (if st.reverse = [] then [] else joinWith cSlash st.reverse ++ [cSlash]) ++ (n ++ s) ≠ [] := by
    intro h; exact hn (List.append_eq_nil_iff.mp (List.append_eq_nil_iff.mp h).2).1
  cases r with
  | true => simp
  | false => simp only [Bool.false_eq_true, if_false, h1, h2, List.append_assoc]

end Cdi.Path
