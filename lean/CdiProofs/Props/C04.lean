/-
  C04 — An unresolvable request leaves the OCI spec untouched and names every miss.

  Model: CdiModel/Inject.lean; loop invariant `loop_result` from Props/C02.lean.
  "Untouched" is structural in the model: the outcome `.unresolved` carries no
  `Apply` (the Go code returns before calling it); the correspondence stream
  compares the real OCI spec before and after.
-/
import CdiProofs.Props.C02
namespace Cdi.Inject
open Cdi Cdi.Cache

/-- **C04 — the property theorem**: if some requested name does not resolve, the result is
an error carrying exactly the unresolvable names in request order (with
repetitions) and no `Apply` happens: the OCI spec is untouched. -/
theorem C04_unresolved (device : Str → Option Ref) (req : List Str)
    (h : ∃ q ∈ req, device q = none) :
    injectDevices device false req = .unresolved (unresolvedOf device req) := by
  obtain ⟨h1, _, _⟩ := loop_result device req
  unfold injectDevices
  have hu : unresolvedOf device req ≠ [] := by
    obtain ⟨q, hq, hd⟩ := h
    intro he
    have : q ∈ unresolvedOf device req := by simp [unresolvedOf, List.mem_filter, hq, hd]
    rw [he] at this; cases this
  simp only [Bool.false_eq_true, if_false, h1, hu, ne_eq, not_false_eq_true, if_true]

/-- **C04 (nil OCI spec)**: refused with an error and all requested names returned. -/
theorem C04_nil_oci (device : Str → Option Ref) (req : List Str) :
    injectDevices device true req = .nilOci req := by
  simp [injectDevices]

/-- **C04 (which names are unresolvable)**: a name is unresolvable in the refreshed cache iff
the precedence rule gives it no winner — unknown, syntactically invalid, defined
only by invalid files, or removed by a same-priority conflict. -/
theorem C04_unresolved_classes (dirs : List (Str × DirState)) (q : Str) :
    (refresh (scan dirs)).device q = none ↔ resolution q (scan dirs) = none := by
  rw [C01_resolve_iff]

/-! ### Non-vacuity -/
example : injectDevices (fun q => if q = lit "v/c=x" then some refA else none) false
    [lit "nope", lit "v/c=x", lit "also bad", lit "nope"] = .unresolved [lit "nope", lit "also bad", lit "nope"] := by
  decide

end Cdi.Inject
