/-
  C04 — An unresolvable request leaves the OCI spec untouched and names every miss.

  Model: CdiModel/Inject.lean; loop invariant `loop_result` from Props/C02.lean.
  "Untouched" is structural in the model: the outcome `.unresolved` carries no
  `Apply` (the Go code returns before calling it); the correspondence stream
  compares the real OCI spec before and after.
-/
import CdiProofs.Props.C02
namespace Cdi.Inject
open Cdi Cdi.Cache

/-- **C04 — the property theorem**: if some requested name does not resolve, the result is
an error carrying exactly the unresolvable names in request order (with
repetitions) and no `Apply` happens: the OCI spec is untouched. -/
theorem C04_unresolved (device : Str → Option Ref) (req : List Str)
    (h : ∃ q ∈ req, device q = none) :
    injectDevices device false req = .unresolved (unresolvedOf device req) := by
  obtain ⟨h1, _, _⟩ := loop_result device req
  unfold injectDevices
  have hu : unresolvedOf device req ≠ [] := by
    obtain ⟨q, hq, hd⟩ := h
    intro he
    have : q ∈ unresolvedOf device req := by simp [unresolvedOf, List.mem_filter, hq, hd]
    rw [he] at this; cases this
  simp only [Bool.false_eq_true, if_false, h1, hu, ne_eq, not_false_eq_true, if_true]

/-- **C04 (nil OCI spec)**: refused with an error and all requested names returned. -/
theorem C04_nil_oci (device : Str → Option Ref) (req : List Str) :
    injectDevices device true req = .nilOci req := by
  simp [injectDevices]

/-- **C04 (which names are unresolvable)**: a name is unresolvable in the refreshed cache iff
the precedence rule gives it no winner — unknown, syntactically invalid, defined
only by invalid files, or removed by a same-priority conflict. -/
theorem C04_unresolved_classes (dirs : List (Str × DirState)) (q : Str) :
    (refresh (scan dirs)).device q = none ↔ resolution q (scan dirs) = none := by
  rw [C01_resolve_iff]

theorem qname_has_slash_eq (r : Ref) : cSlash ∈ r.qname ∧ cEq ∈ r.qname := by
  simp [Ref.qname, Parser.qualifiedName]

/-- a name that lacks the `/` or the `=` of a qualified name is defined by no Spec file -/
theorem definers_of_unqualified (q : Str) (items : List ScanItem) (h : cSlash ∉ q ∨ cEq ∉ q) :
    definers q items = [] := by
  unfold definers
  rw [List.filter_eq_nil_iff]
  intro r _ hr
  have hq : r.qname = q := by simpa using hr
  obtain ⟨h1, h2⟩ := qname_has_slash_eq r
  rw [hq] at h1 h2
  rcases h with h | h
  · exact h h1
  · exact h h2

/-- **C04 (names that cannot be device names are misses)**: whatever the directories hold, a requested name
without `/` or without `=` - the empty name, a blank, a bare vendor - does not resolve in the refreshed cache -/
theorem C04_unqualified_is_a_miss (dirs : List (Str × DirState)) (q : Str) (h : cSlash ∉ q ∨ cEq ∉ q) :
    (refresh (scan dirs)).device q = none := by
  rw [C04_unresolved_classes]
  unfold resolution
  rw [definers_of_unqualified q _ h]
  rfl

/-- **C04 (no silent success)**: with a miss in the request the outcome is never an `Apply`, and never an empty
list of names -/
theorem C04_miss_never_applies (device : Str → Option Ref) (req : List Str) (h : ∃ q ∈ req, device q = none) :
    (∀ e, injectDevices device false req ≠ .apply e) ∧ injectDevices device false req ≠ .unresolved [] := by
  rw [C04_unresolved device req h]
  constructor
  · intro e he
    cases he
  · intro he
    injection he with he
    obtain ⟨q, hq, hd⟩ := h
    have : q ∈ unresolvedOf device req := by simp [unresolvedOf, List.mem_filter, hq, hd]
    rw [he] at this
    cases this

/-- **C04 (every miss is named, as often as it was requested)** -/
theorem C04_names_every_miss (device : Str → Option Ref) (req : List Str) (q : Str) :
    (unresolvedOf device req).count q = if device q = none then req.count q else 0 := by
  unfold unresolvedOf
  induction req with
  | nil => simp
  | cons a rest ih =>
    by_cases ha : (device a).isNone = true
    · simp only [List.filter_cons, ha, if_true, List.count_cons, ih]
      by_cases hq : device q = none
      · simp [hq]
      · simp only [hq, if_false]
        have : ¬ (a == q) = true := by
          intro hh
          have : a = q := by simpa using hh
          subst this
          exact hq (by simpa using ha)
        simp [this]
    · simp only [List.filter_cons, ha, List.count_cons]
      by_cases hq : device q = none
      · simp only [hq, if_true]
        have : ¬ (a == q) = true := by
          intro hh
          have : a = q := by simpa using hh
          subst this
          exact ha (by simp [hq])
        simp [this, ih, hq]
      · simp [hq, ih]

example (dirs : List (Str × DirState)) : (refresh (scan dirs)).device [] = none :=
  C04_unqualified_is_a_miss dirs [] (Or.inl (by simp))
example (dirs : List (Str × DirState)) : (refresh (scan dirs)).device (lit " ") = none :=
  C04_unqualified_is_a_miss dirs _ (Or.inl (by decide))

/-! ### Non-vacuity -/
example : injectDevices (fun q => if q = lit "v/c=x" then some refA else none) false
    [lit "nope", lit "v/c=x", lit "also bad", lit "nope"] = .unresolved [lit "nope", lit "also bad", lit "nope"] := by
  decide

end Cdi.Inject
