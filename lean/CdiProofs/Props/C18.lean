/-
  C18 — Every Spec the library accepts also passes the builtin schema.

  `Generated.builtinSchema` is regenerated from schema/schema.json + defs.json on
  every run (F8); `Encode.encodeSpec` is the JSON value encoding/json produces
  for a raw Spec (F3); `SpecWF.WellFormed` is the library's acceptance (C05).
-/
import CdiProofs.Lemmas.Schema
import CdiProofs.Props.C05
namespace Cdi.Encode
open Cdi Cdi.Schema Cdi.Generated

/-- F8: every keyword of the shipped schema files is one the Lean `Schema` term represents (the only
exception being the misspelt "ref", which draft-07 ignores) — so `builtinSchema` below is the schema -/
theorem F8_schema_fully_modelled : Generated.schemaIgnoredKeywords = ["ref"] := by decide

/-- integer fields within the Go types of specs-go/config.go; hook timeouts within 0..2^32-1 -/
def nodeInRange (d : DeviceNode) : Prop :=
  -9223372036854775808 ≤ d.major ∧ d.major ≤ 9223372036854775807 ∧
  -9223372036854775808 ≤ d.minor ∧ d.minor ≤ 9223372036854775807 ∧
  (∀ u, d.uid = some u → u ≤ 4294967295) ∧ (∀ g, d.gid = some g → g ≤ 4294967295)
def hookInRange (h : Hook) : Prop := ∀ t, h.timeout = some t → 0 ≤ t ∧ t ≤ 4294967295
def editsInRange (e : Edits) : Prop :=
  (∀ d, some d ∈ e.deviceNodes → nodeInRange d) ∧ (∀ h, some h ∈ e.hooks → hookInRange h) ∧
  (∀ g ∈ e.additionalGids, g ≤ 4294967295)
def specInRange (s : Spec) : Prop := ∀ e ∈ s.allEdits, editsInRange e

/-- closes one "declared property" goal: the field is absent, or present with a value the
sub-schema accepts (by one of the given lemmas) -/
macro "field_ok" "[" ls:term,* "]" : tactic =>
  `(tactic| first
      | (first $[| exact $ls]*)
      | (split
         · next v heq =>
           first
           | (split at heq
              · cases heq
              · simp only [Option.some.injEq] at heq; subst heq; first $[| exact $ls]*)
           | (simp only [Option.some.injEq] at heq; subst heq; first $[| exact $ls]*)
         · rfl))

theorem v_filepath (s : Str) : validates schema_FilePath (jstr s) = true := v_string s
theorem v_filename (s : Str) : validates schema_FileName (jstr s) = true := v_string s

theorem v_mount (m : Mount) : validates schema_Mount (encMount m) = true := by
  have hnd : (([fReq "hostPath" (jstr m.hostPath), fReq "containerPath" (jstr m.containerPath),
      fOpt (m.options = []) "options" (jstrs m.options), fOpt (m.type = []) "type" (jstr m.type)] : List Field).map (·.1)).Nodup := by
    simp only [List.map_cons, List.map_nil, fReq, fOpt]; decide
  unfold schema_Mount schema_inline_definitions_Mount encMount mkObjF JVal.mkObj
  simp only [validates, typeOK, Bool.true_and, Bool.and_eq_true, propsOK, patternOK, and_true, List.all_cons, List.all_nil]
  simp only [memberLast_mkObjF _ _ hnd]
  simp (config := {decide := true}) [fieldValue, fReq, fOpt, fOptVal, v_filepath]
  repeat' constructor
  all_goals field_ok [v_string _, v_strs _]

theorem v_hook (h : Hook) (hr : hookInRange h) : validates schema_Hook (encHook h) = true := by
  have hnd : (([fReq "hookName" (jstr h.hookName), fReq "path" (jstr h.path), fOpt (h.args = []) "args" (jstrs h.args),
      fOpt (h.env = []) "env" (jstrs h.env), fOptVal h.timeout "timeout" jint] : List Field).map (·.1)).Nodup := by
    simp only [List.map_cons, List.map_nil, fReq, fOpt, fOptVal]; decide
  unfold schema_Hook schema_inline_definitions_Hook encHook mkObjF JVal.mkObj
  simp only [validates, typeOK, Bool.true_and, Bool.and_eq_true, propsOK, patternOK, and_true, List.all_cons, List.all_nil]
  simp only [memberLast_mkObjF _ _ hnd]
  cases ht : h.timeout with
  | none =>
    simp (config := {decide := true}) [fieldValue, fReq, fOpt, fOptVal, v_filepath, v_string]
    repeat' constructor
    all_goals field_ok [v_string _, v_strs _]
  | some t =>
    have := hr t ht
    simp (config := {decide := true}) [fieldValue, fReq, fOpt, fOptVal, v_filepath, v_string, v_uint32_int t this.1 this.2]
    repeat' constructor
    all_goals field_ok [v_string _, v_strs _]

theorem v_node (d : DeviceNode) (hr : nodeInRange d) : validates schema_DeviceNode (encNode d) = true := by
  obtain ⟨h1, h2, h3, h4, h5, h6⟩ := hr
  have hnd : (([fReq "path" (jstr d.path), fOpt (d.hostPath = []) "hostPath" (jstr d.hostPath),
      fOpt (d.type = []) "type" (jstr d.type), fOpt (d.major = 0) "major" (jint d.major),
      fOpt (d.minor = 0) "minor" (jint d.minor), fOptVal d.fileMode "fileMode" jnat,
      fOpt (d.permissions = []) "permissions" (jstr d.permissions), fOptVal d.uid "uid" jnat,
      fOptVal d.gid "gid" jnat] : List Field).map (·.1)).Nodup := by
    simp only [List.map_cons, List.map_nil, fReq, fOpt, fOptVal]; decide
  unfold schema_DeviceNode schema_inline_definitions_DeviceNode encNode mkObjF JVal.mkObj
  simp only [validates, typeOK, Bool.true_and, Bool.and_eq_true, propsOK, patternOK, and_true, List.all_cons, List.all_nil]
  simp only [memberLast_mkObjF _ _ hnd]
  cases hu : d.uid <;> cases hg : d.gid <;>
    simp (config := {decide := true}) [fieldValue, fReq, fOpt, fOptVal, v_filepath, v_string] <;>
    (repeat' constructor) <;>
    (first
      | field_ok [v_string _, v_filepath _, v_int64 _ h1 h2, v_int64 _ h3 h4]
      | exact v_uint32 _ (h5 _ hu)
      | exact v_uint32 _ (h6 _ hg))

theorem v_rdt (r : IntelRdt) :
    validates schema_inline_definitions_containerEdits_properties_intelRdt (encRdt r) = true := by
  have hnd : (([fOpt (r.closID = []) "closID" (jstr r.closID), fOpt (r.l3CacheSchema = []) "l3CacheSchema" (jstr r.l3CacheSchema),
      fOpt (r.memBwSchema = []) "memBwSchema" (jstr r.memBwSchema), fOpt (!r.enableCMT) "enableCMT" (.bool true),
      fOpt (!r.enableMBM) "enableMBM" (.bool true)] : List Field).map (·.1)).Nodup := by
    simp only [List.map_cons, List.map_nil, fOpt]; decide
  unfold schema_inline_definitions_containerEdits_properties_intelRdt encRdt mkObjF JVal.mkObj
  simp only [validates, typeOK, Bool.true_and, Bool.and_eq_true, propsOK, patternOK, and_true, List.all_nil]
  simp only [memberLast_mkObjF _ _ hnd]
  simp (config := {decide := true}) [fieldValue, fOpt]
  repeat' constructor
  all_goals field_ok [v_string _, v_filename _, v_bool _]

theorem v_any_str (s : Str) :
    validates (Schema.node none SchemaProps.nil [] SchemaOpt.none SchemaProps.nil none none) (jstr s) = true := by
  simp [validates, jstr]

theorem v_annotations (a : List (Str × Str)) : validates schema_annotations (encAnnotations a) = true := by
  unfold schema_annotations schema_mapStringString encAnnotations JVal.mkObj
  simp only [validates, typeOK, Bool.true_and, propsOK, List.all_nil, patternOK, Bool.and_true, toList_ofList]
  induction a with
  | nil => simp [patternMembersOK]
  | cons kv rest ih =>
    simp only [List.map_cons, patternMembersOK, ih, Bool.and_true]
    split
    · exact v_string _
    · rfl

open SpecWF in
theorem v_edits (e : Edits) (hwf : editsWF e = true) (hr : editsInRange e) :
    validates schema_containerEdits (encEdits e) = true := by
  obtain ⟨r1, r2, r3⟩ := hr
  simp only [editsWF, Bool.and_eq_true, List.all_eq_true] at hwf
  obtain ⟨⟨⟨⟨_, w2⟩, w3⟩, w4⟩, _⟩ := hwf
  have hnodes : ∀ o ∈ e.deviceNodes, validates schema_DeviceNode (encOpt encNode o) = true := by
    intro o ho
    cases o with
    | none => have := w2 none ho; simp [nodeWF] at this
    | some d => exact v_node d (r1 d ho)
  have hhooks : ∀ o ∈ e.hooks, validates schema_Hook (encOpt encHook o) = true := by
    intro o ho
    cases o with
    | none => have := w3 none ho; simp [hookWF] at this
    | some h => exact v_hook h (r2 h ho)
  have hmounts : ∀ o ∈ e.mounts, validates schema_Mount (encOpt encMount o) = true := by
    intro o ho
    cases o with
    | none => have := w4 none ho; simp [mountWF] at this
    | some m => exact v_mount m
  have hnd : (([fOpt (e.env = []) "env" (jstrs e.env),
      fOpt (e.deviceNodes = []) "deviceNodes" (JVal.mkArr (e.deviceNodes.map (encOpt encNode))),
      fOpt (e.hooks = []) "hooks" (JVal.mkArr (e.hooks.map (encOpt encHook))),
      fOpt (e.mounts = []) "mounts" (JVal.mkArr (e.mounts.map (encOpt encMount))),
      fOptVal e.intelRdt "intelRdt" encRdt,
      fOpt (e.additionalGids = []) "additionalGids" (JVal.mkArr (e.additionalGids.map jnat))] : List Field).map (·.1)).Nodup := by
    simp only [List.map_cons, List.map_nil, fOpt, fOptVal]; decide
  unfold schema_containerEdits schema_inline_definitions_containerEdits encEdits mkObjF JVal.mkObj
  simp only [validates, typeOK, Bool.true_and, Bool.and_eq_true, propsOK, patternOK, and_true, List.all_nil]
  simp only [memberLast_mkObjF _ _ hnd]
  cases hrdt : e.intelRdt <;>
    simp (config := {decide := true}) [fieldValue, fOpt, fOptVal] <;>
    (repeat' constructor) <;>
    field_ok [v_array _ jnat _ (fun g hg => v_uint32 g (r3 g hg)), v_array _ _ _ hnodes, v_array _ _ _ hhooks,
      v_array _ _ _ hmounts, v_array _ jstr _ (fun x _ => v_any_str x), v_rdt _]

open SpecWF in
theorem v_device (d : Device) (hwf : deviceWF d = true) (hr : editsInRange d.edits) :
    validates schema_inline_schema_json_properties_devices_items (encDevice d) = true := by
  simp only [deviceWF, Bool.and_eq_true] at hwf
  have hnd : (([fReq "name" (jstr d.name), fOpt (d.annotations = []) "annotations" (encAnnotations d.annotations),
      fReq "containerEdits" (encEdits d.edits)] : List Field).map (·.1)).Nodup := by
    simp only [List.map_cons, List.map_nil, fReq, fOpt]; decide
  unfold schema_inline_schema_json_properties_devices_items encDevice mkObjF JVal.mkObj
  simp only [validates, typeOK, Bool.true_and, Bool.and_eq_true, propsOK, patternOK, and_true, List.all_cons, List.all_nil]
  simp only [memberLast_mkObjF _ _ hnd]
  simp (config := {decide := true}) [fieldValue, fReq, fOpt, v_edits d.edits hwf.2 hr, v_string]
  repeat' constructor
  all_goals field_ok [v_annotations _, v_string _]

/-- **C18 — the property theorem**: every Spec the library's validation accepts, with integer
fields inside their Go types and hook timeouts within 0..2^32-1, validates (as the JSON
value the library writes for it) against the builtin schema regenerated from the
shipped schema files. -/
theorem C18_lib_valid_passes_schema (s : Spec) (hwf : SpecWF.WellFormed s = true) (hr : specInRange s) :
    validates builtinSchema (encodeSpec s) = true := by
  simp only [SpecWF.WellFormed, Bool.and_eq_true, List.all_eq_true, decide_eq_true_eq] at hwf
  obtain ⟨⟨⟨⟨⟨⟨_, _⟩, _⟩, hedits⟩, hne⟩, hdevs⟩, _⟩ := hwf
  have hre : editsInRange s.edits := hr s.edits (by simp [Spec.allEdits])
  have hrd : ∀ d ∈ s.devices, editsInRange d.edits := fun d hd => hr d.edits (by
    simp only [Spec.allEdits, List.mem_cons, List.mem_map]; exact Or.inr ⟨d, hd, rfl⟩)
  have hnd : (([fReq "cdiVersion" (jstr s.version), fReq "kind" (jstr s.kind),
      fOpt (s.annotations = []) "annotations" (encAnnotations s.annotations),
      fReq "devices" (if s.devices = [] then .null else JVal.mkArr (s.devices.map encDevice)),
      fReq "containerEdits" (encEdits s.edits)] : List Field).map (·.1)).Nodup := by
    simp only [List.map_cons, List.map_nil, fReq, fOpt]; decide
  have hdevArr : validates (Schema.node (some "array") SchemaProps.nil []
      (SchemaOpt.some schema_inline_schema_json_properties_devices_items) SchemaProps.nil none none)
      (JVal.mkArr (s.devices.map encDevice)) = true :=
    v_array _ encDevice _ (fun d hd => v_device d (hdevs d hd) (hrd d hd))
  unfold builtinSchema schema_inline_schema_json encodeSpec mkObjF JVal.mkObj
  simp only [validates, typeOK, Bool.true_and, Bool.and_eq_true, propsOK, patternOK, and_true, List.all_cons, List.all_nil]
  simp only [memberLast_mkObjF _ _ hnd]
  simp (config := {decide := true}) [fieldValue, fReq, fOpt, hne, hdevArr, v_string]
  repeat' constructor
  all_goals field_ok [v_annotations _, v_string _]

/-- with C05: whatever the validation pipeline accepts passes the schema -/
theorem C18_accepted_passes_schema (s : Spec) (h : Validate.validateSpec s = .ok true) (hr : specInRange s) :
    validates builtinSchema (encodeSpec s) = true := by
  rw [Validate.C05_admit_iff] at h
  simp only [Res.ok.injEq] at h
  exact C18_lib_valid_passes_schema s h hr

/-! ### The schema installed as Spec validator -/

/-- `newSpec` with a Spec validator installed (`cdi.SetSpecValidator`): the validator sees the Spec first; what it
refuses is an error and the library's own checks are not reached -/
def admitWith (validator : Option (Spec → Bool)) (s : Spec) : Res Bool :=
  match validator with
  | some v => if v s then Validate.validateSpec s else .ok false
  | none => Validate.validateSpec s

/-- the builtin schema as Spec validator (`schema.WithSchema(schema.BuiltinSchema())`): the in-memory object as the
JSON value the library would write for it -/
def builtinValidator (s : Spec) : Bool := validates Generated.builtinSchema (encodeSpec s)

/-- **C18 (the builtin schema as validator changes nothing)**: installing it never turns a loadable Spec into an
error - and, a validator only ever refusing, never the other way round: admission with it equals admission without. -/
theorem C18_validator_changes_nothing (s : Spec) (hr : specInRange s) :
    admitWith (some builtinValidator) s = admitWith none s := by
  unfold admitWith
  simp only
  by_cases hv : builtinValidator s = true
  · simp [hv]
  · simp only [hv, if_false]
    rw [Validate.C05_admit_iff]
    by_cases hwf : SpecWF.WellFormed s = true
    · exact absurd (C18_lib_valid_passes_schema s hwf hr) (by simpa [builtinValidator] using hv)
    · simp at hwf; simp [hwf]

/-- any validator can only refuse: what is admitted with one installed is admitted without -/
theorem C18_validator_only_refuses (v : Spec → Bool) (s : Spec) (h : admitWith (some v) s = .ok true) :
    admitWith none s = .ok true := by
  unfold admitWith at *
  simp only at *
  by_cases hv : v s = true
  · simpa [hv] using h
  · simp [hv] at h

/-! ### Non-vacuity -/
example : specInRange Validate.oneLetterKind := by
  intro e he
  simp [Spec.allEdits, Validate.oneLetterKind] at he
  rcases he with rfl | rfl <;> refine ⟨?_, ?_, ?_⟩ <;> simp

end Cdi.Encode
