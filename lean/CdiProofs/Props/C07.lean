/-
  C07 — Qualified device name grammar is exact, total and round-trips.

  Property theorems only (helper lemmas live in CdiProofs/Lemmas).  The model
  `Cdi.Parser.parseQualifiedName` mirrors /repo/pkg/parser/parser.go; the
  grammar `Qualified` and the judge `judgePQN` are in CdiModel/ParserSpec.lean.
-/
import CdiProofs.Lemmas.Parser
import CdiProofs.Lemmas.Tables
namespace Cdi.Parser
open Cdi

/-- `ParseDevice` finds the unique decomposition of a well-formed name. -/
theorem parseDevice_of_parts {v c n : Str}
    (hv : vcOK v = true) (hc : vcOK c = true) (hn : devOK n = true) :
    parseDevice (qualifiedName v c n) = (v, c, n) := by
  have hv0 := vcOK_ne_nil hv
  have hc0 := vcOK_ne_nil hc
  have hn0 := devOK_ne_nil hn
  obtain ⟨v0, vr, rfl⟩ := List.exists_cons_of_ne_nil hv0
  have hne : v0 ≠ cSlash := vcOK_head_ne_slash hv
  have hsplit : splitFirst cEq (qualifiedName (v0 :: vr) c n) = some ((v0 :: vr) ++ cSlash :: c, n) := by
    have : qualifiedName (v0 :: vr) c n = ((v0 :: vr) ++ cSlash :: c) ++ cEq :: n := by
      simp [qualifiedName]
    rw [this]
    apply splitFirst_append
    intro hm
    rcases List.mem_append.mp hm with h | h
    · exact vcOK_no_eq hv h
    · rcases List.mem_cons.mp h with h | h
      · exact absurd h (by decide)
      · exact vcOK_no_eq hc h
  have hq : parseQualifier ((v0 :: vr) ++ cSlash :: c) = (v0 :: vr, c) := by
    unfold parseQualifier
    rw [splitFirst_append (vcOK_no_slash hv)]
    simp [hc0]
  unfold parseDevice
  have hcons : qualifiedName (v0 :: vr) c n = v0 :: (vr ++ cSlash :: (c ++ cEq :: n)) := by
    simp [qualifiedName]
  rw [hcons]
  simp only [hne, if_false]
  rw [← hcons, hsplit]
  have hq' : parseQualifier (v0 :: (vr ++ cSlash :: c)) = (v0 :: vr, c) := by simpa using hq
  simp [hn0, hq']

/-- Whenever `ParseDevice` returns a non-empty vendor, the three parts recompose
to the input and class and name are what the two splits produced. -/
theorem parseQualifier_recompose {q a b : Str} (h : parseQualifier q = (a, b)) (ha : a ≠ []) :
    q = a ++ cSlash :: b := by
  unfold parseQualifier at h
  split at h
  · simp only [Prod.mk.injEq] at h; exact absurd h.1.symm ha
  · next x y hq =>
    obtain ⟨hq1, _⟩ := splitFirst_some hq
    split at h
    · simp only [Prod.mk.injEq] at h; exact absurd h.1.symm ha
    · simp only [Prod.mk.injEq] at h
      obtain ⟨rfl, rfl⟩ := h
      exact hq1

theorem parseDevice_recompose {s v c n : Str} (h : parseDevice s = (v, c, n)) (hv : v ≠ []) :
    s = qualifiedName v c n := by
  unfold parseDevice at h
  split at h
  · simp only [Prod.mk.injEq] at h; exact absurd h.1.symm hv
  · next c0 r =>
    split at h
    · simp only [Prod.mk.injEq] at h; exact absurd h.1.symm hv
    · split at h
      · simp only [Prod.mk.injEq] at h; exact absurd h.1.symm hv
      · next q name hs =>
        obtain ⟨hs1, _⟩ := splitFirst_some hs
        split at h
        · simp only [Prod.mk.injEq] at h; exact absurd h.1.symm hv
        · simp only at h
          split at h
          · simp only [Prod.mk.injEq] at h; exact absurd h.1.symm hv
          · simp only [Prod.mk.injEq] at h
            obtain ⟨h1, h2, rfl⟩ := h
            have := parseQualifier_recompose (q := q) (a := v) (b := c) (by rw [← h1, ← h2]) hv
            rw [hs1, this]; simp [qualifiedName]

/-- `ParseQualifiedName` in closed form: the parser never panics, and succeeds
exactly when `ParseDevice`'s three parts are non-empty and valid. -/
theorem parseQualifiedName_closed (s : Str) :
    parseQualifiedName s =
      .ok (let p := parseDevice s
           if p.1 ≠ [] ∧ p.2.1 ≠ [] ∧ p.2.2 ≠ [] ∧
              vcOK p.1 = true ∧ vcOK p.2.1 = true ∧ devOK p.2.2 = true
           then ⟨p.1, p.2.1, p.2.2, true⟩ else ⟨[], [], s, false⟩) := by
  unfold parseQualifiedName parseQualifiedNameWith
  rcases hp : parseDevice s with ⟨v, c, n⟩
  have e1 : validateVCWith true v = .ok (vcOK v) := validateVC_eq v
  have e2 : validateVCWith true c = .ok (vcOK c) := validateVC_eq c
  simp only [e1, e2, validateDeviceName_eq]
  by_cases hv : v = [] <;> by_cases hc : c = [] <;> by_cases hn : n = [] <;>
    cases h1 : vcOK v <;> cases h2 : vcOK c <;> cases h3 : devOK n <;> simp [hv, hc, hn]

/-- **C07 (totality)**: no string makes the parser panic. -/
theorem C07_total (s : Str) : ∃ r, parseQualifiedName s = .ok r := by
  rw [parseQualifiedName_closed]; exact ⟨_, rfl⟩

/-- **C07 (composition parses back)**: composing any valid parts and parsing the
result returns those parts. -/
theorem C07_compose_parse {v c n : Str}
    (hv : vcOK v = true) (hc : vcOK c = true) (hn : devOK n = true) :
    parseQualifiedName (qualifiedName v c n) = .ok ⟨v, c, n, true⟩ := by
  rw [parseQualifiedName_closed, parseDevice_of_parts hv hc hn]
  simp [hv, hc, hn, vcOK_ne_nil hv, vcOK_ne_nil hc, devOK_ne_nil hn]

/-- **C07 (success recomposes)**: on success the parts are valid and recompose to
the input exactly. -/
theorem C07_recompose {s v c n : Str} (h : parseQualifiedName s = .ok ⟨v, c, n, true⟩) :
    qualifiedName v c n = s ∧ vcOK v = true ∧ vcOK c = true ∧ devOK n = true := by
  rw [parseQualifiedName_closed] at h
  simp only [Res.ok.injEq] at h
  split at h
  · next hc =>
    simp only [PQN.mk.injEq, and_true] at h
    obtain ⟨rfl, rfl, rfl⟩ := h
    exact ⟨(parseDevice_recompose (by rfl) hc.1).symm, hc.2.2.2.1, hc.2.2.2.2.1, hc.2.2.2.2.2⟩
  · simp at h

/-- **C07 (exactness)**: the parser accepts exactly the qualified-name language. -/
theorem C07_accept_iff (s : Str) :
    (∃ v c n, parseQualifiedName s = .ok ⟨v, c, n, true⟩) ↔ Qualified s := by
  constructor
  · rintro ⟨v, c, n, h⟩
    obtain ⟨h1, h2, h3, h4⟩ := C07_recompose h
    exact ⟨v, c, n, h1.symm, h2, h3, h4⟩
  · rintro ⟨v, c, n, rfl, hv, hc, hn⟩
    exact ⟨v, c, n, C07_compose_parse hv hc hn⟩

/-- **C07 (failure shape)**: outside the language the result is `("", "", input)`
with an error. -/
theorem C07_failure_shape (s : Str) (h : ¬ Qualified s) :
    parseQualifiedName s = .ok ⟨[], [], s, false⟩ := by
  rw [parseQualifiedName_closed]
  simp only
  split
  · next hc =>
    exfalso; apply h
    exact ⟨_, _, _, parseDevice_recompose (by rfl) hc.1, hc.2.2.2.1, hc.2.2.2.2.1, hc.2.2.2.2.2⟩
  · rfl

/-- Every result is either a success or the failure shape — nothing in between. -/
theorem C07_dichotomy (s : Str) :
    (∃ v c n, parseQualifiedName s = .ok ⟨v, c, n, true⟩ ∧ Qualified s) ∨
    (parseQualifiedName s = .ok ⟨[], [], s, false⟩ ∧ ¬ Qualified s) := by
  by_cases h : Qualified s
  · obtain ⟨v, c, n, hp⟩ := (C07_accept_iff s).mpr h
    exact Or.inl ⟨v, c, n, hp, h⟩
  · exact Or.inr ⟨C07_failure_shape s h, h⟩

/-- The three public validators decide exactly their grammars (and are total). -/
theorem C07_validators (s : Str) :
    validateVendorName s = .ok (vcOK s) ∧ validateClassName s = .ok (vcOK s) ∧
    validateDeviceName s = .ok (devOK s) :=
  ⟨validateVC_eq s, validateVC_eq s, validateDeviceName_eq s⟩

/-! ### The judge: sound for the property, and met by the model on every input -/

theorem splitsAt_sound {s : Str} {i j : Nat} (h : splitsAt s i j = true) : Qualified s := by
  simp only [splitsAt, Bool.and_eq_true, decide_eq_true_eq, beq_iff_eq] at h
  obtain ⟨⟨⟨⟨⟨hij, hi⟩, hj⟩, hv⟩, hc⟩, hn⟩ := h
  refine ⟨_, _, _, ?_, hv, hc, hn⟩
  have hi' : i < s.length := by
    rcases Nat.lt_or_ge i s.length with h | h
    · exact h
    · rw [List.getElem?_eq_none h] at hi; cases hi
  have hj' : j < s.length := by
    rcases Nat.lt_or_ge j s.length with h | h
    · exact h
    · rw [List.getElem?_eq_none h] at hj; cases hj
  have e1 : s = s.take i ++ s.drop i := (List.take_append_drop i s).symm
  have e2 : s.drop i = cSlash :: s.drop (i + 1) := by
    rw [List.drop_eq_getElem_cons hi']
    rw [List.getElem?_eq_getElem hi'] at hi
    simp only [Option.some.injEq] at hi
    rw [hi]
  have hj2 : (s.drop (i + 1))[j - (i + 1)]? = some cEq := by
    rw [List.getElem?_drop]
    have : i + 1 + (j - (i + 1)) = j := by omega
    rw [this]; exact hj
  have hlen : j - (i + 1) < (s.drop (i + 1)).length := by
    simp only [List.length_drop]; omega
  have e3 : s.drop (i + 1) = (s.drop (i + 1)).take (j - (i + 1)) ++ (s.drop (i + 1)).drop (j - (i + 1)) :=
    (List.take_append_drop _ _).symm
  have e4 : (s.drop (i + 1)).drop (j - (i + 1)) = cEq :: s.drop (j + 1) := by
    rw [List.drop_eq_getElem_cons hlen]
    rw [List.getElem?_eq_getElem hlen] at hj2
    simp only [Option.some.injEq] at hj2
    rw [hj2, List.drop_drop]
    have : i + 1 + (j - (i + 1) + 1) = j + 1 := by omega
    rw [this]
  unfold qualifiedName
  rw [← e4, ← e3, ← e2, ← e1]

theorem splitsAt_complete {v c n : Str}
    (hv : vcOK v = true) (hc : vcOK c = true) (hn : devOK n = true) :
    splitsAt (qualifiedName v c n) v.length (v.length + 1 + c.length) = true := by
  have e : qualifiedName v c n = v ++ (cSlash :: (c ++ cEq :: n)) := rfl
  simp only [splitsAt, Bool.and_eq_true, decide_eq_true_eq, beq_iff_eq]
  refine ⟨⟨⟨⟨⟨by omega, ?_⟩, ?_⟩, ?_⟩, ?_⟩, ?_⟩
  · rw [e]; simp
  · rw [e, List.getElem?_append_right (by omega)]
    have : v.length + 1 + c.length - v.length = c.length + 1 := by omega
    rw [this, List.getElem?_cons_succ, List.getElem?_append_right (by omega)]; simp
  · rw [e]; simpa using hv
  · rw [e]
    have : v.length + 1 + c.length - (v.length + 1) = c.length := by omega
    rw [this]
    have : (v ++ cSlash :: (c ++ cEq :: n)).drop (v.length + 1) = c ++ cEq :: n := by
      rw [List.drop_append]; simp
    rw [this]; simpa using hc
  · rw [e, List.drop_append]
    have : v.length + 1 + c.length + 1 - v.length = (c.length + 1) + 1 := by omega
    have h2 : v.drop (v.length + 1 + c.length + 1) = [] := by
      apply List.drop_eq_nil_of_le; omega
    simpa [this, h2] using hn

/-- The brute-force recogniser decides the language of the property text. -/
theorem qualifiedB_iff (s : Str) : qualifiedB s = true ↔ Qualified s := by
  constructor
  · intro h
    simp only [qualifiedB, List.any_eq_true] at h
    obtain ⟨i, _, j, _, hij⟩ := h
    exact splitsAt_sound hij
  · rintro ⟨v, c, n, rfl, hv, hc, hn⟩
    simp only [qualifiedB, List.any_eq_true, List.mem_range]
    refine ⟨v.length, ?_, v.length + 1 + c.length, ?_, splitsAt_complete hv hc hn⟩
    · simp only [qualifiedName, List.length_append, List.length_cons]; omega
    · simp only [qualifiedName, List.length_append, List.length_cons]; omega

/-- **Judge soundness**: an observation the judge passes satisfies the property as
stated — no panic; success only inside the language, with valid parts that
recompose; failure only outside it, with the `("", "", input)` shape. -/
theorem judgePQN_sound (s : Str) (o : Obs) (h : judgePQN s o = none) :
    ∃ r, o = .ret r ∧
      (r.ok = true → Qualified s ∧ qualifiedName r.vendor r.cls r.name = s ∧
        vcOK r.vendor = true ∧ vcOK r.cls = true ∧ devOK r.name = true) ∧
      (r.ok = false → ¬ Qualified s ∧ r.vendor = [] ∧ r.cls = [] ∧ r.name = s) := by
  cases o with
  | panic => simp [judgePQN] at h
  | ret r =>
    refine ⟨r, rfl, ?_, ?_⟩
    · intro hok
      simp only [judgePQN, hok, if_true] at h
      by_cases h1 : (vcOK r.vendor && vcOK r.cls && devOK r.name) = true
      · by_cases h2 : qualifiedName r.vendor r.cls r.name = s
        · simp only [Bool.and_eq_true] at h1
          exact ⟨⟨_, _, _, h2.symm, h1.1.1, h1.1.2, h1.2⟩, h2, h1.1.1, h1.1.2, h1.2⟩
        · simp [h1, h2] at h
      · simp [h1] at h
    · intro hok
      simp only [judgePQN, hok] at h
      by_cases h1 : qualifiedB s = true
      · simp [h1] at h
      · by_cases h2 : r.vendor ≠ [] ∨ r.cls ≠ [] ∨ r.name ≠ s
        · simp [h1, h2] at h
        · refine ⟨fun hq => h1 ((qualifiedB_iff s).mpr hq), ?_⟩
          simp only [ne_eq, not_or, Decidable.not_not] at h2
          exact h2

/-- **C07 — the property theorem in judge form**: for every input the model's
outcome is admissible. -/
theorem C07_model_meets_judge (s : Str) :
    judgePQN s (obsOfRes (parseQualifiedName s)) = none := by
  rcases C07_dichotomy s with ⟨v, c, n, hp, _⟩ | ⟨hp, hq⟩
  · obtain ⟨h1, h2, h3, h4⟩ := C07_recompose hp
    simp [hp, obsOfRes, judgePQN, h1, h2, h3, h4]
  · have : qualifiedB s = false := by
      cases hb : qualifiedB s
      · rfl
      · exact absurd ((qualifiedB_iff s).mp hb) hq
    simp [hp, obsOfRes, judgePQN, this]

/-! ### Sensitivity: the pinned (unrepaired) parser violates totality -/

/-- "a/b=c" on the pinned tree: slice bounds out of range. -/
example : parseQualifiedNamePinned [97, 47, 98, 61, 99] = .panic := by decide

/-! ### Non-vacuity -/
example : Qualified (lit "vendor.com/class=dev:0") :=
  ⟨lit "vendor.com", lit "class", lit "dev:0", by decide, by decide, by decide, by decide⟩
example : parseQualifiedName (lit "a/b=c") = .ok ⟨lit "a", lit "b", lit "c", true⟩ := by decide
example : parseQualifiedName (lit "a/b=") = .ok ⟨[], [], lit "a/b=", false⟩ := by decide

/-! ### T1 — the character classes, tied to the code on the WHOLE code space by execution

`Generated.isLetterRanges` etc. are produced on every run by calling `parser.IsLetter`, `IsDigit`,
`IsAlphaNumeric` of the working tree on every code point 0..0x10FFFF.  The obligations say: no evaluation
panicked; on every byte the model's class is exactly the table; and no code point ≥ 128 is in any class —
which is what assumption A-utf8 needs (ranging over a string can only yield such code points for non-ASCII
bytes), so "every rune is in the class" and "every byte is in the class" coincide. -/

theorem T1_tables_complete : Generated.tableErrors = [] := by decide

set_option maxRecDepth 100000 in
theorem T1_isLetter_bytes : ∀ n, n < 256 → isLetter n.toUInt8 = inRanges Generated.isLetterRanges n := by
  decide +kernel
set_option maxRecDepth 100000 in
theorem T1_isDigit_bytes : ∀ n, n < 256 → isDigit n.toUInt8 = inRanges Generated.isDigitRanges n := by
  decide +kernel
set_option maxRecDepth 100000 in
theorem T1_isAlnum_bytes : ∀ n, n < 256 → isAlnum n.toUInt8 = inRanges Generated.isAlphaNumericRanges n := by
  decide +kernel

theorem T1_classes_ascii :
    ∀ r ∈ Generated.isLetterRanges ++ Generated.isDigitRanges ++ Generated.isAlphaNumericRanges, r.2 < 128 := by
  decide

/-- **T1**: on every code point `c` (no bound), the code's `IsLetter c` — as tabulated — holds iff `c` is an
ASCII byte that the model's `isLetter` accepts. -/
theorem T1_isLetter (c : Nat) :
    inRanges Generated.isLetterRanges c = (decide (c < 128) && isLetter c.toUInt8) := by
  by_cases h : c < 128
  · rw [← T1_isLetter_bytes c (by omega)]; simp [h]
  · rw [inRanges_false_of_bound _ 128 (fun r hr => T1_classes_ascii r (by simp [hr])) c (by omega)]; simp [h]

theorem T1_isDigit (c : Nat) :
    inRanges Generated.isDigitRanges c = (decide (c < 128) && isDigit c.toUInt8) := by
  by_cases h : c < 128
  · rw [← T1_isDigit_bytes c (by omega)]; simp [h]
  · rw [inRanges_false_of_bound _ 128 (fun r hr => T1_classes_ascii r (by simp [hr])) c (by omega)]; simp [h]

theorem T1_isAlnum (c : Nat) :
    inRanges Generated.isAlphaNumericRanges c = (decide (c < 128) && isAlnum c.toUInt8) := by
  by_cases h : c < 128
  · rw [← T1_isAlnum_bytes c (by omega)]; simp [h]
  · rw [inRanges_false_of_bound _ 128 (fun r hr => T1_classes_ascii r (by simp [hr])) c (by omega)]; simp [h]

end Cdi.Parser
