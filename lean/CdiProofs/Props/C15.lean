/-
  C15 — CDI annotations written by the helper parse back to the same request.

  Model: CdiModel/Annotations.lean (mirrors /repo/pkg/cdi/annotations.go).
  Judges: CdiModel/AnnotationsSpec.lean.  Facts used: F5 (prefix, maxNameLen,
  k8s limits) through `CdiModel.Generated.Facts`.
-/
import CdiProofs.Lemmas.Annotations
import CdiProofs.Lemmas.K8s
namespace Cdi.Annotations
open Cdi Cdi.Parser

/-! ### Fact obligations (regenerated constants this property depends on) -/

theorem F5_annotationPrefix : Generated.annotationPrefix = "cdi.k8s.io/" := by decide
theorem F5_maxNameLen_le_k8s : Generated.maxNameLen ≤ Generated.k8sQualifiedNameMaxLength := by decide
theorem F5_prefix_is_dns_subdomain :
    K8s.isDns1123Subdomain (lit "cdi.k8s.io") = true := by decide
theorem F5_k8s_regex_literals :
    Generated.k8sQualifiedNameFmt = "([A-Za-z0-9][-A-Za-z0-9_.]*)?[A-Za-z0-9]" ∧
    Generated.k8sDns1123SubdomainFmt =
      "[a-z0-9]([-a-z0-9]*[a-z0-9])?(\\.[a-z0-9]([-a-z0-9]*[a-z0-9])?)*" := by decide

/-! ### AnnotationKey -/

/-- plugin+deviceID name is admissible: at most `maxNameLen` bytes, alphanumeric
at both ends, only `[-A-Za-z0-9_.]` in between. -/
def keyNameOK (name : Str) : Bool :=
  decide (name.length ≤ maxNameLen) && K8s.matchQName name

theorem isKeyMid_eq (c : Byte) : isKeyMid c = K8s.isQNameExt c := by
  simp only [isKeyMid, K8s.isQNameExt]
  cases isAlnum c <;> cases c == cUnder <;> cases c == cDash <;> cases c == cDot <;> rfl

theorem isKeyMid_eq' : isKeyMid = K8s.isQNameExt := funext isKeyMid_eq

theorem alnum_qext {c : Byte} (h : isAlnum c = true) : K8s.isQNameExt c = true := by
  simp [K8s.isQNameExt, h]

theorem goSlice_mid' (c0 : Byte) (mid : Str) (l : Byte) :
    goSlice (c0 :: (mid ++ [l])) 1 ((c0 :: (mid ++ [l])).length - 1) = .ok mid := by
  simp [goSlice]
theorem goIndex_last' (c0 : Byte) (mid : Str) (l : Byte) :
    goIndex (c0 :: (mid ++ [l])) ((c0 :: (mid ++ [l])).length - 1) = .ok l := by
  simp [goIndex]
theorem goIndex_zero' (c0 : Byte) (r : Str) : goIndex (c0 :: r) 0 = .ok c0 := rfl

theorem keyNameCheck_long (c0 : Byte) (mid : Str) (l : Byte) :
    keyNameCheck (c0 :: (mid ++ [l])) = .ok (isAlnum c0 && mid.all K8s.isQNameExt && isAlnum l) := by
  unfold keyNameCheck
  simp only [goIndex_zero', goIndex_last', goSlice_mid', isKeyMid_eq']
  cases h0 : isAlnum c0
  · simp
  · by_cases hlen : (c0 :: (mid ++ [l])).length > 2
    · simp only [if_pos hlen]
      cases h1 : mid.all K8s.isQNameExt <;> simp
    · simp only [if_neg hlen]
      have : mid = [] := by
        cases mid with
        | nil => rfl
        | cons m ms => simp at hlen
      subst this; simp

/-- the character checks are total and decide `matchQName` -/
theorem keyNameCheck_eq (name : Str) (hne : name ≠ []) :
    keyNameCheck name = .ok (K8s.matchQName name) := by
  obtain ⟨c0, rest, rfl⟩ := List.exists_cons_of_ne_nil hne
  rcases List.eq_nil_or_concat rest with h | ⟨mid, l, h⟩
  · subst h
    cases h0 : isAlnum c0 <;>
      simp [keyNameCheck, goIndex, K8s.matchQName, h0, alnum_qext]
  · subst h
    rw [List.concat_eq_append, keyNameCheck_long]
    have hl : (c0 :: (mid ++ [l])).getLast? = some l := by simp [List.getLast?_cons]
    simp only [K8s.matchQName, List.head?, hl, List.all_cons, List.all_append, List.all_nil, Bool.and_true]
    cases h0 : isAlnum c0 <;> cases h1 : isAlnum l <;> simp [*, alnum_qext]

/-- `AnnotationKey` in closed form: total, and it succeeds exactly when both
arguments are non-empty and the joined name is admissible. -/
theorem annotationKey_closed (plugin deviceID : Str) :
    annotationKey plugin deviceID =
      if plugin ≠ [] ∧ deviceID ≠ [] ∧
        keyNameOK (plugin ++ cUnder :: replaceByte cSlash cUnder deviceID) = true
      then .ok (some (annotationPrefix ++ (plugin ++ cUnder :: replaceByte cSlash cUnder deviceID)))
      else .ok none := by
  unfold annotationKey
  by_cases hp : plugin = []
  · simp [hp]
  by_cases hd : deviceID = []
  · simp [hp, hd]
  have hne : plugin ++ cUnder :: replaceByte cSlash cUnder deviceID ≠ [] := by
    intro h; exact hp (List.append_eq_nil_iff.mp h).1
  rw [if_neg hp, if_neg hd]
  simp only [keyNameCheck_eq _ hne]
  generalize plugin ++ cUnder :: replaceByte cSlash cUnder deviceID = name
  unfold keyNameOK
  by_cases hl : name.length > maxNameLen
  · have h2 : ¬ name.length ≤ maxNameLen := by omega
    rw [if_pos hl]
    simp [h2]
  · have h2 : name.length ≤ maxNameLen := by omega
    rw [if_neg hl]
    cases hm : K8s.matchQName name <;> simp [hp, hd, h2]

/-- **C15 (key never panics)** -/
theorem C15_key_total (plugin deviceID : Str) : ∃ r, annotationKey plugin deviceID = .ok r := by
  rw [annotationKey_closed]; split <;> exact ⟨_, rfl⟩

theorem prefix_ascii : ∀ c ∈ annotationPrefix, c < 128 := by decide

/-- a key made of the CDI prefix and an admissible name is a legal Kubernetes annotation key -/
theorem legalKey_of_name {name : Str} (h : keyNameOK name = true) :
    legalKey (annotationPrefix ++ name) = true := by
  simp only [keyNameOK, Bool.and_eq_true, decide_eq_true_eq] at h
  obtain ⟨hlen, hm⟩ := h
  have hall := K8s.matchQName_all hm
  unfold legalKey
  rw [K8s.toLower_append_ascii _ _ prefix_ascii, K8s.toLower_qext hall]
  have hpre : annotationPrefix.map K8s.lowerB = lit "cdi.k8s.io" ++ [cSlash] := by decide
  rw [hpre]
  have hns : cSlash ∉ name.map K8s.lowerB := by
    intro hmem
    obtain ⟨x, hx, hxe⟩ := List.mem_map.mp hmem
    exact K8s.qext_lower_ne_slash x (List.all_eq_true.mp hall x hx) hxe
  have hsplit : splitAll cSlash ((lit "cdi.k8s.io" ++ [cSlash]) ++ name.map K8s.lowerB) =
      [lit "cdi.k8s.io", name.map K8s.lowerB] := by
    rw [List.append_assoc]
    show splitAll cSlash (lit "cdi.k8s.io" ++ cSlash :: List.map K8s.lowerB name) = _
    rw [splitAll_append_sep _ (by decide), splitAll_no_sep hns]
  unfold K8s.isQualifiedName
  rw [hsplit]
  have hm' := K8s.matchQName_lower hm
  have hne := K8s.matchQName_ne_nil hm'
  have hlen' : name.length ≤ Generated.k8sQualifiedNameMaxLength :=
    Nat.le_trans hlen F5_maxNameLen_le_k8s
  have hpne : lit "cdi.k8s.io" ≠ [] := by decide
  simp [F5_prefix_is_dns_subdomain, hm', hne, hlen', hpne]

/-- **C15 (key legality)**: every key the helper produces carries the CDI prefix
and is a legal Kubernetes annotation key. -/
theorem C15_key_legal {plugin deviceID k : Str} (h : annotationKey plugin deviceID = .ok (some k)) :
    hasPrefix annotationPrefix k = true ∧ legalKey k = true := by
  rw [annotationKey_closed] at h
  split at h
  · next hc =>
    simp only [Res.ok.injEq, Option.some.injEq] at h
    subst h
    refine ⟨?_, legalKey_of_name hc.2.2⟩
    simp [hasPrefix]
  · simp at h

/-! ### UpdateAnnotations -/

/-- **C15 (failure leaves the map intact; never panics)** -/
theorem C15_update_total_and_fail_unchanged (ann : List (Str × Str)) (plugin deviceID : Str)
    (devices : List Str) :
    ∃ r, updateAnnotations ann plugin deviceID devices = .ok r ∧ (r.ok = false → r.annotations = ann) := by
  unfold updateAnnotations
  obtain ⟨k, hk⟩ := C15_key_total plugin deviceID
  rw [hk, annotationValue_eq]
  cases k with
  | none => exact ⟨_, rfl, fun _ => rfl⟩
  | some key =>
    by_cases hlk : (lookup key ann).isSome = true
    · simp only [hlk, if_true]; exact ⟨_, rfl, fun _ => rfl⟩
    · by_cases hall : devices.all qualifiedB = true
      · simp [hlk, hall]
      · simp [hlk, hall]

/-- **C15 (success adds exactly one legal, previously unused key whose value
parses back to the request)**. -/
theorem C15_update_ok (ann : List (Str × Str)) (plugin deviceID : Str) (devices : List Str)
    (r : UpdateResult) (h : updateAnnotations ann plugin deviceID devices = .ok r) (hok : r.ok = true) :
    ∃ key value, r.annotations = ann ++ [(key, value)] ∧
      lookup key ann = none ∧
      hasPrefix annotationPrefix key = true ∧ legalKey key = true ∧
      (devices ≠ [] → valueDevices value = some devices) := by
  unfold updateAnnotations at h
  obtain ⟨k, hk⟩ := C15_key_total plugin deviceID
  rw [hk, annotationValue_eq] at h
  cases k with
  | none =>
    simp only [Res.ok.injEq] at h; subst h; simp at hok
  | some key =>
    by_cases hlk : (lookup key ann).isSome = true
    · simp only [hlk, if_true, Res.ok.injEq] at h; subst h; simp at hok
    · by_cases hall : devices.all qualifiedB = true
      · simp [hlk, hall] at h
        subst h
        obtain ⟨hp, hl⟩ := C15_key_legal hk
        refine ⟨key, joinWith cComma devices, rfl, ?_, hp, hl, ?_⟩
        · cases hx : lookup key ann with
          | none => rfl
          | some v => rw [hx] at hlk; simp at hlk
        · intro hne
          unfold valueDevices
          have hnc : ∀ d ∈ devices, cComma ∉ d := fun d hd =>
            qualified_no_comma ((qualifiedB_iff d).mp (List.all_eq_true.mp hall d hd))
          rw [splitAll_joinWith hne hnc]
          simp [hall]
      · simp [hlk, hall] at h
        subst h; simp at hok

/-- **C15 (an already used key is never overwritten)** -/
theorem C15_never_overwrites (ann : List (Str × Str)) (plugin deviceID key : Str) (devices : List Str)
    (hk : annotationKey plugin deviceID = .ok (some key)) (hused : (lookup key ann).isSome = true) :
    updateAnnotations ann plugin deviceID devices = .ok ⟨ann, false⟩ := by
  unfold updateAnnotations
  rw [hk]; simp [hused]

/-- **C15 (round trip)**: what the helper wrote parses back to exactly the request. -/
theorem C15_roundtrip (ann : List (Str × Str)) (plugin deviceID : Str) (devices : List Str)
    (hne : devices ≠ []) (r : UpdateResult)
    (h : updateAnnotations ann plugin deviceID devices = .ok r) (hok : r.ok = true) :
    ∃ key value, r.annotations = ann ++ [(key, value)] ∧ parseValue value = .ok (some devices) := by
  obtain ⟨key, value, h1, _, _, _, h5⟩ := C15_update_ok ann plugin deviceID devices r h hok
  exact ⟨key, value, h1, by rw [parseValue_eq, h5 hne]⟩

/-! ### ParseAnnotations -/

/-- the CDI entries of a map, in iteration order -/
def cdiEntries (entries : List (Str × Str)) : List (Str × Str) :=
  entries.filter (fun kv => hasPrefix annotationPrefix kv.1)

theorem parseAnnotations_go (es : List (Str × Str)) : ∀ keys devices : List Str,
    parseAnnotations.go es keys devices =
      if (cdiEntries es).all (fun kv => (valueDevices kv.2).isSome) then
        .ok ⟨keys ++ (cdiEntries es).map (·.1),
             devices ++ (cdiEntries es).flatMap (fun kv => (valueDevices kv.2).getD []), true⟩
      else .ok ⟨[], [], false⟩ := by
  induction es with
  | nil => intro keys devices; simp [parseAnnotations.go, cdiEntries]
  | cons e rest ih =>
    intro keys devices
    obtain ⟨k, v⟩ := e
    unfold parseAnnotations.go
    by_cases hp : hasPrefix annotationPrefix k = true
    · have hc : cdiEntries ((k, v) :: rest) = (k, v) :: cdiEntries rest := by
        simp [cdiEntries, List.filter_cons, hp]
      rw [hc]
      simp only [hp, Bool.not_true, Bool.false_eq_true, if_false, parseValue_eq]
      cases hv : valueDevices v with
      | none => simp [hv]
      | some ds =>
        simp only [ih, List.all_cons, List.map_cons, List.flatMap_cons, hv, Option.isSome_some,
          Bool.true_and, Option.getD_some, List.append_assoc, List.singleton_append, List.cons_append,
          List.nil_append]
    · simp only [Bool.not_eq_true] at hp
      have hc : cdiEntries ((k, v) :: rest) = cdiEntries rest := by
        simp [cdiEntries, List.filter_cons, hp]
      rw [hc]
      simp only [hp, Bool.not_false, if_true, ih]

/-- **C15 (parsing)**: total; foreign keys are ignored; any device that is not a
qualified name gives an error with empty results; otherwise every CDI key is
returned with its devices, in iteration order. -/
theorem C15_parse (entries : List (Str × Str)) :
    parseAnnotations entries =
      if (cdiEntries entries).all (fun kv => (valueDevices kv.2).isSome) then
        .ok ⟨(cdiEntries entries).map (·.1),
             (cdiEntries entries).flatMap (fun kv => (valueDevices kv.2).getD []), true⟩
      else .ok ⟨[], [], false⟩ := by
  unfold parseAnnotations
  rw [parseAnnotations_go]; simp

/-- **C15 (iteration order is irrelevant to acceptance)**: whether parsing fails
does not depend on the order in which the map is visited. -/
theorem C15_parse_perm_ok (e1 e2 : List (Str × Str)) (hperm : e1.Perm e2) :
    (∃ r, parseAnnotations e1 = .ok r ∧ r.ok = true) ↔ (∃ r, parseAnnotations e2 = .ok r ∧ r.ok = true) := by
  have hc : (cdiEntries e1).Perm (cdiEntries e2) := hperm.filter _
  have : (cdiEntries e1).all (fun kv => (valueDevices kv.2).isSome) =
         (cdiEntries e2).all (fun kv => (valueDevices kv.2).isSome) := by
    apply Bool.eq_iff_iff.mpr
    simp only [List.all_eq_true]
    exact ⟨fun h x hx => h x (hc.mem_iff.mpr hx), fun h x hx => h x (hc.mem_iff.mp hx)⟩
  rw [C15_parse, C15_parse, this]
  split <;> simp

/-! ### Non-vacuity -/
example : (updateAnnotations [] (lit "vendor.com") (lit "dev/0") [lit "vendor.com/class=gpu0", lit "a/b=c"]) =
    .ok ⟨[(lit "cdi.k8s.io/vendor.com_dev_0", lit "vendor.com/class=gpu0,a/b=c")], true⟩ := by decide
example : parseAnnotations [(lit "foreign", lit "x"), (lit "cdi.k8s.io/p_d", lit "a/b=c,d/e=f")] =
    .ok ⟨[lit "cdi.k8s.io/p_d"], [lit "a/b=c", lit "d/e=f"], true⟩ := by decide
example : parseAnnotations [(lit "cdi.k8s.io/p_d", lit "a/b=c,unqualified")] = .ok ⟨[], [], false⟩ := by decide

end Cdi.Annotations
