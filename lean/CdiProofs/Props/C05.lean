/-
  C05 — A Spec is admitted iff well-formed per SPEC.md; any single defect
  rejects it.

  Model: CdiModel/Validate.lean (newSpec/validate pipeline), CdiModel/Decode.lean
  (strict decoding).  Spec: `SpecWF.WellFormed`.
-/
import CdiProofs.Props.C06
import CdiProofs.Props.C07
import CdiModel.Decode
import CdiProofs.Lemmas.Tables
namespace Cdi.Validate
open Cdi Cdi.SpecWF Cdi.Parser

/-! ### Fact obligations (F4) -/

def sameSet (a b : List Str) : Bool := a.all (b.contains ·) && b.all (a.contains ·)

theorem contains_eq_of_sameSet {a b : List Str} (h : sameSet a b = true) (x : Str) : a.contains x = b.contains x := by
  simp only [sameSet, Bool.and_eq_true, List.all_eq_true] at h
  obtain ⟨hab, hba⟩ := h
  cases ha : a.contains x <;> cases hb : b.contains x <;> try rfl
  · have hx : x ∈ b := by simpa using hb
    have := hba x hx
    rw [ha] at this; cases this
  · have hx : x ∈ a := by simpa using ha
    have := hab x hx
    rw [hb] at this; cases this

/-- F4: the device types and hook names the validators accept are, as sets, those of SPEC.md (the
validators only test membership, so the order in which the source lists them is immaterial) -/
theorem F4_device_types_set : sameSet deviceTypes specDeviceTypes = true := by decide
theorem F4_hook_names_set : sameSet hookNames specHookNames = true := by decide
theorem F4_device_types (x : Str) : deviceTypes.contains x = specDeviceTypes.contains x :=
  contains_eq_of_sameSet F4_device_types_set x
theorem F4_hook_names (x : Str) : hookNames.contains x = specHookNames.contains x :=
  contains_eq_of_sameSet F4_hook_names_set x
theorem F4_device_types_mem (x : Str) : x ∈ deviceTypes ↔ x ∈ specDeviceTypes := by
  have := F4_device_types x
  simp only [List.contains_eq_mem, decide_eq_decide] at this
  exact this
theorem F4_hook_names_mem (x : Str) : x ∈ hookNames ↔ x ∈ specHookNames := by
  have := F4_hook_names x
  simp only [List.contains_eq_mem, decide_eq_decide] at this
  exact this

/-! ### element and edits validation -/

/-- a nil entry is ill-formed; a non-nil one is judged by `f` -/
def optOK {α} (f : α → Bool) : Option α → Bool
  | some x => f x
  | none => false

theorem validateEntries_guard {α} (f : α → Bool) (l : List (Option α)) :
    validateEntries true f l = .ok (l.all (optOK f)) := by
  induction l with
  | nil => rfl
  | cons o rest ih =>
    cases o with
    | none => simp [validateEntries, optOK]
    | some x => cases h : f x <;> simp [validateEntries, h, ih, optOK]

theorem nodeWF_eq : optOK validateDeviceNode = nodeWF := by
  funext o; cases o <;> simp [optOK, nodeWF, validateDeviceNode, F4_device_types_mem]
theorem hookWF_eq : optOK validateHook = hookWF := by
  funext o; cases o <;> simp [optOK, hookWF, validateHook, F4_hook_names_mem, validateEnv]
theorem mountWF_eq : optOK validateMount = mountWF := by
  funext o; cases o <;> simp [optOK, mountWF, validateMount]

/-- `ContainerEdits.Validate` is total and decides `editsWF`. -/
theorem validateEdits_eq (e : Edits) : validateEdits true e = .ok (editsWF e) := by
  unfold validateEdits editsWF
  rw [validateEntries_guard, validateEntries_guard, validateEntries_guard, nodeWF_eq, hookWF_eq, mountWF_eq]
  simp only [validateEnv]
  by_cases h1 : e.env.all envEntryOK = true <;> by_cases h2 : e.deviceNodes.all nodeWF = true <;>
    by_cases h3 : e.hooks.all hookWF = true <;> by_cases h4 : e.mounts.all mountWF = true <;>
    cases h5 : e.intelRdt <;> simp [rdtWF, h1, h2, h3, h4]

/-- `(*Device).validate` is total and decides `deviceWF`. -/
theorem validateDevice_eq (d : Device) : validateDevice true true d = .ok (deviceWF d) := by
  unfold validateDevice deviceWF
  rw [validateDeviceName_eq, validateEdits_eq]
  simp only [validateAnnotations, if_true, annotationsWF]
  by_cases h1 : devOK d.name = true <;> by_cases h2 : K8s.validateAnnotations d.annotations = true <;>
    by_cases h3 : editsEmpty d.edits = true <;> simp [h1, h2, h3]

/-- names not in `seen` and pairwise distinct -/
def uniqueAgainst (seen : List Str) : List Str → Bool
  | [] => true
  | n :: rest => !seen.contains n && uniqueAgainst (n :: seen) rest

theorem all_not_or (n : Str) (seen rest : List Str) :
    (rest.all fun x => !(x == n || seen.contains x)) =
      ((!rest.contains n) && rest.all fun x => !seen.contains x) := by
  induction rest with
  | nil => rfl
  | cons m r ih2 =>
    simp only [List.all_cons, List.contains_cons, ih2]
    have hc : (m == n) = (n == m) := by
      apply Bool.eq_iff_iff.mpr
      simp only [beq_iff_eq]; exact ⟨Eq.symm, Eq.symm⟩
    rw [hc]
    cases (n == m) <;> cases seen.contains m <;> cases r.contains n <;> simp

theorem uniqueAgainst_eq (l : List Str) : ∀ seen : List Str,
    uniqueAgainst seen l = (l.all (fun n => !seen.contains n) && namesUnique l) := by
  induction l with
  | nil => intro seen; rfl
  | cons n rest ih =>
    intro seen
    simp only [uniqueAgainst, ih, List.all_cons, namesUnique, List.contains_cons]
    rw [all_not_or]
    cases seen.contains n <;> cases rest.contains n <;> cases (rest.all fun x => !seen.contains x) <;>
      cases namesUnique rest <;> rfl

theorem validateDevices_eq (ds : List Device) : ∀ seen : List Str,
    validateDevices true true ds seen =
      .ok (ds.all deviceWF && uniqueAgainst seen (ds.map (·.name))) := by
  induction ds with
  | nil => intro seen; rfl
  | cons d rest ih =>
    intro seen
    simp only [validateDevices, validateDevice_eq, List.all_cons, List.map_cons, uniqueAgainst]
    by_cases h1 : deviceWF d = true
    · by_cases h2 : d.name ∈ seen <;> simp [h1, h2, ih]
    · simp [h1]

theorem kind_eq (kind : Str) :
    (match validateVC (parseQualifier kind).1 with
     | .ok true => validateVC (parseQualifier kind).2
     | r => r) = .ok (kindWF kind) := by
  unfold parseQualifier kindWF
  cases h : splitFirst cSlash kind with
  | none => simp [validateVC_eq, vcOK]
  | some p =>
    obtain ⟨a, b⟩ := p
    by_cases ha : a = []
    · subst ha; simp [validateVC_eq, vcOK]
    · by_cases hb : b = []
      · subst hb; simp [validateVC_eq, vcOK, ha]
      · simp only [ha, hb, or_self, if_false, validateVC_eq]
        cases vcOK a <;> simp

/-- **C05 (admission is exact and total)**: on the repaired tree the validation
pipeline never panics and accepts exactly the well-formed Specs. -/
theorem C05_admit_iff (s : Spec) : validateSpec s = .ok (WellFormed s) := by
  unfold validateSpec validateSpecWith WellFormed
  have hv : Version.validateVersionWith fixed.aliasing fixed.verNilGuard s = .ok (versionValid s) :=
    Version.C06_valid_iff s
  have hk := kind_eq s.kind
  simp only [validateVC] at hk
  simp only [fixed] at hv
  simp only [hv, fixed, validateEdits_eq, validateDevices_eq, validateAnnotations, if_true,
    uniqueAgainst_eq, List.contains_nil, Bool.not_false, annotationsWF]
  have hall : (s.devices.map (·.name)).all (fun _ => true) = true := by simp
  by_cases h0 : versionValid s = true
  · simp only [h0, Bool.true_and]
    cases h1 : validateVCWith true (parseQualifier s.kind).1 with
    | panic => rw [h1] at hk; simp at hk
    | err => rw [h1] at hk; simp at hk
    | ok b1 =>
      rw [h1] at hk
      cases b1
      · simp only [Res.ok.injEq] at hk; simp [← hk]
      · simp only at hk
        simp only [hk]
        by_cases h2 : kindWF s.kind = true <;> by_cases h3 : K8s.validateAnnotations s.annotations = true <;>
          by_cases h4 : editsWF s.edits = true <;> by_cases h5 : s.devices.all deviceWF = true <;>
          by_cases h6 : namesUnique (s.devices.map (·.name)) = true <;>
          simp [h2, h3, h4, h5, h6, hall]
  · simp [h0]

/-- **C05 (never panics)** -/
theorem C05_never_panics (s : Spec) : ∃ b, validateSpec s = .ok b := ⟨_, C05_admit_iff s⟩

/-- the judge is met by the model on every Spec -/
theorem C05_model_meets_judge (s : Spec) :
    judgeAdmit s (match validateSpec s with
      | .ok true => .accepted | .ok false => .rejected | _ => .panicked) = none := by
  rw [C05_admit_iff]
  cases h : WellFormed s <;> simp [judgeAdmit, h]

/-! ### single defects reject (corollaries, for every position) -/

theorem C05_defect_null_entry (s : Spec) (d : Device) (hd : d ∈ s.devices)
    (h : none ∈ d.edits.deviceNodes ∨ none ∈ d.edits.hooks ∨ none ∈ d.edits.mounts) :
    validateSpec s = .ok false := by
  rw [C05_admit_iff]
  have : deviceWF d = false := by
    unfold deviceWF editsWF
    rcases h with h | h | h
    · have : d.edits.deviceNodes.all nodeWF = false := by
        apply Bool.eq_false_iff.mpr; intro hall
        have := List.all_eq_true.mp hall none h; simp [nodeWF] at this
      simp [this]
    · have : d.edits.hooks.all hookWF = false := by
        apply Bool.eq_false_iff.mpr; intro hall
        have := List.all_eq_true.mp hall none h; simp [hookWF] at this
      simp [this]
    · have : d.edits.mounts.all mountWF = false := by
        apply Bool.eq_false_iff.mpr; intro hall
        have := List.all_eq_true.mp hall none h; simp [mountWF] at this
      simp [this]
  have hall : s.devices.all deviceWF = false := by
    apply Bool.eq_false_iff.mpr; intro hall
    have := List.all_eq_true.mp hall d hd; rw [‹deviceWF d = false›] at this; cases this
  simp [WellFormed, hall]

theorem C05_defect_device (s : Spec) (d : Device) (hd : d ∈ s.devices) (h : deviceWF d = false) :
    validateSpec s = .ok false := by
  rw [C05_admit_iff]
  have hall : s.devices.all deviceWF = false := by
    apply Bool.eq_false_iff.mpr; intro hall
    have := List.all_eq_true.mp hall d hd; rw [h] at this; cases this
  simp [WellFormed, hall]

theorem C05_defect_no_devices (s : Spec) (h : s.devices = []) : validateSpec s = .ok false := by
  rw [C05_admit_iff]; simp [WellFormed, h]

theorem C05_defect_spec_edits (s : Spec) (h : editsWF s.edits = false) : validateSpec s = .ok false := by
  rw [C05_admit_iff]; simp [WellFormed, h]

theorem C05_defect_kind (s : Spec) (h : kindWF s.kind = false) : validateSpec s = .ok false := by
  rw [C05_admit_iff]; simp [WellFormed, h]

theorem C05_defect_annotations (s : Spec) (h : annotationsWF s.annotations = false) :
    validateSpec s = .ok false := by
  rw [C05_admit_iff]; simp [WellFormed, h]

theorem C05_defect_version (s : Spec) (h : versionValid s = false) : validateSpec s = .ok false := by
  rw [C05_admit_iff]; simp [WellFormed, h]

theorem C05_defect_duplicate_name (s : Spec) (h : namesUnique (s.devices.map (·.name)) = false) :
    validateSpec s = .ok false := by
  rw [C05_admit_iff]; simp [WellFormed, h]

/-! ### strict decoding -/

/-- a member the struct does not know, or a repeated member, makes decoding fail -/
theorem C05_decode_strict (known : List Str) (m : JMembers)
    (h : Decode.hasDup (m.toList.map (·.1)) = true ∨ ∃ kv ∈ m.toList, known.contains kv.1 = false) :
    Decode.members known (.obj m) = none := by
  unfold Decode.members
  rcases h with h | ⟨kv, hkv, hk⟩
  · simp [h]
  · have : (m.toList.all fun kv => known.contains kv.1) = false := by
      apply Bool.eq_false_iff.mpr; intro hall
      have := List.all_eq_true.mp hall kv hkv; rw [hk] at this; cases this
    simp only [this]
    split <;> simp

/-! ### Sensitivity: the pinned pipeline violated the property -/

def oneLetterKind : Spec :=
  { version := lit "0.3.0", kind := lit "v.com/c",
    devices := [{ name := lit "d", edits := { env := [lit "A=b"] } }] }

/-- a one-letter class crashed instead of being accepted -/
example : validateSpecPinned oneLetterKind = .panic := by decide
example : validateSpec oneLetterKind = .ok true := by decide
/-- a malformed annotation key was accepted by the pinned tree -/
example : validateSpecPinned { oneLetterKind with kind := lit "v.com/cls", version := lit "0.6.0", annotations := [(lit "bad key!", lit "x")] } = .ok true := by decide
example : validateSpec { oneLetterKind with kind := lit "v.com/cls", version := lit "0.6.0", annotations := [(lit "bad key!", lit "x")] } = .ok false := by decide

/-! ### T2 / T3 — device-node types and permission characters, tied to the code by execution

`Generated.deviceTypesAccepted` lists every string of at most two bytes (all 65 793 of them were tried) that
`DeviceNode.Validate` of the working tree accepts as a type; `Generated.permissionBytes` the bytes it accepts
inside `permissions` (alone, after `r`, before `m`).  Independent of how the validator is written. -/

theorem T2_device_types_executed :
    sameSet Generated.deviceTypesAccepted (specDeviceTypes.filter (fun t => decide (t.length ≤ 2))) = true := by decide

/-- T4: among the candidates tried (every string of at most one byte, the six OCI hook names and every string at
edit distance one from them) `Hook.Validate` of the working tree accepts exactly the hook names of SPEC.md -/
theorem T4_hook_names_executed : sameSet Generated.hookNamesAccepted specHookNames = true := by decide

set_option maxRecDepth 100000 in
theorem T3_permission_bytes : ∀ n, n < 256 → isPermByte n.toUInt8 = inRanges Generated.permissionBytes n := by
  decide +kernel

/-! ### Non-vacuity -/
example : WellFormed { oneLetterKind with version := lit "0.7.0", edits := { intelRdt := some { closID := lit "cls" }, additionalGids := [1, 2] } } = true := by decide

end Cdi.Validate
