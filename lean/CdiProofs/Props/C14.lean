/-
  C14 — Injection changes nothing but the OCI spec and is repeatable.

  Model: CdiModel/Purity.lean (heap of device-node records shared by pointer
  between the cached Spec, the Device and the per-call edit list).
-/
import CdiModel.Purity
namespace Cdi.Purity
open Cdi Cdi.Apply

/-- **C14 (cache unchanged)**: on the repaired tree an injection — whatever the host says,
whichever nodes it touches, whether it succeeds or fails — leaves every cached
device-node record exactly as it was. -/
theorem C14_cache_unchanged (host : Str → Option HostNode) : ∀ (refs : List Nat) (w : World),
    (injectNodes false host refs w).1 = w := by
  intro refs
  induction refs with
  | nil => intro w; rfl
  | cons i rest ih =>
    intro w
    unfold injectNodes
    cases hn : w.nodes[i]? with
    | none => rfl
    | some d =>
      simp only
      cases hf : fillMissingInfo host d with
      | ok d' => simp only [Bool.false_eq_true, if_false]; exact ih w
      | err => rfl
      | panic => rfl

/-- **C14 (repeatable, host read each time)**: after any number of earlier injections under
any host states, an injection yields exactly what a fresh cache yields under the
current host state. -/
theorem C14_repeatable (hosts : List (Str → Option HostNode)) (host : Str → Option HostNode)
    (refs : List Nat) (w : World) :
    injectNodes false host refs (hosts.foldl (fun w h => (injectNodes false h refs w).1) w) =
      injectNodes false host refs w := by
  have : hosts.foldl (fun w h => (injectNodes false h refs w).1) w = w := by
    induction hosts generalizing w with
    | nil => rfl
    | cons h rest ih => simp only [List.foldl_cons]; rw [C14_cache_unchanged]; exact ih w
  rw [this]

/-- the judge is met by the repaired model for every heap, reference list and pair of host states -/
theorem C14_model_meets_judge (nodes : List DeviceNode) (host1 host2 : Str → Option HostNode) (refs : List Nat) :
    let r1 := injectNodes false host1 refs ⟨nodes⟩
    let r2 := injectNodes false host2 refs r1.1
    judgePurity nodes host1 host2 refs ⟨r1.2, r2.2, r2.1.nodes, true⟩ = none := by
  simp only [judgePurity, C14_cache_unchanged]
  simp

/-! ### Sensitivity: filling in place (the pinned tree) violates all three clauses -/

def nodeEx : DeviceNode := { path := lit "/dev/x" }
def hostA : Str → Option HostNode := fun p => if p = lit "/dev/x" then some (.dev (lit "c") 10 1) else none
def hostB : Str → Option HostNode := fun p => if p = lit "/dev/x" then some (.dev (lit "b") 20 2) else none

/-- the cached record gains hostPath/type/major/minor -/
example : (injectNodes true hostA [0] ⟨[nodeEx]⟩).1.nodes =
    [{ path := lit "/dev/x", hostPath := lit "/dev/x", type := lit "c", major := 10, minor := 1 }] := by decide
/-- … and a later injection under a changed host returns the remembered, stale numbers -/
example : (injectNodes true hostB [0] (injectNodes true hostA [0] ⟨[nodeEx]⟩).1).2.map (·.map ociView) =
    some [(lit "/dev/x", lit "c", 10, 1)] := by decide
example : (injectNodes false hostB [0] (injectNodes false hostA [0] ⟨[nodeEx]⟩).1).2.map (·.map ociView) =
    some [(lit "/dev/x", lit "b", 20, 2)] := by decide

end Cdi.Purity
