/-
  C11 — With auto-refresh the cache converges to the directory contents by itself.

  Model: CdiModel/Watch.lean.  The theorem is an inductive invariant over every
  interleaving of file-system operations with watcher, scan and query steps.
-/
import CdiModel.Watch
namespace Cdi.Watch
open Cdi

/-! ### Fact obligation (F7) -/

/-- F7: the watcher's event mask on Linux contains Create (files moved or linked into a Spec
directory produce no other event), besides Write, Rename and Remove -/
theorem F7_event_mask :
    ["Create", "Remove", "Rename", "Write"].all (fun op => Generated.eventMask.contains op) = true := by decide

def hasPass (c : Cfg) (q : List Ev) : Bool := q.any (passes c)
def rmdirs (q : List Ev) : Nat := q.countP (fun e => e == .rmdir)

/-- the invariant: a live kernel watch is believed and attached; there is exactly one pending
directory-removal event iff the watch is dead but still believed; and whenever the snapshot is
stale, something will cause a rescan — a passing event in the queue, a pending scan, or an
untracked directory that exists (re-add on the next query) or existed at the last scan (forced
refresh) -/
def inv (c : Cfg) (s : St) : Bool :=
  (!s.kwatch || (s.tracked && s.dirExists)) &&
  (rmdirs s.queue == (if s.tracked && !s.kwatch then 1 else 0)) &&
  (!s.stale || hasPass c s.queue || s.pend || (!s.tracked && (s.dirExists || s.seen)))

theorem hasPass_snoc (c : Cfg) (q : List Ev) (e : Ev) : hasPass c (q ++ [e]) = (hasPass c q || passes c e) := by
  simp [hasPass, List.any_append]
theorem rmdirs_snoc (q : List Ev) (e : Ev) : rmdirs (q ++ [e]) = rmdirs q + (if e = .rmdir then 1 else 0) := by
  simp [rmdirs, List.countP_append, List.countP_cons]
theorem hasPass_cons (c : Cfg) (q : List Ev) (e : Ev) : hasPass c (e :: q) = (passes c e || hasPass c q) := by
  simp [hasPass]
theorem rmdirs_cons (q : List Ev) (e : Ev) : rmdirs (e :: q) = rmdirs q + (if e = .rmdir then 1 else 0) := by
  simp [rmdirs, List.countP_cons]

theorem rmdir_pass (c : Cfg) (q : List Ev) : 0 < rmdirs q → hasPass c q = true := by
  intro h
  simp only [rmdirs, List.countP_pos_iff, beq_iff_eq] at h
  obtain ⟨e, he, rfl⟩ := h
  simp only [hasPass, List.any_eq_true]
  exact ⟨_, he, rfl⟩

theorem inv_init (d : Bool) : inv repaired (init d) = true := by cases d <;> decide

/-- closes a preservation goal once every Boolean of the state is a literal: the invariant of
the old state fixes the number of pending rmdir events, and a pending one is a passing event -/
macro "close_inv" n:ident hp:ident : tactic =>
  `(tactic| (intro h hrp
             simp only [Bool.and_eq_true, Bool.or_eq_true, beq_iff_eq, Bool.not_eq_true'] at h
             first
             | (obtain ⟨⟨_, hn⟩, _⟩ := h
                simp at hn
                subst hn
                revert h hrp
                cases $hp:ident <;> simp <;> decide)
             | (exfalso; revert h; simp)
             | (revert h hrp; cases $hp:ident <;> simp <;> omega)))

/-- the invariant is preserved by every enabled step of every kind -/
theorem inv_step (s s' : St) (st : Step) (h : inv repaired s = true) (hs : step repaired s st = some s') :
    inv repaired s' = true := by
  obtain ⟨de, kw, tr, se, stl, pe, q⟩ := s
  have hrp := rmdir_pass repaired q
  simp only [inv] at h
  simp only [Bool.and_eq_true, beq_iff_eq] at h
  obtain ⟨⟨h1, h2⟩, h3⟩ := h
  cases st with
  | fs o =>
    cases o <;> cases de <;> cases kw <;>
      simp [step, fsStep, emit] at hs <;> subst hs <;>
      simp only [inv, hasPass_snoc, rmdirs_snoc, passes, repaired, Bool.and_eq_true, beq_iff_eq] <;>
      cases tr <;> simp at h1 h2 ⊢ <;>
      cases se <;> cases stl <;> cases pe <;> simp at h3 ⊢ <;>
      (try omega) <;> (try (simp [h2] at hrp; simp [hrp])) <;> (try (cases hh : hasPass repaired q <;> simp_all [repaired]))
  | cache o =>
    cases o with
    | watcherTake =>
      cases pe
      · cases q with
        | nil => simp [step, cacheStep] at hs
        | cons e rest =>
          have hrp' := rmdir_pass repaired rest
          rw [rmdirs_cons] at h2
          rw [hasPass_cons] at h3
          cases e <;> cases de <;> cases tr <;>
            simp [step, cacheStep, passes, update, repaired] at hs <;> subst hs <;>
            simp only [inv, passes, repaired, Bool.and_eq_true, beq_iff_eq] <;>
            cases kw <;> simp at h1 h2 ⊢ <;> cases se <;> cases stl <;> simp [passes] at h3 ⊢ <;>
            (try omega) <;> (try (simp [h2] at hrp'; simp [hrp'])) <;>
            (try (cases hh : hasPass repaired rest <;> simp_all [repaired]))
      · simp [step, cacheStep] at hs
    | scan =>
      cases pe
      · simp [step, cacheStep] at hs
      · simp [step, cacheStep] at hs
        subst hs
        simp only [inv, Bool.and_eq_true, beq_iff_eq]
        cases de <;> cases kw <;> cases tr <;> simp at h1 h2 ⊢ <;> (try omega) <;> (try exact h2)
    | query =>
      cases pe
      · cases de <;> cases tr <;> cases se <;>
          simp [step, cacheStep, update, repaired] at hs <;> subst hs <;>
          simp only [inv, repaired, Bool.and_eq_true, beq_iff_eq] <;>
          cases kw <;> simp at h1 h2 ⊢ <;> cases stl <;> simp at h3 ⊢ <;>
          (try omega) <;> (try (simp [h2] at hrp; simp [hrp])) <;>
          (try (cases hh : hasPass repaired q <;> simp_all [repaired]))
      · simp [step, cacheStep] at hs

theorem inv_run (s : St) (l : List Step) (h : inv repaired s = true) : inv repaired (runSteps repaired s l) = true := by
  induction l generalizing s with
  | nil => exact h
  | cons st rest ih =>
    simp only [runSteps, List.foldl_cons]
    cases hs : step repaired s st with
    | none => simp only [Option.getD_none]; exact ih s h
    | some s' => simp only [Option.getD_some]; exact ih s' (inv_step s s' st h hs)

/-- **C11 — the property theorem**: for every finite history of file-system operations on the
directory (files written, replaced, moved in, removed; the directory removed and recreated,
missing at start) and every interleaving with the watcher's event handling, its scans and
queries, once the event queue is drained and no scan is pending, the next query's result is
not stale: it is what a cache freshly built from the final directory content returns. -/
theorem C11_converges (dirExists0 : Bool) (schedule : List Step) :
    let s := runSteps repaired (init dirExists0) schedule
    s.queue = [] → s.pend = false → (queryNow repaired s).stale = false := by
  intro s hq hp
  have hinv : inv repaired s = true := inv_run _ schedule (inv_init dirExists0)
  obtain ⟨de, kw, tr, se, stl, pe, q⟩ := s
  simp only at hq hp
  subst hq hp
  revert hinv
  cases de <;> cases kw <;> cases tr <;> cases se <;> cases stl <;> decide

/-- the watcher can always make progress until the queue is drained -/
theorem C11_drain_enabled (c : Cfg) (s : St) (h : s.queue ≠ [] ∨ s.pend = true) :
    (cacheStep c s .watcherTake).isSome = true ∨ (cacheStep c s .scan).isSome = true := by
  obtain ⟨de, kw, tr, se, stl, pe, q⟩ := s
  cases pe
  · left
    cases q with
    | nil => simp at h
    | cons e rest => simp only [cacheStep, Bool.false_eq_true, if_false]; split <;> simp
  · right; simp [cacheStep]

/-! ### Sensitivity: both pinned defects are counterexamples to convergence -/

/-- (1) a file moved into the directory produces only a Create event, which the pinned mask drops -/
example : (queryNow pinned (runSteps pinned (init true)
    [.fs .moveIn, .cache .watcherTake])).stale = true := by decide

/-- (2) with Create in the mask but without the `seen` rule: the directory is removed and the
removal handled, the directory is recreated with a Spec and scanned while unwatched, then
removed again with no event — nothing ever forces a refresh -/
example : (queryNow ⟨true, false⟩ (runSteps ⟨true, false⟩ (init true)
    [.fs .rmdir, .cache .watcherTake, .fs .mkdir, .fs .writeSpec, .cache .scan, .fs .rmdir])).stale = true := by decide

/-- the repaired machine handles both histories -/
example : (queryNow repaired (runSteps repaired (init true)
    [.fs .rmdir, .cache .watcherTake, .fs .mkdir, .fs .writeSpec, .cache .scan, .fs .rmdir])).stale = false := by decide

end Cdi.Watch
