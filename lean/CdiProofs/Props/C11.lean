/-
  C11 — With auto-refresh the cache converges to the directory contents by itself.

  Model: CdiModel/Watch.lean.  The theorem is an inductive invariant over every
  interleaving of file-system operations with watcher, scan and query steps.
-/
import CdiModel.WatchMulti
import CdiModel.Locks
import CdiModel.Generated.Access
namespace Cdi.Watch
open Cdi

/-! ### Fact obligation (F7) -/

/-- F9 (regenerated from pkg/cdi/cache.go on every run): the steps `scan` and `query` of the machine are atomic
with respect to each other because, in every exported method and in the watcher goroutine, a scan of the Spec
directories happens with the cache mutex held (F9_accesses_guarded, C12) and its result is published before the
mutex is released: no other operation of the cache can fall between a scan and the publication of what it saw.
(File-system operations can - the machine splits update and scan for that.)  The watcher goroutine does scan. -/
theorem F9_scan_and_publication_atomic :
    Generated.accessTable.all (fun e => Locks.scanPublishes (Locks.strip e.2)) = true ∧
    Generated.accessTable.any (fun e => e.1 == "watch.watch" && e.2.contains (.read Locks.fsScan)) = true ∧
    Generated.accessTable.all (fun e => Locks.guarded false (Locks.strip e.2)) = true := by decide


/-- F7: the watcher's event mask on Linux contains Create (files moved or linked into a Spec
directory produce no other event), besides Write, Rename and Remove -/
theorem F7_event_mask :
    ["Create", "Remove", "Rename", "Write"].all (fun op => Generated.eventMask.contains op) = true := by decide

/-- F7b: the watcher goroutine reacts to an error of the event source (events lost) with a rescan - the third
flag of the repaired configuration -/
theorem F7_lost_events_rescan : Generated.overflowRescans = true := by decide

def hasPass (c : Cfg) (q : List Ev) : Bool := q.any (passes c)
/-- an event on which the watcher drops its belief that the directory is watched: the Remove of the
directory itself, or the overflow marker -/
def isResync (e : Ev) : Bool := e == .rmdir || e == .lost
def hasResync (q : List Ev) : Bool := q.any isResync

/-- the invariant: a live kernel watch is attached to an existing directory; whenever the watch is dead
but still believed, an event that corrects the belief is pending (the Remove of the directory, or - if
that was lost - the overflow marker); and whenever the snapshot is stale, something will cause a rescan -
a passing event in the queue, a pending scan, or an untracked directory that exists (re-add on the next
query) or existed at the last scan (forced refresh) -/
def inv (c : Cfg) (s : St) : Bool :=
  (!s.kwatch || s.dirExists) &&
  (!(s.tracked && !s.kwatch) || hasResync s.queue) &&
  (!s.stale || hasPass c s.queue || s.pend || (!s.tracked && (s.dirExists || s.seen)))

theorem hasPass_snoc (c : Cfg) (q : List Ev) (e : Ev) : hasPass c (q ++ [e]) = (hasPass c q || passes c e) := by
  simp [hasPass, List.any_append]
theorem hasResync_snoc (q : List Ev) (e : Ev) : hasResync (q ++ [e]) = (hasResync q || isResync e) := by
  simp [hasResync, List.any_append]
theorem hasPass_cons (c : Cfg) (q : List Ev) (e : Ev) : hasPass c (e :: q) = (passes c e || hasPass c q) := by
  simp [hasPass]
theorem hasResync_cons (q : List Ev) (e : Ev) : hasResync (e :: q) = (isResync e || hasResync q) := by
  simp [hasResync]

/-- under the repaired configuration every belief-correcting event passes the filter -/
theorem resync_pass (q : List Ev) : hasResync q = true → hasPass repaired q = true := by
  intro h
  simp only [hasResync, List.any_eq_true] at h
  obtain ⟨e, he, hr⟩ := h
  simp only [hasPass, List.any_eq_true]
  refine ⟨e, he, ?_⟩
  cases e <;> simp [isResync] at hr <;> rfl

theorem inv_init (d : Bool) : inv repaired (init d) = true := by cases d <;> decide

theorem dropNewest_pass (q q' : List Ev) (h : dropNewest q = some q') :
    hasPass repaired q' = true ∧ hasResync q' = true := by
  unfold dropNewest at h
  split at h
  · cases h
  · injection h with h
    subst h
    simp [hasPass_snoc, hasResync_snoc, passes, repaired, isResync]

/-- the invariant is preserved by every enabled step of every kind -/
theorem inv_step (s s' : St) (st : Step) (h : inv repaired s = true) (hs : step repaired s st = some s') :
    inv repaired s' = true := by
  obtain ⟨de, kw, tr, se, stl, pe, q⟩ := s
  have hrp := resync_pass q
  simp only [inv] at h
  simp only [Bool.and_eq_true] at h
  obtain ⟨⟨h1, h2⟩, h3⟩ := h
  cases st with
  | drop =>
    simp only [step, Option.map_eq_some_iff] at hs
    obtain ⟨q', hq', rfl⟩ := hs
    obtain ⟨hp, hr⟩ := dropNewest_pass q q' hq'
    simp only [inv, hp, hr, Bool.and_eq_true]
    simp at h1 ⊢
    exact h1
  | fs o =>
    rcases o with _ | _ | _ | _ | _ | ⟨_ | _⟩ <;> cases de <;> cases kw <;>
      simp [step, fsStep, emit] at hs <;> subst hs <;>
      simp only [inv, hasPass_snoc, hasResync_snoc, passes, isResync, repaired, Bool.and_eq_true] <;>
      cases tr <;> simp at h1 h2 ⊢ <;>
      cases se <;> cases stl <;> cases pe <;> simp at h3 ⊢ <;>
      (try (simp [h2] at hrp; simp [hrp, h2])) <;> (try (cases hh : hasPass repaired q <;> simp_all [repaired]))
  | cache o =>
    cases o with
    | watcherTake =>
      cases pe
      · cases q with
        | nil => simp [step, cacheStep] at hs
        | cons e rest =>
          have hrp' := resync_pass rest
          rw [hasResync_cons] at h2
          rw [hasPass_cons] at h3
          cases e <;> cases de <;> cases tr <;>
            simp [step, cacheStep, passes, update, repaired] at hs <;> subst hs <;>
            simp only [inv, passes, repaired, Bool.and_eq_true] <;>
            cases kw <;> simp [isResync] at h1 h2 ⊢ <;> cases se <;> cases stl <;> simp [passes] at h3 ⊢ <;>
            (try (simp [h2] at hrp'; simp [hrp', h2])) <;>
            (try (cases hh : hasPass repaired rest <;> simp_all [repaired]))
      · simp [step, cacheStep] at hs
    | scan =>
      cases pe
      · simp [step, cacheStep] at hs
      · simp [step, cacheStep] at hs
        subst hs
        simp only [inv, Bool.and_eq_true]
        cases de <;> cases kw <;> cases tr <;> simp at h1 h2 ⊢ <;> (try exact h2)
    | query =>
      cases pe
      · cases de <;> cases tr <;> cases se <;>
          simp [step, cacheStep, update, repaired] at hs <;> subst hs <;>
          simp only [inv, repaired, Bool.and_eq_true] <;>
          cases kw <;> simp at h1 h2 ⊢ <;> cases stl <;> simp at h3 ⊢ <;>
          (try (simp [h2] at hrp; simp [hrp, h2])) <;>
          (try (cases hh : hasPass repaired q <;> simp_all [repaired]))
      · simp [step, cacheStep] at hs
    | foreignDue =>
      cases pe
      · cases de <;> cases tr <;> cases se <;>
          simp [step, cacheStep, update, repaired] at hs <;> subst hs <;>
          simp only [inv, repaired, Bool.and_eq_true] <;>
          cases kw <;> simp at h1 h2 ⊢ <;> cases stl <;> simp at h3 ⊢ <;>
          (try (simp [h2] at hrp; simp [hrp, h2])) <;>
          (try (cases hh : hasPass repaired q <;> simp_all [repaired]))
      · simp [step, cacheStep] at hs

theorem inv_run (s : St) (l : List Step) (h : inv repaired s = true) : inv repaired (runSteps repaired s l) = true := by
  induction l generalizing s with
  | nil => exact h
  | cons st rest ih =>
    simp only [runSteps, List.foldl_cons]
    cases hs : step repaired s st with
    | none => simp only [Option.getD_none]; exact ih s h
    | some s' => simp only [Option.getD_some]; exact ih s' (inv_step s s' st h hs)

/-- **C11 — the property theorem**: for every finite history of file-system operations on the
directory (files written, replaced, moved in, removed; the directory removed and recreated,
missing at start) and every interleaving with the watcher's event handling, its scans and
queries - and with the kernel dropping any of the queued events at any moment (`Step.drop`: queue
overflow, which leaves the overflow marker) -, once the event queue is drained and no scan is pending,
the next query's result is not stale: it is what a cache freshly built from the final directory
content returns. -/
theorem C11_converges (dirExists0 : Bool) (schedule : List Step) :
    let s := runSteps repaired (init dirExists0) schedule
    s.queue = [] → s.pend = false → (queryNow repaired s).stale = false := by
  intro s hq hp
  have hinv : inv repaired s = true := inv_run _ schedule (inv_init dirExists0)
  obtain ⟨de, kw, tr, se, stl, pe, q⟩ := s
  simp only at hq hp
  subst hq hp
  revert hinv
  cases de <;> cases kw <;> cases tr <;> cases se <;> cases stl <;> decide

/-- the watcher can always make progress until the queue is drained -/
theorem C11_drain_enabled (c : Cfg) (s : St) (h : s.queue ≠ [] ∨ s.pend = true) :
    (cacheStep c s .watcherTake).isSome = true ∨ (cacheStep c s .scan).isSome = true := by
  obtain ⟨de, kw, tr, se, stl, pe, q⟩ := s
  cases pe
  · left
    cases q with
    | nil => simp at h
    | cons e rest => simp only [cacheStep, Bool.false_eq_true, if_false]; split <;> simp
  · right; simp [cacheStep]

/-! ### Sensitivity: both pinned defects are counterexamples to convergence -/

/-- (1) a file moved into the directory produces only a Create event, which the pinned mask drops -/
example : (queryNow pinned (runSteps pinned (init true)
    [.fs .moveIn, .cache .watcherTake])).stale = true := by decide

/-- (2) with Create in the mask but without the `seen` rule: the directory is removed and the
removal handled, the directory is recreated with a Spec and scanned while unwatched, then
removed again with no event — nothing ever forces a refresh -/
example : (queryNow ⟨true, false, false⟩ (runSteps ⟨true, false, false⟩ (init true)
    [.fs .rmdir, .cache .watcherTake, .fs .mkdir, .fs .writeSpec, .cache .scan, .fs .rmdir])).stale = true := by decide

/-- the repaired machine handles both histories -/
example : (queryNow repaired (runSteps repaired (init true)
    [.fs .rmdir, .cache .watcherTake, .fs .mkdir, .fs .writeSpec, .cache .scan, .fs .rmdir])).stale = false := by decide

/-- (3) events are lost: a Spec file is written, the kernel drops the event (queue full) and leaves its overflow
marker; a watcher that ignores the marker never rescans (the tree before the third repair) -/
example : (queryNow ⟨true, true, false⟩ (runSteps ⟨true, true, false⟩ (init true)
    [.fs .writeSpec, .drop, .cache .watcherTake])).stale = true := by decide
example : (queryNow repaired (runSteps repaired (init true)
    [.fs .writeSpec, .drop, .cache .watcherTake, .cache .scan])).stale = false := by decide
/-- the lost event is the removal of the directory itself: the watcher keeps believing in a dead watch; the
directory comes back with a Spec. Only dropping every belief on the marker (`resync`) gets the watch back. -/
example : (queryNow repaired (runSteps repaired (init true)
    [.fs .tempFile, .fs .rmdir, .drop, .fs .mkdir, .fs .writeSpec, .cache .watcherTake, .cache .watcherTake, .cache .scan])).stale = false := by decide
/-- `drop` is enabled exactly when an event is queued, and what it leaves passes the repaired filter -/
example : step repaired { init true with queue := [.change, .other] } .drop =
    some { init true with queue := [.change, .lost] } := by decide

/-! ### From the creation of the cache on -/

/-- the state before the cache exists: nothing is watched or believed, nothing has been scanned; whatever
the directory holds is unknown to the cache (stale iff the directory exists) -/
def preInit (dirExists : Bool) : St :=
  { dirExists := dirExists, kwatch := false, tracked := false, seen := false, stale := dirExists, pend := false, queue := [] }

theorem inv_preInit (d : Bool) : inv repaired (preInit d) = true := by cases d <;> decide

/-- creating the cache is the first `query` step from `preInit` (update() installs the watch and asks for
the scan), followed at some point by the `scan` step: the same state as `init` when nothing happens in between -/
example (d : Bool) : queryNow repaired (preInit d) = { init d with seen := d } := by cases d <;> decide

/-- **C11 (from the creation of the cache on)**: the file system may change at any moment of the cache's
construction — before the watch is installed, between the installation of the watch and the initial scan,
after it — and of everything that follows; once the queue is drained and no scan is pending, the next query
is not stale.  (The watch is installed before the initial scan: `update` precedes `scan` in `query`.) -/
theorem C11_converges_from_creation (dirExists0 : Bool) (schedule : List Step) :
    let s := runSteps repaired (preInit dirExists0) schedule
    s.queue = [] → s.pend = false → (queryNow repaired s).stale = false := by
  intro s hq hp
  have hinv : inv repaired s = true := inv_run _ schedule (inv_preInit dirExists0)
  obtain ⟨de, kw, tr, se, stl, pe, q⟩ := s
  simp only at hq hp
  subst hq hp
  revert hinv
  cases de <;> cases kw <;> cases tr <;> cases se <;> cases stl <;> decide

end Cdi.Watch

/-! ## Any number of configured directories

`CdiModel/WatchMulti.lean` is the shared machine: `n` directories, one event queue, one mutex,
one scan.  Seen from one directory it is the single-directory machine above with two extra
steps (`FsOp.foreign`: an event of another directory enters the queue; `CacheOp.foreignDue`: a
query found another directory to re-add), so the invariant lifts along the projection. -/
namespace Cdi.WatchMulti
open Cdi Cdi.Watch

theorem setDir_same (f : Nat → DSt) (d : Nat) (x : DSt) : setDir f d x d = x := by simp [setDir]
theorem setDir_other (f : Nat → DSt) (d d' : Nat) (x : DSt) (h : d ≠ d') : setDir f d' x d = f d := by simp [setDir, h]

theorem proj_memit_same (c : Cfg) (s : MSt) (d : Nat) (e : Ev) : proj c d (memit s d e) = emit (proj c d s) e := by
  unfold memit emit proj
  cases hk : (s.dir d).kwatch <;> simp [hk, pev] <;> (intro h; exact h.symm)

theorem proj_memit_other (c : Cfg) (s : MSt) (d d' : Nat) (e : Ev) (h : d ≠ d') (hl : e ≠ .lost) :
    proj c d (memit s d' e) = proj c d s ∨
    proj c d (memit s d' e) = { proj c d s with queue := (proj c d s).queue ++ [if passes c e then .change else .other] } := by
  unfold memit
  cases hk : (s.dir d').kwatch
  · left; simp
  · right; simp [proj, pev, Ne.symm h, hl]

/-- events of other directories are, for this one, a passing or a non-passing foreign event -/
theorem foreign_step (c : Cfg) (v : St) (e : Ev) :
    step c v (.fs (.foreign (passes c e))) = some { v with queue := v.queue ++ [if passes c e then .change else .other] } := by
  simp [step, fsStep]

theorem sim_fs_same (c : Cfg) (s s' : MSt) (d : Nat) (o : FsOp) (h : mfs s d o = some s') :
    step c (proj c d s) (.fs o) = some (proj c d s') := by
  cases o with
  | foreign p => simp [mfs] at h
  | writeSpec =>
    simp only [mfs] at h
    split at h
    · rename_i hde
      cases h
      simp only [step, fsStep, proj, hde, if_true]
      cases hk : (s.dir d).kwatch <;> simp [memit, emit, hk, setDir_same, pev]
    · cases h
  | moveIn =>
    simp only [mfs] at h
    split at h
    · rename_i hde
      cases h
      simp only [step, fsStep, proj, hde, if_true]
      cases hk : (s.dir d).kwatch <;> simp [memit, emit, hk, setDir_same, pev]
    · cases h
  | tempFile =>
    simp only [mfs] at h
    split at h
    · rename_i hde
      cases h
      simp only [step, fsStep, proj, hde, if_true]
      cases hk : (s.dir d).kwatch <;> simp [memit, emit, hk, pev, hde]
    · cases h
  | rmdir =>
    simp only [mfs] at h
    split at h
    · rename_i hde
      cases h
      simp only [step, fsStep, proj, hde, if_true]
      cases hk : (s.dir d).kwatch <;> simp [memit, emit, hk, setDir_same, pev]
    · cases h
  | mkdir =>
    simp only [mfs] at h
    split at h
    · cases h
    · rename_i hde
      cases h
      simp only [Bool.not_eq_true] at hde
      simp [step, fsStep, proj, hde, setDir_same]

theorem sim_fs_other (c : Cfg) (s s' : MSt) (d d' : Nat) (o : FsOp) (h : mfs s d' o = some s') (hne : d ≠ d') :
    proj c d s' = proj c d s ∨ ∃ p, step c (proj c d s) (.fs (.foreign p)) = some (proj c d s') := by
  have hne' : d' ≠ d := Ne.symm hne
  cases o with
  | foreign p => simp [mfs] at h
  | writeSpec =>
    simp only [mfs] at h
    split at h
    · cases h
      cases hk : (s.dir d').kwatch
      · left; simp [memit, hk, proj, setDir, hne, setDir_same]
      · right; exact ⟨passes c .change, by simp [memit, hk, proj, setDir, hne, hne', step, fsStep, pev, passes]⟩
    · cases h
  | moveIn =>
    simp only [mfs] at h
    split at h
    · cases h
      cases hk : (s.dir d').kwatch
      · left; simp [memit, hk, proj, setDir, hne, setDir_same]
      · right; exact ⟨passes c .createOnly, by simp [memit, hk, proj, setDir, hne, hne', step, fsStep, pev]⟩
    · cases h
  | tempFile =>
    simp only [mfs] at h
    split at h
    · cases h
      cases hk : (s.dir d').kwatch
      · left; simp [memit, hk, proj]
      · right; exact ⟨passes c .other, by simp [memit, hk, proj, hne', step, fsStep, pev, passes]⟩
    · cases h
  | rmdir =>
    simp only [mfs] at h
    split at h
    · cases h
      cases hk : (s.dir d').kwatch
      · left; simp [memit, hk, proj, setDir, hne]
      · right; exact ⟨passes c .rmdir, by simp [memit, hk, proj, setDir, hne, hne', step, fsStep, pev, passes]⟩
    · cases h
  | mkdir =>
    simp only [mfs] at h
    split at h
    · cases h
    · cases h; left; simp [proj, setDir, hne]

theorem upd_proj (c : Cfg) (n : Nat) (s : MSt) (d : Nat) (hd : d < n) :
    (update c (proj c d s)).1 = proj c d { s with dir := (updateAll c n s.dir).1 } ∧
    (update c (proj c d s)).2 = (dupdate c (s.dir d)).2 := by
  cases ht : (s.dir d).tracked <;> cases he : (s.dir d).dirExists <;>
    simp [update, dupdate, updateAll, proj, hd, ht, he]

theorem due_of_mem (c : Cfg) (n : Nat) (f : Nat → DSt) (d : Nat) (hd : d < n) (h : (dupdate c (f d)).2 = true) :
    (updateAll c n f).2 = true := by
  simp only [updateAll, List.any_eq_true, List.mem_range]
  exact ⟨d, hd, h⟩

theorem sim_scan (c : Cfg) (n : Nat) (s s' : MSt) (h : mstep c n s .scan = some s') (d : Nat) :
    step c (proj c d s) (.cache .scan) = some (proj c d s') := by
  simp only [mstep] at h
  split at h
  · rename_i hp; cases h; simp [step, cacheStep, proj, hp]
  · cases h

theorem sim_query (c : Cfg) (n : Nat) (s s' : MSt) (h : mstep c n s .query = some s') (d : Nat) (hd : d < n) :
    ∃ st, step c (proj c d s) st = some (proj c d s') := by
  simp only [mstep] at h
  split at h
  · cases h
  · rename_i hp
    simp only [Bool.not_eq_true] at hp
    cases h
    obtain ⟨h1, h2⟩ := upd_proj c n s d hd
    cases hdd : (dupdate c (s.dir d)).2
    · cases hg : (updateAll c n s.dir).2
      · refine ⟨.cache .query, ?_⟩
        have hpp : (proj c d s).pend = false := hp
        simp only [step, cacheStep, hpp, Bool.false_eq_true, if_false]
        rw [show update c (proj c d s) = ((update c (proj c d s)).1, (update c (proj c d s)).2) from rfl, h1, h2, hdd]
        simp [proj, hg, hp]
      · refine ⟨.cache .foreignDue, ?_⟩
        have hpp : (proj c d s).pend = false := hp
        simp only [step, cacheStep, hpp, Bool.false_eq_true, if_false]
        rw [h1]; simp [proj, hg]
    · have hg := due_of_mem c n s.dir d hd hdd
      refine ⟨.cache .query, ?_⟩
      have hpp : (proj c d s).pend = false := hp
      simp only [step, cacheStep, hpp, Bool.false_eq_true, if_false]
      rw [show update c (proj c d s) = ((update c (proj c d s)).1, (update c (proj c d s)).2) from rfl, h1, h2, hdd]
      simp [proj, hg]

theorem sim_take (c : Cfg) (n : Nat) (s s' : MSt) (h : mstep c n s .watcherTake = some s') (d : Nat) (hd : d < n) :
    step c (proj c d s) (.cache .watcherTake) = some (proj c d s') := by
  obtain ⟨cm, sf, ov⟩ := c
  cases hp : s.pend
  · cases hq : s.queue with
    | nil => simp [mstep, hp, hq] at h
    | cons p rest =>
      obtain ⟨d', e⟩ := p
      by_cases hdd : d' = d
      · subst hdd
        cases e <;> cases cm <;> cases ov <;> cases ht : (s.dir d').tracked <;> cases he : (s.dir d').dirExists <;>
          simp [mstep, hp, hq, passes, updateAll, dupdate, hd, ht, he, setDir] at h <;> subst h <;>
          simp [step, cacheStep, proj, hp, hq, pev, passes, update, ht, he, hd, setDir, updateAll, dupdate]
      · have hdd' : d ≠ d' := fun e => hdd e.symm
        cases e <;> cases cm <;> cases ov <;> cases ht : (s.dir d).tracked <;> cases he : (s.dir d).dirExists <;>
          cases ht' : (s.dir d').tracked <;>
          simp [mstep, hp, hq, passes, updateAll, dupdate, hd, ht, he, ht', setDir] at h <;> subst h <;>
          simp [step, cacheStep, proj, hp, hq, pev, passes, update, ht, he, ht', hd, hdd, hdd', setDir, updateAll, dupdate]
  · simp [mstep, hp] at h

/-- every step of the shared machine is, seen from any one directory, a step of the
single-directory machine (with foreign events) or no change at all -/
theorem sim (c : Cfg) (n : Nat) (s s' : MSt) (st : MStep) (h : mstep c n s st = some s') (d : Nat) (hd : d < n) :
    proj c d s' = proj c d s ∨ ∃ st', step c (proj c d s) st' = some (proj c d s') := by
  cases st with
  | fs d' o =>
    simp only [mstep] at h
    split at h
    · by_cases hdd : d = d'
      · subst hdd; exact Or.inr ⟨_, sim_fs_same c s s' d o h⟩
      · rcases sim_fs_other c s s' d d' o h hdd with h1 | ⟨p, h1⟩
        · exact Or.inl h1
        · exact Or.inr ⟨_, h1⟩
    · cases h
  | watcherTake => exact Or.inr ⟨_, sim_take c n s s' h d hd⟩
  | scan => exact Or.inr ⟨_, sim_scan c n s s' h d⟩
  | query => exact Or.inr (sim_query c n s s' h d hd)
  | drop =>
    simp only [mstep] at h
    split at h
    · cases h
    · rename_i hq
      cases h
      refine Or.inr ⟨.drop, ?_⟩
      have hq' : List.map (pev c d) s.queue ≠ [] := by simpa using hq
      simp [step, dropNewest, proj, hq, List.map_dropLast, pev]

theorem minv_step (n : Nat) (s s' : MSt) (st : MStep) (h : mstep repaired n s st = some s') (d : Nat) (hd : d < n)
    (hi : inv repaired (proj repaired d s) = true) : inv repaired (proj repaired d s') = true := by
  rcases sim repaired n s s' st h d hd with h1 | ⟨st', h1⟩
  · rw [h1]; exact hi
  · exact inv_step _ _ st' hi h1

theorem minv_run (n : Nat) (s : MSt) (l : List MStep) (d : Nat) (hd : d < n)
    (hi : inv repaired (proj repaired d s) = true) : inv repaired (proj repaired d (mrun repaired n s l)) = true := by
  induction l generalizing s with
  | nil => exact hi
  | cons st rest ih =>
    simp only [mrun, List.foldl_cons]
    cases hs : mstep repaired n s st with
    | none => exact ih s hi
    | some s' => exact ih s' (minv_step n s s' st hs d hd hi)

theorem minv_init (exists_ : Nat → Bool) (d : Nat) : inv repaired (proj repaired d (minit exists_)) = true := by
  have : proj repaired d (minit exists_) = init (exists_ d) := by simp [proj, minit, init]
  rw [this]; exact inv_init _

/-- **C11 for any number of directories**: `n` configured directories, each missing or present at
the start, any finite history of file-system operations on any of them interleaved in any way with
the watcher's event handling, its scans and queries; once the shared queue is drained and no scan is
pending, the next query leaves no directory stale: it answers what a cache freshly built from the
final content of all directories answers. -/
theorem C11_converges_multi (n : Nat) (exists0 : Nat → Bool) (schedule : List MStep) (d : Nat) (hd : d < n) :
    let s := mrun repaired n (minit exists0) schedule
    s.queue = [] → s.pend = false → ((mqueryNow repaired n s).dir d).stale = false := by
  intro s hq hp
  have hinv := minv_run n (minit exists0) schedule d hd (minv_init exists0 d)
  -- the query, and the scan if one is due
  unfold mqueryNow
  have hquery : mstep repaired n s .query = some { s with dir := (updateAll repaired n s.dir).1, pend := (updateAll repaired n s.dir).2 } := by
    simp [mstep, hp]
  rw [hquery]
  simp only [Option.getD_some]
  cases hdue : (updateAll repaired n s.dir).2
  · -- no directory asks for a refresh: this one is not stale by the invariant
    have hscan : mstep repaired n { dir := (updateAll repaired n s.dir).1, pend := false, queue := s.queue } .scan = none := by
      simp [mstep]
    rw [hscan]
    simp only [Option.getD_none]
    have hdd : (dupdate repaired (s.dir d)).2 = false := by
      cases hx : (dupdate repaired (s.dir d)).2
      · rfl
      · have := due_of_mem repaired n s.dir d hd hx; rw [hdue] at this; cases this
    have hinv' : inv repaired (proj repaired d s) = true := hinv
    have hqq : (proj repaired d s).queue = [] := by simp [proj, hq]
    have hpp : (proj repaired d s).pend = false := hp
    have hstale : ((updateAll repaired n s.dir).1 d).stale = (s.dir d).stale := by
      simp only [updateAll, hd, if_true, dupdate]
      split
      · rfl
      · split <;> rfl
    rw [hstale]
    revert hinv' hdd
    simp only [inv, hasPass, hasResync, dupdate, proj, repaired, hq, hp, List.map_nil]
    generalize s.dir d = x
    obtain ⟨de, kw, tr, se, stl⟩ := x
    cases de <;> cases kw <;> cases tr <;> cases se <;> cases stl <;> simp
  · simp [mstep]

/-- before the cache exists, for every directory -/
def mpreInit (exists_ : Nat → Bool) : MSt :=
  { dir := fun d => ⟨exists_ d, false, false, false, exists_ d⟩, pend := false, queue := [] }

theorem minv_preInit (exists_ : Nat → Bool) (d : Nat) : inv repaired (proj repaired d (mpreInit exists_)) = true := by
  have : proj repaired d (mpreInit exists_) = preInit (exists_ d) := by simp [proj, mpreInit, preInit]
  rw [this]; exact inv_preInit _

/-- **C11 for any number of directories, from the creation of the cache on** -/
theorem C11_converges_multi_from_creation (n : Nat) (exists0 : Nat → Bool) (schedule : List MStep) (d : Nat) (hd : d < n) :
    let s := mrun repaired n (mpreInit exists0) schedule
    s.queue = [] → s.pend = false → ((mqueryNow repaired n s).dir d).stale = false := by
  intro s hq hp
  have hinv := minv_run n (mpreInit exists0) schedule d hd (minv_preInit exists0 d)
  unfold mqueryNow
  have hquery : mstep repaired n s .query = some { s with dir := (updateAll repaired n s.dir).1, pend := (updateAll repaired n s.dir).2 } := by
    simp [mstep, hp]
  rw [hquery]
  simp only [Option.getD_some]
  cases hdue : (updateAll repaired n s.dir).2
  · have hscan : mstep repaired n { dir := (updateAll repaired n s.dir).1, pend := false, queue := s.queue } .scan = none := by
      simp [mstep]
    rw [hscan]
    simp only [Option.getD_none]
    have hdd : (dupdate repaired (s.dir d)).2 = false := by
      cases hx : (dupdate repaired (s.dir d)).2
      · rfl
      · have := due_of_mem repaired n s.dir d hd hx; rw [hdue] at this; cases this
    have hinv' : inv repaired (proj repaired d s) = true := hinv
    have hstale : ((updateAll repaired n s.dir).1 d).stale = (s.dir d).stale := by
      simp only [updateAll, hd, if_true, dupdate]
      split
      · rfl
      · split <;> rfl
    rw [hstale]
    revert hinv' hdd
    simp only [inv, hasPass, hasResync, dupdate, proj, repaired, hq, hp, List.map_nil]
    generalize s.dir d = x
    obtain ⟨de, kw, tr, se, stl⟩ := x
    cases de <;> cases kw <;> cases tr <;> cases se <;> cases stl <;> simp
  · simp [mstep]

end Cdi.WatchMulti
