/-
  C12 — Concurrent use of a cache is race-free, deadlock-free, and every result
  reflects one snapshot.

  Models: CdiModel/Locks.lean (threads of mutex operations and field accesses, as
  extracted from the source by factgen), CdiModel/Snap.lean (refresh/query with the
  three index maps written and read one by one).
-/
import CdiModel.Locks
import CdiModel.Snap
import CdiModel.Generated.Access
namespace Cdi.Locks
open Cdi

/-! ### Fact obligations (F9) -/

/-- F9: every entry point of the cache — the exported methods and the watcher goroutine —
touches the shared fields only with the cache mutex held, never locks it twice, and
releases it -/
theorem F9_accesses_guarded :
    Generated.accessTable.all (fun e => guarded false (strip e.2) && retOK false e.2) = true := by decide

/-- F9: the table has the entry points the theorems speak about -/
theorem F9_entry_points :
    ["Cache.Configure", "Cache.Refresh", "Cache.InjectDevices", "Cache.ListDevices", "Cache.GetDevice", "Cache.WriteSpec",
     "Cache.RemoveSpec", "Cache.GetErrors", "Cache.GetSpecDirErrors", "Cache.GetSpecDirectories", "watch.watch"].all
      (fun n => Generated.accessTable.any (·.1 == n)) = true := by decide

/-- F9: a refresh (explicit, by a query, by the watcher) replaces the three index maps inside a
single critical section, and the queries read them inside a single critical section -/
theorem F9_one_critical_section :
    (Generated.accessTable.filter (fun e => writes e.2 "specs" || writes e.2 "devices" || writes e.2 "errors")).all
      (fun e => writes e.2 "specs" && writes e.2 "devices" && writes e.2 "errors" &&
        (lockCount e.2 == 1 || e.1 == "watch.watch")) = true ∧
    (Generated.accessTable.filter (fun e => reads e.2 "specs" || reads e.2 "devices" || reads e.2 "errors")).all
      (fun e => lockCount e.2 == 1 || e.1 == "watch.watch") = true := by decide

/-! ### The lock-set theorem -/

/-- the invariant: what remains of every thread's program is guarded, relative to whether
that thread holds the mutex -/
def Inv (s : St) : Prop := ∀ i, guarded (s.holder == some i) (s.rest i) = true

theorem inv_init (progs : Nat → Prog) (h : ∀ i, guarded false (progs i) = true) : Inv (init progs) := by
  intro i; simpa [init] using h i

theorem inv_step (s s' : St) (i : Nat) (h : Inv s) (hs : step s i = some s') : Inv s' := by
  unfold step at hs
  have hi := h i
  split at hs
  · simp at hs
  · rename_i r hr
    split at hs
    · rename_i hn
      simp at hs; subst hs
      intro j
      have hj := h j
      simp only [hn] at hi hj
      simp only [setRest]
      by_cases hji : j = i
      · subst hji; simp; rw [hr] at hi; simpa [guarded] using hi
      · have hne : (i == j) = false := by simp; exact fun e => hji e.symm
        simp [hji, hne] at hj ⊢; exact hj
    · simp at hs
  · rename_i r hr
    simp at hs; subst hs
    rw [hr] at hi
    have hh : (s.holder == some i) = true := by
      cases hb : (s.holder == some i) <;> simp [hb, guarded] at hi ⊢
    simp only [hh, guarded] at hi
    intro j
    have hj := h j
    simp only [setRest]
    by_cases hji : j = i
    · subst hji; simpa using hi
    · simp only [beq_iff_eq] at hh
      have hne : (i == j) = false := by simp; exact fun e => hji e.symm
      simp [hji, hh, hne] at hj ⊢; exact hj
  · rename_i a r hnl hnu hr
    simp at hs; subst hs
    intro j
    have hj := h j
    simp only [setRest]
    by_cases hji : j = i
    · subst hji
      simp
      rw [hr] at hi
      cases a with
      | lock => exact absurd rfl hnl
      | unlock => exact absurd rfl hnu
      | read f => simp [guarded] at hi; simpa [hi.1] using hi.2
      | write f => simp [guarded] at hi; simpa [hi.1] using hi.2
      | ret => simp [guarded] at hi
    · simpa [hji] using hj

theorem inv_run (s : St) (schedule : List Nat) (h : Inv s) : Inv (run s schedule) := by
  induction schedule generalizing s with
  | nil => exact h
  | cons i rest ih =>
    simp only [run, List.foldl_cons]
    cases hs : step s i with
    | none => exact ih s h
    | some s' => exact ih s' (inv_step s s' i h hs)

theorem access_needs_mutex (s : St) (i : Nat) (h : Inv s) (a : String × Bool) (ha : nextAccess s i = some a) :
    s.holder = some i := by
  have hi := h i
  unfold nextAccess at ha
  split at ha <;> rename_i hr <;> try (simp at ha)
  all_goals (rw [hr] at hi; cases hb : (s.holder == some i) <;> simp [hb, guarded] at hi; simpa using hb)

/-- **C12 — no data race**: for every assignment of guarded programs to any number of threads
and every schedule, no reachable state has two different threads both about to access shared
state — whichever fields, reads or writes.  (Two conflicting accesses that are not ordered by
the mutex would be simultaneously enabled in some schedule.) -/
theorem C12_race_free (progs : Nat → Prog) (hg : ∀ i, guarded false (progs i) = true) (schedule : List Nat)
    (i j : Nat) (a b : String × Bool) :
    nextAccess (run (init progs) schedule) i = some a →
    nextAccess (run (init progs) schedule) j = some b → i = j := by
  intro ha hb
  have hinv := inv_run _ schedule (inv_init progs hg)
  have h1 := access_needs_mutex _ i hinv a ha
  have h2 := access_needs_mutex _ j hinv b hb
  rw [h1] at h2
  exact (Option.some.inj h2)

/-- **C12 — critical sections are atomic**: while a thread holds the mutex no other thread can
take any step, so what a method does between Lock and Unlock is one indivisible transition of
the shared state -/
theorem C12_critical_sections_atomic (progs : Nat → Prog) (hg : ∀ i, guarded false (progs i) = true)
    (schedule : List Nat) (h j : Nat) :
    (run (init progs) schedule).holder = some h → j ≠ h → step (run (init progs) schedule) j = none := by
  intro hh hj
  have hinv := inv_run _ schedule (inv_init progs hg)
  generalize run (init progs) schedule = s at *
  have hjg := hinv j
  have hf : (s.holder == some j) = false := by simp [hh]; exact fun e => hj e.symm
  rw [hf] at hjg
  unfold step
  split
  · rfl
  · simp [hh]
  · rename_i r hr; rw [hr] at hjg; simp [guarded] at hjg
  · rename_i a r hnl hnu hr
    rw [hr] at hjg
    cases a with
    | lock => exact absurd rfl hnl
    | unlock => exact absurd rfl hnu
    | read f => simp [guarded] at hjg
    | write f => simp [guarded] at hjg
    | ret => simp [guarded] at hjg

/-- **C12 — no deadlock**: in every reachable state in which some thread has work left, some
thread can take a step -/
theorem C12_no_deadlock (progs : Nat → Prog) (hg : ∀ i, guarded false (progs i) = true) (schedule : List Nat) :
    (∃ i, (run (init progs) schedule).rest i ≠ []) → ∃ i, (step (run (init progs) schedule) i).isSome = true := by
  intro ⟨i, hi⟩
  have hinv := inv_run _ schedule (inv_init progs hg)
  generalize run (init progs) schedule = s at *
  cases hh : s.holder with
  | some h =>
    refine ⟨h, ?_⟩
    have hg' := hinv h
    simp only [hh, beq_self_eq_true] at hg'
    unfold step
    split
    · rename_i hr; rw [hr] at hg'; simp [guarded] at hg'
    · rename_i r hr; rw [hr] at hg'; simp [guarded] at hg'
    · simp
    · simp
  | none =>
    refine ⟨i, ?_⟩
    have hg' := hinv i
    simp only [hh] at hg'
    have : (none == some i) = false := rfl
    rw [this] at hg'
    unfold step
    split
    · rename_i hr; exact absurd hr hi
    · simp [hh]
    · simp
    · simp

/-- the premises are satisfiable by the programs of the source: two threads running
`Cache.GetErrors` and `Cache.GetSpecDirectories` -/
example : ∀ i, guarded false ((fun (i : Nat) => if i = 0 then [Act.lock, .read "errors", .read "dirErrors", .unlock]
    else if i = 1 then [.lock, .read "specDirs", .unlock] else []) i) = true := by
  intro i
  by_cases h0 : i = 0
  · simp [h0, guarded]
  · by_cases h1 : i = 1 <;> simp [h0, h1, guarded]

/-! ### Sensitivity: an unguarded read races -/

/-- the pinned `GetSpecDirErrors` reads `dirErrors` before taking the mutex: with `Configure` in
its critical section both threads are about to access the field -/
example :
    let progs : Nat → Prog := fun i => if i = 0 then [.read "dirErrors", .lock, .read "dirErrors", .unlock]
      else if i = 1 then [.lock, .write "dirErrors", .unlock] else []
    nextAccess (run (init progs) [1]) 0 = some ("dirErrors", false) ∧
    nextAccess (run (init progs) [1]) 1 = some ("dirErrors", true) := by decide

end Cdi.Locks

namespace Cdi.Snap

/-- the invariant of the refresh/query machine (P: the admissible scans) -/
structure Inv (n : Nat) (P : Nat → Prop) (s : St) : Prop where
  noRaw : ∀ i, (s.th i).kind ≠ .rawQuery
  refreshP : ∀ i v, (s.th i).kind = .refresh v → P v
  cs : ∀ i, (1 ≤ (s.th i).pc ∧ (s.th i).pc ≤ n + 1) ↔ s.holder = some i
  pvals : ∀ f, P (s.mem f)
  free : s.holder = none → ∀ f g, f < n → g < n → s.mem f = s.mem g
  heldR : ∀ h v, s.holder = some h → (s.th h).kind = .refresh v →
    (∀ f, f + 1 < (s.th h).pc → f < n → s.mem f = v) ∧
    (∃ x, ∀ f, (s.th h).pc ≤ f + 1 → f < n → s.mem f = x)
  heldQ : ∀ h, s.holder = some h → (s.th h).kind = .query →
    ∃ x, P x ∧ (∀ f, f < n → s.mem f = x) ∧ (s.th h).got = List.replicate ((s.th h).pc - 1) x
  fresh : ∀ i, (s.th i).kind = .query → (s.th i).pc = 0 → (s.th i).got = []
  doneQ : ∀ i, (s.th i).kind = .query → (s.th i).pc = n + 2 → ∃ x, P x ∧ (s.th i).got = List.replicate n x

theorem upd_self (th : Nat → Th) (i : Nat) (t : Th) : upd th i t i = t := by simp [upd]
theorem upd_other (th : Nat → Th) (i j : Nat) (t : Th) (h : j ≠ i) : upd th i t j = th j := by simp [upd, h]

theorem inv_init (n : Nat) (P : Nat → Prop) (kinds : Nat → Kind) (scan0 : Nat)
    (hk : ∀ i, kinds i ≠ .rawQuery) (hp : ∀ i v, kinds i = .refresh v → P v) (h0 : P scan0) :
    Inv n P (init kinds scan0) := by
  refine ⟨hk, hp, ?_, fun _ => h0, fun _ _ _ _ _ => rfl, ?_, ?_, fun _ _ _ => rfl, ?_⟩
  · intro i; simp [init]
  · intro h v hh; simp [init] at hh
  · intro h hh; simp [init] at hh
  · intro i _ hpc; simp [init] at hpc

theorem kind_upd (th : Nat → Th) (i : Nat) (t : Th) (hk : t.kind = (th i).kind) (j : Nat) :
    (upd th i t j).kind = (th j).kind := by
  by_cases hj : j = i
  · subst hj; simp [upd, hk]
  · simp [upd, hj]

/-- taking the mutex (either kind of thread) -/
theorem inv_lock (n : Nat) (P : Nat → Prop) (s : St) (i : Nat) (h : Inv n P s)
    (h0 : (s.th i).pc = 0) (hn : s.holder = none) (hnr : (s.th i).kind ≠ .rawQuery) :
    Inv n P { s with th := upd s.th i { s.th i with pc := 1 }, holder := some i } := by
  have hku := kind_upd s.th i { s.th i with pc := 1 } rfl
  refine ⟨?_, ?_, ?_, h.pvals, ?_, ?_, ?_, ?_, ?_⟩
  · intro j; rw [hku]; exact h.noRaw j
  · intro j v; rw [hku]; exact h.refreshP j v
  · intro j
    by_cases hj : j = i
    · subst hj; simp [upd]
    · have := (h.cs j); rw [hn] at this
      simp only [upd_other _ _ _ _ hj]
      constructor
      · intro hc; exact absurd (this.mp hc) (by simp)
      · intro hc; simp at hc; exact absurd hc.symm hj
  · intro hc; simp at hc
  · intro k v hk hkind
    simp at hk; subst hk
    simp only [upd_self]
    refine ⟨fun f hf => by omega, ⟨s.mem 0, fun f _ hf => ?_⟩⟩
    exact h.free hn f 0 hf (by omega)
  · intro k hk hkind
    simp at hk; subst hk
    simp only [upd_self] at hkind ⊢
    exact ⟨s.mem 0, h.pvals 0, fun f hf => h.free hn f 0 hf (by omega), by simpa using h.fresh i hkind h0⟩
  · intro j
    by_cases hj : j = i
    · subst hj; simp [upd]
    · simp only [upd_other _ _ _ _ hj]; exact h.fresh j
  · intro j
    by_cases hj : j = i
    · subst hj; simp only [upd_self]; intro _ hpc; simp at hpc
    · simp only [upd_other _ _ _ _ hj]; exact h.doneQ j

/-- releasing the mutex (either kind of thread) -/
theorem inv_unlock (n : Nat) (P : Nat → Prop) (s : St) (i : Nat) (h : Inv n P s)
    (hpc : (s.th i).pc = n + 1) :
    Inv n P { s with th := upd s.th i { s.th i with pc := n + 2 }, holder := none } := by
  have hku := kind_upd s.th i { s.th i with pc := n + 2 } rfl
  have hh : s.holder = some i := (h.cs i).mp (by omega)
  refine ⟨?_, ?_, ?_, h.pvals, ?_, ?_, ?_, ?_, ?_⟩
  · intro j; rw [hku]; exact h.noRaw j
  · intro j v; rw [hku]; exact h.refreshP j v
  · intro j
    by_cases hj : j = i
    · subst hj; simp [upd]
    · have := (h.cs j); rw [hh] at this
      simp only [upd_other _ _ _ _ hj]
      constructor
      · intro hc; have := this.mp hc; simp at this; exact absurd this.symm hj
      · intro hc; simp at hc
  · intro _ f g hf hg
    cases hk : (s.th i).kind with
    | rawQuery => exact absurd hk (h.noRaw i)
    | refresh v =>
      have := (h.heldR i v hh hk).1
      simp only [] at *
      rw [this f (by omega) hf, this g (by omega) hg]
    | query =>
      obtain ⟨x, _, hx, _⟩ := h.heldQ i hh hk
      rw [hx f hf, hx g hg]
  · intro k v hk; simp at hk
  · intro k hk; simp at hk
  · intro j
    by_cases hj : j = i
    · subst hj; simp only [upd_self]; intro _ hpc'; simp at hpc'
    · simp only [upd_other _ _ _ _ hj]; exact h.fresh j
  · intro j
    by_cases hj : j = i
    · subst hj
      simp only [upd_self]
      intro hkind _
      obtain ⟨x, hpx, _, hgot⟩ := h.heldQ j hh hkind
      exact ⟨x, hpx, by rw [hgot, hpc]; simp⟩
    · simp only [upd_other _ _ _ _ hj]; exact h.doneQ j

/-- a refresher assigns the next map -/
theorem inv_write (n : Nat) (P : Nat → Prop) (s : St) (i v : Nat) (h : Inv n P s)
    (hk : (s.th i).kind = .refresh v) (h1 : (s.th i).pc ≠ 0) (hle : (s.th i).pc ≤ n) :
    Inv n P { s with th := upd s.th i { s.th i with pc := (s.th i).pc + 1 },
                     mem := fun f => if f = (s.th i).pc - 1 then v else s.mem f } := by
  have hku := kind_upd s.th i { s.th i with pc := (s.th i).pc + 1 } rfl
  have hh : s.holder = some i := (h.cs i).mp (by omega)
  refine ⟨?_, ?_, ?_, ?_, ?_, ?_, ?_, ?_, ?_⟩
  · intro j; rw [hku]; exact h.noRaw j
  · intro j w; rw [hku]; exact h.refreshP j w
  · intro j
    by_cases hj : j = i
    · subst hj; simp only [upd_self]; constructor
      · intro _; exact hh
      · intro _; omega
    · simp only [upd_other _ _ _ _ hj]; exact h.cs j
  · intro f; simp only []; split
    · exact h.refreshP i v hk
    · exact h.pvals f
  · intro hc; simp only [hh] at hc; exact absurd hc (by simp)
  · intro k w hkh hkind
    simp only [hh] at hkh; simp at hkh; subst hkh
    simp only [upd_self] at hkind ⊢
    rw [hk] at hkind; injection hkind with hvw; subst hvw
    obtain ⟨hlow, x, hhigh⟩ := h.heldR i v hh hk
    refine ⟨fun f hf hfn => ?_, x, fun f hf hfn => ?_⟩
    · by_cases hfe : f = (s.th i).pc - 1
      · simp [hfe]
      · simp only [hfe, if_false]; exact hlow f (by omega) hfn
    · have : f ≠ (s.th i).pc - 1 := by omega
      simp only [this, if_false]; exact hhigh f (by omega) hfn
  · intro k hkh hkind
    simp only [hh] at hkh; simp at hkh; subst hkh
    simp only [upd_self] at hkind
    rw [hk] at hkind; cases hkind
  · intro j
    by_cases hj : j = i
    · subst hj; simp only [upd_self]; intro hq; rw [hk] at hq; cases hq
    · simp only [upd_other _ _ _ _ hj]; exact h.fresh j
  · intro j
    by_cases hj : j = i
    · subst hj; simp only [upd_self]; intro hq; rw [hk] at hq; cases hq
    · simp only [upd_other _ _ _ _ hj]; exact h.doneQ j

/-- a query reads the next map -/
theorem inv_read (n : Nat) (P : Nat → Prop) (s : St) (i : Nat) (h : Inv n P s)
    (hk : (s.th i).kind = .query) (h1 : (s.th i).pc ≠ 0) (hle : (s.th i).pc ≤ n) :
    Inv n P { s with th := upd s.th i { s.th i with pc := (s.th i).pc + 1, got := (s.th i).got ++ [s.mem ((s.th i).pc - 1)] } } := by
  have hku := kind_upd s.th i { s.th i with pc := (s.th i).pc + 1, got := (s.th i).got ++ [s.mem ((s.th i).pc - 1)] } rfl
  have hh : s.holder = some i := (h.cs i).mp (by omega)
  refine ⟨?_, ?_, ?_, h.pvals, ?_, ?_, ?_, ?_, ?_⟩
  · intro j; rw [hku]; exact h.noRaw j
  · intro j w; rw [hku]; exact h.refreshP j w
  · intro j
    by_cases hj : j = i
    · subst hj; simp only [upd_self]; constructor
      · intro _; exact hh
      · intro _; omega
    · simp only [upd_other _ _ _ _ hj]; exact h.cs j
  · intro hc; simp only [hh] at hc; exact absurd hc (by simp)
  · intro k w hkh hkind
    simp only [hh] at hkh; simp at hkh; subst hkh
    simp only [upd_self] at hkind
    rw [hk] at hkind; cases hkind
  · intro k hkh _
    simp only [hh] at hkh; simp at hkh; subst hkh
    simp only [upd_self]
    obtain ⟨x, hpx, hx, hgot⟩ := h.heldQ i hh hk
    refine ⟨x, hpx, hx, ?_⟩
    rw [hgot, hx _ (by omega)]
    have : (s.th i).pc + 1 - 1 = ((s.th i).pc - 1) + 1 := by omega
    rw [this, List.replicate_succ']
  · intro j
    by_cases hj : j = i
    · subst hj; simp only [upd_self]; intro _ hpc; simp at hpc
    · simp only [upd_other _ _ _ _ hj]; exact h.fresh j
  · intro j
    by_cases hj : j = i
    · subst hj; simp only [upd_self]; intro _ hpc; omega
    · simp only [upd_other _ _ _ _ hj]; exact h.doneQ j

theorem inv_step (n : Nat) (P : Nat → Prop) (s s' : St) (i : Nat) (h : Inv n P s) (hs : step n s i = some s') :
    Inv n P s' := by
  unfold step at hs
  simp only at hs
  cases hk : (s.th i).kind with
  | rawQuery => exact absurd hk (h.noRaw i)
  | refresh v =>
    simp only [hk] at hs
    by_cases h0 : (s.th i).pc = 0
    · by_cases hn : s.holder = none
      · simp only [h0, hn, if_true] at hs; cases hs
        have := inv_lock n P s i h h0 hn (h.noRaw i)
        simpa [hk] using this
      · simp [h0, hn] at hs
    · by_cases hle : (s.th i).pc ≤ n
      · simp only [h0, hle, if_false, if_true] at hs; cases hs
        have := inv_write n P s i v h hk h0 hle
        simpa [hk] using this
      · by_cases he : (s.th i).pc = n + 1
        · simp only [h0, hle, he, if_false, if_true] at hs
          have hnn : ¬ (n + 1 ≤ n) := by omega
          simp [hnn] at hs; subst hs
          have := inv_unlock n P s i h he
          simpa [hk] using this
        · simp [h0, hle, he] at hs
  | query =>
    simp only [hk] at hs
    by_cases h0 : (s.th i).pc = 0
    · by_cases hn : s.holder = none
      · simp only [h0, hn, if_true] at hs; cases hs
        have := inv_lock n P s i h h0 hn (h.noRaw i)
        simpa [hk] using this
      · simp [h0, hn] at hs
    · by_cases hle : (s.th i).pc ≤ n
      · simp only [h0, hle, if_false, if_true] at hs; cases hs
        have := inv_read n P s i h hk h0 hle
        simpa [hk] using this
      · by_cases he : (s.th i).pc = n + 1
        · simp only [h0, hle, he, if_false, if_true] at hs
          have hnn : ¬ (n + 1 ≤ n) := by omega
          simp [hnn] at hs; subst hs
          have := inv_unlock n P s i h he
          simpa [hk] using this
        · simp [h0, hle, he] at hs

theorem inv_run (n : Nat) (P : Nat → Prop) (s : St) (schedule : List Nat) (h : Inv n P s) :
    Inv n P (run n s schedule) := by
  induction schedule generalizing s with
  | nil => exact h
  | cons i rest ih =>
    simp only [run, List.foldl_cons]
    cases hs : step n s i with
    | none => exact ih s h
    | some s' => exact ih s' (inv_step n P s s' i h hs)

/-- **C12 — every result reflects one snapshot**: any number of refreshers (explicit refreshes,
refreshing queries, the watcher goroutine — each replacing the `n` index maps one assignment at
a time with the result of its own scan) and any number of queries (each reading the `n` maps one
at a time), all taking the mutex, under every schedule: a finished query has read all `n` maps
from one and the same scan, and that scan is an admissible one (`P`: e.g. "the index of state A
or the index of state B" when the directory content only ever is A or B). -/
theorem C12_one_snapshot (n : Nat) (P : Nat → Prop) (kinds : Nat → Kind) (scan0 : Nat)
    (hlocked : ∀ i, kinds i ≠ .rawQuery) (hscans : ∀ i v, kinds i = .refresh v → P v) (h0 : P scan0)
    (schedule : List Nat) (q : Nat) :
    let s := run n (init kinds scan0) schedule
    (s.th q).kind = .query → (s.th q).pc = n + 2 → ∃ x, P x ∧ (s.th q).got = List.replicate n x := by
  intro s hk hpc
  exact (inv_run n P _ schedule (inv_init n P kinds scan0 hlocked hscans h0)).doneQ q hk hpc

/-- non-vacuity: a refresher of scan 7 and a query, the query scheduled in the middle of nothing:
it finishes having read [7, 7, 7] -/
example :
    let kinds : Nat → Kind := fun i => if i = 0 then .refresh 7 else .query
    let s := run 3 (init kinds 1) [0, 0, 1, 0, 0, 0, 1, 1, 1, 1, 1]
    (s.th 1).kind = .query ∧ (s.th 1).pc = 5 ∧ (s.th 1).got = [7, 7, 7] := by decide

/-- sensitivity: a query that reads the maps without the mutex can see a half-built index
(specs of scan 7, devices and errors of scan 1) -/
example :
    let kinds : Nat → Kind := fun i => if i = 0 then .refresh 7 else .rawQuery
    (( run 3 (init kinds 1) [0, 0, 1, 1, 1]).th 1).got = [7, 1, 1] := by decide

end Cdi.Snap
