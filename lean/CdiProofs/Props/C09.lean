/-
  C09 — Written Spec files read back equal, in both encodings.

  The data-model layer (struct tags, omitempty, pointer vs value fields, nested
  lists, null entries) is proved: decoding the encoded value gives the Spec back,
  for every value of the Go type.  The text codecs are parameters constrained by
  the law `CodecOK`; which strings satisfy it for the real libraries is decided
  by the `codec` stream (known finding: U+007F–U+009F, U+FFFE, U+FFFF in JSON files).
-/
import CdiProofs.Lemmas.Codec
import CdiModel.Generated.Tags
namespace Cdi.Codec
open Cdi Cdi.Encode Cdi.Decode

/-! ### Fact obligations (F3: struct tags of specs-go/config.go) -/

/-- the json and yaml tags of every field coincide (name and omitempty): both encoders write the same members -/
theorem F3_tags_agree :
    Generated.fieldTable.all (fun r => r.2.2.2.1 == r.2.2.2.2.2.1 && r.2.2.2.2.1 == r.2.2.2.2.2.2) = true := by decide

def membersOf (struct : String) : List (String × Bool) :=
  (Generated.fieldTable.filter (fun r => r.1 == struct)).map (fun r => (r.2.2.2.1, r.2.2.2.2.1))

/-- member names and omitempty flags per struct are the ones CdiModel/Encode.lean and Decode.lean use -/
theorem F3_members :
    membersOf "Spec" = [("cdiVersion", false), ("kind", false), ("annotations", true), ("devices", false), ("containerEdits", true)] ∧
    membersOf "Device" = [("name", false), ("annotations", true), ("containerEdits", false)] ∧
    membersOf "ContainerEdits" = [("env", true), ("deviceNodes", true), ("hooks", true), ("mounts", true), ("intelRdt", true), ("additionalGids", true)] ∧
    membersOf "DeviceNode" = [("path", false), ("hostPath", true), ("type", true), ("major", true), ("minor", true), ("fileMode", true), ("permissions", true), ("uid", true), ("gid", true)] ∧
    membersOf "Mount" = [("hostPath", false), ("containerPath", false), ("options", true), ("type", true)] ∧
    membersOf "Hook" = [("hookName", false), ("path", false), ("args", true), ("env", true), ("timeout", true)] ∧
    membersOf "IntelRdt" = [("closID", true), ("l3CacheSchema", true), ("memBwSchema", true), ("enableCMT", true), ("enableMBM", true)] := by
  decide

/-- Go types of the integer and pointer fields (ranges used by `specTyped` and by the decoder) -/
theorem F3_types :
    (Generated.fieldTable.filter (fun r => r.1 == "DeviceNode")).map (fun r => (r.2.1, r.2.2.1)) =
      [("Path", "string"), ("HostPath", "string"), ("Type", "string"), ("Major", "int64"), ("Minor", "int64"),
       ("FileMode", "*os.FileMode"), ("Permissions", "string"), ("UID", "*uint32"), ("GID", "*uint32")] ∧
    (Generated.fieldTable.filter (fun r => r.1 == "Hook" && r.2.1 == "Timeout")).map (fun r => r.2.2.1) = ["*int"] ∧
    (Generated.fieldTable.filter (fun r => r.1 == "ContainerEdits")).map (fun r => r.2.2.1) =
      ["[]string", "[]*DeviceNode", "[]*Hook", "[]*Mount", "*IntelRdt", "[]uint32"] := by decide

macro "rt_struct" hnd:ident : tactic =>
  `(tactic| (rw [members_mkObjF _ _ $hnd (by simp only [List.map_cons, List.map_nil, fReq, fOpt, fOptVal]; decide)]
             simp only [Option.bind_eq_bind, Option.bind_some, field_present _ _ $hnd]
             simp (config := {decide := true}) [fieldValue, fReq, fOpt, fOptVal, rt_str, rt_strs, rt_str_req, rt_bool, rt_bool', *]))

theorem rt_mount (m : Mount) : dMount (encMount m) = some m := by
  have hnd : (([fReq "hostPath" (jstr m.hostPath), fReq "containerPath" (jstr m.containerPath),
      fOpt (m.options = []) "options" (jstrs m.options), fOpt (m.type = []) "type" (jstr m.type)] : List Field).map (·.1)).Nodup := by
    simp only [List.map_cons, List.map_nil, fReq, fOpt]; decide
  unfold dMount encMount
  rt_struct hnd

theorem rt_hook (h : Hook) (ht : hookTyped h = true) : dHook (encHook h) = some h := by
  have hnd : (([fReq "hookName" (jstr h.hookName), fReq "path" (jstr h.path), fOpt (h.args = []) "args" (jstrs h.args),
      fOpt (h.env = []) "env" (jstrs h.env), fOptVal h.timeout "timeout" jint] : List Field).map (·.1)).Nodup := by
    simp only [List.map_cons, List.map_nil, fReq, fOpt, fOptVal]; decide
  have hto : ∀ t, h.timeout = some t → int64Min ≤ t ∧ t ≤ int64Max := by
    intro t e; simpa [hookTyped, e] using ht
  have f1 := rt_optInt64 h.timeout hto
  unfold dHook encHook
  rt_struct hnd

theorem rt_node (d : DeviceNode) (ht : nodeTyped d = true) : dDeviceNode (encNode d) = some d := by
  have hnd : (([fReq "path" (jstr d.path), fOpt (d.hostPath = []) "hostPath" (jstr d.hostPath),
      fOpt (d.type = []) "type" (jstr d.type), fOpt (d.major = 0) "major" (jint d.major),
      fOpt (d.minor = 0) "minor" (jint d.minor), fOptVal d.fileMode "fileMode" jnat,
      fOpt (d.permissions = []) "permissions" (jstr d.permissions), fOptVal d.uid "uid" jnat,
      fOptVal d.gid "gid" jnat] : List Field).map (·.1)).Nodup := by
    simp only [List.map_cons, List.map_nil, fReq, fOpt, fOptVal]; decide
  simp only [nodeTyped, Bool.and_eq_true, decide_eq_true_eq] at ht
  obtain ⟨⟨⟨⟨h1, h2⟩, h3⟩, h4⟩, h5⟩ := ht
  have o3 : ∀ t, d.fileMode = some t → (t : Int) ≤ uint32Max := by intro t e; simpa [e] using h3
  have o4 : ∀ t, d.uid = some t → (t : Int) ≤ uint32Max := by intro t e; simpa [e] using h4
  have o5 : ∀ t, d.gid = some t → (t : Int) ≤ uint32Max := by intro t e; simpa [e] using h5
  have f1 := rt_int64 d.major h1.1 h1.2
  have f2 := rt_int64 d.minor h2.1 h2.2
  have f3 := rt_optNat32 d.fileMode o3
  have f4 := rt_optNat32 d.uid o4
  have f5 := rt_optNat32 d.gid o5
  clear h1 h2 h3 h4 h5 o3 o4 o5
  unfold dDeviceNode encNode
  rt_struct hnd

theorem rt_rdt (r : IntelRdt) : dIntelRdt (encRdt r) = some r := by
  have hnd : (([fOpt (r.closID = []) "closID" (jstr r.closID), fOpt (r.l3CacheSchema = []) "l3CacheSchema" (jstr r.l3CacheSchema),
      fOpt (r.memBwSchema = []) "memBwSchema" (jstr r.memBwSchema), fOpt (!r.enableCMT) "enableCMT" (.bool true),
      fOpt (!r.enableMBM) "enableMBM" (.bool true)] : List Field).map (·.1)).Nodup := by
    simp only [List.map_cons, List.map_nil, fOpt]; decide
  unfold dIntelRdt encRdt
  rt_struct hnd

theorem rt_optRdt (o : Option IntelRdt) : dPtr dIntelRdt ((o.map encRdt).getD .null) = some o := by
  cases o with
  | none => rfl
  | some r =>
    simp only [Option.map_some, Option.getD_some]
    have := rt_rdt r
    cases he : encRdt r with
    | null => exact absurd he (mkObjF_ne_null _)
    | bool b => simp [dPtr, ← he, this]
    | num a b => simp [dPtr, ← he, this]
    | str a => simp [dPtr, ← he, this]
    | arr a => simp [dPtr, ← he, this]
    | obj a => simp [dPtr, ← he, this]

theorem rt_edits (e : Edits) (ht : editsTyped e = true) : dEdits (encEdits e) = some e := by
  have hnd : (([fOpt (e.env = []) "env" (jstrs e.env),
      fOpt (e.deviceNodes = []) "deviceNodes" (JVal.mkArr (e.deviceNodes.map (encOpt encNode))),
      fOpt (e.hooks = []) "hooks" (JVal.mkArr (e.hooks.map (encOpt encHook))),
      fOpt (e.mounts = []) "mounts" (JVal.mkArr (e.mounts.map (encOpt encMount))),
      fOptVal e.intelRdt "intelRdt" encRdt,
      fOpt (e.additionalGids = []) "additionalGids" (JVal.mkArr (e.additionalGids.map jnat))] : List Field).map (·.1)).Nodup := by
    simp only [List.map_cons, List.map_nil, fOpt, fOptVal]; decide
  simp only [editsTyped, Bool.and_eq_true, List.all_eq_true, decide_eq_true_eq] at ht
  obtain ⟨⟨t1, t2⟩, t3⟩ := ht
  have hn := rt_ptr_list encNode dDeviceNode e.deviceNodes (fun _ => mkObjF_ne_null _)
    (fun x hx => rt_node x (by simpa using t1 (some x) hx))
  have hh := rt_ptr_list encHook dHook e.hooks (fun _ => mkObjF_ne_null _)
    (fun x hx => rt_hook x (by simpa using t2 (some x) hx))
  have hm := rt_ptr_list encMount dMount e.mounts (fun _ => mkObjF_ne_null _) (fun x _ => rt_mount x)
  have hg := rt_gids e.additionalGids t3
  have hne : encEdits e ≠ .null := mkObjF_ne_null _
  unfold dEdits
  split
  · next he => exact absurd he hne
  · have hr := rt_optRdt e.intelRdt
    clear t1 t2 t3
    unfold encEdits
    rt_struct hnd

theorem rt_device (d : Device) (hk : keysUnique d.annotations = true) (ht : editsTyped d.edits = true) :
    dDevice (encDevice d) = some d := by
  have hnd : (([fReq "name" (jstr d.name), fOpt (d.annotations = []) "annotations" (encAnnotations d.annotations),
      fReq "containerEdits" (encEdits d.edits)] : List Field).map (·.1)).Nodup := by
    simp only [List.map_cons, List.map_nil, fReq, fOpt]; decide
  have hne : encDevice d ≠ .null := mkObjF_ne_null _
  unfold dDevice
  split
  · next he => exact absurd he hne
  · have f1 := rt_annotations d.annotations hk
    have f2 := rt_edits d.edits ht
    clear hk ht
    unfold encDevice
    rt_struct hnd

/-- **C09 (data-model round trip)**: for every value of the Go type `cdi.Spec` (integers within
their field types, map keys unique) decoding the JSON value the library encodes gives
exactly that Spec back — every field, every list in order, nil entries included. -/
theorem C09_value_roundtrip (s : Spec) (ht : specTyped s = true) :
    decodeSpec (encodeSpec s) = some (some s) := by
  have hnd : (([fReq "cdiVersion" (jstr s.version), fReq "kind" (jstr s.kind),
      fOpt (s.annotations = []) "annotations" (encAnnotations s.annotations),
      fReq "devices" (if s.devices = [] then .null else JVal.mkArr (s.devices.map encDevice)),
      fReq "containerEdits" (encEdits s.edits)] : List Field).map (·.1)).Nodup := by
    simp only [List.map_cons, List.map_nil, fReq, fOpt]; decide
  simp only [specTyped, Bool.and_eq_true, List.all_eq_true] at ht
  obtain ⟨⟨t1, t2⟩, t3⟩ := ht
  have hdevs : dList dDevice (if s.devices = [] then JVal.null else JVal.mkArr (s.devices.map encDevice)) = some s.devices := by
    by_cases hd : s.devices = []
    · simp [hd, dList]
    · simp only [hd, if_false, dList, JVal.mkArr, jlist_toList_ofList]
      apply mapM_map_some
      intro d hdm
      exact rt_device d (t3 d hdm).1 (t3 d hdm).2
  have hne : encodeSpec s ≠ .null := mkObjF_ne_null _
  unfold decodeSpec
  split
  · next he => exact absurd he hne
  · have f1 := rt_annotations s.annotations t1
    have f2 := rt_edits s.edits t2
    clear t1 t2 t3
    unfold encodeSpec
    rt_struct hnd

/-- **C09 — the property theorem, parametric in the text codec**: with a codec that preserves
the documents a Spec encodes to, the file written for a Spec reads back as that Spec. -/
theorem C09_roundtrip (c : TextCodec) (P : JVal → Prop) (hc : CodecOK P c) (s : Spec)
    (ht : specTyped s = true) (hp : P (encodeSpec s)) : readFile c (writeFile c s) = some s := by
  unfold readFile writeFile
  simp only [hc _ hp, C09_value_roundtrip s ht]
  rfl

/-- **C09 (encodings are interchangeable)**: the JSON file and the YAML file of one Spec read
back to equal Specs whenever both codecs preserve its document. -/
theorem C09_encodings_interchangeable (cj cy : TextCodec) (P : JVal → Prop) (hj : CodecOK P cj)
    (hy : CodecOK P cy) (s : Spec) (ht : specTyped s = true) (hp : P (encodeSpec s)) :
    readFile cj (writeFile cj s) = readFile cy (writeFile cy s) := by
  rw [C09_roundtrip cj P hj s ht hp, C09_roundtrip cy P hy s ht hp]

/-- which encoder a name gets: YAML unless the extension is ".json" (from C16's model) -/
theorem C09_encoder_choice (p : Str) :
    Names.writesYaml (Names.withDefaultExt p) = !(Path.ext p == Names.jsonExt) := by
  unfold Names.withDefaultExt Names.writesYaml
  by_cases h : Names.isSpecExt (Path.ext p) = true
  · simp only [h, if_true]
    simp only [Names.isSpecExt, Bool.or_eq_true, beq_iff_eq] at h
    rcases h with h | h <;> (rw [h]; decide)
  · simp only [h, Bool.false_eq_true, if_false]
    have hy : Path.ext (p ++ Names.defaultSpecExt) = Names.yamlExt := by
      unfold Path.ext
      rw [List.reverse_append]
      have : Names.defaultSpecExt.reverse = [108, 109, 97, 121, 46] := by decide
      rw [this]; simp [Path.ext.go, cSlash, cDot]; decide
    simp only [Names.isSpecExt, Bool.or_eq_true, beq_iff_eq, not_or] at h
    have : (Path.ext p == Names.jsonExt) = false := by simpa using h.1
    rw [hy, this]; decide

/-! ### Non-vacuity -/
example : specTyped { version := lit "1.0.0", kind := lit "v.com/c", annotations := [(lit "k", lit "v")], devices := [{ name := lit "d", edits := { deviceNodes := [some { path := lit "/dev/x", major := 9223372036854775807, uid := some 4294967295 }, none], hooks := [some { hookName := lit "prestart", path := lit "/p", timeout := some (-5) }] } }] } = true := by
  decide

end Cdi.Codec
