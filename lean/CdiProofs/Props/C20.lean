/-
  C20 — Reconfiguring a cache equals creating a new one, with bounded resources.

  Model: CdiModel/Configure.lean.  The descriptor / goroutine / watch accounting of
  the real process is compared with the model's counters by the `reconf` stream.
-/
import CdiModel.Configure
namespace Cdi.Configure
open Cdi

theorem applyOpts_append (f : Fields) (a b : List Opt) : applyOpts (applyOpts f a) b = applyOpts f (a ++ b) := by
  simp [applyOpts, List.foldl_append]

/-- `configure` looks at the old state only through its two option fields -/
theorem configure_fields (env : Env) (s : CState) (os : List Opt) :
    (configure env s os).fields = applyOpts s.fields os := by
  unfold configure; simp only; split <;> (try split) <;> rfl

theorem configure_congr (env : Env) (s t : CState) (os : List Opt) (h : s.fields = t.fields) :
    configure env s os = configure env t os := by
  unfold configure; rw [h]

theorem fold_fields : ∀ (hist : List (Env × List Opt)) (s : CState), (∀ h ∈ hist, h.2 ≠ []) →
    (hist.foldl (fun s h => Configure h.1 s h.2) s).fields = applyOpts s.fields (hist.flatMap (·.2)) := by
  intro hist
  induction hist with
  | nil => intro s _; simp [applyOpts]
  | cons h rest ih =>
    intro s hne
    simp only [List.foldl_cons, List.flatMap_cons]
    rw [ih _ (fun x hx => hne x (by simp [hx]))]
    have hh : h.2 ≠ [] := hne h (by simp)
    simp only [Configure, hh, if_false, configure_fields, applyOpts_append]

/-- **C20 — the property theorem**: after any sequence of (non-empty) reconfigurations, whatever
the environment was at the earlier steps, the cache is exactly the cache created anew with
all the options in sequence under the environment of the last step: same directories, same
auto-refresh setting, watcher live iff it would be, the same tracked directories, the same
resources. -/
theorem C20_configure_eq_new (o0 : List Opt) (env0 : Env) (init : List (Env × List Opt)) (last : Env × List Opt)
    (hne : ∀ h ∈ init ++ [last], h.2 ≠ []) :
    (init ++ [last]).foldl (fun s h => Configure h.1 s h.2) (newCache env0 o0) =
      newCache last.1 (o0 ++ (init ++ [last]).flatMap (·.2)) := by
  rw [List.foldl_append]
  simp only [List.foldl_cons, List.foldl_nil]
  have hl : last.2 ≠ [] := hne last (by simp)
  have hfields := fold_fields init (newCache env0 o0) (fun h hh => hne h (by simp [hh]))
  have hf0 : (newCache env0 o0).fields = applyOpts defaults o0 := by simp [newCache, configure_fields, blank]
  rw [hf0, applyOpts_append] at hfields
  generalize init.foldl (fun s h => Configure h.1 s h.2) (newCache env0 o0) = S at hfields ⊢
  have hflat : (init ++ [last]).flatMap (·.2) = init.flatMap (·.2) ++ last.2 := by simp
  unfold Configure
  rw [if_neg hl, hflat]
  unfold newCache configure
  simp only [hfields, applyOpts_append, blank, List.append_assoc]
  rfl

/-- **C20 (resources are bounded)**: in every state reachable by any history of configurations
the cache holds at most one watcher, one watch goroutine and one kernel watch per distinct
configured directory — independently of the length of the history. -/
theorem C20_resources_bounded (env : Env) (s : CState) (os : List Opt) :
    let s' := configure env s os
    s'.res.watchers ≤ 1 ∧ s'.res.goroutines ≤ 1 ∧ s'.res.watches ≤ s'.fields.dirs.length ∧
    (s'.fields.auto = false → s'.res = ⟨0, 0, 0⟩) := by
  unfold configure
  simp only
  split
  · split
    · refine ⟨by simp, by simp, ?_, by intro h; simp_all⟩
      simp only
      have h1 : ∀ l : List Str, (dedupStr l).length ≤ l.length := by
        intro l
        induction l with
        | nil => simp [dedupStr]
        | cons a r ih => simp only [dedupStr]; split <;> simp <;> omega
      exact Nat.le_trans (List.length_filter_le _ _) (h1 _)
    · simp
  · simp

/-- **C20 (descriptor shortage)**: a cache set up with auto-refresh while no descriptor could be
had has no watcher, holds nothing, and rescans on every query — so it answers from the
current directory contents — until a later configuration can create the watcher. -/
theorem C20_nil_watcher_fresh (env : Env) (s : CState) (os : List Opt)
    (ha : (applyOpts s.fields os).auto = true) (hd : env.descriptorsAvailable = false) :
    queryAlwaysRefreshes (configure env s os) = true ∧ (configure env s os).res = ⟨0, 0, 0⟩ := by
  unfold configure queryAlwaysRefreshes
  simp [ha, hd]

/-- **C20 (default cache)**: creating the default cache with options equals creating a cache and
configuring it with them; configuring it later is an ordinary reconfiguration. -/
theorem C20_default_cache (env : Env) (os : List Opt) (hne : os ≠ []) :
    defaultConfigure env none os = newCache env os ∧
    defaultConfigure env (some (newCache env [])) os = newCache env os := by
  refine ⟨rfl, ?_⟩
  simp only [defaultConfigure, Configure, hne, if_false, newCache]
  rw [configure_congr env (configure env blank []) ⟨applyOpts defaults [], false, [], ⟨0, 0, 0⟩⟩ os
    (by simp [configure_fields, blank])]
  simp only [configure, applyOpts, blank, List.foldl_nil]
  rfl

/-! ### Non-vacuity -/
def envEx : Env := ⟨fun d => d == lit "/run/cdi", true⟩
example : (newCache envEx [.specDirs [lit "/etc/cdi", lit "/run/cdi/", lit "/run/cdi"]]).res = ⟨1, 1, 1⟩ := by decide

end Cdi.Configure
