/-
  C20 — Reconfiguring a cache equals creating a new one, with bounded resources.

  Model: CdiModel/Configure.lean.  The descriptor / goroutine / watch accounting of
  the real process is compared with the model's counters by the `reconf` stream.
-/
import CdiModel.Configure
namespace Cdi.Configure
open Cdi

theorem applyOpts_append (f : Fields) (a b : List Opt) : applyOpts (applyOpts f a) b = applyOpts f (a ++ b) := by
  simp [applyOpts, List.foldl_append]

/-- `configure` looks at the old state only through its two option fields … -/
theorem configure_fields (env : Env) (s : CState) (os : List Opt) :
    (configure env s os).fields = applyOpts s.fields os := by
  unfold configure configureWith; simp only; split <;> rfl

/-- … and through the descriptors the old watcher gives back -/
theorem configure_congr (env : Env) (s t : CState) (os : List Opt) (h : s.fields = t.fields)
    (hh : held s = held t) : configure env s os = configure env t os := by
  unfold configure configureWith; rw [h, hh]

/-- the state a released cache is equivalent to: same options, nothing held -/
def released (s : CState) : CState := ⟨s.fields, false, [], ⟨0, 0, 0⟩, false, false⟩

theorem configure_released (env : Env) (s : CState) (os : List Opt) :
    configure env s os = configure ⟨env.dirExists, env.free + held s⟩ (released s) os := by
  unfold configure configureWith released held
  simp

theorem fold_fields : ∀ (hist : List (Env × List Opt)) (s : CState), (∀ h ∈ hist, h.2 ≠ []) →
    (hist.foldl (fun s h => Configure h.1 s h.2) s).fields = applyOpts s.fields (hist.flatMap (·.2)) := by
  intro hist
  induction hist with
  | nil => intro s _; simp [applyOpts]
  | cons h rest ih =>
    intro s hne
    simp only [List.foldl_cons, List.flatMap_cons]
    rw [ih _ (fun x hx => hne x (by simp [hx]))]
    have hh : h.2 ≠ [] := hne h (by simp)
    simp only [Configure, hh, if_false, configure_fields, applyOpts_append]

/-- **C20 — the property theorem**: after any sequence of (non-empty) reconfigurations, whatever
the environment was at the earlier steps, the cache is exactly the cache created anew with
all the options in sequence under the environment of the last step, once the descriptors of the
watcher it held before that step are counted as free (they are released before anything is
acquired): same directories, same auto-refresh setting, watcher live iff it would be, the same
tracked directories, the same resources, the same staleness. -/
theorem C20_configure_eq_new (o0 : List Opt) (env0 : Env) (init : List (Env × List Opt)) (last : Env × List Opt)
    (hne : ∀ h ∈ init ++ [last], h.2 ≠ []) :
    let before := init.foldl (fun s h => Configure h.1 s h.2) (newCache env0 o0)
    (init ++ [last]).foldl (fun s h => Configure h.1 s h.2) (newCache env0 o0) =
      newCache ⟨last.1.dirExists, last.1.free + held before⟩ (o0 ++ (init ++ [last]).flatMap (·.2)) := by
  intro before
  rw [List.foldl_append]
  simp only [List.foldl_cons, List.foldl_nil]
  have hl : last.2 ≠ [] := hne last (by simp)
  have hfields := fold_fields init (newCache env0 o0) (fun h hh => hne h (by simp [hh]))
  have hf0 : (newCache env0 o0).fields = applyOpts defaults o0 := by simp [newCache, configure_fields, blank]
  rw [hf0, applyOpts_append] at hfields
  show Configure last.1 before last.2 = _
  have hb : (before).fields = applyOpts defaults (o0 ++ init.flatMap (·.2)) := hfields
  generalize before = S at hb ⊢
  have hflat : (init ++ [last]).flatMap (·.2) = init.flatMap (·.2) ++ last.2 := by simp
  unfold Configure
  rw [if_neg hl, hflat, configure_released]
  unfold newCache configure configureWith released
  simp only [hb, applyOpts_append, blank, List.append_assoc, held]
  simp

/-- with descriptors to spare the result does not depend on how many: the reconfigured cache is
the cache created anew in the very same environment -/
theorem configure_plenty (env : Env) (s : CState) (os : List Opt) (h : watcherCost + 1 ≤ env.free) (n : Nat) :
    configure env s os = configure ⟨env.dirExists, env.free + n⟩ s os := by
  unfold configure configureWith
  have h1 : watcherCost ≤ env.free + held s := by omega
  have h2 : watcherCost ≤ env.free + n + held s := by omega
  have h3 : 1 ≤ env.free + held s - watcherCost := by omega
  have h4 : 1 ≤ env.free + n + held s - watcherCost := by omega
  have h5 : 1 ≤ env.free + held s := by omega
  have h6 : 1 ≤ env.free + n + held s := by omega
  simp [h1, h2, h3, h4, h5, h6]

theorem C20_configure_eq_new_plenty (o0 : List Opt) (env0 : Env) (init : List (Env × List Opt)) (last : Env × List Opt)
    (hne : ∀ h ∈ init ++ [last], h.2 ≠ []) (hfree : watcherCost + 1 ≤ last.1.free) :
    (init ++ [last]).foldl (fun s h => Configure h.1 s h.2) (newCache env0 o0) =
      newCache last.1 (o0 ++ (init ++ [last]).flatMap (·.2)) := by
  rw [C20_configure_eq_new o0 env0 init last hne]
  unfold newCache
  exact (configure_plenty last.1 blank _ hfree _).symm

/-- **C20 (resources are bounded)**: in every state reachable by any history of configurations
the cache holds at most one watcher, one watch goroutine and one kernel watch per distinct
configured directory — independently of the length of the history. -/
theorem C20_resources_bounded (env : Env) (s : CState) (os : List Opt) :
    let s' := configure env s os
    s'.res.watchers ≤ 1 ∧ s'.res.goroutines ≤ 1 ∧ s'.res.watches ≤ s'.fields.dirs.length ∧
    (s'.fields.auto = false → s'.res = ⟨0, 0, 0⟩) ∧ held s' = watcherCost * s'.res.watchers := by
  unfold configure configureWith
  simp only
  split
  · rename_i hc
    refine ⟨by simp, by simp, ?_, by intro h; simp_all, by simp [held]⟩
    simp only
    have h1 : ∀ l : List Str, (dedupStr l).length ≤ l.length := by
      intro l
      induction l with
      | nil => simp [dedupStr]
      | cons a r ih => simp only [dedupStr]; split <;> simp <;> omega
    exact Nat.le_trans (List.length_filter_le _ _) (h1 _)
  · simp [held]

/-- **C20 (no descriptors for a watcher)**: a cache set up with auto-refresh while the watcher's
descriptors could not be had has no watcher, holds nothing, and rescans on every query -/
theorem C20_nil_watcher_fresh (env : Env) (s : CState) (os : List Opt)
    (ha : (applyOpts s.fields os).auto = true) (hd : env.free + held s < watcherCost) :
    queryRefreshes (configure env s os) = true ∧ (configure env s os).res = ⟨0, 0, 0⟩ := by
  unfold configure configureWith queryRefreshes
  have : ¬ (watcherCost ≤ env.free + held s) := by omega
  simp [ha, this]

/-! ### Descriptor shortage at any step: every later query answers from the current contents -/

inductive Step where
  | cfg (env : Env) (os : List Opt)
  | qry (env : Env)
  | rfr (env : Env)

def stepWith (retry : Bool) (s : CState) : Step → CState
  | .cfg env os => if os = [] then s else configureWith retry env s os
  | .qry env => query env s
  | .rfr env => refresh env s

/-- in auto-refresh mode a stale cache is one whose next query refreshes -/
def Good (s : CState) : Prop := s.fields.auto = true → s.stale = true → queryRefreshes s = true

theorem good_step (s : CState) (st : Step) (h : Good s) : Good (stepWith true s st) := by
  cases st with
  | cfg env os =>
    simp only [stepWith]
    split
    · exact h
    · unfold Good configureWith queryRefreshes
      simp only
      split <;> (intro ha hs; simp_all)
  | qry env =>
    simp only [stepWith, query]
    split
    · rename_i hq
      unfold Good queryRefreshes at *
      intro ha hs
      simp only [Bool.and_eq_true, Bool.or_eq_true, Bool.not_eq_true'] at *
      simp_all
    · exact h
  | rfr env =>
    simp only [stepWith, refresh]
    unfold Good queryRefreshes
    intro ha hs
    simp_all

theorem good_run (s : CState) (l : List Step) (h : Good s) : Good (l.foldl (stepWith true) s) := by
  induction l generalizing s with
  | nil => exact h
  | cons st rest ih => exact ih _ (good_step s st h)

theorem good_new (env : Env) (os : List Opt) : Good (newCache env os) := by
  have := good_step blank (.cfg env (.autoRefresh true :: os)) (by intro _ hs; simp [blank] at hs)
  unfold Good newCache configure configureWith queryRefreshes
  simp only
  split <;> (intro ha hs; simp_all)

/-- **C20 (descriptor shortage)**: take any cache, created under any environment, and any history
of reconfigurations, queries and refreshes, each under its own environment — descriptor
exhaustion at any of them.  If auto-refresh is on at the end, then a query made when one
descriptor is free answers from the current directory contents. -/
theorem C20_shortage_answers_fresh (env0 : Env) (o0 : List Opt) (history : List Step) (env : Env) :
    let s := history.foldl (stepWith true) (newCache env0 o0)
    s.fields.auto = true → 1 ≤ env.free → (query env s).stale = false := by
  intro s ha hf
  have hg : Good s := good_run _ history (good_new env0 o0)
  unfold query
  split
  · simp [hf]
  · rename_i hq
    cases hs : s.stale with
    | false => rfl
    | true => exact absurd (hg ha hs) hq

/-- in manual mode an explicit refresh does the same -/
theorem C20_refresh_answers_fresh (env : Env) (s : CState) (hf : 1 ≤ env.free) : (refresh env s).stale = false := by
  simp [refresh, hf]

/-- **C20 (default cache)**: creating the default cache with options equals creating a cache and
configuring it with them; configuring it later is an ordinary reconfiguration. -/
theorem C20_default_cache (env : Env) (os : List Opt) (hne : os ≠ []) (hfree : watcherCost + 1 ≤ env.free) :
    defaultConfigure env none os = newCache env os ∧
    defaultConfigure env (some (newCache env [])) os = newCache env os := by
  refine ⟨rfl, ?_⟩
  simp only [defaultConfigure, Configure, hne, if_false]
  rw [configure_released, ← configure_plenty env _ os hfree]
  unfold newCache
  apply configure_congr
  · simp [released, configure_fields, applyOpts, blank]
  · simp [released, held, blank]

/-! ### Non-vacuity and sensitivity -/
def envEx : Env := ⟨fun d => d == lit "/run/cdi", 100⟩
example : (newCache envEx [.specDirs [lit "/etc/cdi", lit "/run/cdi/", lit "/run/cdi"]]).res = ⟨1, 1, 1⟩ := by decide

/-- the defect of the pinned tree: a live watcher is replaced while no descriptor is free — the new
watcher takes the slots the old one released, the directories cannot be listed, nothing asks for
another scan, and the query made after the shortage still answers from the failed scan -/
example :
    let s0 := newCache envEx []
    let s1 := configureWith false ⟨envEx.dirExists, 0⟩ s0 [.autoRefresh true]
    s1.watcherLive = true ∧ (query envEx s1).stale = true := by decide

/-- the repaired configure on the same history -/
example :
    let s0 := newCache envEx []
    let s1 := configure ⟨envEx.dirExists, 0⟩ s0 [.autoRefresh true]
    s1.watcherLive = true ∧ (query envEx s1).stale = false := by decide

end Cdi.Configure
