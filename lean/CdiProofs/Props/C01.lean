/-
  C01 — Device resolution follows Spec-directory precedence.

  Model: CdiModel/Cache.lean (`scan`, `refresh`: the literal fold of the
  refresh callback).  Spec: CdiModel/CacheSpec.lean (`winner`, `resolution`).
-/
import CdiProofs.Lemmas.Cache
namespace Cdi.Cache
open Cdi

/-! ### the scan delivers files in non-decreasing priority, spec-named files only -/

def ItemsAsc (items : List ScanItem) : Prop := items.Pairwise (fun a b => a.prio ≤ b.prio)

theorem scanDir_prio {skip : Bool} {prio : Nat} {dir : Str} {st : DirState} {items : List ScanItem}
    (h : scanDir skip prio dir st = some items) :
    ∀ it ∈ items, it.prio = prio ∧ (it.spec.isSome = true → isSpecName it.path = true) := by
  cases st with
  | missing => simp [scanDir] at h; subst h; simp
  | unscannable => simp [scanDir] at h; obtain ⟨_, rfl⟩ := h; simp
  | unreadable => simp [scanDir] at h; subst h; simp
  | notDir content =>
    simp only [scanDir, Option.some.injEq] at h
    subst h
    intro it hit
    split at hit
    · next hs => simp at hit; subst hit; exact ⟨rfl, fun _ => hs⟩
    · cases hit
  | dir entries =>
    simp only [scanDir] at h
    revert items
    induction entries with
    | nil => intro items h; simp [scanDir.go] at h; subst h; simp
    | cons e rest ih =>
      intro items h
      unfold scanDir.go at h
      split at h
      · exact ih h
      · exact ih h
      · split at h
        · cases hr : scanDir.go skip prio dir rest with
          | none => rw [hr] at h; simp at h
          | some l =>
            rw [hr] at h; simp only [Option.map_some, Option.some.injEq] at h
            subst h
            intro it hit
            split at hit
            · next hs =>
              rcases List.mem_cons.mp hit with rfl | hit
              · exact ⟨rfl, fun _ => hs⟩
              · exact ih hr it hit
            · exact ih hr it hit
        · cases h
      · cases hr : scanDir.go skip prio dir rest with
        | none => rw [hr] at h; simp at h
        | some l =>
          rw [hr] at h; simp only [Option.map_some, Option.some.injEq] at h
          subst h
          intro it hit
          split at hit
          · next hs =>
            rcases List.mem_cons.mp hit with rfl | hit
            · exact ⟨rfl, fun _ => hs⟩
            · exact ih hr it hit
          · exact ih hr it hit

theorem scanFrom_asc (skip : Bool) : ∀ (dirs : List (Str × DirState)) (p : Nat),
    ItemsAsc (scanFrom skip p dirs) ∧
    ∀ it ∈ scanFrom skip p dirs, p ≤ it.prio ∧ (it.spec.isSome = true → isSpecName it.path = true) := by
  intro dirs
  induction dirs with
  | nil => intro p; simp [scanFrom, ItemsAsc]
  | cons d rest ih =>
    intro p
    obtain ⟨dir, st⟩ := d
    unfold scanFrom
    cases h : scanDir skip p dir st with
    | none => simp [ItemsAsc]
    | some items =>
      simp only
      have hp := scanDir_prio h
      obtain ⟨ih1, ih2⟩ := ih (p + 1)
      constructor
      · unfold ItemsAsc
        rw [List.pairwise_append]
        refine ⟨?_, ih1, ?_⟩
        · apply List.pairwise_of_forall_mem_list
          intro a ha b hb
          rw [(hp a ha).1, (hp b hb).1]; exact Nat.le_refl _
        · intro a ha b hb
          rw [(hp a ha).1]; have := (ih2 b hb).1; omega
      · intro it hit
        rcases List.mem_append.mp hit with h1 | h1
        · exact ⟨by rw [(hp it h1).1]; exact Nat.le_refl _, (hp it h1).2⟩
        · exact ⟨by have := (ih2 it h1).1; omega, (ih2 it h1).2⟩

/-- **C01 (scan order)**: files reach the refresh callback in non-decreasing priority. -/
theorem scan_prio_ascending (dirs : List (Str × DirState)) : ItemsAsc (scan dirs) :=
  (scanFrom_asc true dirs 0).1

/-- **C01 (only Spec-named files count)**: every loaded item is a `.json`/`.yaml` path;
subdirectories and other names contribute nothing (an item that is not Spec-named is the
error report of a directory that could not be listed). -/
theorem scan_only_spec_names (dirs : List (Str × DirState)) :
    ∀ it ∈ scan dirs, it.spec.isSome = true → isSpecName it.path = true :=
  fun it hit => ((scanFrom_asc true dirs 0).2 it hit).2

theorem refsOf_prio (path : Str) (prio : Nat) (s : Spec) : ∀ r ∈ refsOf path prio s, r.prio = prio := by
  intro r hr
  simp only [refsOf, List.mem_map] at hr
  obtain ⟨d, _, rfl⟩ := hr
  rfl

theorem allRefs_asc : ∀ (items : List ScanItem), ItemsAsc items → Asc (allRefs items) := by
  intro items
  induction items with
  | nil => intro _; simp [allRefs, Asc]
  | cons it rest ih =>
    intro h
    have h' := List.pairwise_cons.mp h
    unfold Asc allRefs
    simp only [List.flatMap_cons]
    rw [List.pairwise_append]
    refine ⟨?_, ih h'.2, ?_⟩
    · cases hs : it.spec with
      | none => simp
      | some s =>
        apply List.pairwise_of_forall_mem_list
        intro a ha b hb
        rw [refsOf_prio _ _ _ a ha, refsOf_prio _ _ _ b hb]; exact Nat.le_refl _
    · intro a ha b hb
      cases hs : it.spec with
      | none => rw [hs] at ha; cases ha
      | some s =>
        rw [hs] at ha
        rw [refsOf_prio _ _ _ a ha]
        simp only [List.mem_flatMap] at hb
        obtain ⟨it', hit', hb'⟩ := hb
        cases hs' : it'.spec with
        | none => rw [hs'] at hb'; cases hb'
        | some s' =>
          rw [hs'] at hb'
          rw [refsOf_prio _ _ _ b hb']
          exact h'.1 it' hit'

/-- **C01 — the property theorem**: after a refresh a qualified name resolves iff,
among the files defining it, the highest-priority directory defines it in
exactly one file; it then resolves to that file's definition.  (For every item
sequence in non-decreasing priority, hence for every directory population.) -/
theorem C01_resolve_iff_items (items : List ScanItem) (hasc : ItemsAsc items) (q : Str) :
    (refresh items).device q = resolution q items := by
  unfold RState.device refresh refreshWith resolution definers
  have hproj := refresh_proj true q items {}
  have hw := qFold_winner ((allRefs items).filter (fun r => r.qname == q))
    (List.Pairwise.filter _ (allRefs_asc items hasc))
  simp only at hw
  rw [← hw]
  have h1 := congrArg Prod.fst hproj
  have h2 := congrArg Prod.snd hproj
  simp only at h1 h2
  rw [h1, h2]

theorem C01_resolve_iff (dirs : List (Str × DirState)) (q : Str) :
    (refresh (scan dirs)).device q = resolution q (scan dirs) :=
  C01_resolve_iff_items _ (scan_prio_ascending dirs) q

/-! ### lower priorities never matter -/

theorem maxPrio_append (a b : List Ref) : maxPrio (a ++ b) = max (maxPrio a) (maxPrio b) := by
  induction b using List.rec generalizing a with
  | nil => simp [maxPrio]
  | cons r rest ih =>
    have : a ++ r :: rest = (a ++ [r]) ++ rest := by simp
    rw [this, ih, maxPrio_snoc]
    have h2 : maxPrio (r :: rest) = max r.prio (maxPrio rest) := by
      have : r :: rest = [r] ++ rest := rfl
      rw [this, ih]; simp [maxPrio]
    rw [h2]; omega

/-- **C01 (lower-priority definitions and conflicts are irrelevant)**: whatever is
defined — once, several times, or not at all — in directories of lower
priority than some definer of the name does not change the outcome. -/
theorem C01_lower_irrelevant (lower l : List Ref) (hne : l ≠ [])
    (hlow : ∀ x ∈ lower, ∀ y ∈ l, x.prio < y.prio) : winner (lower ++ l) = winner l := by
  have htop : top (lower ++ l) = top l := by
    unfold top
    rw [maxPrio_append, List.filter_append]
    obtain ⟨y, hy⟩ := List.exists_mem_of_ne_nil _ hne
    have hle : maxPrio lower ≤ maxPrio l := by
      by_cases hl : lower = []
      · subst hl; simp [maxPrio]
      · obtain ⟨x, hx⟩ := List.exists_mem_of_ne_nil _ (top_ne_nil hl)
        have hx' : x ∈ lower ∧ x.prio = maxPrio lower := by
          unfold top at hx; simpa [List.mem_filter] using hx
        have := hlow x hx'.1 y hy
        have := le_maxPrio hy
        omega
    have hm : max (maxPrio lower) (maxPrio l) = maxPrio l := by omega
    rw [hm]
    have : lower.filter (fun r => r.prio == maxPrio l) = [] := by
      apply List.filter_eq_nil_iff.mpr
      intro x hx
      have := hlow x hx y hy
      have := le_maxPrio hy
      simp; omega
    simp [this]
  simp [winner, htop]

/-! ### a definition above all others wins -/

/-- a definition whose priority is above that of every other definition of the name is the winner, whatever the
others are (how many, in conflict or not) -/
theorem C01_strict_top_wins (pre post : List Ref) (r : Ref)
    (h : ∀ x ∈ pre ++ post, x.prio < r.prio) : winner (pre ++ r :: post) = some r := by
  have hmax : maxPrio (pre ++ r :: post) = r.prio := by
    apply Nat.le_antisymm
    · -- every element is ≤ r.prio
      have hall : ∀ x ∈ pre ++ r :: post, x.prio ≤ r.prio := by
        intro x hx
        rcases List.mem_append.mp hx with hx | hx
        · exact Nat.le_of_lt (h x (List.mem_append.mpr (Or.inl hx)))
        · rcases List.mem_cons.mp hx with hx | hx
          · subst hx; exact Nat.le_refl _
          · exact Nat.le_of_lt (h x (List.mem_append.mpr (Or.inr hx)))
      have hne : pre ++ r :: post ≠ [] := by simp
      obtain ⟨x, hx⟩ := List.exists_mem_of_ne_nil _ (top_ne_nil hne)
      have hx' : x ∈ pre ++ r :: post ∧ x.prio = maxPrio (pre ++ r :: post) := by
        unfold top at hx
        rw [List.mem_filter] at hx
        exact ⟨hx.1, by simpa using hx.2⟩
      rw [← hx'.2]; exact hall x hx'.1
    · exact le_maxPrio (by simp)
  have htop : top (pre ++ r :: post) = [r] := by
    unfold top
    rw [hmax, List.filter_append, List.filter_cons]
    have hpre : pre.filter (fun x => x.prio == r.prio) = [] := by
      apply List.filter_eq_nil_iff.mpr
      intro x hx
      have := h x (List.mem_append.mpr (Or.inl hx))
      simp; omega
    have hpost : post.filter (fun x => x.prio == r.prio) = [] := by
      apply List.filter_eq_nil_iff.mpr
      intro x hx
      have := h x (List.mem_append.mpr (Or.inr hx))
      simp; omega
    simp [hpre, hpost]
  simp [winner, htop]

/-! ### the order of files inside a directory is irrelevant -/

theorem maxPrio_perm {a b : List Ref} (h : a.Perm b) : maxPrio a = maxPrio b := by
  unfold maxPrio
  apply List.Perm.foldl_eq' h
  intro x _ y _ z
  show max (max z x.prio) y.prio = max (max z y.prio) x.prio
  omega

/-- **C01 (walk order is irrelevant)**: permuting the definitions (e.g. the files of
one directory) does not change which definition wins. -/
theorem C01_perm_invariant {a b : List Ref} (h : a.Perm b) : winner a = winner b := by
  have ht : (top a).Perm (top b) := by
    unfold top; rw [maxPrio_perm h]; exact h.filter _
  unfold winner
  cases ha : top a with
  | nil => rw [ha] at ht; rw [ht.nil_eq]
  | cons x xs =>
    cases xs with
    | nil =>
      rw [ha] at ht
      have := ht.symm.eq_singleton
      rw [this]
    | cons y ys =>
      rw [ha] at ht
      have hl := ht.length_eq
      cases hb : top b with
      | nil => rw [hb] at hl; first | done | simp at hl
      | cons u us =>
        cases us with
        | nil => rw [hb] at hl; first | done | simp at hl
        | cons v vs => rfl

/-! ### listings -/

theorem addDevice_specs (clear : Bool) (st : RState) (r : Ref) : (addDevice clear st r).specs = st.specs := by
  unfold addDevice
  simp only
  split
  · rfl
  · split
    · rfl
    · split <;> rfl

theorem foldl_addDevice_specs (clear : Bool) : ∀ (refs : List Ref) (st : RState),
    (refs.foldl (addDevice clear) st).specs = st.specs := by
  intro refs
  induction refs with
  | nil => intro st; rfl
  | cons r rest ih => intro st; simp only [List.foldl_cons]; rw [ih, addDevice_specs]

/-- the Spec index holds exactly the successfully loaded files, in scan order -/
theorem refresh_specs : ∀ (items : List ScanItem) (st : RState),
    ((items.foldl (step true) st).specs.map (fun i => (i.path, i.prio, i.spec))) =
      st.specs.map (fun i => (i.path, i.prio, i.spec)) ++ loadedSpecs items := by
  intro items
  induction items with
  | nil => intro st; simp [loadedSpecs]
  | cons it rest ih =>
    intro st
    simp only [List.foldl_cons]
    rw [ih]
    unfold step
    cases hs : it.spec with
    | none => simp [loadedSpecs, hs]
    | some s =>
      simp only [foldl_addDevice_specs]
      simp [loadedSpecs, hs]

/-- **C01 (listings)**: the vendor / class / Spec listings are exactly those
derivable from the valid Spec files delivered by the scan. -/
theorem C01_listings (items : List ScanItem) :
    (refresh items).specs.map (fun i => (i.path, i.prio, i.spec)) = loadedSpecs items := by
  have := refresh_specs items {}
  simpa [refresh, refreshWith] using this

/-! ### Sensitivity: the pinned loop violates the rule -/

def mkSpec (dev : String) : Spec :=
  { version := lit "0.3.0", kind := lit "v.com/cls", devices := [{ name := lit dev, edits := { env := [lit "A=b"] } }] }

/-- two files in the low directory and one in the high directory define the same device -/
def shadowedConflict : List ScanItem :=
  [⟨lit "/lo/a.json", 0, some (mkSpec "d")⟩, ⟨lit "/lo/b.json", 0, some (mkSpec "d")⟩,
   ⟨lit "/hi/c.json", 1, some (mkSpec "d")⟩]

example : ((refreshPinned shadowedConflict).device (lit "v.com/cls=d")).isNone = true := by decide
example : ((refresh shadowedConflict).device (lit "v.com/cls=d")).map (·.path) = some (lit "/hi/c.json") := by
  decide
example : (resolution (lit "v.com/cls=d") shadowedConflict).map (·.path) = some (lit "/hi/c.json") := by decide

end Cdi.Cache
