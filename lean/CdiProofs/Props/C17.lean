/-
  C17 — The builtin schema validator decides exactly what the shipped schema files say.

  The engine part is translation validation (stream `schema`); the theorems here
  are about the glue in schema.go as modelled in CdiModel/SchemaGlue.lean.
-/
import CdiModel.SchemaGlue
import CdiProofs.Lemmas.SchemaGeneral
namespace Cdi.SchemaGlue
open Cdi Cdi.Schema

/-- F8: the only keyword draft-07 ignores in the shipped files is the misspelt "ref" -/
theorem F8_ignored_keywords : Generated.schemaIgnoredKeywords = ["ref"] := by decide

/-- F12 (regenerated from schema/schema.go): an entry point of the model runs the annotation content check only if
the exported method behind it reaches, in the code, a function that calls the validation package; every entry
point's method reaches the engine; and the methods that reach the content check are exactly the two the model names -/
theorem F12_content_check_where_the_code_has_it :
    (∀ e : Entry, runsContents true e = true → Generated.schemaContentCheckers.contains (entryMethod e) = true) ∧
    (∀ e : Entry, Generated.schemaEngineCallers.contains (entryMethod e) = true) ∧
    (∀ m ∈ Generated.schemaContentCheckers, m = "ValidateData" ∨ m = "ValidateFile") := by
  refine ⟨?_, ?_, ?_⟩
  · intro e; cases e <;> decide
  · intro e; cases e <;> decide
  · decide

/-- **C17 (none / nil never reject)** -/
theorem C17_none_accepts (e : Entry) (doc : JVal) (c : SchemaChoice) (hc : c = .none ∨ c = .nil) :
    verdict c e doc = true := by
  rcases hc with rfl | rfl <;> simp [verdict, verdictWith, engine]

/-- **C17 (entry points agree)**: on every document whose annotations are well-formed, bytes,
files, readers and in-memory objects all return the engine's verdict. -/
theorem C17_entry_points_agree (c : SchemaChoice) (e1 e2 : Entry) (doc : JVal) (h : contentsOK doc = true) :
    verdict c e1 doc = verdict c e2 doc := by
  simp [verdict, verdictWith, h]

/-- **C17 (encoding independence)**: JSON bytes and YAML bytes of one document get the same verdict. -/
theorem C17_encoding_independent (c : SchemaChoice) (doc : JVal) :
    verdict c .dataJson doc = verdict c .dataYaml doc := by
  simp [verdict, verdictWith, runsContents]

/-- the engine verdict is what every entry point returns for well-formed annotations -/
theorem C17_verdict_is_schema (e : Entry) (doc : JVal) (h : contentsOK doc = true) :
    verdict .builtin e doc = Schema.validates Generated.builtinSchema doc := by
  simp [verdict, verdictWith, engine, h]

/-! ### Sensitivity: the pinned glue treated the encodings differently -/

def badKeyDoc : JVal :=
  JVal.mkObj [(lit "cdiVersion", .str (lit "0.6.0")), (lit "kind", .str (lit "v.com/c")),
    (lit "annotations", JVal.mkObj [(lit "bad key!", .str (lit "x"))]),
    (lit "devices", JVal.mkArr [JVal.mkObj [(lit "name", .str (lit "d")),
      (lit "containerEdits", JVal.mkObj [(lit "env", JVal.mkArr [.str (lit "A=b")])])]])]

/-- whenever the engine accepts a document with an ill-formed annotation, the pinned glue
accepted its JSON bytes and rejected its YAML bytes -/
theorem pinned_glue_encoding_dependent (doc : JVal) (h1 : engine .builtin doc = true)
    (h2 : contentsOK doc = false) :
    verdictWith false .builtin .dataJson doc = true ∧ verdictWith false .builtin .dataYaml doc = false := by
  simp [verdictWith, runsContents, h1, h2]

example : contentsOK badKeyDoc = false := by decide

/-! ### What draft-07 makes of an object schema - for any schema term, hence for the regenerated one -/

/-- an object schema accepts objects only and insists on its required members (`missing_required_rejected`,
`wrong_type_rejected` of the design, at the level where they apply to every schema) -/
theorem C17_object_schema_required (s : Schema) (doc : JVal) (ht : stype s = some "object")
    (h : validates s doc = true) :
    ∃ m, doc = .obj m ∧ ∀ r ∈ srequired s, (memberLast m (lit r)).isSome = true :=
  validates_object_required s doc ht h

/-- a member that an object schema does not mention (no property of that name, not required, no pattern
properties at that level) has no influence on the verdict -/
theorem C17_unmentioned_member_irrelevant (s : Schema) (k : Str) (v : JVal) (m : JMembers)
    (hp : ∀ n ∈ propNames (sprops s), lit n ≠ k) (hr : ∀ n ∈ srequired s, lit n ≠ k) (hpp : spattern s = .nil) :
    validates s (.obj (.cons k v m)) = validates s (.obj m) :=
  validates_ignores_unmentioned s k v m hp hr hpp

/-- **C17 (what the shipped files require of every document)**: the builtin schema - the term regenerated from
schema.json/defs.json - accepts only objects that have `cdiVersion`, `kind` and `devices` members. -/
theorem C17_builtin_requires_core (doc : JVal) (h : validates Generated.builtinSchema doc = true) :
    ∃ m, doc = .obj m ∧ (memberLast m (lit "cdiVersion")).isSome = true ∧
      (memberLast m (lit "kind")).isSome = true ∧ (memberLast m (lit "devices")).isSome = true := by
  have ht : stype Generated.builtinSchema = some "object" := by decide
  have hr : ∀ r ∈ ["cdiVersion", "kind", "devices"], r ∈ srequired Generated.builtinSchema := by decide
  obtain ⟨m, hm, hall⟩ := validates_object_required _ doc ht h
  exact ⟨m, hm, hall _ (hr _ (by simp)), hall _ (hr _ (by simp)), hall _ (hr _ (by simp))⟩


end Cdi.SchemaGlue
