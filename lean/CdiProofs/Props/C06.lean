/-
  C06 — Minimum required CDI version is exact and independent of where a
  feature is used.

  Model: CdiModel/Version.lean (mirrors /repo/specs-go/version.go, over the
  regenerated table F1).  Spec: `SpecWF.minVersion`, `SpecWF.versionValid`.
-/
import CdiProofs.Lemmas.Version
namespace Cdi.Version
open Cdi Cdi.SpecWF

/-! ### Fact obligations -/

/-- F1: the keys of `validSpecVersions` with their predicates are exactly these. -/
theorem F1_version_table :
    Generated.versionTable =
      [("v0.1.0", ""), ("v0.2.0", ""), ("v0.3.0", ""), ("v0.4.0", "requiresV040"),
       ("v0.5.0", "requiresV050"), ("v0.6.0", "requiresV060"), ("v0.7.0", "requiresV070"),
       ("v0.8.0", "requiresV080"), ("v1.0.0", "requiresV100")] := by decide

theorem F1_vEarliest : Generated.vEarliest = "v0.3.0" := by decide

/-- F1: the library's released versions are the ones the property/SPEC.md list -/
theorem F1_released : table.map (·.1) = released := by decide

/-- F2: the versions the library treats as released and usable (the earliest supported one and every later key of
`validSpecVersions`, i.e. those with a feature predicate) are, as a set, the tags of the "Released versions"
table of SPEC.md - regenerated from SPEC.md on every run; the two pre-release keys (0.1.0, 0.2.0) are in neither. -/
theorem F2_released_matches_SPECmd :
    (∀ t ∈ Generated.specMdReleased, t ∈ Generated.versionTable.map (·.1)) ∧
    (∀ e ∈ Generated.versionTable, (e.2 ≠ "" ∨ e.1 = Generated.vEarliest) → e.1 ∈ Generated.specMdReleased) ∧
    Generated.vEarliest ∈ Generated.specMdReleased := by decide

/-- F11: no feature predicate stores the address of a `range` value variable while
the module's Go version gives such variables per-loop scope (the pinned defect:
`&d.ContainerEdits` in requiresV040/V050 made every stored pointer see the last device). -/
theorem F11_no_loop_variable_aliasing :
    Generated.specsGoLoopVarPerIteration = true ∨ Generated.rangeVarAddressTaken = [] := by decide

/-! ### The predicates -/

/-- value of the predicate named `fn` on the repaired tree -/
def predVal (fn : String) (s : Spec) : Bool :=
  if fn == "requiresV040" then usesMountType s
  else if fn == "requiresV050" then usesDigitName s || usesHostPath s
  else if fn == "requiresV060" then usesAnnotations s || usesDottedClass s
  else if fn == "requiresV070" then usesRdtOrGids s
  else false

theorem callPredicate_fixed (fn : String) (s : Spec) :
    callPredicate false true fn s = .ok (predVal fn s) := by
  unfold callPredicate predVal
  split
  · exact requiresV040_fixed s
  · split
    · exact requiresV050_fixed s
    · split
      · rw [requiresV060_eq]
      · split
        · rw [requiresV070_eq]
        · rfl

/-- one step of `requiredVersion`'s loop on the repaired tree -/
theorem step_fixed (s : Spec) (mv : Str) (e : Str × String) :
    verStep false true s (.ok mv) e = .ok (raiseS mv e.1 (!(e.2 == "") && predVal e.2 s)) := by
  simp only [verStep, callPredicate_fixed, raiseS]
  cases h1 : (e.2 == "") <;> cases h2 : predVal e.2 s <;> cases h3 : versionGt e.1 mv <;> simp

/-- the loop as a fold of `raiseS` -/
theorem requiredVersionIn_fixed (order : List (Str × String)) (s : Spec) : ∀ mv : Str,
    order.foldl (verStep false true s) (Res.ok mv : Res Str) =
    .ok (order.foldl (fun mv e => raiseS mv e.1 (!(e.2 == "") && predVal e.2 s)) mv) := by
  induction order with
  | nil => intro mv; rfl
  | cons e rest ih =>
    intro mv
    simp only [List.foldl_cons]
    rw [step_fixed, ih]

theorem table_parses : ∀ e ∈ table, (parseTriple e.1).isSome = true := by decide
theorem table_injective : ∀ x ∈ table, ∀ y ∈ table, parseTriple x.1 = parseTriple y.1 → x.1 = y.1 := by
  decide

/-- **C06 (iteration order is irrelevant)**: Go ranges over the version *map* in an
unspecified order; every visiting order yields the same minimum version. -/
theorem C06_order_independent (order : List (Str × String)) (hperm : order.Perm table) (s : Spec) :
    requiredVersionIn false true order s = requiredVersion s := by
  unfold requiredVersion requiredVersionIn
  rw [requiredVersionIn_fixed, requiredVersionIn_fixed]
  congr 1
  apply List.Perm.foldl_eq' hperm
  intro x hx y hy z
  have hx' := hperm.subset hx
  have hy' := hperm.subset hy
  obtain ⟨tx, htx⟩ := Option.isSome_iff_exists.mp (table_parses x hx')
  obtain ⟨ty, hty⟩ := Option.isSome_iff_exists.mp (table_parses y hy')
  exact raiseS_comm z x.1 y.1 _ _ tx ty htx hty
    (fun h => table_injective x hx' y hy' (by rw [htx, hty, h]))

/-- **C06 (exactness)**: the computed minimum is the highest introduction version
among all features used anywhere in the Spec — spec level or any device. -/
theorem C06_required_exact (s : Spec) : requiredVersion s = .ok (minVersion s) := by
  unfold requiredVersion requiredVersionIn
  rw [requiredVersionIn_fixed]
  congr 1
  have ht : table = [(lit "v0.1.0", ""), (lit "v0.2.0", ""), (lit "v0.3.0", ""),
      (lit "v0.4.0", "requiresV040"), (lit "v0.5.0", "requiresV050"), (lit "v0.6.0", "requiresV060"),
      (lit "v0.7.0", "requiresV070"), (lit "v0.8.0", "requiresV080"), (lit "v1.0.0", "requiresV100")] := by
    decide
  have hv : vEarliest = lit "v0.3.0" := by decide
  rw [ht, hv]
  simp only [List.foldl_cons, List.foldl_nil, predVal, minVersion]
  generalize usesMountType s = a
  generalize usesDigitName s = b
  generalize usesHostPath s = c
  generalize usesAnnotations s = d
  generalize usesDottedClass s = e
  generalize usesRdtOrGids s = f
  cases a <;> cases b <;> cases c <;> cases d <;> cases e <;> cases f <;> decide

/-- `MinimumRequiredVersion` returns that version without the leading "v". -/
theorem C06_minimumRequiredVersion (s : Spec) :
    minimumRequiredVersion s = .ok (versionString (minVersion s)) := by
  simp [minimumRequiredVersion, C06_required_exact, Res.map]

/-- **C06 (device order is irrelevant)**: permuting the devices does not change the
minimum required version. -/
theorem C06_perm (s : Spec) (ds : List Device) (hperm : ds.Perm s.devices) :
    minVersion { s with devices := ds } = minVersion s := by
  have hall : ∀ g : Edits → Bool, ({ s with devices := ds } : Spec).allEdits.any g = s.allEdits.any g := by
    intro g
    simp only [Spec.allEdits, List.any_cons]
    congr 1
    exact (hperm.map _).any_eq
  have h1 : usesMountType { s with devices := ds } = usesMountType s := hall _
  have h2 : usesHostPath { s with devices := ds } = usesHostPath s := hall _
  have h3 : usesRdtOrGids { s with devices := ds } = usesRdtOrGids s := hall _
  have h4 : usesDigitName { s with devices := ds } = usesDigitName s := hperm.any_eq
  have h5 : usesAnnotations { s with devices := ds } = usesAnnotations s := by
    simp only [usesAnnotations]; congr 1; exact hperm.any_eq
  have h6 : usesDottedClass { s with devices := ds } = usesDottedClass s := rfl
  simp only [minVersion, h1, h2, h3, h4, h5, h6]

/-- **C06 (placement is irrelevant)**: moving a device's edits to spec level, or
between devices, keeps the minimum — it only depends on the multiset of edit
blocks (for the features that exist at both levels). -/
theorem C06_placement (s t : Spec) (hk : t.kind = s.kind) (ha : usesAnnotations t = usesAnnotations s)
    (hd : usesDigitName t = usesDigitName s) (he : t.allEdits.Perm s.allEdits) :
    minVersion t = minVersion s := by
  have h1 : usesMountType t = usesMountType s := he.any_eq
  have h2 : usesHostPath t = usesHostPath s := he.any_eq
  have h3 : usesRdtOrGids t = usesRdtOrGids s := he.any_eq
  have h6 : usesDottedClass t = usesDottedClass s := by simp [usesDottedClass, hk]
  simp only [minVersion, h1, h2, h3, ha, hd, h6]

theorem minVersion_mem (s : Spec) : minVersion s ∈ released := by
  unfold minVersion
  split
  · decide
  · split
    · decide
    · split
      · decide
      · split <;> decide

/-- **C06 (version validity)**: a Spec is version-valid iff its declared version is a
released one not lower than the minimum its features require. -/
theorem C06_valid_iff (s : Spec) : validateVersion s = .ok (versionValid s) := by
  unfold validateVersion validateVersionWith versionValid
  have hreq : requiredVersionIn false true table s = .ok (minVersion s) := C06_required_exact s
  rw [hreq]
  have hval : isValidVersion s.version = released.contains (newVersion s.version) := by
    unfold isValidVersion
    rw [← F1_released]
    generalize table = l
    induction l with
    | nil => rfl
    | cons a r ih =>
      simp only [List.any_cons, List.map_cons, List.contains_cons, ih]
      congr 1
      exact Bool.eq_iff_iff.mpr ⟨fun h => by simpa using (beq_iff_eq.mp h).symm, fun h => by simpa using (beq_iff_eq.mp h).symm⟩
  have hnv : newVersion (versionString (minVersion s)) = minVersion s := by
    have := minVersion_mem s
    generalize minVersion s = m at this
    simp only [released, List.mem_cons, List.not_mem_nil, or_false] at this
    rcases this with rfl | rfl | rfl | rfl | rfl | rfl | rfl | rfl | rfl <;> decide
  rw [hval]
  simp only [hnv]
  cases released.contains (newVersion s.version) <;> simp

/-- the judge is met by the model on every Spec -/
theorem C06_model_meets_judge (s : Spec) :
    judgeMinVersion s false (versionString (minVersion s)) = none := by
  have h : (118 :: versionString (minVersion s)) = minVersion s := by
    have := minVersion_mem s
    generalize minVersion s = m at this
    simp only [released, List.mem_cons, List.not_mem_nil, or_false] at this
    rcases this with rfl | rfl | rfl | rfl | rfl | rfl | rfl | rfl | rfl <;> decide
  simp [judgeMinVersion, h]

/-! ### Sensitivity: the pinned tree violates exactness and order independence -/

def twoDevices : Spec :=
  { version := lit "1.0.0", kind := lit "v.com/c",
    devices := [{ name := lit "a", edits := { mounts := [some { hostPath := lit "/h", containerPath := lit "/c", type := lit "bind" }] } },
                { name := lit "b", edits := { env := [lit "X=y"] } }] }

/-- mount `type` on the first of two devices: the pinned code answers 0.3.0 … -/
example : requiredVersionPinned twoDevices = .ok (lit "v0.3.0") := by decide
/-- … although the feature requires 0.4.0, which is what the repaired code answers. -/
example : requiredVersion twoDevices = .ok (lit "v0.4.0") := by decide
/-- swapping the devices changed the pinned answer -/
example : requiredVersionPinned { twoDevices with devices := twoDevices.devices.reverse } = .ok (lit "v0.4.0") := by
  decide
/-- a nil mount entry made the pinned predicate dereference nil -/
example : requiredVersionPinned { twoDevices with edits := { mounts := [none] } } = .panic := by decide

end Cdi.Version
