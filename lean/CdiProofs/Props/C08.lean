/-
  C08 — No untrusted input can crash the library.

  The union of the totality results of the models: no value of the decoded data
  model, no name string, no annotation map and no (OCI spec, loadable edits) pair
  reaches a `panic` outcome (a slice-bounds or nil-dereference panic of the Go code
  is a `Res.panic` of the model).  Each conjunct is proved in the file of the
  property that owns the model; this file states them together at the entry points
  C08 names, and adds the link "what validation admits has no nil entries".
-/
import CdiProofs.Props.C03
import CdiProofs.Props.C05
import CdiProofs.Props.C06
import CdiProofs.Props.C07
import CdiProofs.Props.C13
import CdiProofs.Props.C15
namespace Cdi.C08
open Cdi Cdi.SpecWF Cdi.Apply

theorem all_wf_isSome {α} (wf : Option α → Bool) (hnone : wf none = false) (l : List (Option α))
    (h : l.all wf = true) : l.all Option.isSome = true := by
  simp only [List.all_eq_true] at h ⊢
  intro x hx
  cases x with
  | none => have := h none hx; rw [hnone] at this; cases this
  | some _ => rfl

/-- what validation admits has no nil entries -/
theorem editsWF_noNil (e : Edits) (h : editsWF e = true) : noNil e = true := by
  simp only [editsWF, Bool.and_eq_true] at h
  obtain ⟨⟨⟨⟨_, hn⟩, hh⟩, hm⟩, _⟩ := h
  simp only [noNil, Bool.and_eq_true]
  exact ⟨⟨all_wf_isSome nodeWF rfl _ hn, all_wf_isSome hookWF rfl _ hh⟩, all_wf_isSome mountWF rfl _ hm⟩

/-- **C08 — Spec content**: whatever a Spec file decodes to — including null list entries,
empty names, any kind and version strings — validation and the minimum-version computation
return (a verdict, a version) and never panic; and everything validation admits can be applied
to every OCI spec, on every host, without a panic: the Spec-level edits and every device's. -/
theorem C08_spec_content (s : Spec) (host : Str → Option HostNode) :
    (∃ b, Validate.validateSpec s = .ok b) ∧
    (∃ v, Version.requiredVersion s = .ok v) ∧
    (Validate.validateSpec s = .ok true →
      (∀ o, apply host s.edits o ≠ .panic) ∧ ∀ d ∈ s.devices, ∀ o, apply host d.edits o ≠ .panic) := by
  refine ⟨Validate.C05_never_panics s, ⟨_, Version.C06_required_exact s⟩, ?_⟩
  intro hv
  rw [Validate.C05_admit_iff] at hv
  have hwf : WellFormed s = true := by injection hv
  simp only [WellFormed, Bool.and_eq_true] at hwf
  obtain ⟨⟨⟨⟨⟨⟨_, _⟩, _⟩, he⟩, _⟩, hd⟩, _⟩ := hwf
  refine ⟨fun o => C03_no_panic host s.edits o (editsWF_noNil _ he), ?_⟩
  intro d hdm o
  have := (List.all_eq_true.mp hd) d hdm
  simp only [deviceWF, Bool.and_eq_true] at this
  exact C03_no_panic host d.edits o (editsWF_noNil _ this.2)

/-- **C08 — names**: every byte string given to the name parser and validators yields a result -/
theorem C08_names (s : Str) :
    (∃ r, Parser.parseQualifiedName s = .ok r) ∧ (∃ b, Parser.validateVendorName s = .ok b) ∧
    (∃ b, Parser.validateClassName s = .ok b) ∧ (∃ b, Parser.validateDeviceName s = .ok b) :=
  ⟨Parser.C07_total s, ⟨_, (Parser.C07_validators s).1⟩, ⟨_, (Parser.C07_validators s).2.1⟩, ⟨_, (Parser.C07_validators s).2.2⟩⟩

/-- **C08 — annotations**: every annotation map, plugin name, device ID and device list -/
theorem C08_annotations (entries : List (Str × Str)) (plugin deviceID : Str) (devices : List Str) :
    (∃ r, Annotations.parseAnnotations entries = .ok r) ∧
    (∃ r, Annotations.annotationKey plugin deviceID = .ok r) ∧
    (∃ r, Annotations.updateAnnotations entries plugin deviceID devices = .ok r) := by
  refine ⟨?_, Annotations.C15_key_total plugin deviceID, ?_⟩
  · rw [Annotations.C15_parse]; split <;> exact ⟨_, rfl⟩
  · obtain ⟨r, hr, _⟩ := Annotations.C15_update_total_and_fail_unchanged entries plugin deviceID devices
    exact ⟨r, hr⟩

/-- **C08 — refresh**: scanning a directory always completes, whatever its entries are (files in
error, entries that vanish or cannot be examined); a file in error is an error entry, not an abort -/
theorem C08_refresh (p : Nat) (d : Str) (st : Cache.DirState) : (Cache.scanDir true p d st).isSome = true :=
  Cache.scanDir_total p d st

end Cdi.C08
