/-
  C19 — The cdi and validate commands report what the library computes.

  Renderers: CdiModel/Cli.lean.  The binaries themselves are compared with the
  library on every run (stream `cli`); the theorems here say that the printed
  listings determine the lists and that the wiring fact holds.
-/
import CdiModel.Cli
import CdiModel.Generated.CliFacts
namespace Cdi.Cli
open Cdi

/-- F10: the sub-commands read the default cache, so `--spec-dirs` must configure the default
cache (the pinned tree built a throw-away cache with NewCache instead) -/
theorem F10_uses_configured_cache :
    Generated.cliHelpersUsingDefaultCache = [] ∨ Generated.cliInitCalls.contains "Configure" = true := by decide

theorem zipIdx_map_inj {α} (f : Nat → α → Str) (hf : ∀ i a b, f i a = f i b → a = b) :
    ∀ (l1 l2 : List α) (k : Nat), (l1.zipIdx k).map (fun p => f p.2 p.1) = (l2.zipIdx k).map (fun p => f p.2 p.1) → l1 = l2 := by
  intro l1
  induction l1 with
  | nil =>
    intro l2 k h
    cases l2 with
    | nil => rfl
    | cons b r => simp at h
  | cons a r ih =>
    intro l2 k h
    cases l2 with
    | nil => simp at h
    | cons b r2 =>
      simp only [List.zipIdx_cons, List.map_cons, List.cons.injEq] at h
      rw [hf k a b h.1, ih r2 (k + 1) h.2]

/-- **C19 (device listing is faithful)**: the printed device listing determines the list of devices. -/
theorem C19_devices_injective (l1 l2 : List Str) (h : renderDevices l1 = renderDevices l2) : l1 = l2 := by
  unfold renderDevices at h
  by_cases h1 : l1 = [] <;> by_cases h2 : l2 = []
  · rw [h1, h2]
  · simp only [h1, h2, if_true, if_false] at h
    have := (List.cons.inj h).1
    exact absurd this (by decide)
  · simp only [h1, h2, if_true, if_false] at h
    have := (List.cons.inj h).1
    exact absurd this (by decide)
  · simp only [h1, h2, if_false, List.cons.injEq, true_and] at h
    exact zipIdx_map_inj (fun i d => lit "  " ++ natStr i ++ lit ". " ++ d)
      (fun i a b hab => List.append_cancel_left hab) l1 l2 0 h

/-- **C19 (exit status)**: non-zero iff the library reports cache errors / iff validation fails. -/
theorem C19_exit_iff_errors (errorKeys : List Str) : cdiExit errorKeys ≠ 0 ↔ errorKeys ≠ [] := by
  unfold cdiExit; by_cases h : errorKeys = [] <;> simp [h]

theorem C19_validate_exit_iff_schema_fails (oks : List Bool) : validateExit oks ≠ 0 ↔ ∃ ok ∈ oks, ok = false := by
  unfold validateExit
  induction oks with
  | nil => simp
  | cons a rest ih =>
    cases a
    · simp
    · simpa using ih

/-- the position of an invalid document among the arguments is irrelevant -/
theorem C19_validate_exit_perm (a b : List Bool) (h : a.Perm b) : validateExit a = validateExit b := by
  unfold validateExit
  have : a.all id = b.all id := by
    apply Bool.eq_iff_iff.mpr
    simp only [List.all_eq_true]
    exact ⟨fun ha x hx => ha x (h.mem_iff.mpr hx), fun hb x hx => hb x (h.mem_iff.mp hx)⟩
  rw [this]

/-! ### Non-vacuity -/
example : renderDevices [lit "v.com/c=a", lit "v.com/c=b"] =
    [lit "CDI devices found:", lit "  0. v.com/c=a", lit "  1. v.com/c=b"] := by decide

end Cdi.Cli
