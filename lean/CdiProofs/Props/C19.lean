/-
  C19 — The cdi and validate commands report what the library computes.

  Renderers: CdiModel/Cli.lean.  The binaries themselves are compared with the
  library on every run (stream `cli`); the theorems here say that the printed
  listings determine the lists and that the wiring fact holds.
-/
import CdiModel.Cli
import CdiModel.Generated.CliFacts
namespace Cdi.Cli
open Cdi

/-- F10: the sub-commands read the default cache, so `--spec-dirs` must configure the default
cache (the pinned tree built a throw-away cache with NewCache instead) -/
theorem F10_uses_configured_cache :
    Generated.cliHelpersUsingDefaultCache = [] ∨ Generated.cliInitCalls.contains "Configure" = true := by decide

theorem zipIdx_map_inj {α} (f : Nat → α → Str) (hf : ∀ i a b, f i a = f i b → a = b) :
    ∀ (l1 l2 : List α) (k : Nat), (l1.zipIdx k).map (fun p => f p.2 p.1) = (l2.zipIdx k).map (fun p => f p.2 p.1) → l1 = l2 := by
  intro l1
  induction l1 with
  | nil =>
    intro l2 k h
    cases l2 with
    | nil => rfl
    | cons b r => simp at h
  | cons a r ih =>
    intro l2 k h
    cases l2 with
    | nil => simp at h
    | cons b r2 =>
      simp only [List.zipIdx_cons, List.map_cons, List.cons.injEq] at h
      rw [hf k a b h.1, ih r2 (k + 1) h.2]

/-- **C19 (device listing is faithful)**: the printed device listing determines the list of devices. -/
theorem C19_devices_injective (l1 l2 : List Str) (h : renderDevices l1 = renderDevices l2) : l1 = l2 := by
  unfold renderDevices at h
  by_cases h1 : l1 = [] <;> by_cases h2 : l2 = []
  · rw [h1, h2]
  · simp only [h1, h2, if_true, if_false] at h
    have := (List.cons.inj h).1
    exact absurd this (by decide)
  · simp only [h1, h2, if_true, if_false] at h
    have := (List.cons.inj h).1
    exact absurd this (by decide)
  · simp only [h1, h2, if_false, List.cons.injEq, true_and] at h
    exact zipIdx_map_inj (fun i d => lit "  " ++ natStr i ++ lit ". " ++ d)
      (fun i a b hab => List.append_cancel_left hab) l1 l2 0 h

/-- **C19 (exit status)**: non-zero iff the library reports cache errors / iff validation fails. -/
theorem C19_exit_iff_errors (errorKeys : List Str) : cdiExit errorKeys ≠ 0 ↔ errorKeys ≠ [] := by
  unfold cdiExit; by_cases h : errorKeys = [] <;> simp [h]

theorem C19_validate_exit_iff_schema_fails (oks : List Bool) : validateExit oks ≠ 0 ↔ ∃ ok ∈ oks, ok = false := by
  unfold validateExit
  induction oks with
  | nil => simp
  | cons a rest ih =>
    cases a
    · simp
    · simpa using ih

/-- the position of an invalid document among the arguments is irrelevant -/
theorem C19_validate_exit_perm (a b : List Bool) (h : a.Perm b) : validateExit a = validateExit b := by
  unfold validateExit
  have : a.all id = b.all id := by
    apply Bool.eq_iff_iff.mpr
    simp only [List.all_eq_true]
    exact ⟨fun ha x hx => ha x (h.mem_iff.mpr hx), fun hb x hx => hb x (h.mem_iff.mp hx)⟩
  rw [this]

/-! ### Details: formats, verbose blocks, `dirs`, `specs` arguments, `inject` patterns -/

/-- `strings.Join(strings.Split(s, "\n"), "\n") = s`: the lines of a text determine the text -/
theorem splitAll_ne_nil' (sep : Byte) : ∀ s : Str, splitAll sep s ≠ [] := by
  intro s
  induction s with
  | nil => simp [splitAll]
  | cons c cs ih =>
    unfold splitAll
    split
    · simp
    · split <;> simp

theorem map_inj_of_inj {α β} (f : α → β) (hf : ∀ x y, f x = f y → x = y) :
    ∀ a b : List α, a.map f = b.map f → a = b := by
  intro a
  induction a with
  | nil => intro b h; cases b with | nil => rfl | cons _ _ => simp at h
  | cons x xs ih =>
    intro b h
    cases b with
    | nil => simp at h
    | cons y ys =>
      simp only [List.map_cons, List.cons.injEq] at h
      rw [hf x y h.1, ih ys h.2]

theorem flatMap_single {α β} (f : α → β) : ∀ l : List α, l.flatMap (fun s => [f s]) = l.map f := by
  intro l
  induction l with
  | nil => rfl
  | cons x xs ih => simp [List.flatMap_cons, ih]

theorem joinWith_splitAll (sep : Byte) : ∀ s : Str, joinWith sep (splitAll sep s) = s := by
  intro s
  induction s with
  | nil => rfl
  | cons c cs ih =>
    unfold splitAll
    by_cases h : c = sep
    · simp only [h, if_true]
      cases hs : splitAll sep cs with
      | nil => exact absurd hs (splitAll_ne_nil' sep cs)
      | cons p ps => rw [hs] at ih; simp [joinWith, ih]
    · simp only [h, if_false]
      cases hs : splitAll sep cs with
      | nil => exact absurd hs (splitAll_ne_nil' sep cs)
      | cons p ps =>
        rw [hs] at ih
        cases ps with
        | nil => simp [joinWith] at ih ⊢; exact ih
        | cons q qs => simp [joinWith] at ih ⊢; exact ih

theorem splitAll_inj (sep : Byte) (a b : Str) (h : splitAll sep a = splitAll sep b) : a = b := by
  rw [← joinWith_splitAll sep a, ← joinWith_splitAll sep b, h]

/-- **C19 (a printed block is the pretty-printed object)**: the indented block `marshalObject` prints
determines the pretty-printer's text up to one final line break - so two different library results
never print alike. -/
theorem C19_marshalLines_faithful (level : Nat) (a b : Str) (h : marshalLines level a = marshalLines level b) :
    trimNL a = trimNL b := by
  unfold marshalLines at h
  apply splitAll_inj cNL
  exact map_inj_of_inj _ (fun x y hxy => List.append_cancel_left hxy) _ _ h

/-- **C19 (format choice)**: an explicit `--output` is used as given; without one the format follows the
file the object came from, and is `yaml` for anything that is not a `.json` file. -/
theorem C19_chooseFormat_explicit (format path : Str) (h : format ≠ []) : chooseFormat format path = format := by
  simp [chooseFormat, h]

theorem C19_chooseFormat_default (path : Str) :
    chooseFormat [] path = lit "json" ∨ chooseFormat [] path = lit "yaml" := by
  unfold chooseFormat
  simp only [if_true]
  by_cases h1 : Path.ext path = lit ".json"
  · left; simp [h1]; decide
  · by_cases h2 : Path.ext path = lit ".yaml"
    · right; simp [h2]; decide
    · right; simp [h1, h2]

/-- which pretty-printer runs depends only on whether the chosen format is `json` -/
theorem C19_pick_json (j y : Str) : pick (lit "json") j y = j := by simp [pick]
theorem C19_pick_other (f j y : Str) (h : f ≠ lit "json") : pick f j y = y := by simp [pick, h]

/-- the non-verbose listing ignores `--output` and everything but the names -/
theorem C19_devices_plain (format : Str) (ds : List DevView) :
    renderDevicesV false format ds = renderDevices (ds.map (·.name)) := by simp [renderDevicesV]

/-- **C19 (verbose device listing)**: header, then for every device of the library's listing, in order, its
name and Spec path, its pretty-printed definition and - exactly when its Spec has env/device-node/hook/mount
edits of its own - those edits. -/
theorem C19_devices_verbose (format : Str) (d : DevView) (ds : List DevView) :
    renderDevicesV true format (d :: ds) =
      line "CDI devices found:" :: (renderDeviceVerbose format d ++ ds.flatMap (renderDeviceVerbose format)) := by
  simp [renderDevicesV]

theorem C19_device_block_head (format : Str) (d : DevView) :
    (renderDeviceVerbose format d).head? = some (lit "  " ++ d.name ++ lit " (" ++ d.path ++ lit ")") := by
  simp [renderDeviceVerbose]

/-- **C19 (`dirs`)**: the printed list determines the directories and their priorities are the positions. -/
theorem C19_dirs_injective (l1 l2 : List Str) (h : renderDirs l1 = renderDirs l2) : l1 = l2 := by
  unfold renderDirs at h
  simp only [List.cons.injEq, true_and] at h
  exact zipIdx_map_inj (fun i d => lit "  " ++ d ++ lit " (priority " ++ natStr i ++ lit ")")
    (fun i a b hab => by
      simp only [List.append_assoc] at hab
      exact List.append_cancel_right (List.append_cancel_left hab)) l1 l2 0 h

theorem C19_dirs_length (l : List Str) : (renderDirs l).length = l.length + 1 := by simp [renderDirs]

/-- **C19 (`specs` with vendor arguments)**: the arguments never filter the listing - with any non-empty cache
the output is that of `specs` without arguments. -/
theorem C19_specs_args_irrelevant (verbose : Bool) (format : Str) (args : List Str)
    (vendors : List (Str × List SpecView)) (h : vendors ≠ []) :
    renderSpecsV verbose format args vendors = renderSpecsV verbose format [] vendors := by
  simp [renderSpecsV, h]

/-- the non-verbose Spec listing is the one of `renderSpecs` -/
theorem C19_specs_plain (format : Str) (vendors : List (Str × List SpecView)) :
    renderSpecsV false format [] vendors = renderSpecs (vendors.map (fun v => (v.1, v.2.map (·.path)))) := by
  unfold renderSpecsV renderSpecs
  by_cases h : vendors = []
  · simp [h]
  · simp [h, indent, lit, flatMap_single, List.flatMap_map, List.map_map, Function.comp_def]

/-! #### `inject`: which devices are handed to the library -/

theorem any_perm {α} (p : α → Bool) {a b : List α} (h : a.Perm b) : a.any p = b.any p := by
  apply Bool.eq_iff_iff.mpr
  simp only [List.any_eq_true]
  exact ⟨fun ⟨x, hx, hp⟩ => ⟨x, h.mem_iff.mp hx, hp⟩, fun ⟨x, hx, hp⟩ => ⟨x, h.mem_iff.mpr hx, hp⟩⟩

theorem any_subset_eq {α} (p : α → Bool) {a b : List α} (h1 : ∀ x ∈ a, x ∈ b) (h2 : ∀ x ∈ b, x ∈ a) :
    a.any p = b.any p := by
  apply Bool.eq_iff_iff.mpr
  simp only [List.any_eq_true]
  exact ⟨fun ⟨x, hx, hp⟩ => ⟨x, h1 x hx, hp⟩, fun ⟨x, hx, hp⟩ => ⟨x, h2 x hx, hp⟩⟩

/-- **C19 (inject: patterns are a set)**: the devices handed to the library depend only on *which* patterns
were given - not on their order, and a pattern repeated or several patterns matching one device do not make
that device appear twice. -/
theorem C19_select_patterns_as_set (m : Str → Str → Option Bool) (ps ps' ds : List Str)
    (h1 : ∀ p ∈ ps, p ∈ ps') (h2 : ∀ p ∈ ps', p ∈ ps) :
    selectDevices m ps ds = selectDevices m ps' ds := by
  unfold selectDevices
  have e1 : ∀ d, ps.any (fun p => (m p d).isNone) = ps'.any (fun p => (m p d).isNone) :=
    fun d => any_subset_eq _ h1 h2
  have e2 : ∀ d, ps.any (fun p => m p d == some true) = ps'.any (fun p => m p d == some true) :=
    fun d => any_subset_eq _ h1 h2
  simp only [e1, e2]

theorem mem_dedup (x : Str) : ∀ l : List Str, x ∈ dedup l ↔ x ∈ l := by
  intro l
  induction l with
  | nil => simp [dedup]
  | cons y ys ih =>
    unfold dedup
    by_cases hc : y ∈ ys
    · simp only [hc, if_true, ih, List.mem_cons]
      constructor
      · exact Or.inr
      · rintro (rfl | h)
        · exact hc
        · exact h
    · simp only [hc, if_false, List.mem_cons, ih]

theorem nodup_dedup : ∀ l : List Str, (dedup l).Nodup := by
  intro l
  induction l with
  | nil => simp [dedup]
  | cons y ys ih =>
    unfold dedup
    by_cases hc : y ∈ ys
    · simpa only [hc, if_true] using ih
    · simp only [hc, if_false, List.nodup_cons]
      exact ⟨fun h => hc ((mem_dedup y ys).mp h), ih⟩

theorem insertSorted_perm (x : Str) : ∀ l : List Str, (Annotations.insertSorted x l).Perm (x :: l) := by
  intro l
  induction l with
  | nil => simp [Annotations.insertSorted]
  | cons y ys ih =>
    unfold Annotations.insertSorted
    split
    · exact List.Perm.refl _
    · exact (List.Perm.cons y ih).trans (List.Perm.swap x y ys)

theorem sortStrs_perm : ∀ l : List Str, (Annotations.sortStrs l).Perm l := by
  intro l
  induction l with
  | nil => exact List.Perm.refl _
  | cons x xs ih =>
    show (Annotations.insertSorted x (Annotations.sortStrs xs)).Perm (x :: xs)
    exact (insertSorted_perm x _).trans (List.Perm.cons x ih)

/-- **C19 (inject: exactly the matched devices, once each)** -/
theorem C19_select_mem (m : Str → Str → Option Bool) (ps ds l : List Str) (h : selectDevices m ps ds = some l) (d : Str) :
    d ∈ l ↔ d ∈ ds ∧ ∃ p ∈ ps, m p d = some true := by
  unfold selectDevices at h
  split at h
  · cases h
  · injection h with h
    subst h
    rw [(sortStrs_perm _).mem_iff]
    simp [mem_dedup, List.mem_filter]

theorem C19_select_nodup (m : Str → Str → Option Bool) (ps ds l : List Str) (h : selectDevices m ps ds = some l) :
    l.Nodup := by
  unfold selectDevices at h
  split at h
  · cases h
  · injection h with h
    subst h
    exact (sortStrs_perm _).nodup_iff.mpr (nodup_dedup _)

/-- an ill-formed pattern fails the command iff it is evaluated, i.e. iff the cache lists a device at all -/
theorem C19_select_bad_pattern (m : Str → Str → Option Bool) (ps ds : List Str) :
    selectDevices m ps ds = none ↔ ∃ d ∈ ds, ∃ p ∈ ps, m p d = none := by
  unfold selectDevices
  split
  · rename_i h
    simp only [List.any_eq_true, Option.isNone_iff_eq_none] at h
    simpa using h
  · rename_i h
    simp only [List.any_eq_true, Option.isNone_iff_eq_none, not_exists, not_and] at h
    simp only [reduceCtorEq, false_iff, not_exists, not_and]
    exact fun d hd p hp => h d hd p hp

/-! ### Numbers and vendor lines print injectively -/

theorem map_inj_on {α β} (f : α → β) : ∀ (a b : List α), (∀ x ∈ a, ∀ y ∈ b, f x = f y → x = y) → a.map f = b.map f → a = b := by
  intro a
  induction a with
  | nil => intro b _ h; cases b with | nil => rfl | cons _ _ => simp at h
  | cons x xs ih =>
    intro b hf h
    cases b with
    | nil => simp at h
    | cons y ys =>
      simp only [List.map_cons, List.cons.injEq] at h
      rw [hf x (by simp) y (by simp) h.1, ih ys (fun u hu v hv => hf u (by simp [hu]) v (by simp [hv])) h.2]

theorem digit_byte_inj (x y : Char) (hx : x.isDigit = true) (hy : y.isDigit = true)
    (h : x.toNat.toUInt8 = y.toNat.toUInt8) : x = y := by
  simp only [Char.isDigit, Bool.and_eq_true, decide_eq_true_eq] at hx hy
  have hx1 : x.toNat ≤ 57 := by have := hx.2; exact this
  have hy1 : y.toNat ≤ 57 := by have := hy.2; exact this
  have : x.toNat = y.toNat := by
    have h2 := congrArg UInt8.toNat h
    simp only [Nat.toUInt8, UInt8.toNat_ofNat'] at h2
    omega
  exact Char.toNat_inj.mp this |> fun h => h

theorem natStr_inj (a b : Nat) (h : natStr a = natStr b) : a = b := by
  unfold natStr at h
  have ha : (toString a).toList = Nat.toDigits 10 a := by
    rw [Nat.toString_eq_repr, Nat.toList_repr]
  have hb : (toString b).toList = Nat.toDigits 10 b := by
    rw [Nat.toString_eq_repr, Nat.toList_repr]
  rw [ha, hb] at h
  have := map_inj_on _ _ _ (fun x hx y hy hxy =>
    digit_byte_inj x y (Nat.isDigit_of_mem_toDigits (by omega) (by omega) hx)
      (Nat.isDigit_of_mem_toDigits (by omega) (by omega) hy) hxy) h
  have h2 := congrArg (fun l => Nat.ofDigitChars 10 l 0) this
  simpa [Nat.ofDigitChars_ten_toDigits] using h2


theorem zipIdx_map_inj_on {α} (P : α → Prop) (f : Nat → α → Str) (hf : ∀ i a b, P a → P b → f i a = f i b → a = b) :
    ∀ (l1 l2 : List α) (k : Nat), (∀ a ∈ l1, P a) → (∀ a ∈ l2, P a) →
      (l1.zipIdx k).map (fun p => f p.2 p.1) = (l2.zipIdx k).map (fun p => f p.2 p.1) → l1 = l2 := by
  intro l1
  induction l1 with
  | nil =>
    intro l2 k _ _ h
    cases l2 with
    | nil => rfl
    | cons b r => simp at h
  | cons a r ih =>
    intro l2 k h1 h2 h
    cases l2 with
    | nil => simp at h
    | cons b r2 =>
      simp only [List.zipIdx_cons, List.map_cons, List.cons.injEq] at h
      rw [hf k a b (h1 a (by simp)) (h2 b (by simp)) h.1,
        ih r2 (k + 1) (fun x hx => h1 x (by simp [hx])) (fun x hx => h2 x (by simp [hx])) h.2]

theorem split_at_marker (q : Byte) : ∀ (a b r s : Str), q ∉ a → q ∉ b → a ++ q :: r = b ++ q :: s → a = b ∧ r = s := by
  intro a
  induction a with
  | nil =>
    intro b r s _ hb h
    cases b with
    | nil => simpa using h
    | cons y ys =>
      simp only [List.nil_append, List.cons_append, List.cons.injEq] at h
      exact absurd (by simp [h.1]) hb
  | cons x xs ih =>
    intro b r s ha hb h
    cases b with
    | nil =>
      simp only [List.nil_append, List.cons_append, List.cons.injEq] at h
      exact absurd (by simp [h.1]) ha
    | cons y ys =>
      simp only [List.cons_append, List.cons.injEq] at h
      have := ih ys r s (fun hx => ha (by simp [hx])) (fun hy => hb (by simp [hy])) h.2
      exact ⟨by rw [h.1, this.1], this.2⟩

/-- **C19 (vendor listing is faithful)** -/
theorem C19_vendors_injective (l1 l2 : List (Str × Nat)) (q1 : ∀ v ∈ l1, (34 : Byte) ∉ v.1) (q2 : ∀ v ∈ l2, (34 : Byte) ∉ v.1)
    (h : renderVendors l1 = renderVendors l2) : l1 = l2 := by
  unfold renderVendors at h
  by_cases h1 : l1 = [] <;> by_cases h2 : l2 = []
  · rw [h1, h2]
  · simp only [h1, h2, if_true, if_false] at h
    exact absurd (List.cons.inj h).1 (by decide)
  · simp only [h1, h2, if_true, if_false] at h
    exact absurd (List.cons.inj h).1 (by decide)
  · simp only [h1, h2, if_false, List.cons.injEq, true_and] at h
    refine zipIdx_map_inj_on (fun v : Str × Nat => (34 : Byte) ∉ v.1)
      (fun i v => lit "  " ++ natStr i ++ lit ". \"" ++ v.1 ++ lit "\" (" ++ natStr v.2 ++ lit " CDI Spec Files)")
      (fun i a b pa pb hab => ?_) l1 l2 0 q1 q2 h
    simp only [List.append_assoc] at hab
    have h3 := List.append_cancel_left (List.append_cancel_left (List.append_cancel_left hab))
    have e : lit "\" (" = (34 : Byte) :: lit " (" := by decide
    rw [e] at h3
    simp only [List.cons_append] at h3
    obtain ⟨hv, hr⟩ := split_at_marker 34 _ _ _ _ pa pb h3
    have hn := natStr_inj _ _ (List.append_cancel_right (List.append_cancel_left hr))
    exact Prod.ext hv hn

example : renderVendors [(lit "v.com", 2)] = [lit "CDI vendors found:", lit "  0. \"v.com\" (2 CDI Spec Files)"] := by decide

/-! ### Non-vacuity of the details -/
example : chooseFormat [] (lit "/etc/cdi/a.json") = lit "json" := by decide
example : chooseFormat [] (lit "/etc/cdi/a.yaml") = lit "yaml" := by decide
example : chooseFormat [] (lit "-") = lit "yaml" := by decide
example : chooseFormat (lit "json") (lit "/etc/cdi/a.yaml") = lit "json" := by decide
example : marshalLines 2 (lit "a:\n  b: 1\n") = [lit "  a:", lit "    b: 1"] := by decide
example : renderDirs [lit "/etc/cdi", lit "/var/run/cdi"] =
    [lit "CDI Spec directories in use:", lit "  /etc/cdi (priority 0)", lit "  /var/run/cdi (priority 1)"] := by decide
example : selectDevices (fun p d => some (p == d || p == lit "*")) [lit "*", lit "v/c=b", lit "*"] [lit "v/c=b", lit "v/c=a"]
    = some [lit "v/c=a", lit "v/c=b"] := by decide

/-! ### Non-vacuity -/
example : renderDevices [lit "v.com/c=a", lit "v.com/c=b"] =
    [lit "CDI devices found:", lit "  0. v.com/c=a", lit "  1. v.com/c=b"] := by decide

end Cdi.Cli
