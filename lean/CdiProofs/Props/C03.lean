/-
  C03 — Container edits are applied to the OCI spec with the documented semantics.

  Model: CdiModel/Apply.lean (mirrors ContainerEdits.Apply, fillMissingInfo, the
  CDI→OCI mapping and the generator methods).  Spec / judge: CdiModel/ApplySpec.lean.
  Clause lemmas: CdiProofs/Lemmas/Apply.lean, ApplyEnv.lean.
-/
import CdiProofs.Lemmas.Apply
import CdiProofs.Lemmas.ApplyEnv
namespace Cdi.Apply
open Cdi

/-! ### Fact obligations (F4) -/

/-- `Apply`'s `switch h.HookName` sends each of the six hook names to the OCI list of the same stage -/
def expectedDispatch : List (String × String) :=
  [("prestart", "prestart"), ("poststart", "poststart"), ("poststop", "poststop"),
   ("createRuntime", "createruntime"), ("createContainer", "createcontainer"),
   ("startContainer", "startcontainer")]

theorem F4_hook_dispatch :
    (∀ e ∈ expectedDispatch, e ∈ Generated.hookDispatch) ∧ (∀ e ∈ Generated.hookDispatch, e ∈ expectedDispatch) ∧
    (∀ n ∈ Generated.hookNames, n ∈ expectedDispatch.map (·.1)) := by decide

theorem hookStage_values (n : Str) (s : String) (h : hookStage n = some s) :
    s ∈ ["prestart", "poststart", "poststop", "createruntime", "createcontainer", "startcontainer"] := by
  unfold hookStage at h
  cases hf : Generated.hookDispatch.find? (fun e => lit e.1 == n) with
  | none => simp [hf] at h
  | some e =>
    simp only [hf, Option.map_some, Option.some.injEq] at h
    subst h
    have hm := List.mem_of_find?_eq_some hf
    have : ∀ e ∈ Generated.hookDispatch,
        e.2 ∈ ["prestart", "poststart", "poststop", "createruntime", "createcontainer", "startcontainer"] := by
      decide
    exact this e hm

/-! ### hooks -/

def addHooks (o : Oci) (hs : List Hook) : Oci :=
  { o with prestart := o.prestart ++ hooksOf "prestart" hs,
           createRuntime := o.createRuntime ++ hooksOf "createruntime" hs,
           createContainer := o.createContainer ++ hooksOf "createcontainer" hs,
           startContainer := o.startContainer ++ hooksOf "startcontainer" hs,
           poststart := o.poststart ++ hooksOf "poststart" hs,
           poststop := o.poststop ++ hooksOf "poststop" hs }

theorem hooksOf_cons (stage : String) (h : Hook) (rest : List Hook) :
    hooksOf stage (h :: rest) =
      (if hookStage h.hookName == some stage then [hookToOci h] else []) ++ hooksOf stage rest := by
  unfold hooksOf
  simp only [List.filter_cons]
  split <;> simp

theorem applyHooks_ok : ∀ (hs : List Hook) (o : Oci), (∀ h ∈ hs, (hookStage h.hookName).isSome = true) →
    applyHooks (hs.map some) o = .ok (addHooks o hs) := by
  intro hs
  induction hs with
  | nil => intro o _; simp [applyHooks, addHooks, hooksOf]
  | cons h rest ih =>
    intro o hall
    obtain ⟨s, hs⟩ := Option.isSome_iff_exists.mp (hall h (by simp))
    have hrest : ∀ x ∈ rest, (hookStage x.hookName).isSome = true := fun x hx => hall x (by simp [hx])
    have hv := hookStage_values _ _ hs
    simp only [List.map_cons, applyHooks, applyHook, hs]
    simp only [List.mem_cons, List.not_mem_nil, or_false] at hv
    rcases hv with rfl | rfl | rfl | rfl | rfl | rfl <;>
      (simp only []; rw [ih _ hrest]; simp [addHooks, hooksOf_cons, hs, List.append_assoc])

theorem applyHooks_unknown : ∀ (hs : List Hook) (o : Oci), (∃ h ∈ hs, hookStage h.hookName = none) →
    ∀ o', applyHooks (hs.map some) o ≠ .ok o' := by
  intro hs
  induction hs with
  | nil => intro o h; obtain ⟨x, hx, _⟩ := h; cases hx
  | cons h rest ih =>
    intro o hex o'
    simp only [List.map_cons, applyHooks]
    cases hh : applyHook o (some h) with
    | err => simp
    | panic => simp
    | ok o1 =>
      simp only
      apply ih
      obtain ⟨x, hx, hxn⟩ := hex
      rcases List.mem_cons.mp hx with rfl | hx
      · simp [applyHook, hxn] at hh
      · exact ⟨x, hx, hxn⟩

/-! ### auxiliary facts -/

theorem all_isSome_eq {α} (l : List (Option α)) (h : l.all Option.isSome = true) : l = (someVals l).map some := by
  induction l with
  | nil => rfl
  | cons x rest ih =>
    simp only [List.all_cons, Bool.and_eq_true] at h
    cases x with
    | none => simp at h
    | some v => simp only [someVals, List.filterMap_cons, id, List.map_cons]; congr 1; exact ih h.2

theorem nodeToOci_env (o : Oci) (hwf : WFOci o = true) (env : List Str) (d : DeviceNode) :
    nodeToOci { o with hasProcess := true, env := env } d = nodeToOci o d := by
  unfold nodeToOci
  simp only [WFOci, Bool.and_eq_true, Bool.or_eq_true, beq_iff_eq] at hwf
  rcases hwf.2 with hp | hz
  · simp [hp]
  · have h1 : o.uid = 0 := hz.1.1.1
    have h2 : o.gid = 0 := hz.1.1.2
    simp [h1, h2]

/-- the model's result when every stage succeeds -/
theorem apply_ok_shape (host : Str → Option HostNode) (e : Edits) (o o' : Oci)
    (hwf : WFOci o = true) (hnn : noNil e = true) (h : apply host e o = .ok o') :
    ∃ filled, filledNodes host e.deviceNodes = some filled ∧
      (∀ hk ∈ someVals e.hooks, (hookStage hk.hookName).isSome = true) ∧
      o'.env = (if e.env = [] then o.env else addMultipleProcessEnv o.env e.env) ∧
      o'.devices = (filled.map (nodeToOci o)).foldl putDevice o.devices ∧
      o'.rules = o.rules ++ rulesOf o (someVals e.deviceNodes) filled ∧
      o'.mounts = (if someVals e.mounts = [] then o.mounts
                   else stableSortBy mountKey (((someVals e.mounts).map mountToOci).foldl putMount o.mounts)) ∧
      o'.prestart = o.prestart ++ hooksOf "prestart" (someVals e.hooks) ∧
      o'.createRuntime = o.createRuntime ++ hooksOf "createruntime" (someVals e.hooks) ∧
      o'.createContainer = o.createContainer ++ hooksOf "createcontainer" (someVals e.hooks) ∧
      o'.startContainer = o.startContainer ++ hooksOf "startcontainer" (someVals e.hooks) ∧
      o'.poststart = o.poststart ++ hooksOf "poststart" (someVals e.hooks) ∧
      o'.poststop = o.poststop ++ hooksOf "poststop" (someVals e.hooks) ∧
      o'.addGids = e.additionalGids.foldl addGid o.addGids ∧
      o'.rdt = (e.intelRdt.orElse fun _ => o.rdt) ∧
      o'.uid = o.uid ∧ o'.gid = o.gid := by
  simp only [noNil, Bool.and_eq_true] at hnn
  obtain ⟨⟨hn1, hn2⟩, hn3⟩ := hnn
  have e1 := all_isSome_eq _ hn1
  have e2 := all_isSome_eq _ hn2
  have e3 := all_isSome_eq _ hn3
  unfold apply at h
  simp only at h
  -- name the Oci after the env step
  generalize ho1 : (if e.env ≠ [] then { o with hasProcess := true, env := addMultipleProcessEnv o.env e.env } else o) = o1 at h
  have h1env : o1.env = (if e.env = [] then o.env else addMultipleProcessEnv o.env e.env) := by
    rw [← ho1]; by_cases he : e.env = [] <;> simp [he]
  have h1same : o1.devices = o.devices ∧ o1.rules = o.rules ∧ o1.mounts = o.mounts ∧ o1.uid = o.uid ∧
      o1.gid = o.gid ∧ o1.addGids = o.addGids ∧ o1.rdt = o.rdt ∧ o1.prestart = o.prestart ∧
      o1.createRuntime = o.createRuntime ∧ o1.createContainer = o.createContainer ∧
      o1.startContainer = o.startContainer ∧ o1.poststart = o.poststart ∧ o1.poststop = o.poststop := by
    rw [← ho1]; by_cases he : e.env = [] <;> simp [he]
  have h1node : ∀ d, nodeToOci o1 d = nodeToOci o d := by
    intro d; rw [← ho1]; by_cases he : e.env = []
    · simp [he]
    · simp only [ne_eq, he, not_false_eq_true, if_true]; exact nodeToOci_env o hwf _ d
  rw [e1, applyNodes_eq] at h
  rw [← e1] at h
  cases hf : filledNodes host e.deviceNodes with
  | none => rw [hf] at h; simp at h
  | some filled =>
    rw [hf] at h
    simp only at h
    refine ⟨filled, rfl, ?_⟩
    -- mounts
    have hm : (if e.mounts ≠ [] then (applyMounts e.mounts o1.mounts).map (stableSortBy mountKey) else Res.ok o1.mounts) =
        Res.ok (if someVals e.mounts = [] then o.mounts
                else stableSortBy mountKey (((someVals e.mounts).map mountToOci).foldl putMount o.mounts)) := by
      by_cases hme : e.mounts = []
      · simp [hme, someVals, h1same.2.2.1]
      · have hs : someVals e.mounts ≠ [] := by
          intro hse; apply hme; rw [e3, hse]; rfl
        simp only [ne_eq, hme, not_false_eq_true, if_true, hs, if_false]
        rw [e3, applyMounts_eq, h1same.2.2.1]
        simp [Res.map, ← e3]
    rw [hm] at h
    simp only at h
    by_cases hk : ∀ hk ∈ someVals e.hooks, (hookStage hk.hookName).isSome = true
    · rw [e2, applyHooks_ok _ _ hk] at h
      simp only [Res.ok.injEq] at h
      subst h
      refine ⟨hk, ?_⟩
      obtain ⟨s1, s2, s3, s4, s5, s6, s7, s8, s9, s10, s11, s12, s13⟩ := h1same
      have hmap : filled.map (nodeToOci o1) = filled.map (nodeToOci o) :=
        List.map_congr_left (fun d _ => h1node d)
      have hrl : rulesOf o1 (someVals e.deviceNodes) filled = rulesOf o (someVals e.deviceNodes) filled := by
        unfold rulesOf; simp [h1node]
      cases hr : e.intelRdt <;>
        simp [addHooks, h1env, s1, s2, s4, s5, s6, s7, s8, s9, s10, s11, s12, s13, hmap, hrl]
    · exfalso
      have hex : ∃ hh ∈ someVals e.hooks, hookStage hh.hookName = none := by
        have hk' := Classical.not_forall.mp hk
        obtain ⟨x, hx'⟩ := hk'
        have hx'' := Classical.not_imp.mp hx'
        obtain ⟨hx, hxn⟩ := hx''
        refine ⟨x, hx, ?_⟩
        cases hc : hookStage x.hookName with
        | none => rfl
        | some s => rw [hc] at hxn; simp at hxn
      rw [e2] at h
      cases ha : applyHooks ((someVals e.hooks).map some) _ with
      | ok ox => exact applyHooks_unknown _ _ hex ox ha
      | err => rw [ha] at h; simp at h
      | panic => rw [ha] at h; simp at h

/-- **C03 — the property theorem**: for every well-formed initial OCI spec, every edit list
without nil entries and every host, whenever `Apply` succeeds its result is
admissible for the judge — env (last edit per variable, others untouched),
devices (replace by path, host-derived type/major/minor, uid/gid defaulting),
device cgroup rules, mounts (replace by destination, ordered by depth, stable),
hooks per stage, additional GIDs, Intel RDT, and nothing else. -/
theorem C03_apply_meets_spec (host : Str → Option HostNode) (e : Edits) (o o' : Oci)
    (hwf : WFOci o = true) (hnn : noNil e = true) (h : apply host e o = .ok o') :
    judgeApply host e o ⟨false, false, o', true⟩ = none := by
  obtain ⟨filled, hf, hk, henv, hdev, hrules, hmounts, hp1, hp2, hp3, hp4, hp5, hp6, hgid, hrdt, huid, hgidd⟩ :=
    apply_ok_shape host e o o' hwf hnn h
  have hwf' := hwf
  simp only [WFOci, Bool.and_eq_true, List.all_eq_true] at hwf'
  obtain ⟨⟨⟨hw1, hw2⟩, hw3⟩, _⟩ := hwf'
  have hw2' : (o.devices.map (·.path)).Nodup := by simpa using hw2
  have hw3' : (o.mounts.map (·.destination)).Nodup := by simpa using hw3
  have hinit : ∀ x ∈ o.env, cEq ∈ x := by
    intro x hx; have := hw1 x hx; simpa [List.contains_iff_mem] using this
  unfold judgeApply
  simp only [Bool.false_eq_true, if_false, hwf, hnn, Bool.and_self, Bool.not_true, hf]
  have hkall : (someVals e.hooks).all (fun h => (hookStage h.hookName).isSome) = true :=
    List.all_eq_true.mpr hk
  simp only [hkall, Bool.not_true, Bool.false_eq_true, if_false]
  -- env
  have c1 : o'.env = (if e.env = [] then o.env else envSpec o.env e.env) := by
    rw [henv]; by_cases he : e.env = [] <;> simp [he, env_eq o.env e.env hinit]
  -- devices
  have c2 : o'.devices = devicesSpec o filled := by
    rw [hdev, foldl_putDevice _ _ hw2', foldl_putKey]; rfl
  -- rules
  have c3 : o'.rules = rulesSpec o (someVals e.deviceNodes) filled := by rw [hrules]; rfl
  -- mounts
  have hunsorted : ((someVals e.mounts).map mountToOci).foldl putMount o.mounts = mountsUnsorted o (someVals e.mounts) := by
    rw [foldl_putMount _ _ hw3', foldl_putKey]; rfl
  rw [if_neg (by simp [c1]), if_neg (by simp [c2]), if_neg (by simp [c3])]
  have m1 : ¬(someVals e.mounts = [] ∧ o'.mounts ≠ o.mounts) := by
    intro hc; apply hc.2; rw [hmounts, if_pos hc.1]
  have msort : someVals e.mounts ≠ [] →
      o'.mounts = stableSortBy mountKey (mountsUnsorted o (someVals e.mounts)) := by
    intro hme; rw [hmounts, if_neg hme, hunsorted]
  have m2 : ¬(someVals e.mounts ≠ [] ∧ (!sortedBy mountKey o'.mounts) = true) := by
    intro hc
    have := (stableSortBy_spec mountKey (mountsUnsorted o (someVals e.mounts))).1
    rw [← msort hc.1] at this
    rw [this] at hc; simp at hc
  have m3 : ¬(someVals e.mounts ≠ [] ∧ (!(o'.mounts ++ mountsUnsorted o (someVals e.mounts)).all (fun x =>
        o'.mounts.filter (fun m => mountKey m == mountKey x) ==
          (mountsUnsorted o (someVals e.mounts)).filter (fun m => mountKey m == mountKey x))) = true) := by
    intro hc
    have hs2 := (stableSortBy_spec mountKey (mountsUnsorted o (someVals e.mounts))).2
    rw [← msort hc.1] at hs2
    have : (o'.mounts ++ mountsUnsorted o (someVals e.mounts)).all (fun x =>
        o'.mounts.filter (fun m => mountKey m == mountKey x) ==
          (mountsUnsorted o (someVals e.mounts)).filter (fun m => mountKey m == mountKey x)) = true := by
      apply List.all_eq_true.mpr
      intro x _
      rw [hs2 (mountKey x)]; simp
    rw [this] at hc; simp at hc
  have g1 : o'.addGids = gidsSpec o.addGids e.additionalGids := by rw [hgid, gids_eq]
  rw [if_neg m1, if_neg m2, if_neg m3, if_neg (by simp [hp1]), if_neg (by simp [hp2]), if_neg (by simp [hp3]),
    if_neg (by simp [hp4]), if_neg (by simp [hp5]), if_neg (by simp [hp6]), if_neg (by simp [g1]),
    if_neg (by simp [hrdt]), if_neg (by simp [huid, hgidd])]

/-- **C03 (when Apply fails)**: with a well-formed OCI spec and nil-free edits the model
fails exactly when a host device lookup fails or a hook name is unknown — and then
the judge asks for an error. -/
theorem C03_error_cases (host : Str → Option HostNode) (e : Edits) (o : Oci)
    (hwf : WFOci o = true) (hnn : noNil e = true) (h : apply host e o = .err) :
    judgeApply host e o ⟨true, false, {}, true⟩ = none := by
  unfold judgeApply
  simp only [Bool.false_eq_true, if_false, hwf, hnn, Bool.and_self, Bool.not_true]
  cases hf : filledNodes host e.deviceNodes with
  | none => simp
  | some filled =>
    simp only
    by_cases hk : (someVals e.hooks).all (fun h => (hookStage h.hookName).isSome) = true
    · -- everything resolvable: the model cannot fail
      exfalso
      simp only [noNil, Bool.and_eq_true] at hnn
      obtain ⟨⟨hn1, hn2⟩, hn3⟩ := hnn
      have e1 := all_isSome_eq _ hn1
      have e2 := all_isSome_eq _ hn2
      have e3 := all_isSome_eq _ hn3
      unfold apply at h
      simp only at h
      rw [e1, applyNodes_eq, ← e1, hf] at h
      simp only at h
      by_cases hme : e.mounts = []
      · simp only [hme, ne_eq, not_true_eq_false, if_false] at h
        rw [e2, applyHooks_ok _ _ (List.all_eq_true.mp hk)] at h
        simp at h
      · simp only [ne_eq, hme, not_false_eq_true, if_true] at h
        rw [e3, applyMounts_eq] at h
        simp only [Res.map] at h
        rw [e2, applyHooks_ok _ _ (List.all_eq_true.mp hk)] at h
        simp at h
    · simp [hk]

theorem applyHook_no_panic (ox : Oci) (hh : Hook) : applyHook ox (some hh) ≠ .panic := by
  unfold applyHook
  simp only
  split <;> simp

theorem applyHooks_no_panic : ∀ (hs : List Hook) (ox : Oci), applyHooks (hs.map some) ox ≠ .panic := by
  intro hs
  induction hs with
  | nil => intro ox; simp [applyHooks]
  | cons hh rest ih =>
    intro ox
    simp only [List.map_cons, applyHooks]
    cases ha : applyHook ox (some hh) with
    | ok o2 => exact ih o2
    | err => simp
    | panic => exact absurd ha (applyHook_no_panic ox hh)

/-- **C03 (never panics on nil-free edits)** -/
theorem C03_no_panic (host : Str → Option HostNode) (e : Edits) (o : Oci) (hnn : noNil e = true) :
    apply host e o ≠ .panic := by
  simp only [noNil, Bool.and_eq_true] at hnn
  obtain ⟨⟨hn1, hn2⟩, hn3⟩ := hnn
  have e1 := all_isSome_eq _ hn1
  have e2 := all_isSome_eq _ hn2
  have e3 := all_isSome_eq _ hn3
  unfold apply
  simp only
  generalize (if e.env ≠ [] then { o with hasProcess := true, env := addMultipleProcessEnv o.env e.env } else o) = o1
  rw [e1, applyNodes_eq]
  cases filledNodes host ((someVals e.deviceNodes).map some) with
  | none => simp
  | some filled =>
    have hm : ∃ ms, (if e.mounts ≠ [] then (applyMounts e.mounts o1.mounts).map (stableSortBy mountKey)
        else Res.ok o1.mounts) = Res.ok ms := by
      by_cases hme : e.mounts = []
      · exact ⟨o1.mounts, by simp [hme]⟩
      · refine ⟨stableSortBy mountKey (((someVals e.mounts).map mountToOci).foldl putMount o1.mounts), ?_⟩
        simp only [ne_eq, hme, not_false_eq_true, if_true]
        rw [e3, applyMounts_eq]; simp [Res.map, ← e3]
    obtain ⟨ms, hms⟩ := hm
    rw [hms]
    simp only
    rw [e2]
    cases ha : applyHooks ((someVals e.hooks).map some) _ with
    | ok ox => simp
    | err => simp
    | panic => exact absurd ha (applyHooks_no_panic _ _)

/-! ### Non-vacuity / examples -/

def hostEx : Str → Option HostNode := fun p => if p = lit "/dev/nvidia0" then some (.dev (lit "c") 195 0) else none

def ociEx : Oci :=
  { hasProcess := true, env := [lit "PATH=/bin", lit "FOO=old"], uid := 1000, gid := 0,
    mounts := [{ destination := lit "/a/b", source := lit "/x" }, { destination := lit "/a", source := lit "/y" }] }

def editsEx : Edits :=
  { env := [lit "FOO=1", lit "BAR=2", lit "FOO=3"],
    deviceNodes := [some { path := lit "/dev/nvidia0" }],
    mounts := [some { hostPath := lit "/h", containerPath := lit "/a/b" }] }

example : WFOci ociEx = true ∧ noNil editsEx = true := by decide
example : (match apply hostEx editsEx ociEx with
    | .ok r => (r.env, r.devices.map (fun d => (d.type, d.major, d.uid)), r.rules.length, r.mounts.map (·.destination))
    | _ => ([], [], 0, [])) =
    ([lit "PATH=/bin", lit "FOO=old", lit "FOO=3", lit "BAR=2"], [(lit "c", 195, some 1000)], 1, [lit "/a", lit "/a/b"]) := by
  decide

end Cdi.Apply
