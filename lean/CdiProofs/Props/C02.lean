/-
  C02 — Injection is the ordered composition of the selected Specs' and devices' edits.
  (C04 — unresolvable requests — is in Props/C04.lean, over the same loop invariant.)

  Model: CdiModel/Inject.lean (the accumulation loop of Cache.InjectDevices up to
  its single Apply call).  `device` is the cache's resolution function; with
  C01 it is the declarative `resolution`.
-/
import CdiProofs.Props.C01
import CdiModel.Inject
namespace Cdi.Inject
open Cdi Cdi.Cache

theorem contribs_snoc : ∀ (l p0 : List Ref) (r : Ref),
    contribs p0 (l ++ [r]) =
      contribs p0 l ++ ((if firstOfItsSpec (p0 ++ l) r then [r.specEdits] else []) ++ [r.device.edits]) := by
  intro l
  induction l with
  | nil => intro p0 r; simp [contribs]
  | cons a rest ih =>
    intro p0 r
    simp only [List.cons_append, contribs, ih, List.append_assoc]
    simp

theorem combined_snoc (refs : List Ref) (r : Ref) :
    combined (refs ++ [r]) =
      (if firstOfItsSpec refs r then appendEdits (appendEdits (combined refs) r.specEdits) r.device.edits
       else appendEdits (combined refs) r.device.edits) := by
  unfold combined
  rw [contribs_snoc]
  simp only [List.nil_append, List.foldl_append]
  split <;> simp

/-- invariant of the accumulation loop after the requests `pre` -/
def LoopInv (device : Str → Option Ref) (st : LoopState) (pre : List Str) : Prop :=
  st.unresolved = unresolvedOf device pre ∧
  st.edits = combined (pre.filterMap device) ∧
  ∀ k, st.specsSeen.contains k = (pre.filterMap device).any (fun r => specKey r == k)

theorem loopStep_inv (device : Str → Option Ref) (st : LoopState) (pre : List Str) (q : Str)
    (h : LoopInv device st pre) : LoopInv device (loopStep device st q) (pre ++ [q]) := by
  obtain ⟨h1, h2, h3⟩ := h
  unfold loopStep
  cases hd : device q with
  | none =>
    refine ⟨?_, ?_, ?_⟩
    · simp [unresolvedOf, List.filter_append, hd, h1]
    · simp [List.filterMap_append, hd, h2]
    · intro k
      rw [List.filterMap_append]
      simp only [List.filterMap_cons, hd, List.filterMap_nil, List.append_nil]
      exact h3 k
  | some r =>
    have hfm : (pre ++ [q]).filterMap device = pre.filterMap device ++ [r] := by
      simp [List.filterMap_append, hd]
    have hfirst : firstOfItsSpec (pre.filterMap device) r = !st.specsSeen.contains (specKey r) := by
      rw [h3]
      simp only [firstOfItsSpec]
      induction pre.filterMap device with
      | nil => rfl
      | cons a rest ih => simp only [List.all_cons, List.any_cons, ih, Bool.not_or]; rfl
    simp only
    by_cases hc : st.specsSeen.contains (specKey r) = true
    · simp only [hc, if_true]
      refine ⟨?_, ?_, ?_⟩
      · simp [unresolvedOf, List.filter_append, hd, h1]
      · rw [hfm, combined_snoc, hfirst, hc]; simp [h2]
      · intro k
        rw [hfm, List.any_append, ← h3]
        simp only [List.any_cons, List.any_nil, Bool.or_false]
        by_cases hk : specKey r = k
        · subst hk; rw [hc]; simp
        · have : (specKey r == k) = false := by simp [hk]
          rw [this, Bool.or_false]
    · simp only [Bool.not_eq_true] at hc
      simp only [hc, Bool.false_eq_true, if_false]
      refine ⟨?_, ?_, ?_⟩
      · simp [unresolvedOf, List.filter_append, hd, h1]
      · rw [hfm, combined_snoc, hfirst, hc]; simp [h2]
      · intro k
        rw [hfm, List.any_append, ← h3]
        simp only [List.any_cons, List.any_nil, Bool.or_false, List.contains_cons]
        rw [Bool.or_comm]
        congr 1
        apply Bool.eq_iff_iff.mpr
        simp only [beq_iff_eq]; exact ⟨Eq.symm, Eq.symm⟩

theorem loop_inv (device : Str → Option Ref) : ∀ (req pre : List Str) (st : LoopState),
    LoopInv device st pre → LoopInv device (req.foldl (loopStep device) st) (pre ++ req) := by
  intro req
  induction req with
  | nil => intro pre st h; simpa using h
  | cons q rest ih =>
    intro pre st h
    simp only [List.foldl_cons]
    have := ih (pre ++ [q]) _ (loopStep_inv device st pre q h)
    simpa using this

theorem loop_result (device : Str → Option Ref) (req : List Str) :
    LoopInv device (req.foldl (loopStep device) {}) req := by
  have := loop_inv device req [] {} ⟨rfl, rfl, fun k => rfl⟩
  simpa using this

/-- **C02 — the property theorem**: when every requested name resolves, the OCI spec is
edited by exactly one `Apply` of the combined list: for each device in request
order, the spec-level edits of the file it resolves to (only the first time a
device of that file is met) followed by the device's own edits. -/
theorem C02_inject_eq_apply_combined (device : Str → Option Ref) (req : List Str)
    (hall : ∀ q ∈ req, (device q).isSome = true) :
    injectDevices device false req = .apply (combined (req.filterMap device)) := by
  obtain ⟨h1, h2, _⟩ := loop_result device req
  unfold injectDevices
  have hu : unresolvedOf device req = [] := by
    unfold unresolvedOf
    apply List.filter_eq_nil_iff.mpr
    intro q hq
    have := hall q hq
    cases hd : device q <;> simp_all
  simp only [Bool.false_eq_true, if_false, h1, hu, ne_eq, not_true_eq_false, h2]

/-- **C02 (nothing else can appear)**: the outcome depends on the cache only through the
resolution of the requested names (with the spec-level edits of the owning
files) — unrequested devices, shadowed files and uninvolved files cannot contribute. -/
theorem C02_depends_only_on_selected (d1 d2 : Str → Option Ref) (nilOci : Bool) (req : List Str)
    (h : ∀ q ∈ req, d1 q = d2 q) : injectDevices d1 nilOci req = injectDevices d2 nilOci req := by
  unfold injectDevices
  have : ∀ (l : List Str) (st : LoopState), (∀ q ∈ l, d1 q = d2 q) →
      l.foldl (loopStep d1) st = l.foldl (loopStep d2) st := by
    intro l
    induction l with
    | nil => intro st _; rfl
    | cons q rest ih =>
      intro st hl
      simp only [List.foldl_cons]
      have : loopStep d1 st q = loopStep d2 st q := by
        unfold loopStep; rw [hl q (by simp)]
      rw [this]
      exact ih _ (fun x hx => hl x (by simp [hx]))
  rw [this req {} h]

/-! ### Non-vacuity -/
def refA : Ref := ⟨lit "/d/a.json", 0, lit "v", lit "c", { name := lit "x", edits := { env := [lit "D=x"] } }, { env := [lit "S=a"] }⟩
def refA2 : Ref := { refA with device := { name := lit "y", edits := { env := [lit "D=y"] } } }
def refB : Ref := ⟨lit "/d/b.json", 0, lit "v", lit "k", { name := lit "z", edits := { env := [lit "D=z"] } }, { env := [lit "S=b"] }⟩
/-- interleaved request x(a) z(b) y(a): spec edits of a once, before its first device -/
example : (combined [refA, refB, refA2]).env = [lit "S=a", lit "D=x", lit "S=b", lit "D=z", lit "D=y"] := by decide

end Cdi.Inject
