/-
  C13 — A bad Spec file or directory affects only itself and is reported.

  Model: CdiModel/Cache.lean with faults as `EntryKind` / `DirState` constructors.
-/
import CdiProofs.Props.C01
namespace Cdi.Cache
open Cdi

/-! ### an unscannable, unreadable or missing directory is skipped — the scan goes on -/

def faulty : DirState → Bool
  | .missing | .unscannable | .unreadable => true
  | _ => false

/-- what a faulty directory itself contributes: nothing, or — if it exists but cannot be listed —
one error report under its own path -/
def faultReport (p : Nat) (d : Str) : DirState → List ScanItem
  | .unreadable => [⟨d, p, none⟩]
  | _ => []

theorem scanDir_faulty (p : Nat) (d : Str) (st : DirState) (h : faulty st = true) :
    scanDir true p d st = some (faultReport p d st) := by
  cases st <;> simp [faulty] at h <;> simp [scanDir, faultReport]

theorem scanFrom_append (skip : Bool) : ∀ (pre post : List (Str × DirState)) (p : Nat),
    (∀ d ∈ pre, (scanDir skip 0 d.1 d.2).isSome ∨ True) →
    (∀ (q : Nat) (d : Str × DirState), d ∈ pre → (scanDir skip q d.1 d.2).isSome = true) →
    scanFrom skip p (pre ++ post) = scanFrom skip p pre ++ scanFrom skip (p + pre.length) post := by
  intro pre
  induction pre with
  | nil => intro post p _ _; simp [scanFrom]
  | cons d rest ih =>
    intro post p h0 h
    obtain ⟨dir, st⟩ := d
    simp only [List.cons_append, scanFrom]
    have hs := h p (dir, st) (by simp)
    cases hd : scanDir skip p dir st with
    | none => rw [hd] at hs; cases hs
    | some items =>
      simp only
      rw [ih post (p + 1) (fun _ _ => Or.inr trivial) (fun q d hd => h q d (by simp [hd]))]
      have hl : p + ((dir, st) :: rest).length = p + 1 + rest.length := by simp only [List.length_cons]; omega
      rw [hl, List.append_assoc]

theorem scanDir_total (p : Nat) (d : Str) (st : DirState) : (scanDir true p d st).isSome = true := by
  cases st with
  | dir entries =>
    simp only [scanDir]
    induction entries with
    | nil => simp [scanDir.go]
    | cons e rest ih =>
      unfold scanDir.go
      cases e.kind with
      | file c => simp only; cases h : scanDir.go true p d rest <;> simp_all
      | subdir => simpa using ih
      | vanished => simpa using ih
      | lstatError => simp only [if_true]; cases h : scanDir.go true p d rest <;> simp_all
  | _ => simp [scanDir]

/-- **C13 (a faulty directory hides nothing)**: inserting a missing, unscannable or
unreadable directory anywhere in the list leaves every other directory's files in
the scan, in the same relative precedence (priorities after it shift by one); the faulty
directory contributes nothing but, if it cannot be listed, its own error report. -/
theorem C13_scan_continues (pre post : List (Str × DirState)) (d : Str) (st : DirState)
    (h : faulty st = true) (p : Nat) :
    scanFrom true p (pre ++ (d, st) :: post) =
      scanFrom true p pre ++ faultReport (p + pre.length) d st ++ scanFrom true (p + pre.length + 1) post := by
  rw [scanFrom_append true pre _ p (fun _ _ => Or.inr trivial) (fun q x _ => scanDir_total q x.1 x.2)]
  simp only [scanFrom, scanDir_faulty _ _ _ h, List.append_assoc]

/-- **C13 (isolation)**: whatever faults are placed among directories and files, every
name resolves exactly as the precedence rule says over the files that did load. -/
theorem C13_isolation (dirs : List (Str × DirState)) (q : Str) :
    (refresh (scan dirs)).device q = resolution q (scan dirs) := C01_resolve_iff dirs q

/-! ### the error report -/

/-- events of the refresh loop, flattened -/
inductive Ev where
  | fail (path : Str)
  | spec (info : SpecInfo)
  | ref (r : Ref)

def evStep (clear : Bool) (st : RState) : Ev → RState
  | .fail p => { st with errors := st.errors ++ [p] }
  | .spec i => { st with specs := st.specs ++ [i] }
  | .ref r => addDevice clear st r

def flatten1 (it : ScanItem) : List Ev :=
  match it.spec with
  | none => [.fail (Path.clean it.path)]
  | some s =>
    let vc := Parser.parseQualifier s.kind
    .spec ⟨Path.clean it.path, it.prio, vc.1, vc.2, s⟩ :: (refsOf (Path.clean it.path) it.prio s).map .ref

theorem step_flatten (clear : Bool) (st : RState) (it : ScanItem) :
    step clear st it = (flatten1 it).foldl (evStep clear) st := by
  unfold step flatten1
  cases it.spec with
  | none => rfl
  | some s =>
    simp only [List.foldl_cons, evStep, List.foldl_map]

/-- refs among the events processed so far -/
def evRefs (evs : List Ev) : List Ref := evs.filterMap (fun e => match e with | .ref r => some r | _ => none)
def evFails (evs : List Ev) : List Str := evs.filterMap (fun e => match e with | .fail p => some p | _ => none)

/-- invariant: holders are processed definitions of their name; every reported path
is a failed file or belongs to a same-priority conflict among the processed definitions -/
def EInv (st : RState) (done : List Ev) : Prop :=
  (∀ q old, st.devices q = some old → old ∈ evRefs done ∧ old.qname = q) ∧
  (∀ p ∈ st.errors, p ∈ evFails done ∨ ∃ r ∈ evRefs done, r.path = p ∧ inConflict (evRefs done) r = true)

theorem inConflict_mono (a b : List Ref) (r : Ref) (h : inConflict a r = true) : inConflict (a ++ b) r = true := by
  simp only [inConflict, decide_eq_true_eq, List.filter_append, List.length_append] at h ⊢
  omega

theorem inConflict_pair (done : List Ref) (old r : Ref) (ho : old ∈ done)
    (hq : old.qname = r.qname) (hp : old.prio = r.prio) :
    inConflict (done ++ [r]) r = true ∧ inConflict (done ++ [r]) old = true := by
  have h1 : 1 ≤ (done.filter (fun x => x.qname == r.qname && x.prio == r.prio)).length := by
    apply List.length_pos_iff.mpr
    intro he
    have : old ∈ done.filter (fun x => x.qname == r.qname && x.prio == r.prio) := by
      simp [List.mem_filter, ho, hq, hp]
    rw [he] at this; cases this
  constructor
  · simp only [inConflict, decide_eq_true_eq, List.filter_append, List.length_append]
    simp; omega
  · simp only [inConflict, decide_eq_true_eq, List.filter_append, List.length_append, hq, hp]
    simp; omega

theorem evStep_inv (st : RState) (done : List Ev) (e : Ev) (h : EInv st done) :
    EInv (evStep true st e) (done ++ [e]) := by
  obtain ⟨h1, h2⟩ := h
  cases e with
  | fail p =>
    refine ⟨?_, ?_⟩
    · intro q old ho
      have := h1 q old ho
      simpa [evRefs, List.filterMap_append] using this
    · intro x hx
      simp only [evStep, List.mem_append, List.mem_singleton] at hx
      rcases hx with hx | hx
      · rcases h2 x hx with h | ⟨r, hr, hrp, hc⟩
        · left; simp [evFails, List.filterMap_append] at h ⊢; exact Or.inl h
        · right; exact ⟨r, by simpa [evRefs, List.filterMap_append] using hr, hrp,
            by simpa [evRefs, List.filterMap_append] using hc⟩
      · left; subst hx; simp [evFails, List.filterMap_append]
  | spec i =>
    refine ⟨?_, ?_⟩
    · intro q old ho
      have := h1 q old ho
      simpa [evRefs, List.filterMap_append] using this
    · intro x hx
      rcases h2 x hx with h | ⟨r, hr, hrp, hc⟩
      · left; simpa [evFails, List.filterMap_append] using h
      · right; exact ⟨r, by simpa [evRefs, List.filterMap_append] using hr, hrp,
          by simpa [evRefs, List.filterMap_append] using hc⟩
  | ref r =>
    have hrefs : evRefs (done ++ [Ev.ref r]) = evRefs done ++ [r] := by
      simp [evRefs, List.filterMap_append]
    have hfails : evFails (done ++ [Ev.ref r]) = evFails done := by
      simp [evFails, List.filterMap_append]
    rw [EInv, hrefs, hfails]
    simp only [evStep]
    -- errors carried over stay justified (conflicts only grow)
    have carry : ∀ p ∈ st.errors, p ∈ evFails done ∨
        ∃ x ∈ evRefs done ++ [r], x.path = p ∧ inConflict (evRefs done ++ [r]) x = true := by
      intro p hp
      rcases h2 p hp with h | ⟨x, hx, hxp, hc⟩
      · exact Or.inl h
      · exact Or.inr ⟨x, by simp [hx], hxp, inConflict_mono _ _ _ hc⟩
    unfold addDevice
    simp only
    cases hd : st.devices r.qname with
    | none =>
      refine ⟨?_, carry⟩
      intro q old ho
      simp only [setDev] at ho
      split at ho
      · next hq => simp at ho; subst ho; exact ⟨by simp, hq.symm⟩
      · have := h1 q old ho; exact ⟨by simp [this.1], this.2⟩
    | some old =>
      obtain ⟨hold1, hold2⟩ := h1 r.qname old hd
      simp only
      by_cases hgt : r.prio > old.prio
      · simp only [if_pos hgt]
        refine ⟨?_, carry⟩
        intro q o ho
        simp only [setDev] at ho
        split at ho
        · next hq => simp at ho; subst ho; exact ⟨by simp, hq.symm⟩
        · have := h1 q o ho; exact ⟨by simp [this.1], this.2⟩
      · by_cases heq : r.prio = old.prio
        · simp only [if_neg hgt, if_pos heq]
          obtain ⟨c1, c2⟩ := inConflict_pair (evRefs done) old r hold1 hold2 heq.symm
          refine ⟨?_, ?_⟩
          · intro q o ho
            have := h1 q o ho; exact ⟨by simp [this.1], this.2⟩
          · intro p hp
            simp only [List.mem_append, List.mem_cons, List.not_mem_nil, or_false] at hp
            rcases hp with hp | hp | hp
            · exact carry p hp
            · right; exact ⟨r, by simp, hp.symm, c1⟩
            · right; exact ⟨old, by simp [hold1], hp.symm, c2⟩
        · simp only [if_neg hgt, if_neg heq]
          refine ⟨?_, carry⟩
          intro q o ho
          have := h1 q o ho; exact ⟨by simp [this.1], this.2⟩

theorem evFold_inv : ∀ (evs done : List Ev) (st : RState), EInv st done →
    EInv (evs.foldl (evStep true) st) (done ++ evs) := by
  intro evs
  induction evs with
  | nil => intro done st h; simpa using h
  | cons e rest ih =>
    intro done st h
    simp only [List.foldl_cons]
    have := ih (done ++ [e]) _ (evStep_inv st done e h)
    simpa using this

theorem refresh_as_events : ∀ (items : List ScanItem) (st : RState),
    items.foldl (step true) st = (items.flatMap flatten1).foldl (evStep true) st := by
  intro items
  induction items with
  | nil => intro st; rfl
  | cons it rest ih =>
    intro st
    simp only [List.foldl_cons, List.flatMap_cons, List.foldl_append]
    rw [step_flatten, ih]

theorem filterMap_ref (l : List Ref) :
    (l.map Ev.ref).filterMap (fun e => match e with | .ref r => some r | _ => none) = l := by
  induction l with
  | nil => rfl
  | cons a r ih => simp [List.filterMap_cons, ih]

theorem filterMap_ref_fail (l : List Ref) :
    (l.map Ev.ref).filterMap (fun e => match e with | .fail p => some p | _ => none) = [] := by
  induction l with
  | nil => rfl
  | cons a r ih => simp [List.filterMap_cons, ih]

theorem evRefs_flatten (items : List ScanItem) : evRefs (items.flatMap flatten1) = allRefs items := by
  induction items with
  | nil => rfl
  | cons it rest ih =>
    simp only [List.flatMap_cons, evRefs, List.filterMap_append, allRefs] at ih ⊢
    rw [ih]
    congr 1
    unfold flatten1
    cases it.spec with
    | none => rfl
    | some s => simp only [List.filterMap_cons]; exact filterMap_ref _

theorem evFails_flatten (items : List ScanItem) : evFails (items.flatMap flatten1) = failedPaths items := by
  induction items with
  | nil => rfl
  | cons it rest ih =>
    simp only [List.flatMap_cons, evFails, List.filterMap_append, failedPaths, List.filterMap_cons] at ih ⊢
    rw [ih]
    unfold flatten1
    cases hs : it.spec with
    | none => simp
    | some s => simp only [List.filterMap_cons, Option.isNone_some, Bool.false_eq_true, if_false]; rw [filterMap_ref_fail]; simp

/-- **C13 (nothing else is reported)**: every path in the error report is a file that
failed to load or a file taking part in a same-priority conflict. -/
theorem C13_errors_sound (items : List ScanItem) :
    ∀ p ∈ (refresh items).errors, p ∈ failedPaths items ∨ p ∈ conflictPaths items := by
  intro p hp
  unfold refresh refreshWith at hp
  rw [refresh_as_events] at hp
  have hinv := evFold_inv (items.flatMap flatten1) [] {}
    ⟨fun q old h => absurd h (by simp), fun p h => absurd h (by simp)⟩
  simp only [List.nil_append] at hinv
  rcases hinv.2 p hp with h | ⟨r, hr, hrp, hc⟩
  · left; rwa [evFails_flatten] at h
  · right
    rw [evRefs_flatten] at hr hc
    simp only [conflictPaths, List.mem_map, List.mem_filter]
    exact ⟨r, ⟨hr, hc⟩, hrp⟩

theorem foldl_addDevice_errors_mono (clear : Bool) : ∀ (refs : List Ref) (st : RState) (p : Str),
    p ∈ st.errors → p ∈ (refs.foldl (addDevice clear) st).errors := by
  intro refs
  induction refs with
  | nil => intro st p h; exact h
  | cons r rest ih =>
    intro st p h
    simp only [List.foldl_cons]
    apply ih
    unfold addDevice
    simp only
    split
    · exact h
    · split
      · exact h
      · split
        · simp [h]
        · exact h

theorem step_errors_mono (st : RState) (it : ScanItem) (p : Str) (h : p ∈ st.errors) :
    p ∈ (step true st it).errors := by
  unfold step
  cases it.spec with
  | none => simp [h]
  | some s => exact foldl_addDevice_errors_mono true _ _ p (by simpa using h)

theorem foldl_step_errors_mono : ∀ (items : List ScanItem) (st : RState) (p : Str),
    p ∈ st.errors → p ∈ (items.foldl (step true) st).errors := by
  intro items
  induction items with
  | nil => intro st p h; exact h
  | cons it rest ih => intro st p h; exact ih _ p (step_errors_mono st it p h)

/-- **C13 (every failing file is reported)** -/
theorem C13_failed_reported : ∀ (items : List ScanItem) (st : RState),
    ∀ p ∈ failedPaths items, p ∈ (items.foldl (step true) st).errors := by
  intro items
  induction items with
  | nil => intro st p h; cases h
  | cons it rest ih =>
    intro st p h
    simp only [List.foldl_cons]
    simp only [failedPaths, List.filterMap_cons] at h
    cases hs : it.spec with
    | none =>
      rw [hs] at h
      simp only [Option.isNone_none, if_true, List.mem_cons] at h
      rcases h with rfl | h
      · apply foldl_step_errors_mono
        simp [step, hs]
      · exact ih _ p (by simpa [failedPaths] using h)
    | some s =>
      rw [hs] at h
      simp only [Option.isNone_some, Bool.false_eq_true, if_false] at h
      exact ih _ p (by simpa [failedPaths] using h)

/-- **C13 (refresh error)**: an explicit refresh reports an error whenever a file failed
to load, and reports none when every file loaded and no two files define the same
name at the same priority. -/
theorem C13_refresh_error (items : List ScanItem) :
    (failedPaths items ≠ [] → (refresh items).errors ≠ []) ∧
    (failedPaths items = [] → conflictPaths items = [] → (refresh items).errors = []) := by
  constructor
  · intro h he
    obtain ⟨p, hp⟩ := List.exists_mem_of_ne_nil _ h
    have := C13_failed_reported items {} p hp
    unfold refresh refreshWith at he
    rw [he] at this; cases this
  · intro h1 h2
    apply List.eq_nil_iff_forall_not_mem.mpr
    intro p hp
    rcases C13_errors_sound items p hp with h | h
    · rw [h1] at h; cases h
    · rw [h2] at h; cases h

/-! ### Sensitivity: the pinned scan stops at a directory it cannot stat -/

def goodDir : Str × DirState :=
  (lit "/good", .dir [⟨lit "a.json", .file (some (mkSpec "d"))⟩])

example : scanPinned [(lit "/file/sub", .unscannable), goodDir] = [] := by decide
example : (scan [(lit "/file/sub", .unscannable), goodDir]).map (·.path) = [lit "/good/a.json"] := by decide

end Cdi.Cache
