/-
  C16 — Generated Spec file names are confined; write and remove are symmetric.

  Model: CdiModel/Names.lean over the lexical path model CdiModel/Path.lean
  (validated against path/filepath by the `path` stream).  Judges: NamesSpec.
-/
import CdiProofs.Lemmas.Path
import CdiProofs.Lemmas.Parser
import CdiModel.NamesSpec
import CdiProofs.Props.C01
namespace Cdi.Names
open Cdi Cdi.Path Cdi.Parser

/-! ### Fact obligations -/

/-- F6: every extension test in spec.go / cache.go / spec-dirs.go compares against
exactly ".json" and ".yaml" (the writer's single test is ".yaml" = YAML encoder). -/
theorem F6_extension_tests :
    Generated.extTests.all (fun t => t.2 == [".json", ".yaml"] || (t.1 == "pkg/cdi/spec.go:write" && t.2 == [".yaml"])) = true := by
  decide

theorem F6_sites_present :
    ["pkg/cdi/spec.go:newSpec", "pkg/cdi/spec.go:write", "pkg/cdi/cache.go:WriteSpec",
     "pkg/cdi/cache.go:RemoveSpec", "pkg/cdi/cache.go:watch", "pkg/cdi/spec-dirs.go:scanSpecDirs"].all
      (fun s => Generated.extTests.any (fun t => t.1 == s)) = true := by decide

theorem F6_default_ext : Generated.defaultSpecExt = ".yaml" := by decide

/-! ### Generated names are single path components -/

theorem replaceByte_no_old (old new : Byte) (h : new ≠ old) (s : Str) : old ∉ replaceByte old new s := by
  intro hm
  simp only [replaceByte, List.mem_map] at hm
  obtain ⟨x, _, hx⟩ := hm
  split at hx
  · exact h hx
  · next hne => exact hne hx

theorem singleComponent_iff (n : Str) :
    singleComponent n = true ↔ n ≠ [] ∧ cSlash ∉ n ∧ n ≠ dot ∧ n ≠ dotdot := by
  simp only [singleComponent, Bool.and_eq_true, decide_eq_true_eq, List.all_eq_true, bne_iff_ne, ne_eq]
  constructor
  · rintro ⟨⟨⟨h1, h2⟩, h3⟩, h4⟩
    exact ⟨h1, fun hm => h2 _ hm rfl, h3, h4⟩
  · rintro ⟨h1, h2, h3, h4⟩
    exact ⟨⟨⟨h1, fun x hx e => h2 (e ▸ hx)⟩, h3⟩, h4⟩

theorem vcOK_head_letter {s : Str} (h : vcOK s = true) : ∃ c r, s = c :: r ∧ isLetter c = true := by
  cases s with
  | nil => simp [vcOK] at h
  | cons c r =>
    refine ⟨c, r, rfl, ?_⟩
    unfold vcOK at h
    split at h
    · next h' l heq _ =>
      simp only [List.head?_cons, Option.some.injEq] at heq
      simp only [Bool.and_eq_true] at h
      rw [heq]; exact h.1.1
    · cases h

theorem letter_ne_dot {c : Byte} (h : isLetter c = true) : c ≠ cDot := by
  intro e; subst e; revert h; decide

/-- **C16 (single component)**: for a valid vendor and class and *any* transient
id, both generated names are non-empty, contain no '/', and are neither "." nor "..". -/
theorem C16_single_component {v c : Str} (hv : vcOK v = true) (hc : vcOK c = true) (id : Str) :
    singleComponent (generateSpecName v c) = true ∧
    singleComponent (generateTransientSpecName v c id) = true := by
  obtain ⟨h0, r, rfl, hl⟩ := vcOK_head_letter hv
  have hvs := vcOK_no_slash hv
  have hcs := vcOK_no_slash hc
  have hne : h0 ≠ cDot := letter_ne_dot hl
  have hd : cSlash ≠ cDash := by decide
  have hu : cSlash ≠ cUnder := by decide
  have hrep := replaceByte_no_old cSlash cUnder (Ne.symm hu) id
  have hspec : cSlash ∉ generateSpecName (h0 :: r) c := by
    intro hm
    simp only [generateSpecName, List.mem_append] at hm
    rcases hm with hm | hm
    · exact hvs hm
    · rcases List.mem_cons.mp hm with hm | hm
      · exact hd hm
      · exact hcs hm
  constructor
  · rw [singleComponent_iff]
    refine ⟨by simp [generateSpecName], hspec, ?_, ?_⟩
    · simp [generateSpecName, dot, hne]
    · simp [generateSpecName, dotdot, hne]
  · rw [singleComponent_iff]
    refine ⟨by simp [generateTransientSpecName, generateSpecName], ?_, ?_, ?_⟩
    · intro hm
      simp only [generateTransientSpecName, List.mem_append] at hm
      rcases hm with hm | hm
      · exact hspec hm
      · rcases List.mem_cons.mp hm with hm | hm
        · exact hu hm
        · exact hrep hm
    · simp [generateTransientSpecName, generateSpecName, dot, hne]
    · simp [generateTransientSpecName, generateSpecName, dotdot, hne]

/-! ### Confinement: the target is exactly one component below the last directory -/

theorem yaml_no_slash : cSlash ∉ defaultSpecExt := by decide

/-- `Join(d, n)` for a non-empty directory and a single-component name: `Clean`'s
stack for the directory with the name pushed on top. -/
theorem join2_single {d n : Str} (hd : d ≠ []) (hn : singleComponent n = true) :
    join2 d n = render (isRooted d) (n :: cleanStack d) := by
  obtain ⟨hn1, hn2, hn3, hn4⟩ := (singleComponent_iff n).mp hn
  have hne : d ++ cSlash :: n ≠ [] := by
    intro h; exact hd (List.append_eq_nil_iff.mp h).1
  have hroot : isRooted (d ++ cSlash :: n) = isRooted d := by
    obtain ⟨c, r, rfl⟩ := List.exists_cons_of_ne_nil hd
    simp [isRooted]
  simp only [join2, hd, hn1, false_and, if_false]
  rw [clean_eq_render hne]
  unfold cleanStack
  rw [hroot, components_append, components_single hn1 hn2, List.foldl_append]
  simp only [List.foldl_cons, List.foldl_nil]
  congr 1
  simp [pushComp, hn3, hn4]

/-- **C16 (confinement)**: writing under a single-component name targets a path
whose components are those of the (cleaned) last directory followed by exactly
one more component — the name itself if it carries a ".json"/".yaml" extension,
otherwise the name with ".yaml" appended — and which is rooted iff the
directory is.  It therefore lies directly inside the last configured directory
whatever the name (no "..", no nested path, no other directory). -/
theorem C16_confined (dirs : List Str) {d n : Str} (hd : d ≠ []) (hn : singleComponent n = true) :
    ∃ t, writePath (dirs ++ [d]) n = some t ∧
      components t = (cleanStack d).reverse ++
        [if isSpecExt (ext n) then n else n ++ defaultSpecExt] ∧
      isRooted t = isRooted d := by
  obtain ⟨hn1, hn2, hn3, hn4⟩ := (singleComponent_iff n).mp hn
  have hwf : ∀ x ∈ cleanStack d, WfComp x := cleanStack_wf d
  have hj := join2_single hd hn
  have hext : ext (join2 d n) = ext n := by
    rw [hj]
    obtain ⟨X, hX, hX'⟩ := render_top (isRooted d) (cleanStack d) n hn1
    rw [hX]; exact ext_append_last X n hn2 hX'
  simp only [writePath, List.getLast?_append, List.getLast?_singleton, Option.some_or, hd, if_false,
    withDefaultExt, hext]
  by_cases he : isSpecExt (ext n) = true
  · simp only [he, if_true]
    refine ⟨_, rfl, ?_, ?_⟩
    · rw [hj, components_render _ _ (by simp) (by
        intro x hx; rcases List.mem_cons.mp hx with h | h
        · subst h; exact ⟨hn1, hn2⟩
        · exact hwf x h)]
      simp
    · rw [hj, isRooted_render _ _ (by simp) (by
        intro x hx; rcases List.mem_cons.mp hx with h | h
        · subst h; exact ⟨hn1, hn2⟩
        · exact hwf x h)]
  · simp only [he, Bool.false_eq_true, if_false]
    have hwf2 : ∀ x ∈ (n ++ defaultSpecExt) :: cleanStack d, WfComp x := by
      intro x hx; rcases List.mem_cons.mp hx with h | h
      · subst h
        refine ⟨by simp [hn1], ?_⟩
        intro hm
        rcases List.mem_append.mp hm with h | h
        · exact hn2 h
        · exact yaml_no_slash h
      · exact hwf x h
    refine ⟨_, rfl, ?_, ?_⟩
    · rw [hj, render_append_top _ _ _ _ hn1, components_render _ _ (by simp) hwf2]
      simp
    · rw [hj, render_append_top _ _ _ _ hn1, isRooted_render _ _ (by simp) hwf2]

/-- **C16 (symmetry)**: `RemoveSpec` computes the same path as `WriteSpec` for every
directory list and every name. -/
theorem C16_symmetric (dirs : List Str) (name : Str) : removePath dirs name = writePath dirs name := rfl

theorem ext_append_yaml (p : Str) : ext (p ++ defaultSpecExt) = yamlExt := by
  unfold ext
  rw [List.reverse_append]
  have : defaultSpecExt.reverse = [108, 109, 97, 121, 46] := by decide
  rw [this]
  simp [ext.go, cSlash, cDot]
  decide

/-- **C16 (encoding choice)**: the written file is JSON iff the name's extension is
".json"; in every other case it is YAML and its name ends in ".yaml". -/
theorem C16_encoding_choice (p : Str) :
    writesYaml (withDefaultExt p) = !(ext p == jsonExt) ∧
    isSpecExt (ext (withDefaultExt p)) = true := by
  unfold withDefaultExt writesYaml
  by_cases h : isSpecExt (ext p) = true
  · simp only [h, if_true, and_true]
    simp only [isSpecExt, Bool.or_eq_true, beq_iff_eq] at h
    rcases h with h | h
    · rw [h]; decide
    · rw [h]; decide
  · simp only [h, Bool.false_eq_true, if_false, ext_append_yaml]
    simp only [isSpecExt, Bool.or_eq_true, beq_iff_eq, not_or] at h
    refine ⟨?_, by decide⟩
    have : (ext p == jsonExt) = false := by simpa using h.1
    rw [this]; decide

/-- the path `newSpec` records is what `WriteSpec` computed when that is already clean
(the harness checks `Clean` idempotence on every target; see the `names` stream) -/
theorem C16_newSpecPath_of_clean (p : Str) (hc : clean p = p) (he : isSpecExt (ext p) = true) :
    newSpecPath p = p := by
  simp [newSpecPath, withDefaultExt, hc, he]

/-! ### Non-vacuity -/
example : writePath [lit "/etc/cdi", lit "/var/run/cdi"] (lit "vendor.com-gpu_a_b") =
    some (lit "/var/run/cdi/vendor.com-gpu_a_b.yaml") := by decide
example : singleComponent (generateTransientSpecName (lit "vendor.com") (lit "gpu") (lit "../../etc/passwd")) = true := by
  decide

/-- **C16 (the written file takes precedence)**: `writePath` puts the file into the last configured directory
(`C16_confined`), whose priority - its index - is above that of every other directory. By C01 the resolution of a
name is the `winner` among its definitions; if the written file's definition `r` is the only one at that priority
(I7: no other file of the last directory defines the device), every other definition lies strictly below it and
the device resolves to the written file - however many files of the other directories define it, in conflict
with each other or not. -/
theorem C16_precedence (pre post : List Cache.Ref) (r : Cache.Ref)
    (h : ∀ x ∈ pre ++ post, x.prio < r.prio) : Cache.winner (pre ++ r :: post) = some r :=
  Cache.C01_strict_top_wins pre post r h

end Cdi.Names
