/-
  C10 — Spec files are published atomically.

  Model: CdiModel/FsWrite.lean (inode-level directory; the writer's operation
  sequence with faults; every prefix = every crash point).
-/
import CdiModel.FsWrite
import CdiProofs.Lemmas.Path
namespace Cdi.FsWrite
open Cdi

/-! ### Fact obligations (F6) -/

theorem F6_tmp_pattern : Generated.tmpPattern = "spec.*.tmp" := by decide

/-- F6: `(*Spec).write` touches the file system only through MkdirAll, CreateTemp, Write, Close,
the rename helper and Remove — no direct write to the target name -/
theorem F6_write_calls : Generated.writeCalls = ["mkdirAll", "createTemp", "write", "close", "rename", "remove"] := by
  decide

theorem tempName_shape (random : Str) : tempNameOf tmpPattern random = lit "spec." ++ random ++ lit ".tmp" := by
  have : tmpPattern = lit "spec.*.tmp" := by decide
  rw [this]
  simp [tempNameOf, lit, splitFirst]

theorem ext_append_tmp (p : Str) : Path.ext (p ++ lit ".tmp") = lit ".tmp" := by
  unfold Path.ext
  rw [List.reverse_append]
  have : (lit ".tmp").reverse = [112, 109, 116, 46] := by decide
  rw [this]
  simp [Path.ext.go, cSlash, cDot]
  decide

/-- **C10 (the temporary file is never a Spec name)**: whatever random part CreateTemp picks,
the name ends in ".tmp" and is ignored by the directory scan. -/
theorem C10_tmp_not_spec_name (random : Str) : isSpecName (tempNameOf tmpPattern random) = false := by
  rw [tempName_shape]
  simp only [isSpecName, ext_append_tmp]
  decide

/-! ### the directory during a write -/

/-- inode numbers in use are below `next` -/
def WF (fs : FS) : Prop := (∀ p ∈ fs.names, p.2 < fs.next) ∧ (∀ p ∈ fs.data, p.1 < fs.next)

theorem lookup_unbind_ne (names : List (Str × Nat)) (t n : Str) (h : n ≠ t) :
    lookup n (unbind names t) = lookup n names := by
  induction names with
  | nil => rfl
  | cons p rest ih =>
    obtain ⟨k, v⟩ := p
    simp only [unbind, List.filter_cons]
    by_cases hk : k = t
    · subst hk
      have : (k != k) = false := by simp
      simp only [this, Bool.false_eq_true, if_false]
      have hne : k ≠ n := fun e => h e.symm
      simp only [lookup, hne, if_false]
      exact ih
    · have : (k != t) = true := by simp [hk]
      simp only [this, if_true, lookup]
      split
      · rfl
      · exact ih

theorem lookup_unbind_self (names : List (Str × Nat)) (t : Str) : lookup t (unbind names t) = none := by
  induction names with
  | nil => rfl
  | cons p rest ih =>
    obtain ⟨k, v⟩ := p
    simp only [unbind, List.filter_cons]
    by_cases hk : k = t
    · subst hk; simp; exact ih
    · have : (k != t) = true := by simp [hk]
      simp only [this, if_true, lookup, hk, if_false]; exact ih

theorem lookup_lt {names : List (Str × Nat)} {n : Str} {i b : Nat} (h : ∀ p ∈ names, p.2 < b)
    (hl : lookup n names = some i) : i < b := by
  induction names with
  | nil => cases hl
  | cons p rest ih =>
    obtain ⟨k, v⟩ := p
    simp only [lookup] at hl
    split at hl
    · cases hl; exact h (k, i) (by simp)
    · exact ih (fun q hq => h q (by simp [hq])) hl

/-- a name other than the temp/target keeps its inode and an old inode keeps its content
across the three writer operations -/
theorem read_createTemp (fs : FS) (hwf : WF fs) (tmp n : Str) (hn : n ≠ tmp) :
    (step fs (.createTemp tmp)).read n = fs.read n := by
  simp only [step, FS.read, FS.ino, lookup, Ne.symm hn, if_false, lookup_unbind_ne _ _ _ hn]
  cases hi : lookup n fs.names with
  | none => rfl
  | some i =>
    have : i < fs.next := lookup_lt hwf.1 hi
    have hne : fs.next ≠ i := by omega
    simp [FS.content, lookup, hne]

theorem ino_createTemp_self (fs : FS) (tmp : Str) : (step fs (.createTemp tmp)).ino tmp = some fs.next := by
  simp [step, FS.ino, lookup]

theorem content_other (fs : FS) (i j : Nat) (s : Str) (h : i ≠ j) :
    lookup j ((i, s) :: fs.data) = lookup j fs.data := by
  simp [lookup, h]

/-- states of the directory at the crash points of a write, spelled out -/
theorem run_prefixes (fs : FS) (tmp dst new : Str) (f : Fault) (k : Nat) :
    run fs ((writerOps tmp dst new f).take k) = fs ∨
    run fs ((writerOps tmp dst new f).take k) = step fs (.createTemp tmp) ∨
    (∃ bytes, run fs ((writerOps tmp dst new f).take k) = step (step fs (.createTemp tmp)) (.append tmp bytes)) ∨
    run fs ((writerOps tmp dst new f).take k) =
      step (step (step fs (.createTemp tmp)) (.append tmp new)) (.rename tmp dst) ∨
    run fs ((writerOps tmp dst new f).take k) =
      step (step (step fs (.createTemp tmp)) (.append tmp new)) (.remove tmp) := by
  cases f with
  | none =>
    match k with
    | 0 => left; rfl
    | 1 => right; left; rfl
    | 2 => right; right; left; exact ⟨new, rfl⟩
    | k + 3 => right; right; right; left; simp [writerOps, run]
  | createFails => left; simp [writerOps, run]
  | writeFailsAfter m =>
    match k with
    | 0 => left; rfl
    | 1 => right; left; rfl
    | k + 2 => right; right; left; exact ⟨new.take m, by simp [writerOps, run]⟩
  | renameFails =>
    match k with
    | 0 => left; rfl
    | 1 => right; left; rfl
    | 2 => right; right; left; exact ⟨new, rfl⟩
    | k + 3 => right; right; right; right; simp [writerOps, run]

/-- the directory after CreateTemp and after the (possibly short) write, spelled out -/
def s1 (fs : FS) (tmp : Str) : FS :=
  { names := (tmp, fs.next) :: unbind fs.names tmp, data := (fs.next, []) :: fs.data, next := fs.next + 1 }
def s2 (fs : FS) (tmp bytes : Str) : FS :=
  { names := (tmp, fs.next) :: unbind fs.names tmp, data := (fs.next, bytes) :: (fs.next, []) :: fs.data,
    next := fs.next + 1 }

theorem step_createTemp (fs : FS) (tmp : Str) : step fs (.createTemp tmp) = s1 fs tmp := rfl

theorem step_append (fs : FS) (tmp bytes : Str) : step (s1 fs tmp) (.append tmp bytes) = s2 fs tmp bytes := by
  simp [step, s1, s2, FS.ino, FS.content, lookup]

theorem step_rename (fs : FS) (tmp dst bytes : Str) :
    step (s2 fs tmp bytes) (.rename tmp dst) =
      { s2 fs tmp bytes with names := (dst, fs.next) :: unbind (unbind (s2 fs tmp bytes).names tmp) dst } := by
  simp [step, s2, FS.ino, lookup]

theorem read_s2_other (fs : FS) (hwf : WF fs) (tmp n bytes : Str) (hn : n ≠ tmp) :
    (s2 fs tmp bytes).read n = fs.read n := by
  simp only [s2, FS.read, FS.ino, lookup, Ne.symm hn, if_false, lookup_unbind_ne _ _ _ hn]
  cases hi : lookup n fs.names with
  | none => rfl
  | some i =>
    have : i < fs.next := lookup_lt hwf.1 hi
    have hne : fs.next ≠ i := by omega
    simp [FS.content, lookup, hne]

theorem read_after_append (fs : FS) (hwf : WF fs) (tmp n bytes : Str) (hn : n ≠ tmp) :
    (step (step fs (.createTemp tmp)) (.append tmp bytes)).read n = fs.read n := by
  rw [step_createTemp, step_append]; exact read_s2_other fs hwf tmp n bytes hn

theorem read_after_rename_dst (fs : FS) (tmp dst new : Str) :
    (step (step (step fs (.createTemp tmp)) (.append tmp new)) (.rename tmp dst)).read dst = some new := by
  rw [step_createTemp, step_append, step_rename]
  simp [FS.read, FS.ino, FS.content, lookup, s2]

theorem read_after_rename_other (fs : FS) (hwf : WF fs) (tmp dst new n : Str) (hnt : n ≠ tmp) (hnd : n ≠ dst) :
    (step (step (step fs (.createTemp tmp)) (.append tmp new)) (.rename tmp dst)).read n = fs.read n := by
  rw [step_createTemp, step_append, step_rename, ← read_s2_other fs hwf tmp n new hnt]
  simp only [FS.read, FS.ino, lookup, Ne.symm hnd, if_false, lookup_unbind_ne _ _ _ hnd, lookup_unbind_ne _ _ _ hnt]
  rfl

theorem read_after_remove (fs : FS) (hwf : WF fs) (tmp new n : Str) (hnt : n ≠ tmp) :
    (step (step (step fs (.createTemp tmp)) (.append tmp new)) (.remove tmp)).read n = fs.read n := by
  rw [step_createTemp, step_append, ← read_s2_other fs hwf tmp n new hnt]
  simp only [step, FS.read, FS.ino, lookup_unbind_ne _ _ _ hnt]
  rfl

/-- **C10 — the property theorem (every crash point, every fault)**: at every prefix of the
writer's operations, under every fault, a Spec-named entry other than the temp
file either still reads exactly as before the write, or it is the target and
reads the complete new content.  Nothing partial is ever visible under a Spec name. -/
theorem C10_pub_invariant (fs : FS) (hwf : WF fs) (tmp dst new : Str) (f : Fault) (k : Nat)
    (htmp : isSpecName tmp = false) (n : Str) (hn : isSpecName n = true) :
    (run fs ((writerOps tmp dst new f).take k)).read n = fs.read n ∨
    (n = dst ∧ (run fs ((writerOps tmp dst new f).take k)).read n = some new) := by
  have hnt : n ≠ tmp := fun e => by rw [e, htmp] at hn; cases hn
  rcases run_prefixes fs tmp dst new f k with h | h | ⟨b, h⟩ | h | h
  · left; rw [h]
  · left; rw [h]; exact read_createTemp fs hwf tmp n hnt
  · left; rw [h]; exact read_after_append fs hwf tmp n b hnt
  · rw [h]
    by_cases hd : n = dst
    · right; subst hd; exact ⟨rfl, read_after_rename_dst fs tmp n new⟩
    · left; exact read_after_rename_other fs hwf tmp dst new n hnt hd
  · left; rw [h]; exact read_after_remove fs hwf tmp new n hnt

/-- **C10 (after a failed or interrupted write)**: if the rename did not happen, every Spec-named
entry reads exactly as before — in particular the target still holds its complete previous
content (or is still absent), and the leftover temp file is not Spec-named. -/
theorem C10_after_failure (fs : FS) (hwf : WF fs) (tmp dst new : Str) (f : Fault) (k : Nat)
    (htmp : isSpecName tmp = false) (hf : f ≠ .none ∨ k < 3) (n : Str) (hn : isSpecName n = true) :
    (run fs ((writerOps tmp dst new f).take k)).read n = fs.read n := by
  have hnt : n ≠ tmp := fun e => by rw [e, htmp] at hn; cases hn
  cases f with
  | none =>
    rcases hf with hf | hf
    · exact absurd rfl hf
    · match k, hf with
      | 0, _ => rfl
      | 1, _ => exact read_createTemp fs hwf tmp n hnt
      | 2, _ => exact read_after_append fs hwf tmp n new hnt
  | createFails => simp [writerOps, run]
  | writeFailsAfter m =>
    match k with
    | 0 => rfl
    | 1 => exact read_createTemp fs hwf tmp n hnt
    | k + 2 =>
      have : (writerOps tmp dst new (.writeFailsAfter m)).take (k + 2) =
          [.createTemp tmp, .append tmp (new.take m)] := by simp [writerOps]
      rw [this]; exact read_after_append fs hwf tmp n _ hnt
  | renameFails =>
    match k with
    | 0 => rfl
    | 1 => exact read_createTemp fs hwf tmp n hnt
    | 2 => exact read_after_append fs hwf tmp n new hnt
    | k + 3 =>
      have : (writerOps tmp dst new .renameFails).take (k + 3) =
          [.createTemp tmp, .append tmp new, .remove tmp] := by simp [writerOps]
      rw [this]
      exact read_after_remove fs hwf tmp new n hnt

/-! ### A reader that holds an open descriptor -/

theorem take_split (l : List Op) (k k' : Nat) (h : k ≤ k') : l.take k' = l.take k ++ (l.drop k).take (k' - k) := by
  have : k' = k + (k' - k) := by omega
  rw [this, List.take_add]
  simp

theorem run_append (fs : FS) (a b : List Op) : run fs (a ++ b) = run (run fs a) b := by
  simp [run, List.foldl_append]

/-- renames and removals do not touch any inode's content -/
def noWrite : Op → Bool
  | .rename _ _ => true
  | .remove _ => true
  | _ => false

theorem data_noWrite (g : FS) (l : List Op) (h : ∀ o ∈ l, noWrite o = true) : (run g l).data = g.data := by
  induction l generalizing g with
  | nil => rfl
  | cons o rest ih =>
    simp only [run, List.foldl_cons]
    have ho := h o (by simp)
    have hrest : ∀ o' ∈ rest, noWrite o' = true := fun o' ho' => h o' (by simp [ho'])
    have := ih (step g o) hrest
    simp only [run] at this
    rw [this]
    cases o with
    | createTemp n => simp [noWrite] at ho
    | append n b => simp [noWrite] at ho
    | rename a b => simp only [step]; split <;> rfl
    | remove n => rfl

/-- from the third operation on the writer only renames or removes -/
theorem writer_tail_noWrite (tmp dst new : Str) (f : Fault) (k : Nat) (hk : 2 ≤ k) :
    ∀ o ∈ (writerOps tmp dst new f).drop k, noWrite o = true := by
  intro o ho
  cases f with
  | none =>
    have : (writerOps tmp dst new .none).drop k = ([Op.rename tmp dst]).drop (k - 2) := by
      simp only [writerOps]
      obtain ⟨m, rfl⟩ : ∃ m, k = m + 2 := ⟨k - 2, by omega⟩
      simp
    rw [this] at ho
    have := List.mem_of_mem_drop ho
    simp at this; subst this; rfl
  | createFails => simp [writerOps] at ho
  | writeFailsAfter m =>
    have : (writerOps tmp dst new (.writeFailsAfter m)).drop k = [] := by
      simp only [writerOps]
      apply List.drop_eq_nil_of_le; simp; omega
    rw [this] at ho; cases ho
  | renameFails =>
    have : (writerOps tmp dst new .renameFails).drop k = ([Op.remove tmp]).drop (k - 2) := by
      simp only [writerOps]
      obtain ⟨m, rfl⟩ : ∃ m, k = m + 2 := ⟨k - 2, by omega⟩
      simp
    rw [this] at ho
    have := List.mem_of_mem_drop ho
    simp at this; subst this; rfl

/-- an inode that existed before the write keeps its content at every crash point -/
theorem content_old (fs : FS) (hwf : WF fs) (tmp dst new : Str) (f : Fault) (k : Nat) (j : Nat) (hj : j < fs.next) :
    (run fs ((writerOps tmp dst new f).take k)).content j = fs.content j := by
  have hne : fs.next ≠ j := by omega
  rcases run_prefixes fs tmp dst new f k with h | h | ⟨b, h⟩ | h | h
  · rw [h]
  · rw [h, step_createTemp]; simp [s1, FS.content, lookup, hne]
  · rw [h, step_createTemp, step_append]; simp [s2, FS.content, lookup, hne]
  · rw [h, step_createTemp, step_append, step_rename]; simp [s2, FS.content, lookup, hne]
  · rw [h, step_createTemp, step_append]; simp [step, s2, FS.content, lookup, hne]

/-- before the rename, a name other than the temp name leads to an inode that existed before -/
theorem ino_old_early (fs : FS) (hwf : WF fs) (tmp dst new : Str) (f : Fault) (k : Nat) (hk : k ≤ 1)
    (n : Str) (hn : n ≠ tmp) (i : Nat) (h : (run fs ((writerOps tmp dst new f).take k)).ino n = some i) :
    i < fs.next := by
  have h0 : fs.ino n = some i → i < fs.next := fun h0 => lookup_lt hwf.1 h0
  match k, hk with
  | 0, _ => exact h0 (by simpa [run] using h)
  | 1, _ =>
    cases f with
    | createFails => exact h0 (by simpa [writerOps, run] using h)
    | none | writeFailsAfter _ | renameFails =>
      all_goals
        simp only [writerOps, List.take_succ_cons, List.take_zero, run, List.foldl_cons, List.foldl_nil] at h
        rw [step_createTemp] at h
        simp only [s1, FS.ino, lookup, Ne.symm hn, if_false, lookup_unbind_ne _ _ _ hn] at h
        exact h0 h

/-- **C10 (a reader with an open descriptor)**: a reader that opened a Spec-named file at any
crash point `k` — obtaining the inode behind that name at that instant — finds, whenever it
reads from the descriptor later (`k' ≥ k`, the writer having gone on, failed or been killed in
between), exactly the content the inode held when it was opened: the writer never writes into an
inode that is, or has been, reachable under a Spec name.  Together with `C10_pub_invariant` (what
a name leads to at the instant of the open is complete old or complete new content) a reader
spread over any number of steps reads complete old or complete new content. -/
theorem C10_open_descriptor_frozen (fs : FS) (hwf : WF fs) (tmp dst new : Str) (f : Fault) (k k' : Nat) (hkk : k ≤ k')
    (htmp : isSpecName tmp = false) (n : Str) (hn : isSpecName n = true) (i : Nat)
    (hopen : (run fs ((writerOps tmp dst new f).take k)).ino n = some i) :
    (run fs ((writerOps tmp dst new f).take k')).content i =
      (run fs ((writerOps tmp dst new f).take k)).content i := by
  have hnt : n ≠ tmp := fun e => by rw [e, htmp] at hn; cases hn
  by_cases hk : k ≤ 1
  · have hi := ino_old_early fs hwf tmp dst new f k hk n hnt i hopen
    rw [content_old fs hwf tmp dst new f k' i hi, content_old fs hwf tmp dst new f k i hi]
  · have hk2 : 2 ≤ k := by omega
    rw [take_split _ k k' hkk, run_append]
    have hnw : ∀ o ∈ ((writerOps tmp dst new f).drop k).take (k' - k), noWrite o = true :=
      fun o ho => writer_tail_noWrite tmp dst new f k hk2 o (List.mem_of_mem_take ho)
    simp only [FS.content, data_noWrite _ _ hnw]

/-! ### Non-vacuity -/
def fsEx : FS := { names := [(lit "a.json", 0)], data := [(0, lit "OLD")], next := 1 }
example : WF fsEx := by constructor <;> (intro p hp; simp [fsEx] at hp; subst hp; decide)
example : (run fsEx (writerOps (lit "spec.1.tmp") (lit "a.json") (lit "NEW") .none)).read (lit "a.json") = some (lit "NEW") := by
  decide
example : (run fsEx ((writerOps (lit "spec.1.tmp") (lit "a.json") (lit "NEW") .none).take 2)).read (lit "a.json") =
    some (lit "OLD") := by decide

end Cdi.FsWrite
