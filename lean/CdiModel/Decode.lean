/-
  CdiModel.Decode — strict decoding of a JSON document into a raw Spec,
  mirroring `cdi.ParseSpec` = sigs.k8s.io/yaml.UnmarshalStrict into `*cdi.Spec`
  at the value level (DESIGN §4: text-level codec behaviour is not modelled):

  * unknown member            → error   (DisallowUnknownFields)
  * duplicate member          → error   (yaml strict mode)
  * `null` for any member     → the member keeps its zero value
  * `null` list element       → nil pointer / zero value
  * wrong JSON type           → error
  * integer fields            → JSON integer literal within the Go type's range
  * top-level `null`          → nil Spec ("no Spec data": error)

  Member names are matched exactly (documents whose member names differ from
  the tags only in case are outside the modelled document space).
-/
import CdiModel.Json
import CdiModel.Spec
import CdiModel.Generated.Facts
namespace Cdi.Decode
open Cdi

abbrev D := Option    -- none = decoding error

def hasDup : List Str → Bool
  | [] => false
  | k :: rest => rest.contains k || hasDup rest

/-- members of an object, rejecting duplicates and names outside `known` -/
def members (known : List Str) (v : JVal) : D (List (Str × JVal)) :=
  match v with
  | .obj m =>
    let l := m.toList
    if hasDup (l.map (·.1)) then none
    else if l.all (fun kv => known.contains kv.1) then some l else none
  | _ => none

def field (l : List (Str × JVal)) (k : String) : JVal :=
  match lookup (lit k) l with
  | some v => v
  | none => .null

def dStr : JVal → D Str
  | .null => some []
  | .str s => some s
  | _ => none

def dBool : JVal → D Bool
  | .null => some false
  | .bool b => some b
  | _ => none

def dIntRange (lo hi : Int) (v : JVal) : D (Option Int) :=
  match v with
  | .null => some none
  | .num m sc =>
    -- encoding/json only accepts an integer *literal*: no fraction, no exponent
    if sc ≠ 0 then none
    else if lo ≤ m ∧ m ≤ hi then some (some m) else none
  | _ => none

def int64Min : Int := -9223372036854775808
def int64Max : Int := 9223372036854775807
def uint32Max : Int := 4294967295

def dInt64 (v : JVal) : D Int := (dIntRange int64Min int64Max v).map (·.getD 0)
def dOptInt64 (v : JVal) : D (Option Int) := dIntRange int64Min int64Max v
def dOptUint32 (v : JVal) : D (Option Nat) := (dIntRange 0 uint32Max v).map (·.map Int.toNat)

def dList {α} (f : JVal → D α) : JVal → D (List α)
  | .null => some []
  | .arr items => items.toList.mapM f
  | _ => none

def dStrList : JVal → D (List Str) := dList dStr

def dUint32Elem (v : JVal) : D Nat := (dOptUint32 v).map (·.getD 0)

def dStrMap : JVal → D (List (Str × Str))
  | .null => some []
  | .obj m =>
    let l := m.toList
    if hasDup (l.map (·.1)) then none else
    l.mapM (fun kv => (dStr kv.2).map (fun s => (kv.1, s)))
  | _ => none

def dPtr {α} (f : JVal → D α) : JVal → D (Option α)
  | .null => some none
  | v => (f v).map some

def dDeviceNode (v : JVal) : D DeviceNode := do
  let l ← members (["path", "hostPath", "type", "major", "minor", "fileMode", "permissions", "uid", "gid"].map lit) v
  pure { path := ← dStr (field l "path"), hostPath := ← dStr (field l "hostPath"),
         type := ← dStr (field l "type"), major := ← dInt64 (field l "major"),
         minor := ← dInt64 (field l "minor"), fileMode := ← dOptUint32 (field l "fileMode"),
         permissions := ← dStr (field l "permissions"), uid := ← dOptUint32 (field l "uid"),
         gid := ← dOptUint32 (field l "gid") }

def dMount (v : JVal) : D Mount := do
  let l ← members (["hostPath", "containerPath", "options", "type"].map lit) v
  pure { hostPath := ← dStr (field l "hostPath"), containerPath := ← dStr (field l "containerPath"),
         options := ← dStrList (field l "options"), type := ← dStr (field l "type") }

def dHook (v : JVal) : D Hook := do
  let l ← members (["hookName", "path", "args", "env", "timeout"].map lit) v
  pure { hookName := ← dStr (field l "hookName"), path := ← dStr (field l "path"),
         args := ← dStrList (field l "args"), env := ← dStrList (field l "env"),
         timeout := ← dOptInt64 (field l "timeout") }

def dIntelRdt (v : JVal) : D IntelRdt := do
  let l ← members (["closID", "l3CacheSchema", "memBwSchema", "enableCMT", "enableMBM"].map lit) v
  pure { closID := ← dStr (field l "closID"), l3CacheSchema := ← dStr (field l "l3CacheSchema"),
         memBwSchema := ← dStr (field l "memBwSchema"), enableCMT := ← dBool (field l "enableCMT"),
         enableMBM := ← dBool (field l "enableMBM") }

def dEdits (v : JVal) : D Edits :=
  match v with
  | .null => some {}
  | v => do
    let l ← members (["env", "deviceNodes", "hooks", "mounts", "intelRdt", "additionalGids"].map lit) v
    pure { env := ← dStrList (field l "env"),
           deviceNodes := ← dList (dPtr dDeviceNode) (field l "deviceNodes"),
           hooks := ← dList (dPtr dHook) (field l "hooks"),
           mounts := ← dList (dPtr dMount) (field l "mounts"),
           intelRdt := ← dPtr dIntelRdt (field l "intelRdt"),
           additionalGids := ← dList dUint32Elem (field l "additionalGids") }

def dDevice (v : JVal) : D Device :=
  match v with
  | .null => some {}
  | v => do
    let l ← members (["name", "annotations", "containerEdits"].map lit) v
    pure { name := ← dStr (field l "name"), annotations := ← dStrMap (field l "annotations"),
           edits := ← dEdits (field l "containerEdits") }

/-- `ParseSpec`: `some none` = a nil Spec (document `null`), `none` = error -/
def decodeSpec (v : JVal) : D (Option Spec) :=
  match v with
  | .null => some none
  | v => do
    let l ← members (["cdiVersion", "kind", "annotations", "devices", "containerEdits"].map lit) v
    pure (some { version := ← dStr (field l "cdiVersion"), kind := ← dStr (field l "kind"),
                 annotations := ← dStrMap (field l "annotations"),
                 devices := ← dList dDevice (field l "devices"),
                 edits := ← dEdits (field l "containerEdits") })

end Cdi.Decode
