/-
  CdiModel.ParserSpec — the declarative grammar of C07 and its decidable judge.

  Nothing here looks at how the parser works: `vcOK`/`devOK` are the character
  rules of the property text, `qualifiedB` tries every pair of split points.
  The judge is what convicts the implementation on the correspondence stream
  and what the property theorem (CdiProofs/Props/C07.lean) is about.
-/
import CdiModel.Parser
namespace Cdi.Parser
open Cdi

/-- vendor / class: starts with a letter, ends with a letter or digit, contains
only letters, digits, `_`, `-`, `.` (a single letter is valid). -/
def vcOK (s : Str) : Bool :=
  match s.head?, s.getLast? with
  | some h, some l => isLetter h && isAlnum l && s.all isVCMid
  | _, _ => false

/-- device name: starts and ends with a letter or digit, contains only letters,
digits, `_`, `-`, `.`, `:`. -/
def devOK (s : Str) : Bool :=
  match s.head?, s.getLast? with
  | some h, some l => isAlnum h && isAlnum l && s.all isDevMid
  | _, _ => false

/-- `s` splits as `v/c=n` at positions `i < j` with the three parts valid. -/
def splitsAt (s : Str) (i j : Nat) : Bool :=
  i < j && s[i]? == some cSlash && s[j]? == some cEq &&
  vcOK (s.take i) && vcOK ((s.drop (i + 1)).take (j - (i + 1))) && devOK (s.drop (j + 1))

/-- brute-force recogniser of the qualified-name language -/
def qualifiedB (s : Str) : Bool :=
  (List.range (s.length + 1)).any fun i => (List.range (s.length + 1)).any fun j => splitsAt s i j

/-- The language of the property text. -/
def Qualified (s : Str) : Prop :=
  ∃ v c n, s = qualifiedName v c n ∧ vcOK v = true ∧ vcOK c = true ∧ devOK n = true

/-- Observed outcome of `ParseQualifiedName` on the real code. -/
inductive Obs where
  | ret (r : PQN)
  | panic
  deriving Repr, DecidableEq

/-- Judge of C07 for `ParseQualifiedName`: never panics; success iff the input is
in the language, and then the parts are valid and recompose to the input;
failure returns `("", "", input)`. Returns the name of the violated clause. -/
def judgePQN (s : Str) : Obs → Option String
  | .panic => some "panic"
  | .ret r =>
    if r.ok then
      if !(vcOK r.vendor && vcOK r.cls && devOK r.name) then some "accepted-invalid-parts"
      else if qualifiedName r.vendor r.cls r.name ≠ s then some "parts-do-not-recompose"
      else none
    else
      if qualifiedB s then some "rejected-a-qualified-name"
      else if r.vendor ≠ [] ∨ r.cls ≠ [] ∨ r.name ≠ s then some "failure-shape"
      else none

def obsOfRes : Res PQN → Obs
  | .ok r => .ret r
  | _ => .panic

end Cdi.Parser
