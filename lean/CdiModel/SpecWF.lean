/-
  CdiModel.SpecWF — the declarative side of C05 and C06: what SPEC.md and the
  property statements say, written without reference to how the Go code
  computes it (conjunctions over *all* positions; literal tables from SPEC.md).
-/
import CdiModel.Validate
import CdiModel.ParserSpec
namespace Cdi.SpecWF
open Cdi Cdi.Parser

/-! ### C06: features and their introduction versions -/

def mountHasType : Option Mount → Bool
  | some m => m.type ≠ []
  | none => false
def nodeHasHostPath : Option DeviceNode → Bool
  | some d => d.hostPath ≠ []
  | none => false

def usesMountType (s : Spec) : Bool := s.allEdits.any (fun e => e.mounts.any mountHasType)
def usesHostPath (s : Spec) : Bool := s.allEdits.any (fun e => e.deviceNodes.any nodeHasHostPath)
def usesDigitName (s : Spec) : Bool := s.devices.any (fun d => Version.startsWithDigit d.name)
def usesAnnotations (s : Spec) : Bool := s.annotations ≠ [] || s.devices.any (fun d => d.annotations ≠ [])
def usesDottedClass (s : Spec) : Bool := Version.classHasDot s.kind
def usesRdtOrGids (s : Spec) : Bool :=
  s.allEdits.any (fun e => e.intelRdt.isSome || e.additionalGids ≠ [])

/-- highest introduction version among the features used anywhere in the Spec -/
def minVersion (s : Spec) : Str :=
  if usesRdtOrGids s then lit "v0.7.0"
  else if usesAnnotations s || usesDottedClass s then lit "v0.6.0"
  else if usesHostPath s || usesDigitName s then lit "v0.5.0"
  else if usesMountType s then lit "v0.4.0"
  else lit "v0.3.0"

/-- released versions (SPEC.md table plus the two pre-0.3.0 tags the library knows) -/
def released : List Str :=
  [lit "v0.1.0", lit "v0.2.0", lit "v0.3.0", lit "v0.4.0", lit "v0.5.0", lit "v0.6.0",
   lit "v0.7.0", lit "v0.8.0", lit "v1.0.0"]

/-- a Spec is version-valid iff its declared version (one leading "v" allowed, I4)
is released and not lower than the minimum its features require -/
def versionValid (s : Spec) : Bool :=
  released.contains (Version.newVersion s.version) &&
  !Version.versionGt (minVersion s) (Version.newVersion s.version)

/-! ### C05: well-formedness -/

def specDeviceTypes : List Str := [[], lit "b", lit "c", lit "u", lit "p"]
def specHookNames : List Str :=
  [lit "prestart", lit "createRuntime", lit "createContainer", lit "startContainer",
   lit "poststart", lit "poststop"]

def nodeWF : Option DeviceNode → Bool
  | some d => d.path ≠ [] && specDeviceTypes.contains d.type && d.permissions.all Validate.isPermByte
  | none => false
def hookWF : Option Hook → Bool
  | some h => specHookNames.contains h.hookName && h.path ≠ [] && h.env.all Validate.envEntryOK
  | none => false
def mountWF : Option Mount → Bool
  | some m => m.hostPath ≠ [] && m.containerPath ≠ []
  | none => false
def rdtWF : Option IntelRdt → Bool
  | some i => Validate.validateIntelRdt i
  | none => true

def editsWF (e : Edits) : Bool :=
  e.env.all Validate.envEntryOK && e.deviceNodes.all nodeWF && e.hooks.all hookWF &&
  e.mounts.all mountWF && rdtWF e.intelRdt

def annotationsWF (ann : List (Str × Str)) : Bool := K8s.validateAnnotations ann

def deviceWF (d : Device) : Bool :=
  devOK d.name && annotationsWF d.annotations && !Validate.editsEmpty d.edits && editsWF d.edits

/-- kind = valid-vendor "/" valid-class (split at the first '/') -/
def kindWF (kind : Str) : Bool :=
  match splitFirst cSlash kind with
  | some (v, c) => vcOK v && vcOK c
  | none => false

def namesUnique : List Str → Bool
  | [] => true
  | n :: rest => !rest.contains n && namesUnique rest

/-- **the well-formedness predicate of C05** -/
def WellFormed (s : Spec) : Bool :=
  versionValid s && kindWF s.kind && annotationsWF s.annotations && editsWF s.edits &&
  s.devices ≠ [] && s.devices.all deviceWF && namesUnique (s.devices.map (·.name))

/-- observed outcome of an admission entry point -/
inductive Admit where | accepted | rejected | panicked
  deriving Repr, DecidableEq

/-- Judge of C05 on a decoded Spec. -/
def judgeAdmit (s : Spec) : Admit → Option String
  | .panicked => some "panic"
  | .accepted => if WellFormed s then none else some "accepted-ill-formed-spec"
  | .rejected => if WellFormed s then some "rejected-well-formed-spec" else none

/-- Judge of C06 for `MinimumRequiredVersion` (string without the "v"). -/
def judgeMinVersion (s : Spec) (panicked : Bool) (observed : Str) : Option String :=
  if panicked then some "panic"
  else if (118 :: observed) = minVersion s then none else some "minimum-version-not-exact"

end Cdi.SpecWF
