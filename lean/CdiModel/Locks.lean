/-
  CdiModel.Locks — C12: threads running sequences of mutex operations and
  shared-field accesses against one non-reentrant mutex (the cache mutex).

  A thread program is what factgen extracts per entry point of pkg/cdi/cache.go
  (Generated/Access.lean).  The semantics is interleaving: a schedule is a list of
  thread numbers; a step of a thread whose next action is not enabled is a no-op.
-/
namespace Cdi.Locks

inductive Act where
  | lock
  | unlock
  | read (field : String)
  | write (field : String)
  | ret                      -- an early `return` of the entry point (control flow is flattened: a checkpoint)
  deriving Repr, DecidableEq

abbrev Prog := List Act

/-- `guarded held p`: every access of `p` happens with the mutex held, the mutex is never
locked while held (Go's mutex is not reentrant) nor unlocked while not held, and it is
released at the end and at every early return -/
def guarded : Bool → Prog → Bool
  | h, [] => !h
  | false, .lock :: r => guarded true r
  | true, .lock :: _ => false
  | true, .unlock :: r => guarded false r
  | false, .unlock :: _ => false
  | h, .read _ :: r => h && guarded h r
  | h, .write _ :: r => h && guarded h r
  | _, .ret :: _ => false      -- checkpoints are not actions: programs are `strip`ped first

/-- the pseudo-field factgen records where a program scans the Spec directories -/
def fsScan : String := "fs:scan"

/-- from here on, the index maps are published (`devices` written) before the mutex is released -/
def publishesBeforeUnlock : Prog → Bool
  | [] => false
  | .unlock :: _ => false
  | .write f :: r => f == "devices" || publishesBeforeUnlock r
  | _ :: r => publishesBeforeUnlock r

/-- every scan of the directories is followed, within the same critical section, by the publication of its
result: scan and publication are one atomic step with respect to every other cache operation -/
def scanPublishes : Prog → Bool
  | [] => true
  | .read f :: r => (f != fsScan || publishesBeforeUnlock r) && scanPublishes r
  | _ :: r => scanPublishes r

/-- the actions of a program, without the early-return checkpoints -/
def strip (p : Prog) : Prog := p.filter (· != .ret)

/-- at every early return of the entry point the mutex is not held (the flattened program goes on
with the statements after the return, as if the branch had not been taken) -/
def retOK : Bool → Prog → Bool
  | _, [] => true
  | _, .lock :: r => retOK true r
  | _, .unlock :: r => retOK false r
  | h, .ret :: r => !h && retOK h r
  | h, _ :: r => retOK h r

structure St where
  rest : Nat → Prog          -- what each thread still has to do
  holder : Option Nat

def init (progs : Nat → Prog) : St := ⟨progs, none⟩

def setRest (rest : Nat → Prog) (i : Nat) (p : Prog) : Nat → Prog := fun j => if j = i then p else rest j

/-- thread `i` takes its next action, if it is enabled -/
def step (s : St) (i : Nat) : Option St :=
  match s.rest i with
  | [] => none
  | .lock :: r => if s.holder = none then some ⟨setRest s.rest i r, some i⟩ else none
  | .unlock :: r => some ⟨setRest s.rest i r, none⟩
  | _ :: r => some ⟨setRest s.rest i r, s.holder⟩

def run (s : St) (schedule : List Nat) : St := schedule.foldl (fun s i => (step s i).getD s) s

/-- the next action of thread `i`, if it is an access: (field, isWrite) -/
def nextAccess (s : St) (i : Nat) : Option (String × Bool) :=
  match s.rest i with
  | .read f :: _ => some (f, false)
  | .write f :: _ => some (f, true)
  | _ => none

/-- number of lock operations of a program -/
def lockCount (p : Prog) : Nat := p.countP (· == .lock)

def reads (p : Prog) (f : String) : Bool := p.contains (.read f)
def writes (p : Prog) (f : String) : Bool := p.contains (.write f)

end Cdi.Locks
