/-
  CdiModel.Json — JSON values as the document space of the model.
  Numbers are exact decimals `mant × 10^(-scale)`; a number is an integer iff
  its fractional part is zero.  Objects keep member order and may carry
  duplicate or unknown members (the decoder decides what to do with them).
-/
import CdiModel.Basic
namespace Cdi

mutual
inductive JVal where
  | null
  | bool (b : Bool)
  | num (mant : Int) (scale : Nat)
  | str (s : Str)
  | arr (items : JList)
  | obj (members : JMembers)
inductive JList where
  | nil
  | cons (v : JVal) (rest : JList)
inductive JMembers where
  | nil
  | cons (k : Str) (v : JVal) (rest : JMembers)
end

namespace JList
def toList : JList → List JVal
  | .nil => []
  | .cons v r => v :: toList r
def ofList : List JVal → JList
  | [] => .nil
  | v :: r => .cons v (ofList r)
end JList

namespace JMembers
def toList : JMembers → List (Str × JVal)
  | .nil => []
  | .cons k v r => (k, v) :: toList r
def ofList : List (Str × JVal) → JMembers
  | [] => .nil
  | (k, v) :: r => .cons k v (ofList r)
def keys (m : JMembers) : List Str := m.toList.map (·.1)
def get? (m : JMembers) (k : Str) : Option JVal :=
  match m with
  | .nil => none
  | .cons k' v r => if k' = k then some v else get? r k
end JMembers

namespace JVal
def mkObj (l : List (Str × JVal)) : JVal := .obj (JMembers.ofList l)
def mkArr (l : List JVal) : JVal := .arr (JList.ofList l)
def mkInt (n : Int) : JVal := .num n 0
def mkStr (s : Str) : JVal := .str s

/-- the integer a number denotes, if its fractional part is zero -/
def asInt? : JVal → Option Int
  | .num m sc => if m % (10 ^ sc : Nat) = 0 then some (m / (10 ^ sc : Nat)) else none
  | _ => none
end JVal

end Cdi
