/-
  CdiModel.Encode — a raw Spec as the JSON value `encoding/json` (and, with the
  same tags, yaml.v3) produces for it: member names and `omitempty` per
  specs-go/config.go (regenerated fact F3).  nil list entries encode as `null`.
  Objects are written as lists of fields, each present or omitted.
-/
import CdiModel.Json
import CdiModel.Spec
namespace Cdi.Encode
open Cdi

def jstr (s : Str) : JVal := .str s
def jstrs (l : List Str) : JVal := JVal.mkArr (l.map jstr)
def jnat (n : Nat) : JVal := .num n 0
def jint (n : Int) : JVal := .num n 0

/-- a struct field: member name and its value, or `none` when `omitempty` drops it -/
abbrev Field := Str × Option JVal

def fReq (k : String) (v : JVal) : Field := (lit k, some v)
def fOpt (drop : Bool) (k : String) (v : JVal) : Field := (lit k, if drop then none else some v)
def fOptVal {α} (o : Option α) (k : String) (f : α → JVal) : Field := (lit k, o.map f)

def present (fs : List Field) : List (Str × JVal) := fs.filterMap (fun f => f.2.map (fun v => (f.1, v)))
def mkObjF (fs : List Field) : JVal := JVal.mkObj (present fs)

def encNode (d : DeviceNode) : JVal :=
  mkObjF [fReq "path" (jstr d.path), fOpt (d.hostPath = []) "hostPath" (jstr d.hostPath),
    fOpt (d.type = []) "type" (jstr d.type), fOpt (d.major = 0) "major" (jint d.major),
    fOpt (d.minor = 0) "minor" (jint d.minor), fOptVal d.fileMode "fileMode" jnat,
    fOpt (d.permissions = []) "permissions" (jstr d.permissions), fOptVal d.uid "uid" jnat, fOptVal d.gid "gid" jnat]

def encMount (m : Mount) : JVal :=
  mkObjF [fReq "hostPath" (jstr m.hostPath), fReq "containerPath" (jstr m.containerPath),
    fOpt (m.options = []) "options" (jstrs m.options), fOpt (m.type = []) "type" (jstr m.type)]

def encHook (h : Hook) : JVal :=
  mkObjF [fReq "hookName" (jstr h.hookName), fReq "path" (jstr h.path), fOpt (h.args = []) "args" (jstrs h.args),
    fOpt (h.env = []) "env" (jstrs h.env), fOptVal h.timeout "timeout" jint]

def encRdt (r : IntelRdt) : JVal :=
  mkObjF [fOpt (r.closID = []) "closID" (jstr r.closID), fOpt (r.l3CacheSchema = []) "l3CacheSchema" (jstr r.l3CacheSchema),
    fOpt (r.memBwSchema = []) "memBwSchema" (jstr r.memBwSchema), fOpt (!r.enableCMT) "enableCMT" (.bool true),
    fOpt (!r.enableMBM) "enableMBM" (.bool true)]

def encOpt {α} (f : α → JVal) : Option α → JVal
  | some x => f x
  | none => .null

def encEdits (e : Edits) : JVal :=
  mkObjF [fOpt (e.env = []) "env" (jstrs e.env),
    fOpt (e.deviceNodes = []) "deviceNodes" (JVal.mkArr (e.deviceNodes.map (encOpt encNode))),
    fOpt (e.hooks = []) "hooks" (JVal.mkArr (e.hooks.map (encOpt encHook))),
    fOpt (e.mounts = []) "mounts" (JVal.mkArr (e.mounts.map (encOpt encMount))),
    fOptVal e.intelRdt "intelRdt" encRdt,
    fOpt (e.additionalGids = []) "additionalGids" (JVal.mkArr (e.additionalGids.map jnat))]

def encAnnotations (a : List (Str × Str)) : JVal := JVal.mkObj (a.map (fun kv => (kv.1, jstr kv.2)))

def encDevice (d : Device) : JVal :=
  mkObjF [fReq "name" (jstr d.name), fOpt (d.annotations = []) "annotations" (encAnnotations d.annotations),
    fReq "containerEdits" (encEdits d.edits)]

/-- `json.Marshal(spec)` as a value (`devices` of a nil slice would be `null`; a
well-formed Spec has at least one device) -/
def encodeSpec (s : Spec) : JVal :=
  mkObjF [fReq "cdiVersion" (jstr s.version), fReq "kind" (jstr s.kind),
    fOpt (s.annotations = []) "annotations" (encAnnotations s.annotations),
    fReq "devices" (if s.devices = [] then .null else JVal.mkArr (s.devices.map encDevice)),
    fReq "containerEdits" (encEdits s.edits)]

end Cdi.Encode
