/-
  CdiModel.Encode — a raw Spec as the JSON value `encoding/json` (and, with the
  same tags, yaml.v3) produces for it: member names and `omitempty` per
  specs-go/config.go (regenerated fact F3).  nil list entries encode as `null`.
-/
import CdiModel.Json
import CdiModel.Spec
namespace Cdi.Encode
open Cdi

def jstr (s : Str) : JVal := .str s
def jstrs (l : List Str) : JVal := JVal.mkArr (l.map jstr)
def jnat (n : Nat) : JVal := .num n 0
def jint (n : Int) : JVal := .num n 0

/-- a member that is dropped when `omit` holds -/
def opt (drop : Bool) (k : String) (v : JVal) : List (Str × JVal) := if drop then [] else [(lit k, v)]
def req (k : String) (v : JVal) : List (Str × JVal) := [(lit k, v)]
def optVal {α} (o : Option α) (k : String) (f : α → JVal) : List (Str × JVal) :=
  match o with
  | some x => [(lit k, f x)]
  | none => []

def encNode (d : DeviceNode) : JVal :=
  JVal.mkObj (req "path" (jstr d.path) ++ opt (d.hostPath = []) "hostPath" (jstr d.hostPath) ++
    opt (d.type = []) "type" (jstr d.type) ++ opt (d.major = 0) "major" (jint d.major) ++
    opt (d.minor = 0) "minor" (jint d.minor) ++ optVal d.fileMode "fileMode" jnat ++
    opt (d.permissions = []) "permissions" (jstr d.permissions) ++ optVal d.uid "uid" jnat ++ optVal d.gid "gid" jnat)

def encMount (m : Mount) : JVal :=
  JVal.mkObj (req "hostPath" (jstr m.hostPath) ++ req "containerPath" (jstr m.containerPath) ++
    opt (m.options = []) "options" (jstrs m.options) ++ opt (m.type = []) "type" (jstr m.type))

def encHook (h : Hook) : JVal :=
  JVal.mkObj (req "hookName" (jstr h.hookName) ++ req "path" (jstr h.path) ++
    opt (h.args = []) "args" (jstrs h.args) ++ opt (h.env = []) "env" (jstrs h.env) ++ optVal h.timeout "timeout" jint)

def encRdt (r : IntelRdt) : JVal :=
  JVal.mkObj (opt (r.closID = []) "closID" (jstr r.closID) ++ opt (r.l3CacheSchema = []) "l3CacheSchema" (jstr r.l3CacheSchema) ++
    opt (r.memBwSchema = []) "memBwSchema" (jstr r.memBwSchema) ++ opt (!r.enableCMT) "enableCMT" (.bool true) ++
    opt (!r.enableMBM) "enableMBM" (.bool true))

def encOpt {α} (f : α → JVal) : Option α → JVal
  | some x => f x
  | none => .null

def encEdits (e : Edits) : JVal :=
  JVal.mkObj (opt (e.env = []) "env" (jstrs e.env) ++
    opt (e.deviceNodes = []) "deviceNodes" (JVal.mkArr (e.deviceNodes.map (encOpt encNode))) ++
    opt (e.hooks = []) "hooks" (JVal.mkArr (e.hooks.map (encOpt encHook))) ++
    opt (e.mounts = []) "mounts" (JVal.mkArr (e.mounts.map (encOpt encMount))) ++
    optVal e.intelRdt "intelRdt" encRdt ++
    opt (e.additionalGids = []) "additionalGids" (JVal.mkArr (e.additionalGids.map jnat)))

def encAnnotations (a : List (Str × Str)) : JVal := JVal.mkObj (a.map (fun kv => (kv.1, jstr kv.2)))

def encDevice (d : Device) : JVal :=
  JVal.mkObj (req "name" (jstr d.name) ++ opt (d.annotations = []) "annotations" (encAnnotations d.annotations) ++
    req "containerEdits" (encEdits d.edits))

/-- `json.Marshal(spec)` as a value (`devices` of a nil slice would be `null`; a
well-formed Spec has at least one device) -/
def encodeSpec (s : Spec) : JVal :=
  JVal.mkObj (req "cdiVersion" (jstr s.version) ++ req "kind" (jstr s.kind) ++
    opt (s.annotations = []) "annotations" (encAnnotations s.annotations) ++
    req "devices" (if s.devices = [] then .null else JVal.mkArr (s.devices.map encDevice)) ++
    req "containerEdits" (encEdits s.edits))

end Cdi.Encode
