/-
  CdiModel.Version — model of /repo/specs-go/version.go.

  `aliasing = true` models the pinned tree under Go < 1.22 loop-variable
  semantics: `for _, d := range spec.Devices { edits = append(edits, &d.ContainerEdits) }`
  stores the address of the single loop variable, so after the loop every stored
  pointer sees the *last* device.  `nilGuard = false` models the pinned tree's
  unguarded dereference of nil list entries.  The repaired tree is
  `aliasing = false, nilGuard = true`.
-/
import CdiModel.Spec
import CdiModel.Generated.Facts
namespace Cdi.Version
open Cdi

/-- a released version as comparable triple; `none` if not of the form vX.Y.Z -/
def parseNat (s : Str) : Option Nat :=
  if s = [] then none else
  s.foldl (fun acc c => match acc with
    | none => none
    | some n => if isDigit c then some (n * 10 + (c.toNat - 48)) else none) (some 0)

def parseTriple (v : Str) : Option (Nat × Nat × Nat) :=
  match v with
  | 118 :: rest =>  -- 'v'
    match splitAll cDot rest with
    | [a, b, c] => do
      let x ← parseNat a; let y ← parseNat b; let z ← parseNat c
      pure (x, y, z)
    | _ => none
  | _ => none

def tripleLt (a b : Nat × Nat × Nat) : Bool :=
  a.1 < b.1 || (a.1 == b.1 && (a.2.1 < b.2.1 || (a.2.1 == b.2.1 && a.2.2 < b.2.2)))

/-- `semver.Compare(a, b) > 0` on released versions -/
def versionGt (a b : Str) : Bool :=
  match parseTriple a, parseTriple b with
  | some x, some y => tripleLt y x
  | _, _ => false

/-- the regenerated table: (version "vX.Y.Z", predicate name or "") -/
def table : List (Str × String) := Generated.versionTable.map (fun e => (lit e.1, e.2))
def vEarliest : Str := lit Generated.vEarliest

/-- `newVersion(v)`: "v" + TrimPrefix(v, "v") -/
def newVersion (v : Str) : Str :=
  match v with
  | 118 :: rest => 118 :: rest
  | _ => 118 :: v

/-- `String()`: TrimPrefix(v, "v") -/
def versionString (v : Str) : Str :=
  match v with
  | 118 :: rest => rest
  | _ => v

def isValidVersion (v : Str) : Bool := table.any (fun e => e.1 == newVersion v)

/-- the `edits` slice built by requiresV040/V050: device edits then spec edits -/
def editsList (aliasing : Bool) (s : Spec) : List Edits :=
  (if aliasing then
    match s.devices.getLast? with
    | some last => s.devices.map (fun _ => last.edits)
    | none => []
   else s.devices.map (·.edits)) ++ [s.edits]

/-- any mount with a non-empty type; a nil entry is a nil dereference unless guarded -/
def anyMountType (nilGuard : Bool) : List (Option Mount) → Res Bool
  | [] => .ok false
  | none :: rest => if nilGuard then anyMountType nilGuard rest else .panic
  | some m :: rest => if m.type ≠ [] then .ok true else anyMountType nilGuard rest

def anyHostPath (nilGuard : Bool) : List (Option DeviceNode) → Res Bool
  | [] => .ok false
  | none :: rest => if nilGuard then anyHostPath nilGuard rest else .panic
  | some d :: rest => if d.hostPath ≠ [] then .ok true else anyHostPath nilGuard rest

/-- first `ok true` / `panic` wins, in list order (early return) -/
def firstTrue {α} (f : α → Res Bool) : List α → Res Bool
  | [] => .ok false
  | x :: rest =>
    match f x with
    | .ok false => firstTrue f rest
    | r => r

def requiresV040 (aliasing nilGuard : Bool) (s : Spec) : Res Bool :=
  firstTrue (fun e => anyMountType nilGuard e.mounts) (editsList aliasing s)

def startsWithDigit (name : Str) : Bool :=
  match name with
  | c :: _ => isDigit c
  | [] => false

def requiresV050 (aliasing nilGuard : Bool) (s : Spec) : Res Bool :=
  if s.devices.any (fun d => startsWithDigit d.name) then .ok true else
  firstTrue (fun e => anyHostPath nilGuard e.deviceNodes) (editsList aliasing s)

def classHasDot (kind : Str) : Bool :=
  match splitFirst cSlash kind with
  | none => false
  | some (_, cls) => cls.contains cDot

def requiresV060 (s : Spec) : Bool :=
  s.annotations ≠ [] || s.devices.any (fun d => d.annotations ≠ []) || classHasDot s.kind

def editsUseV070 (e : Edits) : Bool := e.intelRdt.isSome || e.additionalGids ≠ []

def requiresV070 (s : Spec) : Bool :=
  editsUseV070 s.edits || s.devices.any (fun d => editsUseV070 d.edits)

/-- dispatch on the regenerated predicate name -/
def callPredicate (aliasing nilGuard : Bool) (fn : String) (s : Spec) : Res Bool :=
  if fn == "requiresV040" then requiresV040 aliasing nilGuard s
  else if fn == "requiresV050" then requiresV050 aliasing nilGuard s
  else if fn == "requiresV060" then .ok (requiresV060 s)
  else if fn == "requiresV070" then .ok (requiresV070 s)
  else .ok false        -- requiresV080, requiresV100: always false; "" = nil entry (skipped)

/-- `requiredVersion` visiting the table in the given order (Go iterates a map:
any order). `minVersion` is raised to `v` when the predicate holds and `v` is greater.
The early `break` on reaching the latest version cannot change the result and is
not modelled. -/
def verStep (aliasing nilGuard : Bool) (s : Spec) (acc : Res Str) (e : Str × String) : Res Str :=
  match acc with
  | .ok mv =>
    if e.2 == "" then .ok mv else
    match callPredicate aliasing nilGuard e.2 s with
    | .ok true => if versionGt e.1 mv then .ok e.1 else .ok mv
    | .ok false => .ok mv
    | .err => .err
    | .panic => .panic
  | r => r

def requiredVersionIn (aliasing nilGuard : Bool) (order : List (Str × String)) (s : Spec) : Res Str :=
  order.foldl (verStep aliasing nilGuard s) (.ok vEarliest)

def requiredVersion (s : Spec) : Res Str := requiredVersionIn false true table s
def requiredVersionPinned (s : Spec) : Res Str := requiredVersionIn true false table s

/-- `MinimumRequiredVersion`: the string without the leading "v" -/
def minimumRequiredVersion (s : Spec) : Res Str := (requiredVersion s).map versionString

/-- `ValidateVersion(spec)`: `ok true` = nil error -/
def validateVersionWith (aliasing nilGuard : Bool) (s : Spec) : Res Bool :=
  if !isValidVersion s.version then .ok false else
  match requiredVersionIn aliasing nilGuard table s with
  | .ok mv => .ok (!versionGt (newVersion (versionString mv)) (newVersion s.version))
  | .err => .err
  | .panic => .panic

def validateVersion := validateVersionWith false true

end Cdi.Version
