/-
  CdiModel.SchemaGlue — the entry points of /repo/schema/schema.go as pipelines over
  a parsed document: which of them run the JSON-Schema engine, which also run the
  annotation content check (`validateContents`), and what a nil / "none" schema does.
-/
import CdiModel.Schema
import CdiModel.K8s
import CdiModel.Generated.SchemaGen
import CdiModel.Generated.Facts
namespace Cdi.SchemaGlue
open Cdi

inductive SchemaChoice where
  | builtin | none | nil
  deriving Repr, DecidableEq

inductive Entry where
  | dataJson | dataYaml | fileJson | fileYaml | reader | readAndValidate | typed
  deriving Repr, DecidableEq

/-- `(*Schema).validate`: a nil Schema or one without a compiled schema accepts everything -/
def engine (c : SchemaChoice) (doc : JVal) : Bool :=
  match c with
  | .builtin => Schema.validates Generated.builtinSchema doc
  | _ => true

/-- annotation map of an object: values must be strings, keys valid; `none` = no such member / not an object -/
def annotationsOK (v : JVal) : Bool :=
  match v with
  | .obj m =>
    match Schema.memberLast m (lit "annotations") with
    | some (.obj a) =>
      a.toList.all (fun kv => match kv.2 with | .str _ => true | _ => false) &&
      K8s.validateAnnotations (a.toList.filterMap (fun kv => match kv.2 with | .str s => some (kv.1, s) | _ => none))
    | _ => true
  | _ => true

/-- `validateContents`: spec-level annotations, then every device (a device that is not an
object or null is an error) -/
def contentsOK (doc : JVal) : Bool :=
  annotationsOK doc &&
  (match doc with
   | .obj m =>
     match Schema.memberLast m (lit "devices") with
     | some (.arr ds) => ds.toList.all (fun d => match d with
         | .obj _ => annotationsOK d
         | .null => true
         | _ => false)
     | _ => true
   | _ => true)

/-- does the entry point run `validateContents`? `dataBothEncodings` = the repaired tree
(JSON and YAML bytes are treated alike); the pinned tree ran it for YAML bytes only. -/
def runsContents (dataBothEncodings : Bool) : Entry → Bool
  | .dataJson => dataBothEncodings
  | .dataYaml => true
  | .fileYaml => true           -- ValidateFile on a non-.json name goes through ValidateData
  | .fileJson => false
  | .reader => false
  | .readAndValidate => false
  | .typed => false

/-- the exported method of `*Schema` behind each entry point of the model -/
def entryMethod : Entry → String
  | .dataJson => "ValidateData"
  | .dataYaml => "ValidateData"
  | .fileJson => "ValidateFile"
  | .fileYaml => "ValidateFile"
  | .reader => "ValidateReader"
  | .readAndValidate => "ReadAndValidate"
  | .typed => "ValidateType"

/-- verdict of an entry point on a parsed document (`true` = nil error); the content check
belongs to a real schema: a nil Schema and the "none" schema (no compiled schema) skip it -/
def verdictWith (both : Bool) (c : SchemaChoice) (e : Entry) (doc : JVal) : Bool :=
  engine c doc && (if runsContents both e && c == .builtin then contentsOK doc else true)

def verdict := verdictWith true

end Cdi.SchemaGlue
