/-
  CdiModel.Inject — model of Cache.InjectDevices (cache.go:228-266) up to the
  single `Apply` call, and of ContainerEdits.Append (container-edits.go:200-221).
-/
import CdiModel.CacheSpec
namespace Cdi.Inject
open Cdi Cdi.Cache

/-- `(*ContainerEdits).Append`: field-wise concatenation, last non-nil IntelRdt wins -/
def appendEdits (e o : Edits) : Edits :=
  { env := e.env ++ o.env, deviceNodes := e.deviceNodes ++ o.deviceNodes, hooks := e.hooks ++ o.hooks,
    mounts := e.mounts ++ o.mounts, intelRdt := if o.intelRdt.isSome then o.intelRdt else e.intelRdt,
    additionalGids := e.additionalGids ++ o.additionalGids }

/-- identity of a loaded Spec object: the file and the priority it was loaded at -/
def specKey (r : Ref) : Str × Nat := (r.path, r.prio)

structure LoopState where
  edits : Edits := {}
  specsSeen : List (Str × Nat) := []
  unresolved : List Str := []

/-- the accumulation loop of `InjectDevices` -/
def loopStep (device : Str → Option Ref) (st : LoopState) (q : Str) : LoopState :=
  match device q with
  | none => { st with unresolved := st.unresolved ++ [q] }
  | some r =>
    if st.specsSeen.contains (specKey r) then
      { st with edits := appendEdits st.edits r.device.edits }
    else
      { st with specsSeen := specKey r :: st.specsSeen,
                edits := appendEdits (appendEdits st.edits r.specEdits) r.device.edits }

inductive Outcome where
  | nilOci (returned : List Str)          -- nil OCI spec: all requested names, error
  | unresolved (names : List Str)         -- error, OCI spec untouched
  | apply (edits : Edits)                 -- `edits.Apply(ociSpec)` is called exactly once
  deriving Repr, DecidableEq

/-- `InjectDevices(ociSpec, devices...)` -/
def injectDevices (device : Str → Option Ref) (ociIsNil : Bool) (req : List Str) : Outcome :=
  if ociIsNil then .nilOci req else
  let st := req.foldl (loopStep device) {}
  if st.unresolved ≠ [] then .unresolved st.unresolved else .apply st.edits

/-! ### declarative side (C02 / C04) -/

/-- is `r` the first device of its Spec file among those already met? -/
def firstOfItsSpec (pre : List Ref) (r : Ref) : Bool := pre.all (fun p => specKey p != specKey r)

/-- the edit blocks in request order: for each device the spec-level edits of its file
(only the first time a device of that file is met) followed by the device's own edits -/
def contribs : List Ref → List Ref → List Edits
  | _, [] => []
  | pre, r :: rest =>
    (if firstOfItsSpec pre r then [r.specEdits] else []) ++ [r.device.edits] ++ contribs (pre ++ [r]) rest

def combined (refs : List Ref) : Edits := (contribs [] refs).foldl appendEdits {}

/-- the requested names that do not resolve, in request order with repetitions -/
def unresolvedOf (device : Str → Option Ref) (req : List Str) : List Str :=
  req.filter (fun q => (device q).isNone)

end Cdi.Inject
