/-
  CdiModel.Schema — JSON-Schema draft-07 semantics for the keyword subset the
  shipped schema files use: type, properties, required, items,
  patternProperties (patterns recognised: ".{1,}"), minimum, maximum.
  `$ref`s are inlined by factgen; unknown keywords are ignored (as draft-07 says).
  This file *defines* what the schema files mean; that gojsonschema implements
  it is established by correspondence (stream `schema`).
-/
import CdiModel.Json
namespace Cdi

mutual
inductive Schema where
  | node (type : Option String) (props : SchemaProps) (required : List String) (items : SchemaOpt)
         (patternProps : SchemaProps) (minimum maximum : Option Int)
inductive SchemaProps where
  | nil
  | cons (name : String) (s : Schema) (rest : SchemaProps)
inductive SchemaOpt where
  | none
  | some (s : Schema)
end

namespace Schema

/-- the schema that constrains nothing -/
def any : Schema := .node none .nil [] .none .nil none none

def typeOK (t : String) (v : JVal) : Bool :=
  match t, v with
  | "object", .obj _ => true
  | "array", .arr _ => true
  | "string", .str _ => true
  | "boolean", .bool _ => true
  | "null", .null => true
  | "number", .num _ _ => true
  | "integer", .num m sc => m % (10 ^ sc : Nat) == 0     -- zero fractional part
  | _, _ => false

/-- `minimum` / `maximum` on an exact decimal: compare m·10^-sc with the bound -/
def geBound (m : Int) (sc : Nat) (b : Int) : Bool := decide (b * (10 ^ sc : Nat) ≤ m)
def leBound (m : Int) (sc : Nat) (b : Int) : Bool := decide (m ≤ b * (10 ^ sc : Nat))

/-- does a member name match the pattern? (".{1,}": at least one character other than newline;
any other pattern is not recognised and treated as matching nothing — factgen rejects it) -/
def patternMatches (pattern : String) (key : Str) : Bool :=
  pattern == ".{1,}" && key.any (fun c => c != cNL)

/-- the last member with that name (encoding/json keeps the last duplicate) -/
def memberLast (m : JMembers) (k : Str) : Option JVal :=
  (m.toList.filter (fun kv => kv.1 == k)).getLast?.map (·.2)

mutual
def validates : Schema → JVal → Bool
  | .node type props required items patternProps minimum maximum, v =>
    (match type with
     | some t => typeOK t v
     | none => true) &&
    (match v with
     | .obj m =>
       propsOK props m && required.all (fun r => (memberLast m (lit r)).isSome) && patternOK patternProps m.toList
     | .arr l => itemsOK items l.toList
     | .num mant sc =>
       (match minimum with | some b => geBound mant sc b | none => true) &&
       (match maximum with | some b => leBound mant sc b | none => true)
     | _ => true)
/-- every declared property that is present validates against its sub-schema -/
def propsOK : SchemaProps → JMembers → Bool
  | .nil, _ => true
  | .cons name s rest, m =>
    (match memberLast m (lit name) with
     | some v => validates s v
     | none => true) && propsOK rest m
/-- every member whose name matches a pattern validates against that pattern's schema -/
def patternOK : SchemaProps → List (Str × JVal) → Bool
  | .nil, _ => true
  | .cons pattern s rest, ms =>
    patternMembersOK pattern s ms && patternOK rest ms
def patternMembersOK (pattern : String) (s : Schema) : List (Str × JVal) → Bool
  | [] => true
  | (k, v) :: rest => (if patternMatches pattern k then validates s v else true) && patternMembersOK pattern s rest
def itemsOK : SchemaOpt → List JVal → Bool
  | .none, _ => true
  | .some s, l => itemsAll s l
def itemsAll (s : Schema) : List JVal → Bool
  | [] => true
  | v :: rest => validates s v && itemsAll s rest
end

end Schema
end Cdi
