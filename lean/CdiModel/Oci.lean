/-
  CdiModel.Oci — the part of the OCI runtime spec that ContainerEdits.Apply
  touches.  A nil pointer and a pointer to a zero struct, and a nil and an empty
  slice, coincide (the harness compares canonical images), except `hasProcess`,
  on which Apply's uid/gid defaulting depends.  Everything else in the OCI spec
  is outside this record; the harness checks it is unchanged (frame clause).
-/
import CdiModel.Spec
namespace Cdi

structure LinuxDevice where
  path : Str := []
  type : Str := []
  major : Int := 0
  minor : Int := 0
  fileMode : Option Nat := none
  uid : Option Nat := none
  gid : Option Nat := none
  deriving Repr, DecidableEq

structure DevRule where
  allow : Bool := true
  type : Str := []
  major : Option Int := none
  minor : Option Int := none
  access : Str := []
  deriving Repr, DecidableEq

structure OMount where
  destination : Str := []
  type : Str := []
  source : Str := []
  options : List Str := []
  deriving Repr, DecidableEq

structure OHook where
  path : Str := []
  args : List Str := []
  env : List Str := []
  timeout : Option Int := none
  deriving Repr, DecidableEq

structure Oci where
  hasProcess : Bool := false
  env : List Str := []
  uid : Nat := 0
  gid : Nat := 0
  addGids : List Nat := []
  devices : List LinuxDevice := []
  rules : List DevRule := []
  rdt : Option IntelRdt := none
  mounts : List OMount := []
  prestart : List OHook := []
  createRuntime : List OHook := []
  createContainer : List OHook := []
  startContainer : List OHook := []
  poststart : List OHook := []
  poststop : List OHook := []
  deriving Repr, DecidableEq

/-- what `lstat` reports for a host path -/
inductive HostNode where
  | dev (type : Str) (major minor : Int)   -- type "b", "c" or "p"
  | other                                   -- exists but is not a device node
  deriving Repr, DecidableEq

end Cdi
