/-
  CdiModel.Validate — model of the Spec admission pipeline:
  newSpec()/(*Spec).validate() (spec.go:98-249), (*Device).validate()
  (device.go:69-88), ContainerEdits.Validate and the element validators
  (container-edits.go:166-345), ValidateSpecAnnotations (validation/validate.go).

  `ok true` = nil error, `ok false` = error, `panic` = run-time panic.
  `nilGuard = false` models the pinned tree, which dereferences nil list entries.
-/
import CdiModel.Spec
import CdiModel.Parser
import CdiModel.K8s
import CdiModel.Version
import CdiModel.Path
import CdiModel.Generated.Facts
namespace Cdi.Validate
open Cdi

/-- `ValidateEnv`: every entry has '=' at an index > 0 -/
def envEntryOK (v : Str) : Bool :=
  match splitFirst cEq v with
  | some (name, _) => name ≠ []
  | none => false

def validateEnv (env : List Str) : Bool := env.all envEntryOK

def deviceTypes : List Str := Generated.deviceTypes.map lit
def hookNames : List Str := Generated.hookNames.map lit

def isPermByte (c : Byte) : Bool := c == 114 || c == 119 || c == 109   -- 'r' 'w' 'm'

/-- `(*DeviceNode).Validate` -/
def validateDeviceNode (d : DeviceNode) : Bool :=
  d.path ≠ [] && deviceTypes.contains d.type && d.permissions.all isPermByte

/-- `(*Hook).Validate` -/
def validateHook (h : Hook) : Bool :=
  hookNames.contains h.hookName && h.path ≠ [] && validateEnv h.env

/-- `(*Mount).Validate` -/
def validateMount (m : Mount) : Bool := m.hostPath ≠ [] && m.containerPath ≠ []

/-- `(*IntelRdt).Validate`: ClosID must be a legal file name (or empty) -/
def validateIntelRdt (i : IntelRdt) : Bool :=
  decide (i.closID.length < 4096) && i.closID ≠ Path.dot && i.closID ≠ Path.dotdot &&
  !(i.closID.contains cSlash) && !(i.closID.contains cNL)

/-- validate a list of nullable entries in order; a nil entry is an error when
guarded, a nil dereference otherwise -/
def validateEntries {α} (nilGuard : Bool) (f : α → Bool) : List (Option α) → Res Bool
  | [] => .ok true
  | none :: _ => if nilGuard then .ok false else .panic
  | some x :: rest => if f x then validateEntries nilGuard f rest else .ok false

/-- `(*ContainerEdits).Validate` -/
def validateEdits (nilGuard : Bool) (e : Edits) : Res Bool :=
  if !validateEnv e.env then .ok false else
  match validateEntries nilGuard validateDeviceNode e.deviceNodes with
  | .ok true =>
    match validateEntries nilGuard validateHook e.hooks with
    | .ok true =>
      match validateEntries nilGuard validateMount e.mounts with
      | .ok true =>
        match e.intelRdt with
        | some i => .ok (validateIntelRdt i)
        | none => .ok true
      | r => r
    | r => r
  | r => r

/-- `isEmpty()` of a device's edits -/
def editsEmpty (e : Edits) : Bool :=
  e.env = [] && e.deviceNodes = [] && e.hooks = [] && e.mounts = [] &&
  e.additionalGids = [] && e.intelRdt.isNone

/-- `ValidateSpecAnnotations`: `typed = false` models the pinned tree, whose type
switch has no case for `map[string]string` and therefore accepts everything. -/
def validateAnnotations (typed : Bool) (ann : List (Str × Str)) : Bool :=
  if typed then K8s.validateAnnotations ann else true

/-- `(*Device).validate` -/
def validateDevice (nilGuard typed : Bool) (d : Device) : Res Bool :=
  match Parser.validateDeviceName d.name with
  | .ok true =>
    if !validateAnnotations typed d.annotations then .ok false else
    if editsEmpty d.edits then .ok false else
    validateEdits nilGuard d.edits
  | r => r

/-- the device loop of `(*Spec).validate`: validate, then reject a repeated name -/
def validateDevices (nilGuard typed : Bool) : List Device → List Str → Res Bool
  | [], _ => .ok true
  | d :: rest, seen =>
    match validateDevice nilGuard typed d with
    | .ok true => if seen.contains d.name then .ok false else validateDevices nilGuard typed rest (d.name :: seen)
    | r => r

structure Flags where
  nilGuard : Bool := true     -- container-edits.go nil checks
  typedAnn : Bool := true     -- validate.go handles map[string]string
  oneLetter : Bool := true    -- parser.go one-letter guard
  aliasing : Bool := false    -- version.go loop-variable aliasing
  verNilGuard : Bool := true  -- version.go nil checks
  deriving Repr

def fixed : Flags := {}
def pinned : Flags := { nilGuard := false, typedAnn := false, oneLetter := false, aliasing := true, verNilGuard := false }

/-- `newSpec` + `(*Spec).validate` -/
def validateSpecWith (f : Flags) (s : Spec) : Res Bool :=
  let vc := Parser.parseQualifier s.kind
  match Version.validateVersionWith f.aliasing f.verNilGuard s with
  | .ok true =>
    match Parser.validateVCWith f.oneLetter vc.1 with
    | .ok true =>
      match Parser.validateVCWith f.oneLetter vc.2 with
      | .ok true =>
        if !validateAnnotations f.typedAnn s.annotations then .ok false else
        match validateEdits f.nilGuard s.edits with
        | .ok true =>
          match validateDevices f.nilGuard f.typedAnn s.devices [] with
          | .ok true => .ok (s.devices ≠ [])
          | r => r
        | r => r
      | r => r
    | r => r
  | r => r

def validateSpec := validateSpecWith fixed
def validateSpecPinned := validateSpecWith pinned

end Cdi.Validate
