/-
  CdiModel.WatchMulti — C11 for any number of configured directories: one watcher, one
  event queue, one cache mutex, one scan that reads every directory.  Directory `d`
  (`d < n`) has its own existence, kernel watch, watcher belief, `seen` mark and staleness.
-/
import CdiModel.Watch
namespace Cdi.WatchMulti
open Cdi Cdi.Watch

structure DSt where
  dirExists : Bool
  kwatch : Bool
  tracked : Bool
  seen : Bool
  stale : Bool
  deriving Repr, DecidableEq

structure MSt where
  dir : Nat → DSt
  pend : Bool
  queue : List (Nat × Ev)

def setDir (f : Nat → DSt) (d : Nat) (x : DSt) : Nat → DSt := fun j => if j = d then x else f j

def memit (s : MSt) (d : Nat) (e : Ev) : MSt :=
  if (s.dir d).kwatch then { s with queue := s.queue ++ [(d, e)] } else s

/-- file-system operations on directory `d` (the alphabet of the single-directory model) -/
def mfs (s : MSt) (d : Nat) : FsOp → Option MSt
  | .writeSpec =>
    if (s.dir d).dirExists then some (memit { s with dir := setDir s.dir d { s.dir d with stale := true } } d .change) else none
  | .moveIn =>
    if (s.dir d).dirExists then some (memit { s with dir := setDir s.dir d { s.dir d with stale := true } } d .createOnly) else none
  | .tempFile => if (s.dir d).dirExists then some (memit s d .other) else none
  | .rmdir =>
    if (s.dir d).dirExists then
      let s1 := memit s d .rmdir
      some { s1 with dir := setDir s1.dir d { s.dir d with dirExists := false, kwatch := false, stale := (s.dir d).seen } }
    else none
  | .mkdir => if (s.dir d).dirExists then none else some { s with dir := setDir s.dir d { s.dir d with dirExists := true } }
  | .foreign _ => none

/-- `watch.update()` for one directory -/
def dupdate (c : Cfg) (x : DSt) : DSt × Bool :=
  if x.tracked then (x, false)
  else if x.dirExists then ({ x with tracked := true, kwatch := true }, true)
  else (x, c.seenForcesRefresh && x.seen)

/-- `watch.update()` over all `n` directories: the new beliefs, and whether a refresh is due -/
def updateAll (c : Cfg) (n : Nat) (f : Nat → DSt) : (Nat → DSt) × Bool :=
  (fun d => if d < n then (dupdate c (f d)).1 else f d, (List.range n).any (fun d => (dupdate c (f d)).2))

inductive MStep where
  | fs (d : Nat) (o : FsOp)
  | watcherTake
  | scan
  | query
  | drop      -- the kernel drops the newest queued event and leaves its (global) overflow marker

def mstep (c : Cfg) (n : Nat) (s : MSt) : MStep → Option MSt
  | .fs d o => if d < n then mfs s d o else none
  | .watcherTake =>
    if s.pend then none else
    match s.queue with
    | [] => none
    | (d, e) :: rest =>
      if !passes c e then some { s with queue := rest } else
      -- the overflow marker concerns every directory: all beliefs are dropped, then the watches are added again
      let f0 : Nat → DSt := if e = .lost then (fun j => { s.dir j with tracked := false }) else s.dir
      let f1 := (updateAll c n f0).1
      let f2 := if e = .rmdir ∧ (s.dir d).tracked then setDir f1 d { f1 d with tracked := false } else f1
      some { dir := f2, pend := true, queue := rest }
  | .scan =>
    if s.pend then some { s with pend := false, dir := fun d => { s.dir d with stale := false, seen := (s.dir d).dirExists } }
    else none
  | .query =>
    if s.pend then none else
    let (f1, due) := updateAll c n s.dir
    some { s with dir := f1, pend := due }
  | .drop => if s.queue = [] then none else some { s with queue := s.queue.dropLast ++ [(0, .lost)] }

def mrun (c : Cfg) (n : Nat) (s : MSt) (l : List MStep) : MSt := l.foldl (fun s st => (mstep c n s st).getD s) s

def minit (exists_ : Nat → Bool) : MSt :=
  { dir := fun d => ⟨exists_ d, exists_ d, exists_ d, exists_ d, false⟩, pend := false, queue := [] }

/-- a query followed by the scan it may have made pending -/
def mqueryNow (c : Cfg) (n : Nat) (s : MSt) : MSt :=
  let s1 := (mstep c n s .query).getD s
  (mstep c n s1 .scan).getD s1

/-- what directory `d` sees of the shared machine: its own state, the shared mutex/scan state, and
the shared queue with the other directories' events reduced to "passes the filter or not" -/
def pev (c : Cfg) (d : Nat) (p : Nat × Ev) : Ev :=
  if p.2 = .lost then .lost else if p.1 = d then p.2 else if passes c p.2 then .change else .other

def proj (c : Cfg) (d : Nat) (s : MSt) : St :=
  ⟨(s.dir d).dirExists, (s.dir d).kwatch, (s.dir d).tracked, (s.dir d).seen, (s.dir d).stale, s.pend, s.queue.map (pev c d)⟩

end Cdi.WatchMulti
