/-
  CdiModel.Snap — C12, snapshot consistency: a refresher replaces the `n` index
  maps of the cache (specs, devices, errors: n = 3) one assignment at a time inside
  its critical section; a query reads the maps one at a time inside its own.  A
  map's content is abstracted to the number of the scan that produced it.

  `rawQuery` is a query that does not take the mutex (only used to show that the
  theorem is sensitive to the locking discipline).
-/
namespace Cdi.Snap

inductive Kind where
  | refresh (scan : Nat)
  | query
  | rawQuery
  deriving Repr, DecidableEq

structure Th where
  kind : Kind
  pc : Nat
  got : List Nat
  deriving Repr, DecidableEq

structure St where
  th : Nat → Th
  holder : Option Nat
  mem : Nat → Nat            -- map number (< n) ↦ the scan its content comes from

def upd (th : Nat → Th) (i : Nat) (t : Th) : Nat → Th := fun j => if j = i then t else th j

def init (kinds : Nat → Kind) (scan0 : Nat) : St := ⟨fun i => ⟨kinds i, 0, []⟩, none, fun _ => scan0⟩

/-- thread `i` takes its next action, if enabled: pc 0 = Lock, pc 1..n = the n assignments /
reads, pc n+1 = Unlock, pc n+2 = finished -/
def step (n : Nat) (s : St) (i : Nat) : Option St :=
  let t := s.th i
  match t.kind with
  | .refresh v =>
    if t.pc = 0 then
      if s.holder = none then some { s with th := upd s.th i { t with pc := 1 }, holder := some i } else none
    else if t.pc ≤ n then
      some { s with th := upd s.th i { t with pc := t.pc + 1 }, mem := fun f => if f = t.pc - 1 then v else s.mem f }
    else if t.pc = n + 1 then some { s with th := upd s.th i { t with pc := n + 2 }, holder := none }
    else none
  | .query =>
    if t.pc = 0 then
      if s.holder = none then some { s with th := upd s.th i { t with pc := 1 }, holder := some i } else none
    else if t.pc ≤ n then
      some { s with th := upd s.th i { t with pc := t.pc + 1, got := t.got ++ [s.mem (t.pc - 1)] } }
    else if t.pc = n + 1 then some { s with th := upd s.th i { t with pc := n + 2 }, holder := none }
    else none
  | .rawQuery =>
    if t.pc < n then some { s with th := upd s.th i { t with pc := t.pc + 1, got := t.got ++ [s.mem t.pc] } }
    else none

def run (n : Nat) (s : St) (schedule : List Nat) : St := schedule.foldl (fun s i => (step n s i).getD s) s

end Cdi.Snap
