/-
  CdiModel.CacheSpec — declarative side of C01 / C13: who wins a device name,
  what the listings are, which files are in error.  Nothing here follows the
  refresh loop: `winner` looks at all definers at once.
-/
import CdiModel.Cache
import CdiModel.AnnotationsSpec
namespace Cdi.Cache
open Cdi

/-- every device definition of every successfully loaded Spec file, in scan order -/
def allRefs (items : List ScanItem) : List Ref :=
  items.flatMap (fun it => match it.spec with
    | some s => refsOf (Path.clean it.path) it.prio s
    | none => [])

def definers (q : Str) (items : List ScanItem) : List Ref :=
  (allRefs items).filter (fun r => r.qname == q)

def maxPrio (l : List Ref) : Nat := l.foldl (fun m r => max m r.prio) 0

/-- the definitions in the highest-priority directory that defines the name -/
def top (l : List Ref) : List Ref := l.filter (fun r => r.prio == maxPrio l)

/-- resolves iff the highest-priority directory defining it does so in exactly one file -/
def winner (l : List Ref) : Option Ref :=
  match top l with
  | [r] => some r
  | _ => none

def resolution (q : Str) (items : List ScanItem) : Option Ref := winner (definers q items)

/-- paths of files that failed to load -/
def failedPaths (items : List ScanItem) : List Str :=
  items.filterMap (fun it => if it.spec.isNone then some (Path.clean it.path) else none)

/-- does `l` contain two definitions of the same name at the same priority, one of them `r`? -/
def inConflict (l : List Ref) (r : Ref) : Bool :=
  decide (2 ≤ (l.filter (fun x => x.qname == r.qname && x.prio == r.prio)).length)

/-- paths of files taking part in a same-priority conflict (I1) -/
def conflictPaths (items : List ScanItem) : List Str :=
  let refs := allRefs items
  (refs.filter (inConflict refs)).map (·.path)

def sortedKeys (l : List Str) : List Str := Annotations.sortStrs (dedup l)

/-- files in error = failed to load, or taking part in a same-priority conflict -/
def errorKeysSpec (items : List ScanItem) : List Str :=
  sortedKeys (failedPaths items ++ conflictPaths items)

def loadedSpecs (items : List ScanItem) : List (Str × Nat × Spec) :=
  items.filterMap (fun it => it.spec.map (fun s => (Path.clean it.path, it.prio, s)))

def vendorsSpec (items : List ScanItem) : List Str :=
  sortedKeys ((loadedSpecs items).map (fun x => (Parser.parseQualifier x.2.2.kind).1))
def classesSpec (items : List ScanItem) : List Str :=
  sortedKeys ((loadedSpecs items).map (fun x => (Parser.parseQualifier x.2.2.kind).2))
def devicesSpec (items : List ScanItem) : List Str :=
  sortedKeys (((allRefs items).map (·.qname)).filter (fun q => (resolution q items).isSome))

end Cdi.Cache
