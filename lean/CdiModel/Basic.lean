/-
  CdiModel.Basic — shared vocabulary of the executable model.

  Go strings are byte sequences; the model works on `Str := List UInt8`.
  `Res` is the outcome of a Go call: a value, an `error`, or a run-time panic.
  Slice and index expressions are modelled with Go's bounds rules so that a
  missing guard in the code is a `panic` outcome in the model.
  Core Lean only (this library is linked into the `cdidriver` executable).
-/
namespace Cdi

abbrev Byte := UInt8
abbrev Str := List UInt8

/-- Outcome of a Go call. -/
inductive Res (α : Type) where
  | ok (a : α)
  | err
  | panic
  deriving Repr, DecidableEq, BEq

namespace Res
def isOk {α} : Res α → Bool | .ok _ => true | _ => false
def isPanic {α} : Res α → Bool | .panic => true | _ => false
def bind {α β} (r : Res α) (f : α → Res β) : Res β :=
  match r with
  | .ok a => f a
  | .err => .err
  | .panic => .panic
def map {α β} (f : α → β) : Res α → Res β
  | .ok a => .ok (f a)
  | .err => .err
  | .panic => .panic
instance : Monad Res where
  pure := .ok
  bind := Res.bind
end Res

/-- Go `s[lo:hi]`: panics unless `lo ≤ hi ≤ len s`. -/
def goSlice (s : Str) (lo hi : Nat) : Res Str :=
  if lo ≤ hi ∧ hi ≤ s.length then .ok ((s.drop lo).take (hi - lo)) else .panic

/-- Go `s[i]`: panics unless `i < len s`. -/
def goIndex (s : Str) (i : Nat) : Res Byte :=
  match s[i]? with
  | some c => .ok c
  | none => .panic

/-- ASCII literal as a byte string (used for constants only). -/
def lit (s : String) : Str := s.toList.map (fun c => c.toNat.toUInt8)

def cSlash : Byte := 47
def cEq : Byte := 61
def cComma : Byte := 44
def cDot : Byte := 46
def cDash : Byte := 45
def cUnder : Byte := 95
def cColon : Byte := 58
def cNL : Byte := 10

/-- `strings.SplitN(s, sep, 2)` for a one-byte separator: `none` when the
separator does not occur (Go returns the one-element slice `[s]`), otherwise
the text before and after the first occurrence. -/
def splitFirst (sep : Byte) : Str → Option (Str × Str)
  | [] => none
  | c :: cs =>
    if c = sep then some ([], cs)
    else match splitFirst sep cs with
      | some (a, b) => some (c :: a, b)
      | none => none

/-- `strings.Split(s, sep)` for a one-byte separator (never returns `[]`). -/
def splitAll (sep : Byte) : Str → List Str
  | [] => [[]]
  | c :: cs =>
    if c = sep then [] :: splitAll sep cs
    else match splitAll sep cs with
      | [] => [[c]]          -- unreachable: splitAll never returns []
      | p :: ps => (c :: p) :: ps

/-- `strings.Join(parts, sep)` for a one-byte separator. -/
def joinWith (sep : Byte) : List Str → Str
  | [] => []
  | [p] => p
  | p :: q :: ps => p ++ sep :: joinWith sep (q :: ps)

/-- `strings.ReplaceAll(s, old, new)` for one-byte `old` and `new`. -/
def replaceByte (old new : Byte) (s : Str) : Str :=
  s.map (fun c => if c = old then new else c)

/-- `strings.HasPrefix`. -/
def hasPrefix (p s : Str) : Bool := p.isPrefixOf s

def isLetter (c : Byte) : Bool := (65 ≤ c && c ≤ 90) || (97 ≤ c && c ≤ 122)
def isDigit (c : Byte) : Bool := 48 ≤ c && c ≤ 57
def isAlnum (c : Byte) : Bool := isLetter c || isDigit c

/-- Association lists model Go maps where the model needs deterministic order. -/
def lookup {α β} [DecidableEq α] (k : α) : List (α × β) → Option β
  | [] => none
  | (k', v) :: rest => if k' = k then some v else lookup k rest

/-- Hex transport of byte strings on the line protocol. -/
def hexDigit (n : Nat) : Char :=
  if n < 10 then Char.ofNat (48 + n) else Char.ofNat (87 + n)

def toHex (s : Str) : String :=
  String.ofList (s.flatMap (fun b => [hexDigit (b.toNat / 16), hexDigit (b.toNat % 16)]))

def hexVal (c : Char) : Option Nat :=
  if '0' ≤ c ∧ c ≤ '9' then some (c.toNat - 48)
  else if 'a' ≤ c ∧ c ≤ 'f' then some (c.toNat - 87)
  else if 'A' ≤ c ∧ c ≤ 'F' then some (c.toNat - 55)
  else none

def fromHexChars : List Char → Option Str
  | [] => some []
  | [_] => none
  | a :: b :: rest => do
    let x ← hexVal a
    let y ← hexVal b
    let r ← fromHexChars rest
    pure ((x * 16 + y).toUInt8 :: r)

def fromHex (s : String) : Option Str := fromHexChars s.toList

end Cdi
