/-
  CdiModel.Apply — model of (*ContainerEdits).Apply (container-edits.go:72-163),
  fillMissingInfo (container-edits_unix.go:59-87), the CDI→OCI field mapping
  (oci.go) and the opencontainers/runtime-tools generator methods Apply calls
  (modelled method by method, incl. the env cache keyed by whole initial entries).

  `Res.err` = Apply returns an error (the OCI spec may be partially edited: the
  model does not describe that state); `Res.panic` = nil entry dereference.
-/
import CdiModel.Oci
import CdiModel.Path
import CdiModel.Generated.Facts
namespace Cdi.Apply
open Cdi

/-! ### generator: process env -/

/-- part of an env entry before the first '=' (the whole entry if there is none) -/
def envName (v : Str) : Str :=
  match splitFirst cEq v with
  | some (n, _) => n
  | none => v

/-- `createEnvCacheMap`: whole entry ↦ index; a later duplicate wins -/
def createEnvCache (env : List Str) : List (Str × Nat) :=
  (env.zipIdx.map (fun p => (p.1, p.2))).reverse

/-- `addEnv(env, key)` -/
def addEnv (st : List (Str × Nat) × List Str) (val : Str) : List (Str × Nat) × List Str :=
  let key := envName val
  match lookup key st.1 with
  | some idx => (st.1, st.2.set idx val)
  | none => (st.1 ++ [(key, st.2.length)], st.2 ++ [val])

/-- `AddMultipleProcessEnv` on the generator built by `NewFromSpec` -/
def addMultipleProcessEnv (initial : List Str) (edits : List Str) : List Str :=
  (edits.foldl addEnv (createEnvCache initial, initial)).2

/-! ### device nodes -/

/-- `if d.HostPath == "" { d.HostPath = d.Path }` -/
def withHostPath (d : DeviceNode) : DeviceNode :=
  if d.hostPath = [] then { d with hostPath := d.path } else d

/-- type / major / minor taken from what the host reports at `t`, `major`, `minor` -/
def mergeHost (d : DeviceNode) (t : Str) (major minor : Int) : DeviceNode :=
  let d := if d.type = [] then { d with type := t } else d
  if d.major = 0 ∧ d.type ≠ lit "p" then { d with major := major, minor := minor } else d

def fillFromHost (host : Str → Option HostNode) (d : DeviceNode) : Res DeviceNode :=
  if d.type ≠ [] ∧ (d.major ≠ 0 ∨ d.type = lit "p") then .ok d else
  match host d.hostPath with
  | none => .err
  | some .other => .err
  | some (.dev t major minor) =>
    if d.type ≠ [] ∧ d.type ≠ t then .err else .ok (mergeHost d t major minor)

/-- `fillMissingInfo` (on a copy of the node: the repaired tree) -/
def fillMissingInfo (host : Str → Option HostNode) (d : DeviceNode) : Res DeviceNode :=
  fillFromHost host (withHostPath d)

/-- `toOCI` plus the uid/gid defaulting from a non-nil process with non-zero ids -/
def nodeToOci (o : Oci) (d : DeviceNode) : LinuxDevice :=
  { path := d.path, type := d.type, major := d.major, minor := d.minor, fileMode := d.fileMode,
    uid := match d.uid with
      | some u => some u
      | none => if o.hasProcess ∧ o.uid > 0 then some o.uid else none,
    gid := match d.gid with
      | some g => some g
      | none => if o.hasProcess ∧ o.gid > 0 then some o.gid else none }

/-- `RemoveDevice`: drop the first device with that path -/
def removeFirst {α} (p : α → Bool) : List α → List α
  | [] => []
  | x :: rest => if p x then rest else x :: removeFirst p rest

/-- `AddDevice`: replace the first device with that path, else append -/
def replaceOrAppend (dev : LinuxDevice) : List LinuxDevice → List LinuxDevice
  | [] => [dev]
  | x :: rest => if x.path = dev.path then dev :: rest else x :: replaceOrAppend dev rest

def isBlockOrChar (t : Str) : Bool := t == lit "b" || t == lit "c"

/-- the allow rule added for a block or char node (`access` = the node's permissions, default "rwm") -/
def ruleFor (dev : LinuxDevice) (permissions : Str) : List DevRule :=
  if isBlockOrChar dev.type then
    [{ allow := true, type := dev.type, major := some dev.major, minor := some dev.minor,
       access := if permissions = [] then lit "rwm" else permissions }]
  else []

/-- `RemoveDevice(dev.Path)` then `AddDevice(dev)` -/
def putDevice (devices : List LinuxDevice) (dev : LinuxDevice) : List LinuxDevice :=
  replaceOrAppend dev (removeFirst (fun x => x.path == dev.path) devices)

/-- one iteration of the device-node loop; `o` supplies the process uid/gid (the loop does not change them) -/
def applyNode (host : Str → Option HostNode) (o : Oci) (st : List LinuxDevice × List DevRule)
    (n : Option DeviceNode) : Res (List LinuxDevice × List DevRule) :=
  match n with
  | none => .panic
  | some d0 =>
    match fillMissingInfo host d0 with
    | .err => .err
    | .panic => .panic
    | .ok d =>
      let dev := nodeToOci o d
      .ok (putDevice st.1 dev, st.2 ++ ruleFor dev d0.permissions)

def applyNodes (host : Str → Option HostNode) (o : Oci) :
    List (Option DeviceNode) → List LinuxDevice × List DevRule → Res (List LinuxDevice × List DevRule)
  | [], st => .ok st
  | n :: rest, st =>
    match applyNode host o st n with
    | .ok st' => applyNodes host o rest st'
    | r => r

/-! ### mounts -/

def mountToOci (m : Mount) : OMount :=
  { source := m.hostPath, destination := m.containerPath, options := m.options, type := m.type }

/-- stable insertion sort by a key (models `sort.Stable`) -/
def insertByKey {α} (key : α → Nat) (x : α) : List α → List α
  | [] => [x]
  | y :: rest => if key y ≤ key x then y :: insertByKey key x rest else x :: y :: rest

def stableSortBy {α} (key : α → Nat) (l : List α) : List α :=
  l.foldl (fun acc x => insertByKey key x acc) []

def mountKey (m : OMount) : Nat := Path.mountDepth m.destination

def applyMount (ms : List OMount) (m : Option Mount) : Res (List OMount) :=
  match m with
  | none => .panic
  | some m => .ok (removeFirst (fun x => x.destination == m.containerPath) ms ++ [mountToOci m])

def applyMounts : List (Option Mount) → List OMount → Res (List OMount)
  | [], ms => .ok ms
  | m :: rest, ms =>
    match applyMount ms m with
    | .ok ms' => applyMounts rest ms'
    | r => r

/-! ### hooks -/

def hookToOci (h : Hook) : OHook := { path := h.path, args := h.args, env := h.env, timeout := h.timeout }

/-- the regenerated dispatch table: hook name ↦ OCI hook list -/
def hookStage (name : Str) : Option String :=
  (Generated.hookDispatch.find? (fun e => lit e.1 == name)).map (·.2)

def applyHook (o : Oci) (h : Option Hook) : Res Oci :=
  match h with
  | none => .panic
  | some h =>
    let oh := hookToOci h
    match hookStage h.hookName with
    | some "prestart" => .ok { o with prestart := o.prestart ++ [oh] }
    | some "poststart" => .ok { o with poststart := o.poststart ++ [oh] }
    | some "poststop" => .ok { o with poststop := o.poststop ++ [oh] }
    | some "createruntime" => .ok { o with createRuntime := o.createRuntime ++ [oh] }
    | some "createcontainer" => .ok { o with createContainer := o.createContainer ++ [oh] }
    | some "startcontainer" => .ok { o with startContainer := o.startContainer ++ [oh] }
    | _ => .err

def applyHooks : List (Option Hook) → Oci → Res Oci
  | [], o => .ok o
  | h :: rest, o =>
    match applyHook o h with
    | .ok o' => applyHooks rest o'
    | r => r

/-! ### additional GIDs -/

def addGid (gids : List Nat) (g : Nat) : List Nat :=
  if g = 0 then gids else if gids.contains g then gids else gids ++ [g]

/-! ### Apply -/

def apply (host : Str → Option HostNode) (e : Edits) (o : Oci) : Res Oci :=
  -- env (creates the process section when there is something to add)
  let o := if e.env ≠ [] then { o with hasProcess := true, env := addMultipleProcessEnv o.env e.env } else o
  match applyNodes host o e.deviceNodes (o.devices, o.rules) with
  | .ok (devices, rules) =>
    let mountsR : Res (List OMount) :=
      if e.mounts ≠ [] then (applyMounts e.mounts o.mounts).map (stableSortBy mountKey) else .ok o.mounts
    match mountsR with
    | .ok mounts =>
      match applyHooks e.hooks { o with devices := devices, rules := rules, mounts := mounts } with
      | .ok o =>
        let o := match e.intelRdt with
          | some r => { o with rdt := some r }
          | none => o
        let gids := e.additionalGids.foldl addGid o.addGids
        -- AddProcessAdditionalGid creates the process section for every non-zero gid
        .ok { o with addGids := gids, hasProcess := o.hasProcess || e.additionalGids.any (· ≠ 0) }
      | r => r
    | .err => .err
    | .panic => .panic
  | .err => .err
  | .panic => .panic

end Cdi.Apply
