/-
  CdiModel.NamesSpec — decidable judges for C16.
-/
import CdiModel.Names
namespace Cdi.Names
open Cdi Cdi.Path

/-- a single path component: non-empty, no '/', not "." or ".." -/
def singleComponent (n : Str) : Bool :=
  decide (n ≠ []) && n.all (fun c => c != cSlash) && decide (n ≠ dot) && decide (n ≠ dotdot)

/-- `p` lies directly inside directory `d` (both lexically clean) -/
def directlyInside (d p : Str) : Bool :=
  dir p == d && singleComponent (base p) && clean p == p

structure WriteObs where
  err : Bool
  changed : List Str      -- regular files created, modified or deleted (tree snapshot diff)
  newDirs : List Str      -- directories created

/-- Judge for `Cache.WriteSpec(spec, name)` with a generated (single-component)
name: on success exactly one file changes, it lies directly inside the last
directory, its base is the name or name+".yaml"; on failure nothing changes. -/
def judgeWrite (dirs : List Str) (name : Str) (o : WriteObs) : Option String :=
  match dirs.getLast? with
  | none => if o.err ∧ o.changed = [] then none else some "wrote-without-directories"
  | some d =>
    if o.err then (if o.changed = [] then none else some "failed-write-left-files")
    else match o.changed with
      | [p] =>
        if !directlyInside d p then some "file-not-directly-inside-last-directory"
        else if !(base p == name || base p == name ++ yamlExt) then some "file-name-differs"
        else if isSpecExt (ext name) && base p != name then some "extension-appended-to-spec-name"
        else if !isSpecExt (ext p) then some "written-file-is-not-a-spec-name"
        else if !(o.newDirs.all (fun nd => hasPrefix nd d)) then some "created-foreign-directory"
        else none
      | [] => some "nothing-written"
      | _ => some "more-than-one-file-touched"

/-- Judge for `Cache.RemoveSpec(name)` issued after `Cache.WriteSpec(_, name)`:
`written` is what the real write changed. Exactly that file disappears; when
nothing was written (or it is already gone) removal succeeds and changes nothing. -/
def judgeRemove (written : List Str) (o : WriteObs) : Option String :=
  if o.err then some "remove-failed"
  else if o.changed = written then none
  else if written = [] then some "removed-something-else" else some "removed-wrong-set"

end Cdi.Names
