/-
  CdiModel.Configure — C20: (re)configuration of a cache (cache.go:75-121,
  default-cache.go) with the resources it holds.

  Options are functions on two fields (directories, auto-refresh); `configure`
  applies them, drops the old watch completely (watcher closed: its descriptors,
  kernel watches and both goroutines go away) and, if auto-refresh is on, sets up
  a new one for the directories that exist — unless no descriptor can be had, in
  which case the cache keeps a nil watcher and every query rescans.
-/
import CdiModel.Path
namespace Cdi.Configure
open Cdi

inductive Opt where
  | specDirs (dirs : List Str)
  | autoRefresh (on : Bool)
  deriving Repr, DecidableEq

structure Fields where
  dirs : List Str
  auto : Bool
  deriving Repr, DecidableEq

/-- `DefaultSpecDirs` and the default of auto-refresh -/
def defaults : Fields := ⟨[lit "/etc/cdi", lit "/var/run/cdi"], true⟩

def applyOpt (f : Fields) : Opt → Fields
  | .specDirs dirs => { f with dirs := dirs.map Path.clean }
  | .autoRefresh on => { f with auto := on }

def applyOpts (f : Fields) (os : List Opt) : Fields := os.foldl applyOpt f

/-- what the environment allows at the moment of a (re)configuration -/
structure Env where
  dirExists : Str → Bool
  descriptorsAvailable : Bool

structure Resources where
  watchers : Nat      -- fsnotify watchers (each: an inotify descriptor and its reader goroutine)
  goroutines : Nat    -- the cache's own watch goroutines
  watches : Nat       -- kernel watches
  deriving Repr, DecidableEq

structure CState where
  fields : Fields
  watcherLive : Bool
  tracked : List Str     -- directories with a kernel watch
  res : Resources
  deriving Repr, DecidableEq

def dedupStr : List Str → List Str
  | [] => []
  | x :: rest => if rest.contains x then dedupStr rest else x :: dedupStr rest

/-- `(*Cache).configure(options...)` -/
def configure (env : Env) (s : CState) (os : List Opt) : CState :=
  let f := applyOpts s.fields os
  -- watch.stop() released whatever the old watch held
  if f.auto then
    if env.descriptorsAvailable then
      let tracked := (dedupStr f.dirs).filter env.dirExists
      { fields := f, watcherLive := true, tracked := tracked, res := ⟨1, 1, tracked.length⟩ }
    else { fields := f, watcherLive := false, tracked := [], res := ⟨0, 0, 0⟩ }
  else { fields := f, watcherLive := false, tracked := [], res := ⟨0, 0, 0⟩ }

/-- `(*Cache).Configure(options...)`: no options, no change -/
def Configure (env : Env) (s : CState) (os : List Opt) : CState :=
  if os = [] then s else configure env s os

/-- the state before the first configure inside `newCache` -/
def blank : CState := ⟨defaults, false, [], ⟨0, 0, 0⟩⟩

/-- `NewCache(options...)` -/
def newCache (env : Env) (os : List Opt) : CState := configure env blank os

/-- does a query rescan the directories unconditionally? (manual mode: never by itself;
auto mode with a nil watcher: always) -/
def queryAlwaysRefreshes (s : CState) : Bool := s.fields.auto && !s.watcherLive

/-- the package-level default cache: `cdi.Configure(options...)` creates it with the options on
first use and reconfigures it afterwards -/
def defaultConfigure (env : Env) (existing : Option CState) (os : List Opt) : CState :=
  match existing with
  | none => newCache env os
  | some s => Configure env s os

end Cdi.Configure
