/-
  CdiModel.Configure — C20: (re)configuration of a cache (cache.go:75-121,
  default-cache.go) with the resources it holds.

  Options are functions on two fields (directories, auto-refresh); `configure`
  applies them, drops the old watch completely (watcher closed: its descriptors,
  kernel watches and both goroutines go away) and, if auto-refresh is on, sets up
  a new one for the directories that exist — unless the descriptors for it cannot
  be had, in which case the cache keeps a nil watcher and every query rescans.
  Then it scans the directories; a scan that cannot open a directory (no free
  descriptor) leaves the cache stale, reports the directory and — on the repaired
  tree — marks the cache for a rescan at the next query.

  Descriptors are accounted physically: the environment offers `free` slots in
  the descriptor table besides what the cache itself holds; a watcher occupies
  `watcherCost` of them (inotify, epoll, wake-up pipe); listing a directory needs
  one, transiently.
-/
import CdiModel.Path
namespace Cdi.Configure
open Cdi

inductive Opt where
  | specDirs (dirs : List Str)
  | autoRefresh (on : Bool)
  deriving Repr, DecidableEq

structure Fields where
  dirs : List Str
  auto : Bool
  deriving Repr, DecidableEq

/-- `DefaultSpecDirs` and the default of auto-refresh -/
def defaults : Fields := ⟨[lit "/etc/cdi", lit "/var/run/cdi"], true⟩

def applyOpt (f : Fields) : Opt → Fields
  | .specDirs dirs => { f with dirs := dirs.map Path.clean }
  | .autoRefresh on => { f with auto := on }

def applyOpts (f : Fields) (os : List Opt) : Fields := os.foldl applyOpt f

/-- descriptors one fsnotify watcher occupies (validated by the reconf stream: inotify
descriptor, epoll descriptor, the two ends of the wake-up pipe) -/
def watcherCost : Nat := 4

/-- what the environment allows at the moment of a (re)configuration or query -/
structure Env where
  dirExists : Str → Bool
  free : Nat                 -- free descriptor slots, not counting what the cache holds

structure Resources where
  watchers : Nat      -- fsnotify watchers (each: `watcherCost` descriptors and a reader goroutine)
  goroutines : Nat    -- the cache's own watch goroutines
  watches : Nat       -- kernel watches
  deriving Repr, DecidableEq

structure CState where
  fields : Fields
  watcherLive : Bool
  tracked : List Str     -- directories with a kernel watch
  res : Resources
  stale : Bool           -- the last scan could not list the directories
  rescan : Bool          -- the next query refreshes again
  deriving Repr, DecidableEq

def dedupStr : List Str → List Str
  | [] => []
  | x :: rest => if rest.contains x then dedupStr rest else x :: dedupStr rest

/-- descriptors the cache holds -/
def held (s : CState) : Nat := if s.watcherLive then watcherCost else 0

/-- `(*Cache).configure(options...)`; `retry` = the repaired behaviour (a failed directory
listing is retried by the next query) -/
def configureWith (retry : Bool) (env : Env) (s : CState) (os : List Opt) : CState :=
  let f := applyOpts s.fields os
  -- watch.stop() released whatever the old watch held
  let avail := env.free + held s
  if f.auto && decide (watcherCost ≤ avail) then
    let tracked := (dedupStr f.dirs).filter env.dirExists
    let scanOK := decide (1 ≤ avail - watcherCost)
    { fields := f, watcherLive := true, tracked := tracked, res := ⟨1, 1, tracked.length⟩, stale := !scanOK, rescan := retry && !scanOK }
  else
    let scanOK := decide (1 ≤ avail)
    { fields := f, watcherLive := false, tracked := [], res := ⟨0, 0, 0⟩, stale := !scanOK, rescan := retry && !scanOK }

def configure := configureWith true
def configurePinned := configureWith false

/-- `(*Cache).Configure(options...)`: no options, no change -/
def Configure (env : Env) (s : CState) (os : List Opt) : CState :=
  if os = [] then s else configure env s os

/-- the state before the first configure inside `newCache` -/
def blank : CState := ⟨defaults, false, [], ⟨0, 0, 0⟩, false, false⟩

/-- `NewCache(options...)` -/
def newCache (env : Env) (os : List Opt) : CState := configure env blank os

/-- does a query rescan the directories before answering? manual mode: never by itself;
auto mode: with a nil watcher always, and when the last listing failed -/
def queryRefreshes (s : CState) : Bool := s.fields.auto && (!s.watcherLive || s.rescan)

/-- a query: `refreshIfRequired` -/
def query (env : Env) (s : CState) : CState :=
  if queryRefreshes s then
    let scanOK := decide (1 ≤ env.free)
    { s with stale := !scanOK, rescan := !scanOK }
  else s

/-- an explicit `Refresh()` -/
def refresh (env : Env) (s : CState) : CState :=
  let scanOK := decide (1 ≤ env.free)
  { s with stale := !scanOK, rescan := !scanOK }

/-- the package-level default cache: `cdi.Configure(options...)` creates it with the options on
first use and reconfigures it afterwards -/
def defaultConfigure (env : Env) (existing : Option CState) (os : List Opt) : CState :=
  match existing with
  | none => newCache env os
  | some s => Configure env s os

end Cdi.Configure
