/-
  CdiModel.Codec — C09: writing and reading a Spec file as a pipeline
      Spec --encodeSpec--> JSON value --text codec--> bytes --parse--> JSON value --decodeSpec--> Spec
  The text codecs (encoding/json and yaml.v3 writers, the yaml.v2-based reader)
  are third-party: they are *parameters* here, constrained by an explicit law.
-/
import CdiModel.Encode
import CdiModel.Decode
import CdiModel.Names
namespace Cdi.Codec
open Cdi

/-- a text codec: how a JSON value is rendered and how bytes are parsed back -/
structure TextCodec where
  render : JVal → Str
  parse : Str → Option JVal

/-- the law a codec must satisfy on a class of documents: rendering then parsing is the identity -/
def CodecOK (P : JVal → Prop) (c : TextCodec) : Prop := ∀ j, P j → c.parse (c.render j) = some j

/-- `(*Spec).write` then `ReadSpec`'s parse, through a given codec -/
def writeFile (c : TextCodec) (s : Spec) : Str := c.render (Encode.encodeSpec s)
def readFile (c : TextCodec) (data : Str) : Option Spec :=
  match c.parse data with
  | some j => (Decode.decodeSpec j).join
  | none => none

/-- integer fields within the Go types of specs-go/config.go -/
def nodeTyped (d : DeviceNode) : Bool :=
  decide (Decode.int64Min ≤ d.major ∧ d.major ≤ Decode.int64Max) &&
  decide (Decode.int64Min ≤ d.minor ∧ d.minor ≤ Decode.int64Max) &&
  d.fileMode.all (fun x => decide ((x : Int) ≤ Decode.uint32Max)) &&
  d.uid.all (fun x => decide ((x : Int) ≤ Decode.uint32Max)) && d.gid.all (fun x => decide ((x : Int) ≤ Decode.uint32Max))
def hookTyped (h : Hook) : Bool :=
  h.timeout.all (fun t => decide (Decode.int64Min ≤ t ∧ t ≤ Decode.int64Max))
def editsTyped (e : Edits) : Bool :=
  e.deviceNodes.all (fun n => n.all nodeTyped) && e.hooks.all (fun h => h.all hookTyped) &&
  e.additionalGids.all (fun g => decide ((g : Int) ≤ Decode.uint32Max))
def keysUnique (a : List (Str × Str)) : Bool := !Decode.hasDup (a.map (·.1))
/-- a value of the Go type `cdi.Spec`: integers in range, map keys unique -/
def specTyped (s : Spec) : Bool :=
  keysUnique s.annotations && editsTyped s.edits &&
  s.devices.all (fun d => keysUnique d.annotations && editsTyped d.edits)

/-- strings of a document the JSON writer/reader pair is known not to preserve: code points
U+007F–U+009F and the non-characters U+FFFE / U+FFFF (UTF-8: 7F, C2 80–C2 9F, EF BF BE, EF BF BF) -/
def jsonUnsafe : Str → Bool
  | 0x7F :: _ => true
  | 0xC2 :: b :: rest => (0x80 ≤ b && b ≤ 0x9F) || jsonUnsafe (b :: rest)
  | 0xEF :: 0xBF :: b :: rest => b == 0xBE || b == 0xBF || jsonUnsafe (0xBF :: b :: rest)
  | _ :: rest => jsonUnsafe rest
  | [] => false

/-- strings the YAML writer/reader pair (yaml.v3 block scalars read by the yaml.v2-based parser) is
known not to preserve: multi-line strings whose first character is a space or a line break
(LF, U+2028, U+2029) -/
def yamlUnsafe (s : Str) : Bool :=
  s.contains cNL &&
  (match s with
   | 0x20 :: _ => true
   | 0x0A :: _ => true
   | 0xE2 :: 0x80 :: 0xA8 :: _ => true
   | 0xE2 :: 0x80 :: 0xA9 :: _ => true
   | _ => false)

mutual
/-- every string of a document: string values and member names -/
def jvalStrings : JVal → List Str
  | .str s => [s]
  | .arr items => jlistStrings items
  | .obj members => jmembersStrings members
  | _ => []
def jlistStrings : JList → List Str
  | .nil => []
  | .cons v rest => jvalStrings v ++ jlistStrings rest
def jmembersStrings : JMembers → List Str
  | .nil => []
  | .cons k v rest => k :: (jvalStrings v ++ jmembersStrings rest)
end

/-- the strings a Spec file holds -/
def specStrings (s : Spec) : List Str := jvalStrings (Encode.encodeSpec s)

end Cdi.Codec
