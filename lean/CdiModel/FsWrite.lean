/-
  CdiModel.FsWrite — C10: an inode-level model of one Spec directory and of the
  file-system operations of (*Spec).write (spec.go:125-172), with faults.

  Names map to inodes; data lives in inodes (an unlinked or replaced inode keeps
  its data for whoever opened it before).  `rename` rebinds a name atomically.
-/
import CdiModel.Path
import CdiModel.Generated.Facts
namespace Cdi.FsWrite
open Cdi

structure FS where
  names : List (Str × Nat) := []     -- directory entries: name ↦ inode (first match wins)
  data : List (Nat × Str) := []      -- inode ↦ content (first match wins)
  next : Nat := 0                    -- next fresh inode number
  deriving Repr, DecidableEq

def FS.ino (fs : FS) (name : Str) : Option Nat := lookup name fs.names
def FS.content (fs : FS) (ino : Nat) : Option Str := lookup ino fs.data
def FS.read (fs : FS) (name : Str) : Option Str := (fs.ino name).bind fs.content

inductive Op where
  | createTemp (name : Str)                 -- O_CREAT|O_EXCL: fresh name, fresh empty inode
  | append (name : Str) (bytes : Str)       -- write(2) on the descriptor of `name`'s inode
  | rename (src dst : Str)                  -- renameat2 within the directory
  | remove (name : Str)
  deriving Repr, DecidableEq

def unbind (names : List (Str × Nat)) (n : Str) : List (Str × Nat) := names.filter (fun p => p.1 != n)

def step (fs : FS) : Op → FS
  | .createTemp name =>
    { names := (name, fs.next) :: unbind fs.names name, data := (fs.next, []) :: fs.data, next := fs.next + 1 }
  | .append name bytes =>
    match fs.ino name with
    | some i => { fs with data := (i, (fs.content i).getD [] ++ bytes) :: fs.data }
    | none => fs
  | .rename src dst =>
    match fs.ino src with
    | some i => { fs with names := (dst, i) :: unbind (unbind fs.names src) dst }
    | none => fs
  | .remove name => { fs with names := unbind fs.names name }

def run (fs : FS) (ops : List Op) : FS := ops.foldl step fs

/-- what can go wrong while writing -/
inductive Fault where
  | none
  | createFails                      -- CreateTemp returns an error: nothing happened
  | writeFailsAfter (k : Nat)        -- the write stops after k bytes (ENOSPC, EFBIG): the temp file is left behind
  | renameFails                      -- rename returns an error: the temp file is removed
  deriving Repr, DecidableEq

/-- the file-system operations of `(*Spec).write` for target `dst`, temp name `tmp` and content `new` -/
def writerOps (tmp dst new : Str) : Fault → List Op
  | .none => [.createTemp tmp, .append tmp new, .rename tmp dst]
  | .createFails => []
  | .writeFailsAfter k => [.createTemp tmp, .append tmp (new.take k)]
  | .renameFails => [.createTemp tmp, .append tmp new, .remove tmp]

def isSpecName (n : Str) : Bool :=
  let e := Path.ext n
  e == lit ".json" || e == lit ".yaml"

/-- a name `os.CreateTemp(dir, pattern)` can return: the pattern with its last "*" replaced by digits -/
def tempNameOf (pattern : Str) (random : Str) : Str :=
  match splitFirst 42 pattern.reverse with   -- split at the last '*'
  | some (sufRev, preRev) => preRev.reverse ++ random ++ sufRev.reverse
  | none => pattern ++ random

def tmpPattern : Str := lit Generated.tmpPattern

/-- **Judge of C10** on an observed directory state: every Spec-named entry holds a complete
admissible content (the old one or the new one). -/
def pubOK (admissible : Str → List Str) (entries : List (Str × Str)) : Option String :=
  match entries.find? (fun e => isSpecName e.1 && !(admissible e.1).contains e.2) with
  | some _ => some "spec-named-file-with-partial-or-foreign-content"
  | none => none

end Cdi.FsWrite
