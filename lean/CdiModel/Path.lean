/-
  CdiModel.Path — lexical model of Go's path/filepath on unix:
  Clean, Join, Dir, Base, Ext, and the mount-depth key
  `strings.Count(filepath.Clean(p), "/")` used by sortMounts.
  Validated against the real functions by the `path` correspondence stream.
-/
import CdiModel.Basic
namespace Cdi.Path
open Cdi

def dot : Str := [cDot]
def dotdot : Str := [cDot, cDot]

/-- path components: split on '/', dropping empty components -/
def components (p : Str) : List Str := (splitAll cSlash p).filter (· ≠ [])

/-- One step of Clean's component processing on the reversed output stack.
`rooted`: leading '/'. For rooted paths ".." at the root is dropped; for
relative paths leading ".." components are kept. -/
def pushComp (rooted : Bool) (stack : List Str) (c : Str) : List Str :=
  if c = dot then stack
  else if c = dotdot then
    match stack with
    | [] => if rooted then [] else [dotdot]
    | top :: rest => if top = dotdot then dotdot :: top :: rest else rest
  else c :: stack

def isRooted (p : Str) : Bool := match p with | c :: _ => c == cSlash | [] => false

/-- `filepath.Clean` (unix). -/
def clean (p : Str) : Str :=
  if p = [] then dot else
  let rooted := isRooted p
  let comps := (components p).foldl (pushComp rooted) []
  let body := joinWith cSlash comps.reverse
  if rooted then cSlash :: body
  else if body = [] then dot else body

/-- `filepath.Join(a, b)` for two elements (empty elements are ignored). -/
def join2 (a b : Str) : Str :=
  if a = [] ∧ b = [] then []
  else if a = [] then clean b
  else if b = [] then clean a
  else clean (a ++ cSlash :: b)

/-- index one past the last '/' (0 when there is none) -/
def afterLastSlash (p : Str) : Nat :=
  let rec go (rest : Str) (i : Nat) (acc : Nat) : Nat :=
    match rest with
    | [] => acc
    | c :: cs => go cs (i + 1) (if c = cSlash then i + 1 else acc)
  go p 0 0

/-- `filepath.Base` (unix). -/
def base (p : Str) : Str :=
  if p = [] then dot else
  -- strip trailing slashes
  let stripped := (p.reverse.dropWhile (· == cSlash)).reverse
  if stripped = [] then [cSlash] else
  stripped.drop (afterLastSlash stripped)

/-- `filepath.Dir` (unix): Clean of everything up to the last '/'. -/
def dir (p : Str) : Str :=
  clean (p.take (afterLastSlash p))

/-- `filepath.Ext`: suffix starting at the last '.' of the last element ("" if none). -/
def ext (p : Str) : Str :=
  let rec go (rev : Str) (acc : Str) : Str :=
    match rev with
    | [] => []
    | c :: cs =>
      if c = cSlash then []
      else if c = cDot then cDot :: acc
      else go cs (c :: acc)
  go p.reverse []

/-- number of '/' in a byte string -/
def countSlash (p : Str) : Nat := (p.filter (· == cSlash)).length

/-- sort key of `orderedMounts.parts`: `strings.Count(filepath.Clean(dest), "/")`. -/
def mountDepth (dest : Str) : Nat := countSlash (clean dest)

end Cdi.Path
