/-
  CdiModel.K8s — model of /repo/internal/validation/k8s (the parts reached from
  annotation validation): IsQualifiedName, IsDNS1123Subdomain, the size limit,
  and `strings.ToLower` as far as it can map into ASCII.

  The regular expressions are replaced by hand-written recognisers of the same
  languages (regex literals are regenerated facts, see FactsObligations):
    qualifiedNameFmt    ([A-Za-z0-9][-A-Za-z0-9_.]*)?[A-Za-z0-9]
    dns1123SubdomainFmt [a-z0-9]([-a-z0-9]*[a-z0-9])?(\.[a-z0-9]([-a-z0-9]*[a-z0-9])?)*
-/
import CdiModel.Basic
import CdiModel.Generated.Facts
namespace Cdi.K8s
open Cdi

def isLowerAlnum (c : Byte) : Bool := (97 ≤ c && c ≤ 122) || isDigit c
def isQNameExt (c : Byte) : Bool := isAlnum c || c == cDash || c == cUnder || c == cDot
def isDnsMid (c : Byte) : Bool := isLowerAlnum c || c == cDash

/-- `^([A-Za-z0-9][-A-Za-z0-9_.]*)?[A-Za-z0-9]$` -/
def matchQName (s : Str) : Bool :=
  match s.head?, s.getLast? with
  | some h, some l => isAlnum h && isAlnum l && s.all isQNameExt
  | _, _ => false

/-- `[a-z0-9]([-a-z0-9]*[a-z0-9])?` -/
def matchDnsLabel (s : Str) : Bool :=
  match s.head?, s.getLast? with
  | some h, some l => isLowerAlnum h && isLowerAlnum l && s.all isDnsMid
  | _, _ => false

/-- `^label(\.label)*$` -/
def matchDnsSubdomain (s : Str) : Bool := (splitAll cDot s).all matchDnsLabel

/-- `IsDNS1123Subdomain(value)` returns no messages. -/
def isDns1123Subdomain (s : Str) : Bool :=
  decide (s.length ≤ Generated.k8sDns1123SubdomainMaxLength) && matchDnsSubdomain s

/-- `IsQualifiedName(value)` returns no messages. -/
def isQualifiedName (value : Str) : Bool :=
  let nameOK (name : Str) : Bool :=
    name ≠ [] && decide (name.length ≤ Generated.k8sQualifiedNameMaxLength) && matchQName name
  match splitAll cSlash value with
  | [name] => nameOK name
  | [pfx, name] => (pfx ≠ [] && isDns1123Subdomain pfx) && nameOK name
  | _ => false

/-- `strings.ToLower` on bytes. ASCII upper-case letters are mapped; the only
non-ASCII code points whose lower case is ASCII are U+0130 (C4 B0 → 'i') and
U+212A (E2 84 AA → 'k'); every other non-ASCII sequence stays non-ASCII (its
exact bytes are irrelevant to the recognisers, which reject non-ASCII). -/
def toLower : Str → Str
  | 0xC4 :: 0xB0 :: rest => 105 :: toLower rest
  | 0xE2 :: 0x84 :: 0xAA :: rest => 107 :: toLower rest
  | c :: rest => (if 65 ≤ c && c ≤ 90 then c + 32 else c) :: toLower rest
  | [] => []

/-- `ValidateAnnotationsSize` passes. -/
def sizeOK (ann : List (Str × Str)) : Bool :=
  decide ((ann.map (fun kv => kv.1.length + kv.2.length)).sum ≤ Generated.totalAnnotationSizeLimit)

/-- `ValidateAnnotations(annotations, path)` returns nil. -/
def validateAnnotations (ann : List (Str × Str)) : Bool :=
  ann.all (fun kv => isQualifiedName (toLower kv.1)) && sizeOK ann

end Cdi.K8s
