/-
  CdiModel.Names — model of the Spec file name generators (spec.go:297-348) and
  of the path computation shared by Cache.WriteSpec / Cache.RemoveSpec
  (cache.go:270-338) and newSpec (spec.go:104-112).
-/
import CdiModel.Path
import CdiModel.Parser
import CdiModel.Generated.Facts
namespace Cdi.Names
open Cdi Cdi.Path

def jsonExt : Str := lit ".json"
def yamlExt : Str := lit ".yaml"
def defaultSpecExt : Str := lit Generated.defaultSpecExt

def isSpecExt (e : Str) : Bool := e == jsonExt || e == yamlExt

/-- `GenerateSpecName` -/
def generateSpecName (vendor cls : Str) : Str := vendor ++ cDash :: cls

/-- `GenerateTransientSpecName` -/
def generateTransientSpecName (vendor cls transientID : Str) : Str :=
  generateSpecName vendor cls ++ cUnder :: replaceByte cSlash cUnder transientID

/-- `GenerateNameForSpec` / `GenerateNameForTransientSpec`: none = error -/
def generateNameForSpec (kind : Str) : Option Str :=
  let p := Parser.parseQualifier kind
  if p.1 = [] then none else some (generateSpecName p.1 p.2)

def generateNameForTransientSpec (kind transientID : Str) : Option Str :=
  let p := Parser.parseQualifier kind
  if p.1 = [] then none else some (generateTransientSpecName p.1 p.2 transientID)

/-- extension defaulting shared by WriteSpec, RemoveSpec and newSpec -/
def withDefaultExt (path : Str) : Str :=
  if isSpecExt (ext path) then path else path ++ defaultSpecExt

/-- target path of `Cache.WriteSpec(raw, name)`; `none` = no Spec directories.
`dirs` are the configured directories (already Clean, see WithSpecDirs). -/
def writePath (dirs : List Str) (name : Str) : Option Str :=
  match dirs.getLast? with
  | none => none
  | some d => if d = [] then none else some (withDefaultExt (join2 d name))

/-- target path of `Cache.RemoveSpec(name)` -/
def removePath (dirs : List Str) (name : Str) : Option Str :=
  match dirs.getLast? with
  | none => none
  | some d => if d = [] then none else some (withDefaultExt (join2 d name))

/-- the path `newSpec` records for a Spec (spec.go:104-112): Clean, then default extension -/
def newSpecPath (path : Str) : Str := withDefaultExt (clean path)

/-- encoding `(*Spec).write` picks: YAML iff the extension is ".yaml" -/
def writesYaml (path : Str) : Bool := ext path == yamlExt

end Cdi.Names
