/-
  CdiModel.Watch — C11: the automatic-refresh state machine of one configured
  Spec directory (cache.go: watch.watch(), watch.update(), refreshIfRequired()).

  The file system is abstracted to what matters for convergence:
    dirExists  the configured directory exists
    kwatch     the kernel's inotify watch is attached to the *current* directory
    stale      the directory's Spec content changed since the last scan read it
  and the cache to
    tracked    the watcher believes it watches the directory (watch.tracked[dir])
    seen       the directory existed at the last scan (a fact about the history; the repaired
               tree records it, the pinned tree does not consult it)
    pend       update() has run under the mutex and the scan (refresh) is still to come —
               file-system operations may fall in between: the mutex does not stop the FS
    queue      inotify events not yet consumed by the watcher goroutine.
  `createInMask`, `seenForcesRefresh` and `overflowResyncs` are the three repairs; the pinned tree is (false, false, false).
  Events may be lost: a `drop` step replaces the newest queued event by the kernel's overflow marker `.lost`
  (an operation whose event is dropped is the operation followed by `drop`).
-/
import CdiModel.Basic
import CdiModel.Generated.Facts
namespace Cdi.Watch
open Cdi

/-- kinds of queued events, as far as the watcher's filter distinguishes them -/
inductive Ev where
  | change      -- Write / Rename / Remove of a Spec-named file: passes the mask
  | createOnly  -- only a Create of a Spec-named file (moved or linked in, bare creat): passes iff Create is in the mask
  | other       -- events on other names (temp files): dropped by the extension filter or harmless
  | rmdir       -- Remove of the watched directory itself
  | lost        -- the kernel's overflow marker: events were dropped because the queue was full
  deriving Repr, DecidableEq

structure Cfg where
  createInMask : Bool
  seenForcesRefresh : Bool
  overflowResyncs : Bool   -- the watcher reacts to the overflow marker (re-adds every watch, rescans)
  deriving Repr, DecidableEq

/-- does `Create` pass the event mask of the tree under test? (regenerated fact F7) -/
def createInGeneratedMask : Bool := Generated.eventMask.contains "Create"

def repaired : Cfg := ⟨true, true, true⟩
def pinned : Cfg := ⟨false, false, false⟩

structure St where
  dirExists : Bool
  kwatch : Bool
  tracked : Bool
  seen : Bool
  stale : Bool
  pend : Bool
  queue : List Ev
  deriving Repr, DecidableEq

def passes (c : Cfg) : Ev → Bool
  | .change => true
  | .createOnly => c.createInMask
  | .other => false
  | .rmdir => true
  | .lost => c.overflowResyncs

def emit (s : St) (e : Ev) : St := if s.kwatch then { s with queue := s.queue ++ [e] } else s

/-- file-system operations of the history (C11's alphabet) -/
inductive FsOp where
  | writeSpec      -- create+write in place, rewrite, rename of a temp file over the target, unlink, rename away
  | moveIn         -- a complete file renamed or linked into the directory (Create only)
  | tempFile       -- any operation on a non-Spec name
  | rmdir          -- the directory is removed (with its content)
  | mkdir          -- the directory is created (empty)
  | foreign (passing : Bool)   -- an event of another configured directory enters the (shared) queue
  deriving Repr, DecidableEq

def fsStep (s : St) : FsOp → Option St
  | .writeSpec => if s.dirExists then some (emit { s with stale := true } .change) else none
  | .moveIn => if s.dirExists then some (emit { s with stale := true } .createOnly) else none
  | .tempFile => if s.dirExists then some (emit s .other) else none
  | .rmdir =>
    if s.dirExists then
      let s1 := emit s .rmdir
      -- the directory's content is gone: the snapshot is stale iff it saw the directory at the last
      -- scan (otherwise it holds nothing from it and whatever happened since is wiped out too)
      some { s1 with dirExists := false, kwatch := false, stale := s.seen }
    else none
  | .mkdir => if s.dirExists then none else some { s with dirExists := true }
  | .foreign passing => some { s with queue := s.queue ++ [if passing then .change else .other] }

/-- `watch.update()` without a removed directory: re-add the directory if it is not tracked.
Returns the new state and whether a refresh is due. -/
def update (c : Cfg) (s : St) : St × Bool :=
  if s.tracked then (s, false)
  else if s.dirExists then ({ s with tracked := true, kwatch := true }, true)
  else (s, c.seenForcesRefresh && s.seen)

/-- steps of the cache: the watcher goroutine and a query -/
inductive CacheOp where
  | watcherTake    -- the watcher consumes the next event (filter; update under the mutex; scan pending)
  | scan           -- the pending scan runs: the snapshot becomes the current directory content
  | query          -- a query runs refreshIfRequired(false)
  | foreignDue     -- a query whose update() re-added another directory: a refresh is due whatever this one says
  deriving Repr, DecidableEq

def cacheStep (c : Cfg) (s : St) : CacheOp → Option St
  | .watcherTake =>
    if s.pend then none else
    match s.queue with
    | [] => none
    | e :: rest =>
      let s := { s with queue := rest }
      if !passes c e then some s else
      -- on the overflow marker every belief is dropped first (`resync`), then the watches are added again
      let s0 := if e = .lost then { s with tracked := false } else s
      let s1 := (update c s0).1
      let s2 := if e = .rmdir ∧ s.tracked then { s1 with tracked := false } else s1
      some { s2 with pend := true }
  | .scan => if s.pend then some { s with pend := false, stale := false, seen := s.dirExists } else none
  | .query =>
    if s.pend then none else
    let (s1, due) := update c s
    some (if due then { s1 with pend := true } else s1)
  | .foreignDue =>
    if s.pend then none else
    some { (update c s).1 with pend := true }

inductive Step where
  | fs (o : FsOp)
  | cache (o : CacheOp)
  | drop           -- the kernel drops the most recently queued event (queue full) and leaves its overflow marker
  deriving Repr, DecidableEq

/-- the queue after its newest event was lost to an overflow -/
def dropNewest (q : List Ev) : Option (List Ev) := if q = [] then none else some (q.dropLast ++ [.lost])

def step (c : Cfg) (s : St) : Step → Option St
  | .fs o => fsStep s o
  | .cache o => cacheStep c s o
  | .drop => (dropNewest s.queue).map (fun q => { s with queue := q })

/-- run a schedule, ignoring steps that are not enabled -/
def runSteps (c : Cfg) (s : St) (l : List Step) : St :=
  l.foldl (fun s st => (step c s st).getD s) s

/-- the state right after (re)configuration: the directory is tracked iff it exists, scanned once -/
def init (dirExists : Bool) : St :=
  { dirExists := dirExists, kwatch := dirExists, tracked := dirExists, seen := dirExists, stale := false, pend := false, queue := [] }

/-- a query followed by the scan it may have made pending -/
def queryNow (c : Cfg) (s : St) : St :=
  let s1 := (cacheStep c s .query).getD s
  (cacheStep c s1 .scan).getD s1

end Cdi.Watch
