/-
  CdiModel.Cache — model of the Spec directory scan (spec-dirs.go:70-112) and of
  Cache.refresh (cache.go:144-211).

  The file system is given as data: for every configured directory its state
  and, for a directory, its entries in `Walk` order with the result of loading
  each file.  `scan` produces the sequence of callback invocations; `refresh`
  is the literal fold of the callback over that sequence.
-/
import CdiModel.Validate
import CdiModel.Path
namespace Cdi.Cache
open Cdi

/-- what `lstat` + `ReadSpec` find under a name -/
inductive EntryKind where
  | file (content : Option Spec)   -- regular file or link to one; `none` = unreadable/unparsable
  | subdir                          -- a directory (skipped with its subtree)
  | vanished                        -- name listed but gone at lstat (ErrNotExist): ignored
  | lstatError                      -- lstat fails with another error (e.g. EACCES)
  deriving Repr

structure Entry where
  name : Str
  kind : EntryKind
  deriving Repr

inductive DirState where
  | missing                         -- lstat of the directory: ErrNotExist
  | unscannable                     -- lstat fails otherwise (ENOTDIR: a path component is a file; EACCES)
  | unreadable                      -- a directory whose listing fails: reported as an error entry for the directory
  | notDir (content : Option Spec)  -- the configured path is a regular file
  | dir (entries : List Entry)
  deriving Repr

/-- one invocation of the scan callback -/
structure ScanItem where
  path : Str
  prio : Nat
  spec : Option Spec      -- `none`: loading failed (error passed to the callback)
  deriving Repr

def isSpecName (p : Str) : Bool :=
  let e := Path.ext p
  e == lit ".json" || e == lit ".yaml"

/-- `ReadSpec` result on the repaired tree: the raw Spec must pass validation -/
def loadResult (content : Option Spec) : Option Spec :=
  match content with
  | some s => if Validate.validateSpec s == .ok true then some s else none
  | none => none

/-- the callback invocations for one directory; `none` = the walk returned an
error other than SkipDir/ErrStopScan, which aborts the whole scan.
`skipUnscannable` is the repaired behaviour. -/
def scanDir (skipUnscannable : Bool) (prio : Nat) (dir : Str) : DirState → Option (List ScanItem)
  | .missing => some []
  | .unscannable => if skipUnscannable then some [] else none
  | .unreadable => some [⟨dir, prio, none⟩]
  | .notDir content => some (if isSpecName dir then [⟨dir, prio, loadResult content⟩] else [])
  | .dir entries =>
    let rec go : List Entry → Option (List ScanItem)
      | [] => some []
      | e :: rest =>
        let path := Path.join2 dir e.name
        match e.kind with
        | .subdir => go rest
        | .vanished => go rest
        | .lstatError =>
          if skipUnscannable then
            (go rest).map (fun l => if isSpecName path then ⟨path, prio, none⟩ :: l else l)
          else none
        | .file content =>
          (go rest).map (fun l => if isSpecName path then ⟨path, prio, loadResult content⟩ :: l else l)
    go entries

/-- `scanSpecDirs`: directories in order, priority = index; an aborting
directory ends the scan (everything found so far has been delivered). -/
def scanFrom (skipUnscannable : Bool) : Nat → List (Str × DirState) → List ScanItem
  | _, [] => []
  | prio, (dir, st) :: rest =>
    match scanDir skipUnscannable prio dir st with
    | none => []   -- NB: items of an aborting directory delivered before the abort are not modelled (lstat errors precede nothing here)
    | some items => items ++ scanFrom skipUnscannable (prio + 1) rest

def scan (dirs : List (Str × DirState)) : List ScanItem := scanFrom true 0 dirs
def scanPinned (dirs : List (Str × DirState)) : List ScanItem := scanFrom false 0 dirs

/-- a device definition as the cache holds it -/
structure Ref where
  path : Str
  prio : Nat
  vendor : Str
  cls : Str
  device : Device
  specEdits : Edits
  deriving Repr, DecidableEq

def Ref.qname (r : Ref) : Str := Parser.qualifiedName r.vendor r.cls r.device.name

structure SpecInfo where
  path : Str
  prio : Nat
  vendor : Str
  cls : Str
  spec : Spec
  deriving Repr

/-- state of the refresh loop -/
structure RState where
  specs : List SpecInfo := []            -- every valid Spec, in scan order
  devices : Str → Option Ref := fun _ => none
  conflicts : Str → Bool := fun _ => false
  errors : List Str := []                -- one element per collected error, keyed by path
  seen : List Str := []                  -- qualified names met (for listing)

def setDev (m : Str → Option Ref) (q : Str) (r : Ref) : Str → Option Ref :=
  fun k => if k = q then some r else m k
def setFlag (m : Str → Bool) (q : Str) (b : Bool) : Str → Bool :=
  fun k => if k = q then b else m k

/-- the per-device body of the callback incl. `resolveConflict`.
`clearOnOverride` is the repaired behaviour (a higher-priority definition
clears an earlier conflict mark). -/
def addDevice (clearOnOverride : Bool) (st : RState) (r : Ref) : RState :=
  let q := r.qname
  let st := { st with seen := st.seen ++ [q] }
  match st.devices q with
  | none => { st with devices := setDev st.devices q r }
  | some old =>
    if r.prio > old.prio then
      { st with devices := setDev st.devices q r,
                conflicts := if clearOnOverride then setFlag st.conflicts q false else st.conflicts }
    else if r.prio = old.prio then
      { st with errors := st.errors ++ [r.path, old.path], conflicts := setFlag st.conflicts q true }
    else st

def refsOf (path : Str) (prio : Nat) (s : Spec) : List Ref :=
  let vc := Parser.parseQualifier s.kind
  s.devices.map (fun d => ⟨path, prio, vc.1, vc.2, d, s.edits⟩)

/-- the refresh callback -/
def step (clearOnOverride : Bool) (st : RState) (it : ScanItem) : RState :=
  let path := Path.clean it.path
  match it.spec with
  | none => { st with errors := st.errors ++ [path] }
  | some s =>
    let vc := Parser.parseQualifier s.kind
    let st := { st with specs := st.specs ++ [⟨path, it.prio, vc.1, vc.2, s⟩] }
    (refsOf path it.prio s).foldl (addDevice clearOnOverride) st

def refreshWith (clearOnOverride : Bool) (items : List ScanItem) : RState :=
  items.foldl (step clearOnOverride) {}

def refresh := refreshWith true
def refreshPinned := refreshWith false

/-- `Cache.devices[q]` after the conflicts have been deleted -/
def RState.device (st : RState) (q : Str) : Option Ref :=
  if st.conflicts q then none else st.devices q

def dedup : List Str → List Str
  | [] => []
  | x :: rest => if rest.contains x then dedup rest else x :: dedup rest

def RState.listDevices (st : RState) : List Str :=
  (dedup st.seen).filter (fun q => (st.device q).isSome)
def RState.listVendors (st : RState) : List Str := dedup (st.specs.map (·.vendor))
def RState.listClasses (st : RState) : List Str := dedup (st.specs.map (·.cls))
def RState.vendorSpecs (st : RState) (v : Str) : List Str :=
  (st.specs.filter (fun s => s.vendor == v)).map (·.path)
def RState.errorKeys (st : RState) : List Str := dedup st.errors

end Cdi.Cache
