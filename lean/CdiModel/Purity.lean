/-
  CdiModel.Purity — C14: what injection may write.

  The cached Spec's device-node records live in a heap (`World.nodes`); the
  per-call edit list built by `Append` holds *pointers* to them (here: indices).
  `fillMissingInfo` either fills the record it points to (`inPlace = true`, the
  pinned tree) or a copy (`inPlace = false`, the repaired tree).
-/
import CdiModel.Apply
namespace Cdi.Purity
open Cdi Cdi.Apply

structure World where
  nodes : List DeviceNode     -- the device-node records reachable from the cache
  deriving Repr, DecidableEq

def setAt {α} : List α → Nat → α → List α
  | [], _, _ => []
  | _ :: rest, 0, y => y :: rest
  | x :: rest, i + 1, y => x :: setAt rest i y

/-- the device-node part of one injection: visit the referenced records in order;
returns the new heap and the filled nodes handed to the OCI generator
(`none` = Apply returned an error at that node; later nodes are not visited) -/
def injectNodes (inPlace : Bool) (host : Str → Option HostNode) : List Nat → World → World × Option (List DeviceNode)
  | [], w => (w, some [])
  | i :: rest, w =>
    match w.nodes[i]? with
    | none => (w, none)
    | some d =>
      -- hostPath is defaulted before the early return / stat (and, in place, written back)
      match fillMissingInfo host d with
      | .ok d' =>
        let w' := if inPlace then { w with nodes := setAt w.nodes i d' } else w
        let (w'', r) := injectNodes inPlace host rest w'
        (w'', r.map (d' :: ·))
      | _ =>
        let w' := if inPlace then { w with nodes := setAt w.nodes i (withHostPath d) } else w
        (w', none)

structure PurityObs where
  filled1 : Option (List DeviceNode)   -- nodes as they reached the OCI spec, first injection (host state 1)
  filled2 : Option (List DeviceNode)   -- second injection after the host nodes changed (host state 2)
  cacheAfter : List DeviceNode         -- the cached records after both injections (query API image)
  writeBack : Bool                     -- Cache.WriteSpec of the cached Spec still succeeds

/-- essentials of a filled node as visible in the OCI spec -/
def ociView (d : DeviceNode) : Str × Str × Int × Int := (d.path, d.type, d.major, d.minor)

/-- Judge of C14: the cache is unchanged; each injection reflects the host as it is at that
moment (= what a fresh cache would produce); the cached Spec can still be written. -/
def judgePurity (nodes : List DeviceNode) (host1 host2 : Str → Option HostNode) (refs : List Nat)
    (o : PurityObs) : Option String :=
  let fresh (h : Str → Option HostNode) := (injectNodes false h refs ⟨nodes⟩).2.map (·.map ociView)
  if o.cacheAfter ≠ nodes then some "cached-spec-changed-by-injection"
  else if o.filled1.map (·.map ociView) ≠ fresh host1 then some "first-injection-differs-from-fresh-cache"
  else if o.filled2.map (·.map ociView) ≠ fresh host2 then some "later-injection-remembers-earlier-host-state"
  else if !o.writeBack then some "cached-spec-no-longer-writable"
  else none

end Cdi.Purity
