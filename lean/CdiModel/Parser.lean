/-
  CdiModel.Parser — model of /repo/pkg/parser/parser.go.

  Each definition mirrors the Go function of the same name statement by
  statement; slice expressions go through `goSlice` so that a missing bounds
  guard is a `panic` outcome.  Validators return `Res Bool` where `ok true`
  is a nil error and `ok false` a non-nil error.

  Assumption A-utf8 (see DESIGN §4): `for _, c := range string(x)` yields, for
  every ASCII byte, that byte, and for every other byte a rune ≥ 0x80 (or
  U+FFFD), all of which the character switches reject; so "every rune is in
  the class" coincides with "every byte is in the class".
-/
import CdiModel.Basic
namespace Cdi.Parser
open Cdi

/-- characters allowed in the middle of a vendor or class name -/
def isVCMid (c : Byte) : Bool := isAlnum c || c == cUnder || c == cDash || c == cDot
/-- characters allowed in the middle of a device name -/
def isDevMid (c : Byte) : Bool := isAlnum c || c == cUnder || c == cDash || c == cDot || c == cColon

/-- `validateVendorOrClassName` (parser.go:146). `oneLetterGuard` is the
`len(name) == 1` early return; the repaired tree has it, the pinned tree did not. -/
def validateVCWith (oneLetterGuard : Bool) (name : Str) : Res Bool :=
  if name = [] then .ok false else
  match goIndex name 0 with
  | .panic => .panic
  | .err => .err
  | .ok c0 =>
    if !isLetter c0 then .ok false else
    if oneLetterGuard && name.length == 1 then .ok true else
    match goSlice name 1 (name.length - 1) with
    | .panic => .panic
    | .err => .err
    | .ok mid =>
      if !mid.all isVCMid then .ok false else
      match goIndex name (name.length - 1) with
      | .panic => .panic
      | .err => .err
      | .ok cl => .ok (isAlnum cl)

def validateVC := validateVCWith true
/-- the pinned (unrepaired) function, kept to show the theorem is sensitive to the defect -/
def validateVCPinned := validateVCWith false

def validateVendorName := validateVC
def validateClassName := validateVC

/-- `ValidateDeviceName` (parser.go:173). -/
def validateDeviceName (name : Str) : Res Bool :=
  if name = [] then .ok false else
  match goIndex name 0 with
  | .panic => .panic
  | .err => .err
  | .ok c0 =>
    if !isAlnum c0 then .ok false else
    if name.length == 1 then .ok true else
    match goSlice name 1 (name.length - 1) with
    | .panic => .panic
    | .err => .err
    | .ok mid =>
      if !mid.all isDevMid then .ok false else
      match goIndex name (name.length - 1) with
      | .panic => .panic
      | .err => .err
      | .ok cl => .ok (isAlnum cl)

/-- `ParseQualifier` (parser.go:107): returns (vendor, class). -/
def parseQualifier (kind : Str) : Str × Str :=
  match splitFirst cSlash kind with
  | none => ([], kind)
  | some (a, b) => if a = [] ∨ b = [] then ([], kind) else (a, b)

/-- `ParseDevice` (parser.go:81): returns (vendor, class, name). -/
def parseDevice (device : Str) : Str × Str × Str :=
  match device with
  | [] => ([], [], device)
  | c :: _ =>
    if c = cSlash then ([], [], device) else
    match splitFirst cEq device with
    | none => ([], [], device)
    | some (q, name) =>
      if q = [] ∨ name = [] then ([], [], device) else
      let p := parseQualifier q
      if p.1 = [] then ([], [], device) else (p.1, p.2, name)

/-- Result of `ParseQualifiedName`: the three returned strings and whether the
error is nil. -/
structure PQN where
  vendor : Str
  cls : Str
  name : Str
  ok : Bool
  deriving Repr, DecidableEq

/-- `ParseQualifiedName` (parser.go:52). -/
def parseQualifiedNameWith (g : Bool) (device : Str) : Res PQN :=
  let (vendor, cls, name) := parseDevice device
  let fail : Res PQN := .ok ⟨[], [], device, false⟩
  if vendor = [] then fail else
  if cls = [] then fail else
  if name = [] then fail else
  match validateVCWith g vendor with
  | .panic => .panic
  | .err => .err
  | .ok false => fail
  | .ok true =>
    match validateVCWith g cls with
    | .panic => .panic
    | .err => .err
    | .ok false => fail
    | .ok true =>
      match validateDeviceName name with
      | .panic => .panic
      | .err => .err
      | .ok false => fail
      | .ok true => .ok ⟨vendor, cls, name, true⟩

def parseQualifiedName := parseQualifiedNameWith true
def parseQualifiedNamePinned := parseQualifiedNameWith false

/-- `IsQualifiedName`. -/
def isQualifiedName (device : Str) : Res Bool :=
  (parseQualifiedName device).map (·.ok)

/-- `QualifiedName` (parser.go:37). -/
def qualifiedName (vendor cls name : Str) : Str :=
  vendor ++ cSlash :: (cls ++ cEq :: name)

end Cdi.Parser
