/-
  CdiModel.Cli — C19: what the `cdi` command prints for the listing sub-commands
  (cmd/cdi/cmd/cdi-api.go) as functions of what the library computes, and the
  exit-status rules of `cdi` and `validate`.
-/
import CdiModel.Basic
import CdiModel.Path
import CdiModel.AnnotationsSpec
namespace Cdi.Cli
open Cdi

/-- decimal digits of a natural number -/
def natStr (n : Nat) : Str := (toString n).toList.map (fun c => c.toNat.toUInt8)

def line (s : String) : Str := lit s

/-- `strings.Join(l, sep)` -/
def joinStrs (sep : Str) : List Str → Str
  | [] => []
  | [x] => x
  | x :: y :: rest => x ++ sep ++ joinStrs sep (y :: rest)

/-- `cdi devices`: "No CDI devices found." or a header and one "  <idx>. <name>" line per device -/
def renderDevices (devices : List Str) : List Str :=
  if devices = [] then [line "No CDI devices found."]
  else line "CDI devices found:" :: devices.zipIdx.map (fun p => lit "  " ++ natStr p.2 ++ lit ". " ++ p.1)

/-- `cdi vendors`: each vendor quoted (%q of a plain name) with its number of Spec files -/
def renderVendors (vendors : List (Str × Nat)) : List Str :=
  if vendors = [] then [line "No CDI vendors found."]
  else line "CDI vendors found:" :: vendors.zipIdx.map (fun p =>
    lit "  " ++ natStr p.2 ++ lit ". \"" ++ p.1.1 ++ lit "\" (" ++ natStr p.1.2 ++ lit " CDI Spec Files)")

/-- `cdi classes`: each class with the (sorted) vendors having a Spec of that class, one per Spec -/
def renderClasses (classes : List (Str × List Str)) : List Str :=
  if classes = [] then [line "No CDI device classes found."]
  else line "CDI device classes found:" :: classes.zipIdx.map (fun p =>
    lit "  " ++ natStr p.2 ++ lit ". " ++ p.1.1 ++ lit " (" ++ natStr p.1.2.length ++ lit " vendors: " ++
      joinStrs (lit ", ") p.1.2 ++ lit ")")

/-- `cdi specs` (non-verbose, no cache errors): per vendor the paths of its Spec files -/
def renderSpecs (vendors : List (Str × List Str)) : List Str :=
  if vendors = [] then [line "No CDI Specs found."]
  else line "CDI Specs found:" :: vendors.flatMap (fun v =>
    (lit "Vendor " ++ v.1 ++ lit ":") :: v.2.map (fun p => lit "  Spec File " ++ p))

/-- exit status of `cdi --spec-dirs … <listing command>` and of `cdi validate`: non-zero iff the
library reports cache errors -/
def cdiExit (errorKeys : List Str) : Nat := if errorKeys = [] then 0 else 1

/-- exit status of the `validate` tool over the documents it is given: non-zero iff schema
validation fails for at least one of them -/
def validateExit (schemaOK : List Bool) : Nat := if schemaOK.all id then 0 else 1

/-- the lines the tool prints on standard output: one per valid document, in argument order -/
def validateLines (docs : List (String × Bool)) : List String :=
  (docs.filter (·.2)).map (fun d => d.1 ++ ": document is valid.")

/-! ### Details: `--verbose`, `--output`, `dirs`, the `specs` vendor arguments, `inject` patterns -/

/-- `chooseFormat(format, path)` (format.go): an explicit format wins; otherwise the extension of the
path when it is `.json` or `.yaml`; otherwise `yaml` -/
def chooseFormat (format path : Str) : Str :=
  if format = [] then
    let e := Path.ext path
    if e = lit ".json" ∨ e = lit ".yaml" then e.drop 1 else lit "yaml"
  else format

/-- `marshalObject` picks `json.MarshalIndent` for the format `json` and `yaml.v3` for anything else -/
def pick (format json yaml : Str) : Str := if format = lit "json" then json else yaml

/-- `indent(level)` -/
def indent (level : Nat) : Str := List.replicate level 32

/-- `strings.TrimSuffix(s, "\n")` -/
def trimNL (s : Str) : Str := if s.getLast? = some cNL then s.dropLast else s

/-- `marshalObject(level, obj, format)` as lines, given the pretty-printer's output `raw` -/
def marshalLines (level : Nat) (raw : Str) : List Str :=
  (splitAll cNL (trimNL raw)).map (fun l => indent level ++ l)

/-- what the library knows about a device, as far as `cdi devices -v` shows it: `devJson`/`devYaml` are
the two pretty-printers applied to the device, `nGlobal` is the number of env, device-node, hook and
mount entries of its Spec's own edits, `editsJson`/`editsYaml` those edits pretty-printed -/
structure DevView where
  name : Str
  path : Str
  devJson : Str
  devYaml : Str
  nGlobal : Nat
  editsJson : Str
  editsYaml : Str

/-- `cdiPrintDevice(idx, dev, true, format, 2)` -/
def renderDeviceVerbose (format : Str) (d : DevView) : List Str :=
  let f := chooseFormat format d.path
  (lit "  " ++ d.name ++ lit " (" ++ d.path ++ lit ")") ::
    (marshalLines 4 (pick f d.devJson d.devYaml) ++
      (if d.nGlobal > 0 then
        (indent 4 ++ lit " global Spec containerEdits:") :: marshalLines 6 (pick f d.editsJson d.editsYaml)
       else []))

/-- `cdi devices [-v] [-o format]` -/
def renderDevicesV (verbose : Bool) (format : Str) (ds : List DevView) : List Str :=
  if verbose then
    (if ds = [] then [line "No CDI devices found."]
     else line "CDI devices found:" :: ds.flatMap (renderDeviceVerbose format))
  else renderDevices (ds.map (·.name))

structure SpecView where
  path : Str
  json : Str
  yaml : Str

/-- `cdi specs [-v] [-o format] [vendor…]` without cache errors.  The vendor arguments only take part in
the emptiness test: the listing itself always runs over all vendors of the cache. -/
def renderSpecsV (verbose : Bool) (format : Str) (args : List Str) (vendors : List (Str × List SpecView)) : List Str :=
  let f := chooseFormat format (lit "format-as.yaml")
  if args = [] ∧ vendors = [] then [line "No CDI Specs found."]
  else line "CDI Specs found:" :: vendors.flatMap (fun v =>
    (lit "Vendor " ++ v.1 ++ lit ":") :: v.2.flatMap (fun s =>
      (indent 2 ++ lit "Spec File " ++ s.path) :: (if verbose then marshalLines 4 (pick f s.json s.yaml) else [])))

/-- `cdi dirs` without cache errors -/
def renderDirs (dirs : List Str) : List Str :=
  line "CDI Spec directories in use:" ::
    dirs.zipIdx.map (fun p => lit "  " ++ p.1 ++ lit " (priority " ++ natStr p.2 ++ lit ")")

/-- `cdi inject`: the devices handed to the library - every listed device matched by at least one pattern,
once, sorted; an ill-formed pattern that is evaluated fails the command.  `m pattern device` stands for
`filepath.Match` (`none` = ErrBadPattern). -/
def dedup : List Str → List Str
  | [] => []
  | x :: xs => if x ∈ xs then dedup xs else x :: dedup xs

def selectDevices (m : Str → Str → Option Bool) (patterns devices : List Str) : Option (List Str) :=
  if devices.any (fun d => patterns.any (fun p => (m p d).isNone)) then none
  else some (Annotations.sortStrs
    (dedup (devices.filter (fun d => patterns.any (fun p => m p d == some true)))))

end Cdi.Cli
