/-
  CdiModel.Cli — C19: what the `cdi` command prints for the listing sub-commands
  (cmd/cdi/cmd/cdi-api.go) as functions of what the library computes, and the
  exit-status rules of `cdi` and `validate`.
-/
import CdiModel.Basic
namespace Cdi.Cli
open Cdi

/-- decimal digits of a natural number -/
def natStr (n : Nat) : Str := (toString n).toList.map (fun c => c.toNat.toUInt8)

def line (s : String) : Str := lit s

/-- `strings.Join(l, sep)` -/
def joinStrs (sep : Str) : List Str → Str
  | [] => []
  | [x] => x
  | x :: y :: rest => x ++ sep ++ joinStrs sep (y :: rest)

/-- `cdi devices`: "No CDI devices found." or a header and one "  <idx>. <name>" line per device -/
def renderDevices (devices : List Str) : List Str :=
  if devices = [] then [line "No CDI devices found."]
  else line "CDI devices found:" :: devices.zipIdx.map (fun p => lit "  " ++ natStr p.2 ++ lit ". " ++ p.1)

/-- `cdi vendors`: each vendor quoted (%q of a plain name) with its number of Spec files -/
def renderVendors (vendors : List (Str × Nat)) : List Str :=
  if vendors = [] then [line "No CDI vendors found."]
  else line "CDI vendors found:" :: vendors.zipIdx.map (fun p =>
    lit "  " ++ natStr p.2 ++ lit ". \"" ++ p.1.1 ++ lit "\" (" ++ natStr p.1.2 ++ lit " CDI Spec Files)")

/-- `cdi classes`: each class with the (sorted) vendors having a Spec of that class, one per Spec -/
def renderClasses (classes : List (Str × List Str)) : List Str :=
  if classes = [] then [line "No CDI device classes found."]
  else line "CDI device classes found:" :: classes.zipIdx.map (fun p =>
    lit "  " ++ natStr p.2 ++ lit ". " ++ p.1.1 ++ lit " (" ++ natStr p.1.2.length ++ lit " vendors: " ++
      joinStrs (lit ", ") p.1.2 ++ lit ")")

/-- `cdi specs` (non-verbose, no cache errors): per vendor the paths of its Spec files -/
def renderSpecs (vendors : List (Str × List Str)) : List Str :=
  if vendors = [] then [line "No CDI Specs found."]
  else line "CDI Specs found:" :: vendors.flatMap (fun v =>
    (lit "Vendor " ++ v.1 ++ lit ":") :: v.2.map (fun p => lit "  Spec File " ++ p))

/-- exit status of `cdi --spec-dirs … <listing command>` and of `cdi validate`: non-zero iff the
library reports cache errors -/
def cdiExit (errorKeys : List Str) : Nat := if errorKeys = [] then 0 else 1

/-- exit status of the `validate` tool over the documents it is given: non-zero iff schema
validation fails for at least one of them -/
def validateExit (schemaOK : List Bool) : Nat := if schemaOK.all id then 0 else 1

/-- the lines the tool prints on standard output: one per valid document, in argument order -/
def validateLines (docs : List (String × Bool)) : List String :=
  (docs.filter (·.2)).map (fun d => d.1 ++ ": document is valid.")

end Cdi.Cli
