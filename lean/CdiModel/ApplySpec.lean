/-
  CdiModel.ApplySpec — the documented semantics of applying container edits
  (C03), stated declaratively: filters, "last occurrence", "first occurrence",
  sortedness and per-key stability — no loops over generator calls.
-/
import CdiModel.Apply
namespace Cdi.Apply
open Cdi

/-! ### well-formedness hypotheses (DESIGN I2/I3) -/

/-- initial env entries are NAME=value; device paths and mount destinations are unique -/
def WFOci (o : Oci) : Bool :=
  o.env.all (fun v => v.contains cEq) &&
  (o.devices.map (·.path)).Nodup && (o.mounts.map (·.destination)).Nodup &&
  (o.hasProcess || (o.uid == 0 && o.gid == 0 && o.env == [] && o.addGids == []))

def noNil (e : Edits) : Bool :=
  e.deviceNodes.all Option.isSome && e.hooks.all Option.isSome && e.mounts.all Option.isSome

/-! ### generic list notions -/

/-- keep an element iff no later element has the same key -/
def lastOcc {α β} [BEq β] (key : α → β) : List α → List α
  | [] => []
  | x :: rest => if rest.any (fun y => key y == key x) then lastOcc key rest else x :: lastOcc key rest

/-- keep an element iff no earlier element has the same key -/
def firstOcc {α β} [BEq β] (key : α → β) (l : List α) : List α :=
  l.foldl (fun acc x => if acc.any (fun y => key y == key x) then acc else acc ++ [x]) []

def sortedBy {α} (key : α → Nat) : List α → Bool
  | [] => true
  | [_] => true
  | x :: y :: rest => decide (key x ≤ key y) && sortedBy key (y :: rest)

/-! ### expected result, section by section -/

/-- env: the initial entries, then one entry per variable named by the edits (in
order of first mention) holding the value of its last edit -/
def envSpec (initial edits : List Str) : List Str :=
  initial ++ (firstOcc id (edits.map envName)).map
    (fun n => ((edits.filter (fun v => envName v == n)).getLast?).getD [])

/-- the filled device nodes, or `none` if the host lookup fails for one of them -/
def filledNodes (host : Str → Option HostNode) (nodes : List (Option DeviceNode)) : Option (List DeviceNode) :=
  nodes.mapM (fun n => match n with
    | some d => match fillMissingInfo host d with
      | .ok d' => some d'
      | _ => none
    | none => none)

/-- devices: initial devices whose path no edit names, then for every path named by
the edits the (filled, uid/gid-defaulted) node of its last edit -/
def devicesSpec (o : Oci) (filled : List DeviceNode) : List LinuxDevice :=
  let devs := filled.map (nodeToOci o)
  o.devices.filter (fun d => !devs.any (fun x => x.path == d.path)) ++ lastOcc (·.path) devs

/-- cgroup rules: one allow rule per block/char edit node, in order, appended -/
def rulesSpec (o : Oci) (orig filled : List DeviceNode) : List DevRule :=
  o.rules ++ (orig.zip filled).flatMap (fun p => ruleFor (nodeToOci o p.2) p.1.permissions)

/-- mounts before sorting: initial mounts at other destinations, then the last edit per destination -/
def mountsUnsorted (o : Oci) (ms : List Mount) : List OMount :=
  let new := ms.map mountToOci
  o.mounts.filter (fun m => !new.any (fun x => x.destination == m.destination)) ++ lastOcc (·.destination) new

def hooksOf (stage : String) (hs : List Hook) : List OHook :=
  (hs.filter (fun h => hookStage h.hookName == some stage)).map hookToOci

/-- additional GIDs: initial ones, then the edits' in order without 0 and without repeats -/
def gidsSpec (initial edits : List Nat) : List Nat :=
  initial ++ firstOcc id (edits.filter (fun g => g != 0 && !initial.contains g))

structure ApplyObs where
  err : Bool
  panic : Bool
  result : Oci
  frameUnchanged : Bool   -- everything outside the modelled sections is identical

def someVals {α} (l : List (Option α)) : List α := l.filterMap id

/-- **Judge of C03.** `none` = admissible. Inputs outside the hypotheses get no verdict. -/
def judgeApply (host : Str → Option HostNode) (e : Edits) (o : Oci) (obs : ApplyObs) : Option String :=
  if obs.panic then some "panic" else
  if !(WFOci o && noNil e) then none else
  let hooks := someVals e.hooks
  match filledNodes host e.deviceNodes with
  | none => if obs.err then none else some "applied-despite-host-device-lookup-failure"
  | some filled =>
    if !(hooks.all (fun h => (hookStage h.hookName).isSome)) then
      (if obs.err then none else some "applied-unknown-hook-name")
    else if obs.err then some "apply-failed-on-valid-input" else
    let r := obs.result
    let mounts := someVals e.mounts
    let envExp := if e.env = [] then o.env else envSpec o.env e.env
    if r.env ≠ envExp then some "env"
    else if r.devices ≠ devicesSpec o filled then some "devices"
    else if r.rules ≠ rulesSpec o (someVals e.deviceNodes) filled then some "device-cgroup-rules"
    else if mounts = [] ∧ r.mounts ≠ o.mounts then some "mounts-changed-without-mount-edits"
    else if mounts ≠ [] ∧ !(sortedBy mountKey r.mounts) then some "mounts-not-ordered-by-depth"
    else if mounts ≠ [] ∧ !((r.mounts ++ mountsUnsorted o mounts).all (fun x =>
        r.mounts.filter (fun m => mountKey m == mountKey x) ==
          (mountsUnsorted o mounts).filter (fun m => mountKey m == mountKey x)))
      then some "mounts-not-stable-or-wrong-set"
    else if r.prestart ≠ o.prestart ++ hooksOf "prestart" hooks then some "hooks-prestart"
    else if r.createRuntime ≠ o.createRuntime ++ hooksOf "createruntime" hooks then some "hooks-createRuntime"
    else if r.createContainer ≠ o.createContainer ++ hooksOf "createcontainer" hooks then some "hooks-createContainer"
    else if r.startContainer ≠ o.startContainer ++ hooksOf "startcontainer" hooks then some "hooks-startContainer"
    else if r.poststart ≠ o.poststart ++ hooksOf "poststart" hooks then some "hooks-poststart"
    else if r.poststop ≠ o.poststop ++ hooksOf "poststop" hooks then some "hooks-poststop"
    else if r.addGids ≠ gidsSpec o.addGids e.additionalGids then some "additional-gids"
    else if r.rdt ≠ (e.intelRdt.orElse fun _ => o.rdt) then some "intel-rdt"
    else if r.uid ≠ o.uid ∨ r.gid ≠ o.gid then some "process-user-changed"
    else if !obs.frameUnchanged then some "something-else-changed"
    else none

end Cdi.Apply
