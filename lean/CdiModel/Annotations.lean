/-
  CdiModel.Annotations — model of /repo/pkg/cdi/annotations.go.
  Maps are association lists with unique keys; a nil map is the empty list.
-/
import CdiModel.Parser
import CdiModel.Generated.Facts
namespace Cdi.Annotations
open Cdi Cdi.Parser

def annotationPrefix : Str := lit Generated.annotationPrefix
def maxNameLen : Nat := Generated.maxNameLen

/-- characters allowed in the middle of plugin+deviceID -/
def isKeyMid (c : Byte) : Bool := isAlnum c || c == cUnder || c == cDash || c == cDot

/-- the character checks of `AnnotationKey` on the non-empty `name`
(annotations.go:108-125): first, middle (only when longer than 2) and last. -/
def keyNameCheck (name : Str) : Res Bool :=
  match goIndex name 0 with
  | .panic => .panic | .err => .err
  | .ok c0 =>
    if !isAlnum c0 then .ok false else
    let midR : Res Bool :=
      if name.length > 2 then
        match goSlice name 1 (name.length - 1) with
        | .panic => .panic | .err => .err
        | .ok mid => .ok (mid.all isKeyMid)
      else .ok true
    match midR with
    | .panic => .panic | .err => .err
    | .ok false => .ok false
    | .ok true =>
      match goIndex name (name.length - 1) with
      | .panic => .panic | .err => .err
      | .ok cl => .ok (isAlnum cl)

/-- `AnnotationKey` (annotations.go:90). `ok none` = error returned. -/
def annotationKey (plugin deviceID : Str) : Res (Option Str) :=
  if plugin = [] then .ok none else
  if deviceID = [] then .ok none else
  let name := plugin ++ cUnder :: replaceByte cSlash cUnder deviceID
  if name.length > maxNameLen then .ok none else
  match keyNameCheck name with
  | .panic => .panic | .err => .err
  | .ok false => .ok none
  | .ok true => .ok (some (annotationPrefix ++ name))

/-- `AnnotationValue` (annotations.go:130). -/
def annotationValue : List Str → Res (Option Str)
  | devices =>
    let rec go (ds : List Str) (value : Str) (sep : Str) : Res (Option Str) :=
      match ds with
      | [] => .ok (some value)
      | d :: rest =>
        match parseQualifiedName d with
        | .panic => .panic | .err => .err
        | .ok r => if !r.ok then .ok none else go rest (value ++ sep ++ d) [cComma]
    go devices [] []

structure UpdateResult where
  annotations : List (Str × Str)
  ok : Bool
  deriving Repr, DecidableEq

/-- `UpdateAnnotations` (annotations.go:36). -/
def updateAnnotations (ann : List (Str × Str)) (plugin deviceID : Str) (devices : List Str) :
    Res UpdateResult :=
  match annotationKey plugin deviceID with
  | .panic => .panic | .err => .err
  | .ok none => .ok ⟨ann, false⟩
  | .ok (some key) =>
    if (lookup key ann).isSome then .ok ⟨ann, false⟩ else
    match annotationValue devices with
    | .panic => .panic | .err => .err
    | .ok none => .ok ⟨ann, false⟩
    | .ok (some value) => .ok ⟨ann ++ [(key, value)], true⟩

structure ParseResult where
  keys : List Str
  devices : List Str
  ok : Bool
  deriving Repr, DecidableEq

/-- devices of one annotation value: `none` if some element is not qualified -/
def parseValue (value : Str) : Res (Option (List Str)) :=
  let rec go (ds : List Str) (acc : List Str) : Res (Option (List Str)) :=
    match ds with
    | [] => .ok (some acc)
    | d :: rest =>
      match isQualifiedName d with
      | .panic => .panic | .err => .err
      | .ok false => .ok none
      | .ok true => go rest (acc ++ [d])
  go (splitAll cComma value) []

/-- `ParseAnnotations` (annotations.go:63) on the entries in the order the map
iteration visits them. -/
def parseAnnotations (entries : List (Str × Str)) : Res ParseResult :=
  let rec go (es : List (Str × Str)) (keys devices : List Str) : Res ParseResult :=
    match es with
    | [] => .ok ⟨keys, devices, true⟩
    | (k, v) :: rest =>
      if !hasPrefix annotationPrefix k then go rest keys devices else
      match parseValue v with
      | .panic => .panic | .err => .err
      | .ok none => .ok ⟨[], [], false⟩
      | .ok (some ds) => go rest (keys ++ [k]) (devices ++ ds)
  go entries [] []

end Cdi.Annotations
