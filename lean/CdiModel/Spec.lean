/-
  CdiModel.Spec — /repo/specs-go/config.go as Lean structures.
  Pointer-typed list elements (`[]*DeviceNode`, `[]*Hook`, `[]*Mount`) are
  `Option`s: `none` is a nil entry (JSON/YAML `null`).  A nil and an empty
  slice or map coincide (`[]`).
-/
import CdiModel.Basic
namespace Cdi

structure DeviceNode where
  path : Str := []
  hostPath : Str := []
  type : Str := []
  major : Int := 0
  minor : Int := 0
  fileMode : Option Nat := none
  permissions : Str := []
  uid : Option Nat := none
  gid : Option Nat := none
  deriving Repr, DecidableEq, BEq

structure Mount where
  hostPath : Str := []
  containerPath : Str := []
  options : List Str := []
  type : Str := []
  deriving Repr, DecidableEq, BEq

structure Hook where
  hookName : Str := []
  path : Str := []
  args : List Str := []
  env : List Str := []
  timeout : Option Int := none
  deriving Repr, DecidableEq, BEq

structure IntelRdt where
  closID : Str := []
  l3CacheSchema : Str := []
  memBwSchema : Str := []
  enableCMT : Bool := false
  enableMBM : Bool := false
  deriving Repr, DecidableEq, BEq

structure Edits where
  env : List Str := []
  deviceNodes : List (Option DeviceNode) := []
  hooks : List (Option Hook) := []
  mounts : List (Option Mount) := []
  intelRdt : Option IntelRdt := none
  additionalGids : List Nat := []
  deriving Repr, DecidableEq, BEq

structure Device where
  name : Str := []
  annotations : List (Str × Str) := []
  edits : Edits := {}
  deriving Repr, DecidableEq, BEq

structure Spec where
  version : Str := []
  kind : Str := []
  annotations : List (Str × Str) := []
  devices : List Device := []
  edits : Edits := {}
  deriving Repr, DecidableEq, BEq

/-- spec-level edits followed by every device's edits -/
def Spec.allEdits (s : Spec) : List Edits := s.edits :: s.devices.map (·.edits)

end Cdi
