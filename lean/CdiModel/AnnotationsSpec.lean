/-
  CdiModel.AnnotationsSpec — decidable judges for C15, written against the
  property text only (grammar `qualifiedB`, k8s key rule, prefix), not against
  how annotations.go computes things.
-/
import CdiModel.Annotations
import CdiModel.ParserSpec
import CdiModel.K8s
namespace Cdi.Annotations
open Cdi Cdi.Parser

/-- map equality on association lists with unique keys -/
def sameMap (a b : List (Str × Str)) : Bool :=
  a.length == b.length && a.all (fun kv => lookup kv.1 b == some kv.2)

/-- entries of `b` whose key is not in `a` -/
def newEntries (a b : List (Str × Str)) : List (Str × Str) :=
  b.filter (fun kv => (lookup kv.1 a).isNone)

/-- a legal Kubernetes annotation key (qualified name, case-insensitively) -/
def legalKey (k : Str) : Bool := K8s.isQualifiedName (K8s.toLower k)

/-- the devices a value denotes, if every element is a qualified name -/
def valueDevices (v : Str) : Option (List Str) :=
  let ds := splitAll cComma v
  if ds.all qualifiedB then some ds else none

structure UpdateObs where
  panic : Bool
  ok : Bool
  result : List (Str × Str)

/-- Judge of C15 for `UpdateAnnotations`. -/
def judgeUpdate (ann : List (Str × Str)) (devices : List Str) (o : UpdateObs) : Option String :=
  if o.panic then some "panic" else
  if !o.ok then (if sameMap ann o.result then none else some "failed-but-map-changed") else
  if !(ann.all (fun kv => lookup kv.1 o.result == some kv.2)) then some "existing-entry-changed" else
  match newEntries ann o.result with
  | [(k, v)] =>
    if o.result.length ≠ ann.length + 1 then some "not-exactly-one-key-added"
    else if !hasPrefix annotationPrefix k then some "key-without-cdi-prefix"
    else if !legalKey k then some "key-not-a-legal-k8s-annotation-key"
    else if devices ≠ [] && valueDevices v != some devices then some "value-does-not-parse-back"
    else none
  | _ => some "not-exactly-one-key-added"

structure ParseObs where
  panic : Bool
  ok : Bool
  keys : List Str
  devices : List Str

def insertSorted (x : Str) : List Str → List Str
  | [] => [x]
  | y :: ys => if decide (x ≤ y) then x :: y :: ys else y :: insertSorted x ys
def sortStrs (l : List Str) : List Str := l.foldr insertSorted []

/-- Judge of C15 for `ParseAnnotations`: foreign keys ignored; any unqualified
device ⇒ error with empty results; otherwise every CDI key exactly once (any
order) and the devices are the per-key lists concatenated in the returned key order. -/
def judgeParse (entries : List (Str × Str)) (o : ParseObs) : Option String :=
  if o.panic then some "panic" else
  let cdi := entries.filter (fun kv => hasPrefix annotationPrefix kv.1)
  let bad := cdi.any (fun kv => (valueDevices kv.2).isNone)
  if bad then
    (if o.ok then some "accepted-unqualified-device"
     else if o.keys ≠ [] ∨ o.devices ≠ [] then some "error-with-non-empty-results" else none)
  else
    if !o.ok then some "rejected-well-formed-annotations"
    else if sortStrs o.keys ≠ sortStrs (cdi.map (·.1)) then some "keys-differ"
    else if o.devices ≠ o.keys.flatMap (fun k => ((lookup k entries).bind valueDevices).getD []) then
      some "devices-differ"
    else none

end Cdi.Annotations
