import Std.Data.HashSet
/-! Throw-away sanity model of the watch/refresh state machine (C11). One configured
directory D, one spec-named file `f` (f.json), one temp name `t` (t.tmp). -/

inductive Nm | f | t | dir deriving DecidableEq, Repr, BEq, Hashable
inductive Ev | create | write | remove | rename deriving DecidableEq, Repr, BEq, Hashable

structure S where
  dirExists : Bool := true
  fC : Option Nat := none      -- content version of f.json (0 = empty file)
  tC : Option Nat := none      -- content version of t.tmp
  kwatch : Bool := true        -- kernel watch attached to the current directory
  tracked : Bool := true       -- watcher's belief
  queue : List (Ev × Nm) := []
  snap : Option (Option Nat) := none   -- none = stale marker unused; view at last refresh
  fresh : Nat := 1             -- next content version
  seen : Bool := true          -- directory existed at the last scan
  pend : Nat := 0              -- 0 none, 1 watcher scan pending, 2 query scan pending (lock held)
  deriving DecidableEq, Repr, BEq, Hashable

def view (s : S) : Option Nat := if s.dirExists then s.fC else none

def emit (s : S) (es : List (Ev × Nm)) : S := if s.kwatch then { s with queue := s.queue ++ es } else s

inductive Op | creatF | writeF | creatT | writeT | renameTF | moveInF | moveOutF | unlinkF | rmdir | mkdir
  deriving DecidableEq, Repr

def allOps : List Op := [.creatF, .writeF, .creatT, .writeT, .renameTF, .moveInF, .moveOutF, .unlinkF, .rmdir, .mkdir]

def fsStep (s : S) : Op → Option S
  | .creatF => if s.dirExists ∧ s.fC.isNone then some (emit { s with fC := some 0 } [(.create, .f)]) else none
  | .writeF => if s.dirExists ∧ s.fC.isSome then some (emit { s with fC := some s.fresh, fresh := s.fresh + 1 } [(.write, .f)]) else none
  | .creatT => if s.dirExists ∧ s.tC.isNone then some (emit { s with tC := some 0 } [(.create, .t)]) else none
  | .writeT => if s.dirExists ∧ s.tC.isSome then some (emit { s with tC := some s.fresh, fresh := s.fresh + 1 } [(.write, .t)]) else none
  | .renameTF => if s.dirExists ∧ s.tC.isSome then some (emit { s with fC := s.tC, tC := none } [(.rename, .t), (.create, .f)]) else none
  | .moveInF => if s.dirExists then some (emit { s with fC := some s.fresh, fresh := s.fresh + 1 } [(.create, .f)]) else none
  | .moveOutF => if s.dirExists ∧ s.fC.isSome then some (emit { s with fC := none } [(.rename, .f)]) else none
  | .unlinkF => if s.dirExists ∧ s.fC.isSome then some (emit { s with fC := none } [(.remove, .f)]) else none
  | .rmdir => if s.dirExists then
      let s1 := emit s ((if s.fC.isSome then [(.remove, .f)] else []) ++ (if s.tC.isSome then [(.remove, .t)] else []) ++ [(.remove, .dir)])
      some { s1 with dirExists := false, fC := none, tC := none, kwatch := false } else none
  | .mkdir => if !s.dirExists then some { s with dirExists := true } else none

/-- watch.update without `removed` -/
def update (s : S) : S × Bool :=
  if !s.tracked ∧ s.dirExists then ({ s with tracked := true, kwatch := true }, true) else (s, false)

def isSpec : Nm → Bool | .f => true | _ => false

def passes (createInMask : Bool) (e : Ev × Nm) : Bool :=
  let inMask := match e.1 with | .create => createInMask | _ => true
  inMask && (if e.1 == .write || e.1 == .create then isSpec e.2 else true)


/-- fix selector: 0 = none, 1 = re-add in the Remove(dir) handler (A), 2 = untracked-but-seen forces refresh (D), 3 = both -/
def scan (s : S) : S := { s with snap := some (view s), seen := s.dirExists, pend := 0 }

/-- first half of a watcher step: pop, filter, update; leaves a scan pending -/
def watcherStep (createInMask : Bool) (fix : Nat) (s : S) : Option S :=
  if s.pend != 0 then none else
  match s.queue with
  | [] => none
  | e :: q =>
    let s := { s with queue := q }
    if !passes createInMask e then some s else
    let s := if e.1 == .remove ∧ e.2 == .dir ∧ s.tracked then
        let s := { s with tracked := false }
        if fix == 1 || fix == 3 then (update s).1 else s
      else (update s).1
    some { s with pend := 1 }

/-- first half of a query: update, decide whether to scan -/
def queryStep (fix : Nat) (s : S) : Option S :=
  if s.pend != 0 then none else
  let needSeen := (fix == 2 || fix == 3) && !s.tracked && s.seen
  let (s, upd) := update s
  some (if upd || needSeen then { s with pend := 2 } else s)

def scanStep (s : S) : Option S := if s.pend != 0 then some (scan s) else none

partial def drain (m : Bool) (fix : Nat) (s : S) : S :=
  match scanStep s with
  | some s' => drain m fix s'
  | none => match watcherStep m fix s with | some s' => drain m fix s' | none => s

def converged (m : Bool) (fix : Nat) (s : S) : Bool :=
  let s := drain m fix s
  match queryStep fix s with
  | some s' => let s' := (scanStep s').getD s'; s'.snap.getD none == view s'
  | none => true

partial def explore (m : Bool) (fix : Nat) (n : Nat) (s : S) (hist : List String) (seen : IO.Ref (Std.HashSet (S × Nat)))
    (bad : IO.Ref (List (List String))) (cnt : IO.Ref Nat) : IO Unit := do
  if (← seen.get).contains (s, n) then return
  seen.modify (·.insert (s, n))
  cnt.modify (· + 1)
  if !converged m fix s then
    if (← bad.get).length < 2 || hist.length < ((← bad.get).map (·.length)).foldl min 1000 then bad.modify (hist.reverse :: ·)
  match watcherStep m fix s with
  | some s' => explore m fix n s' ("W" :: hist) seen bad cnt
  | none => pure ()
  match scanStep s with
  | some s' => explore m fix n s' ("S" :: hist) seen bad cnt
  | none => pure ()
  match queryStep fix s with
  | some s' => explore m fix n s' ("Q" :: hist) seen bad cnt
  | none => pure ()
  if n > 0 then
    for op in allOps do
      match fsStep s op with
      | some s' => explore m fix (n-1) s' (reprStr op :: hist) seen bad cnt
      | none => pure ()

def run (m : Bool) (fix : Nat) (n : Nat) (init : S) : IO Unit := do
  let seen ← IO.mkRef ({} : Std.HashSet (S × Nat))
  let bad ← IO.mkRef ([] : List (List String))
  let cnt ← IO.mkRef 0
  let s0 := { init with snap := some (view init), seen := init.dirExists }
  explore m fix n s0 [] seen bad cnt
  let b ← bad.get
  let shortest := b.foldl (fun acc h => if acc.isEmpty || h.length < acc.length then h else acc) []
  IO.println s!"createInMask={m} fix={fix} budget={n} states={← cnt.get} shortest nonconverging={shortest}"

def main : IO Unit := do
  for fix in [0, 1, 2, 3] do
    run true fix 5 {}
  run true 2 6 {}
  run true 2 6 { dirExists := false, kwatch := false, tracked := false }
