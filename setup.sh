#!/bin/sh
# Builds the verification framework from files on disk only (offline).
set -e
cd "$(dirname "$0")"
export GOFLAGS=-mod=mod GOPROXY=off GOSUMDB=off GOTOOLCHAIN=local
mkdir -p build replays evidence
python3 - <<'PY'
import sys
sys.path.insert(0, '.')
from checklib import core
with core.Lock():
    ok, msg = core.regenerate_facts()
    print(msg)
    if not ok:
        sys.exit(1)
    ok, out = core.build_harness()
    print(out[-3000:])
    if not ok:
        sys.exit(1)
    err = core.regenerate_tables(True)
    if err:
        print(err)
        sys.exit(1)
    ok, out, dt = core.lake_build([])
    print(out[-3000:])
    if not ok:
        sys.exit(1)
print("setup ok")
PY
