package main

import (
	"fmt"
	"math/rand"
	"sort"
	"strings"

	"tags.cncf.io/container-device-interface/pkg/parser"
)

// parserStream — C07 (and the parser part of C08): every public entry point of
// pkg/parser against the Lean model, judged by the declarative grammar.
type parserStream struct{}

func init() { register(parserStream{}) }

func (parserStream) Name() string          { return "parser" }
func (parserStream) TrivialTags() []string { return nil }

var parserAlphabet = []byte{'a', 'Z', '0', '_', '-', '.', ':', '/', '=', 0xC3, 0xFF}

func genNamePart(rng *rand.Rand, dev bool) string {
	first := "abcXYZ"
	if dev {
		first += "019"
	}
	mid := "abcXYZ019__--.."
	if dev {
		mid += "::"
	}
	last := "abcXYZ019"
	n := rng.Intn(6)
	switch rng.Intn(8) {
	case 0:
		return string(first[rng.Intn(len(first))])
	case 1:
		n = 1 + rng.Intn(70)
	}
	b := []byte{first[rng.Intn(len(first))]}
	for i := 0; i < n; i++ {
		b = append(b, mid[rng.Intn(len(mid))])
	}
	b = append(b, last[rng.Intn(len(last))])
	return string(b)
}

func mutateString(rng *rand.Rand, s string) string {
	b := []byte(s)
	junk := []byte{'/', '=', ':', '.', '-', '_', ' ', 0, 0xC3, 0xA9, 0xFF, '*', 'a', '0', ','}
	switch rng.Intn(5) {
	case 0: // replace
		if len(b) > 0 {
			b[rng.Intn(len(b))] = junk[rng.Intn(len(junk))]
		}
	case 1: // insert
		i := rng.Intn(len(b) + 1)
		b = append(b[:i], append([]byte{junk[rng.Intn(len(junk))]}, b[i:]...)...)
	case 2: // delete
		if len(b) > 0 {
			i := rng.Intn(len(b))
			b = append(b[:i], b[i+1:]...)
		}
	case 3: // truncate
		if len(b) > 0 {
			b = b[:rng.Intn(len(b))]
		}
	case 4: // duplicate a separator
		i := rng.Intn(len(b) + 1)
		sep := []byte{'/', '='}[rng.Intn(2)]
		b = append(b[:i], append([]byte{sep}, b[i:]...)...)
	}
	return string(b)
}

func (parserStream) Generate(rng *rand.Rand, tier string, emit func(Case)) {
	maxLen, nRandom := 4, 3000
	if tier == "thorough" {
		maxLen, nRandom = 5, 60000
	}
	all := func(s string) {
		emit(Case{"op": "pqn", "s": hx(s)})
	}
	// exhaustive small scope over the separator-rich alphabet
	var rec func(prefix []byte, depth int)
	rec = func(prefix []byte, depth int) {
		all(string(prefix))
		if depth == maxLen {
			return
		}
		for _, c := range parserAlphabet {
			rec(append(append([]byte{}, prefix...), c), depth+1)
		}
	}
	rec(nil, 0)
	// the exported character classes: every code point up to U+02FF, the boundaries (±1) of every range on which
	// the current code returns true (computed here by running it on all code points), the ends of the code space
	var none []string
	pts := map[int]bool{0xFFFD: true, 0x10FFFF: true, 0x10FFFE: true, 0xD7FF: true, 0xE000: true, 0xFF10: true, 0xFF21: true, 0x0660: true}
	for i := 0; i < 0x300; i++ {
		pts[i] = true
	}
	for _, f := range []func(rune) bool{parser.IsLetter, parser.IsDigit, parser.IsAlphaNumeric} {
		f := f
		for _, r := range trueRanges(0x10FFFF, func(i int) bool { return f(rune(i)) }, &none, "") {
			for _, x := range []int{r[0] - 1, r[0], r[1], r[1] + 1} {
				if x >= 0 && x <= 0x10FFFF && len(pts) < 6000 {
					pts[x] = true
				}
			}
		}
	}
	for i := 0; i < 300; i++ {
		pts[rng.Intn(0x110000)] = true
	}
	keys := make([]int, 0, len(pts))
	for k := range pts {
		keys = append(keys, k)
	}
	sort.Ints(keys)
	for _, k := range keys {
		for _, fn := range []string{"letter", "digit", "alnum"} {
			emit(Case{"op": "charclass", "fn": fn, "r": k})
		}
	}
	// validators and ParseDevice on all strings up to length 3 over the alphabet
	var rec2 func(prefix []byte, depth int)
	rec2 = func(prefix []byte, depth int) {
		s := string(prefix)
		for _, op := range []string{"vendor", "class", "devname", "parsedev", "isq"} {
			emit(Case{"op": op, "s": hx(s)})
		}
		if depth == 3 {
			return
		}
		for _, c := range parserAlphabet {
			rec2(append(append([]byte{}, prefix...), c), depth+1)
		}
	}
	rec2(nil, 0)
	// random, biased to near-valid
	for i := 0; i < nRandom; i++ {
		v, c, n := genNamePart(rng, false), genNamePart(rng, false), genNamePart(rng, true)
		s := v + "/" + c + "=" + n
		for k := rng.Intn(3); k > 0; k-- {
			s = mutateString(rng, s)
		}
		all(s)
		switch i % 6 {
		case 0:
			emit(Case{"op": "vendor", "s": hx(mutateIf(rng, v))})
		case 1:
			emit(Case{"op": "class", "s": hx(mutateIf(rng, c))})
		case 2:
			emit(Case{"op": "devname", "s": hx(mutateIf(rng, n))})
		case 3:
			emit(Case{"op": "parsedev", "s": hx(s)})
		case 4:
			emit(Case{"op": "qname", "v": hx(mutateIf(rng, v)), "c": hx(mutateIf(rng, c)), "n": hx(mutateIf(rng, n))})
		case 5:
			emit(Case{"op": "isq", "s": hx(s)})
		}
	}
}

func mutateIf(rng *rand.Rand, s string) string {
	if rng.Intn(2) == 0 {
		return mutateString(rng, s)
	}
	return s
}

func (parserStream) Execute(c Case) {
	op, _ := c["op"].(string)
	obs := map[string]any{"panic": false}
	defer func() {
		if r := recover(); r != nil {
			c["obs"] = map[string]any{"panic": true, "ok": false, "v": "", "c": "", "n": "", "s": ""}
		}
	}()
	s := unhx(c["s"])
	switch op {
	case "pqn":
		v, cl, n, err := parser.ParseQualifiedName(s)
		obs["v"], obs["c"], obs["n"], obs["ok"] = hx(v), hx(cl), hx(n), err == nil
		// the parser is a function of its argument: the same call again, made right after successful parses of names
		// whose vendor/class text is a prefix of this string, must give the same answer
		if eq := strings.IndexByte(s, '='); eq > 0 && strings.IndexByte(s[:eq], '/') > 0 {
			aux := []any{}
			primed := 0
			for k := eq; k >= 3 && primed < 3; k-- {
				if _, _, _, perr := parser.ParseQualifiedName(s[:k] + "=x0"); perr != nil {
					continue
				}
				primed++
				v2, c2, n2, err2 := parser.ParseQualifiedName(s)
				if v2 != v || c2 != cl || n2 != n || (err2 == nil) != (err == nil) {
					aux = append(aux, fmt.Sprintf("ParseQualifiedName(%q) answers (%q,%q,%q,%v) at first and (%q,%q,%q,%v) after a successful parse of %q",
						s, v, cl, n, err == nil, v2, c2, n2, err2 == nil, s[:k]+"=x0"))
				}
			}
			obs["aux"] = aux
		}
	case "isq":
		obs["ok"] = parser.IsQualifiedName(s)
	case "vendor":
		obs["ok"] = parser.ValidateVendorName(s) == nil
	case "class":
		obs["ok"] = parser.ValidateClassName(s) == nil
	case "devname":
		obs["ok"] = parser.ValidateDeviceName(s) == nil
	case "parsedev":
		v, cl, n := parser.ParseDevice(s)
		obs["v"], obs["c"], obs["n"] = hx(v), hx(cl), hx(n)
	case "charclass":
		r := rune(kindIdx(c["r"]))
		switch c["fn"] {
		case "letter":
			obs["ok"] = parser.IsLetter(r)
		case "digit":
			obs["ok"] = parser.IsDigit(r)
		default:
			obs["ok"] = parser.IsAlphaNumeric(r)
		}
	case "qname":
		obs["s"] = hx(parser.QualifiedName(unhx(c["v"]), unhx(c["c"]), unhx(c["n"])))
	}
	c["obs"] = obs
}
