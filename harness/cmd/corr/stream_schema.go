package main

import (
	"bytes"
	"encoding/json"
	"fmt"
	"math/rand"
	"os"
	"os/exec"
	"path/filepath"
	"strings"
	"sync"
	"sync/atomic"
	"time"
	"unicode/utf16"

	"tags.cncf.io/container-device-interface/pkg/cdi"
	"tags.cncf.io/container-device-interface/schema"
	specs "tags.cncf.io/container-device-interface/specs-go"
)

// schemaStream — C17 / C18: the builtin schema validator against the Lean draft-07
// semantics of the regenerated schema term, through every entry point, both
// encodings, builtin / externally loaded / none / nil schemas; and library-valid
// typed Specs (and the files written for them) against the builtin schema.
type schemaStream struct{}

func init() { register(schemaStream{}) }

func (schemaStream) Name() string          { return "schema" }
func (schemaStream) TrivialTags() []string { return nil }

// per-process scratch root: concurrent runs of the harness must not share a tree
var schemaRoot = scratchRoot("/tmp/cdi-verif-schema")

var schemaMutations = []string{"wrong-type-any", "null-member", "unknown-member", "missing-required", "num-range", "fraction",
	"bad-annotation", "boundary", "null-entry", "integral-fraction"}

func (g docGen) schemaMutate(doc *jobj, kind string) string {
	objs := collectObjects(doc)
	if len(objs) == 0 {
		return ""
	}
	t := objs[g.rng.Intn(len(objs))]
	switch kind {
	case "wrong-type-any":
		if len(t.o.members) == 0 {
			return ""
		}
		i := g.rng.Intn(len(t.o.members))
		switch t.o.members[i].v.(type) {
		case jstr:
			t.o.members[i].v = g.pickAny(jint(5), true, jarr{}, obj(), nil)
		case jnum:
			t.o.members[i].v = g.pickAny(jstr("5"), true, jarr{jint(1)}, obj())
		case jarr:
			t.o.members[i].v = g.pickAny(jstr("x"), obj("a", jstr("b")), jint(1), true)
		case *jobj:
			t.o.members[i].v = g.pickAny(jstr("x"), jarr{jstr("a")}, jint(1))
		case bool:
			t.o.members[i].v = g.pickAny(jstr("true"), jint(1))
		default:
			return ""
		}
		return kind + "@" + t.level + "." + t.o.members[i].k
	case "missing-required":
		for _, k := range []string{"cdiVersion", "kind", "devices", "name", "containerEdits", "path", "hostPath", "containerPath", "hookName"} {
			if _, ok := t.o.get(k); ok && g.maybe(60) {
				t.o.del(k)
				return kind + "@" + t.level + "." + k
			}
		}
		return ""
	case "boundary":
		cands := []target{}
		for _, o := range objs {
			if strings.HasSuffix(o.level, "-deviceNodes") || strings.HasSuffix(o.level, "-hooks") || strings.HasSuffix(o.level, "-edits") {
				cands = append(cands, o)
			}
		}
		if len(cands) == 0 {
			return ""
		}
		t = cands[g.rng.Intn(len(cands))]
		switch {
		case strings.HasSuffix(t.level, "-deviceNodes"):
			t.o.set(g.pick("major", "minor"), jbig(g.pick("9223372036854775807", "-9223372036854775808", "9223372036854775808", "-9223372036854775809")))
			t.o.set(g.pick("uid", "gid"), jbig(g.pick("0", "4294967295", "4294967296", "-1")))
		case strings.HasSuffix(t.level, "-hooks"):
			t.o.set("timeout", jbig(g.pick("0", "4294967295", "4294967296", "-1")))
		default:
			t.o.set("additionalGids", jarr{jbig(g.pick("0", "4294967295", "4294967296", "-1"))})
		}
		return kind + "@" + t.level
	case "integral-fraction":
		cands := []target{}
		for _, o := range objs {
			if strings.HasSuffix(o.level, "-deviceNodes") {
				cands = append(cands, o)
			}
		}
		if len(cands) == 0 {
			return ""
		}
		cands[g.rng.Intn(len(cands))].o.set("major", jnum{jint(70).m, 1}) // 7.0: an integer for draft-07
		return kind
	default:
		return g.mutate(doc, kind)
	}
}

func (schemaStream) Generate(rng *rand.Rand, tier string, emit func(Case)) {
	g := docGen{rng}
	nValid, perKind, nTyped := 60, 20, 80
	if tier == "thorough" {
		nValid, perKind, nTyped = 1500, 500, 3000
	}
	for i := 0; i < nValid; i++ {
		emit(Case{"op": "verdicts", "doc": docToProto(g.spec()), "label": "generated-spec"})
	}
	// other spellings of the same JSON document: every '/' escaped as \/, every non-ASCII character as \uXXXX
	// (surrogate pairs beyond the BMP), indented over several lines - the verdict belongs to the document
	for i := 0; i < nValid/3; i++ {
		d := g.spec()
		d.set("annotations", obj("vendor.com/note", jstr("é/日本/😀/"+fmt.Sprint(i))))
		for _, style := range []string{"escaped", "indented"} {
			emit(Case{"op": "verdicts", "doc": docToProto(d), "label": "json-spelling-" + style, "jsonstyle": style})
		}
	}
	for _, kind := range schemaMutations {
		for i := 0; i < perKind; i++ {
			d := g.spec()
			label := g.schemaMutate(d, kind)
			if label == "" {
				continue
			}
			emit(Case{"op": "verdicts", "doc": docToProto(d), "label": label})
		}
	}
	// members the schema says nothing about, holding numbers no float64 can hold (a 401-digit integer): draft-07 has
	// no opinion on them, and every entry point - bytes, files, readers - gives the verdict of the rest of the document
	for i := 0; i < 4; i++ {
		d := g.spec()
		huge := jbig("1" + strings.Repeat("0", 400))
		if i%2 == 1 {
			huge = jbig("-9" + strings.Repeat("7", 350))
		}
		d.set("x-vendor-weight", huge)
		emit(Case{"op": "verdicts", "doc": docToProto(d), "label": "unconstrained-huge-number"})
	}
	// documents beyond 1 MiB (4000 devices' worth of text in one string): the verdict does not depend on the size
	for i := 0; i < 2; i++ {
		d := g.spec()
		d.set("containerEdits", obj("env", jarr{jstr("PAD=" + strings.Repeat("x", 1300000))}))
		if i == 1 {
			d.set("kind", jint(7)) // ... and neither does a defect's
		}
		emit(Case{"op": "verdicts", "doc": docToProto(d), "label": "beyond-1MiB"})
	}
	emit(Case{"op": "firstuse", "processes": 12})
	for _, d := range []any{obj(), obj("cdiVersion", jstr("1.0.0")), obj("cdiVersion", jstr("1.0.0"), "kind", jstr("a/b"), "devices", jarr{})} {
		emit(Case{"op": "verdicts", "doc": docToProto(d), "label": "tiny"})
	}
	// typed Specs: random (mostly library-valid) with numeric extremes
	for i := 0; i < nTyped; i++ {
		s := genTypedSpec(rng)
		if i%5 == 2 && len(s.Devices) > 0 {
			// characters encoding/json writes as they are and YAML wants escaped (DEL, C1 controls, U+FFFE): the library's
			// JSON text of a valid Spec is valid for the schema through the byte entry point too
			s.Devices[0].ContainerEdits.Env = append(s.Devices[0].ContainerEdits.Env, "CTRL=a\x7fb", "C1=\u0085\u009f", "NONCHAR=\ufffe")
		}
		emit(Case{"op": "typed", "spec": specToProto(s)})
	}
	// a library-valid Spec whose files are larger than a megabyte (every annotation map within its own limit)
	bigSpec := &specs.Spec{Version: specs.CurrentVersion, Kind: "vendor.com/class"}
	for i := 0; i < 6; i++ {
		bigSpec.Devices = append(bigSpec.Devices, specs.Device{Name: fmt.Sprintf("dev%d", i), Annotations: map[string]string{"big": strings.Repeat("a", 200*1024)},
			ContainerEdits: specs.ContainerEdits{Env: []string{"A=b"}}})
	}
	emit(Case{"op": "typed", "spec": specToProto(bigSpec)})
	// every kind of defect the library rejects, as a typed Spec: what the library admits must pass the schema
	// whatever the reason it was admitted for
	for _, kind := range mutationKinds {
		for i := 0; i < perKind; i++ {
			d := g.spec()
			if g.mutate(d, kind) == "" {
				continue
			}
			if raw, err := cdi.ParseSpec(renderJSON(d)); err == nil && raw != nil {
				emit(Case{"op": "typed", "spec": specToProto(raw)})
			}
		}
	}
}

func genTypedSpec(rng *rand.Rand) *specs.Spec {
	g := docGen{rng}
	d := g.spec()
	if rng.Intn(2) == 0 {
		// half of the typed Specs carry one defect the library must reject: if the library (wrongly)
		// admits it, the schema's verdict on it is compared like for any other admitted Spec
		g.mutate(d, mutationKinds[rng.Intn(len(mutationKinds))])
	}
	raw, err := cdi.ParseSpec(renderJSON(d))
	if err != nil || raw == nil {
		raw = &specs.Spec{Version: "1.0.0", Kind: "vendor.com/class",
			Devices: []specs.Device{{Name: "d", ContainerEdits: specs.ContainerEdits{Env: []string{"A=b"}}}}}
	}
	// annotation keys in every spelling the library takes (it lower-cases the key before checking it): upper case in the
	// DNS prefix and in the name, the longest prefix and name, no prefix, odd but legal punctuation
	if rng.Intn(4) == 0 {
		keys := []string{"Vendor.com/origin", "VENDOR.COM/Origin", "vendor.com/Mixed_Case-1.x", "plain", "X", "a.b-c.d/e_f.g",
			strings.Repeat("a", 63) + "." + strings.Repeat("b", 63) + "/" + strings.Repeat("n", 63)}
		ann := map[string]string{keys[rng.Intn(len(keys))]: "v", keys[rng.Intn(len(keys))]: ""}
		if rng.Intn(2) == 0 || len(raw.Devices) == 0 {
			raw.Annotations = ann
		} else {
			raw.Devices[rng.Intn(len(raw.Devices))].Annotations = ann
		}
		if raw.Version < "0.6.0" {
			raw.Version = "0.6.0"
		}
	}
	// numeric extremes of every integer field
	ext64 := []int64{0, 1, -1, 9223372036854775807, -9223372036854775808}
	ext32 := []uint32{0, 1, 4294967295}
	for i := range raw.Devices {
		e := &raw.Devices[i].ContainerEdits
		for _, n := range e.DeviceNodes {
			if n != nil && rng.Intn(2) == 0 {
				n.Major, n.Minor = ext64[rng.Intn(len(ext64))], ext64[rng.Intn(len(ext64))]
				n.UID, n.GID = u32p(ext32[rng.Intn(3)]), u32p(ext32[rng.Intn(3)])
				m := os.FileMode(ext32[rng.Intn(3)])
				n.FileMode = &m
			}
		}
		for _, h := range e.Hooks {
			if h != nil && rng.Intn(2) == 0 {
				h.Timeout = intp([]int{0, 1, 4294967295, 4294967296, -1}[rng.Intn(5)])
			}
		}
		if rng.Intn(3) == 0 {
			e.AdditionalGIDs = append(e.AdditionalGIDs, ext32[rng.Intn(3)])
		}
	}
	return raw
}

func verdictOf(f func() error) (v string) {
	defer func() {
		if r := recover(); r != nil {
			v = "panic"
		}
	}()
	if err := f(); err != nil {
		return "err"
	}
	return "ok"
}

var loadedSchema, lenientSchema *schema.Schema
var validatorHung bool

var concurrentTyped int

func (schemaStream) Execute(c Case) {
	obs := map[string]any{}
	c["obs"] = obs
	_ = os.MkdirAll(schemaRoot, 0o755)
	defer os.RemoveAll(schemaRoot)
	if loadedSchema == nil {
		// an externally loaded copy of the shipped schema files
		dir := filepath.Join(os.TempDir(), "cdi-verif-schema-copy")
		_ = os.MkdirAll(dir, 0o755)
		for _, f := range []string{"schema.json", "defs.json"} {
			b, _ := os.ReadFile(filepath.Join(repoRoot(), "schema", f))
			_ = os.WriteFile(filepath.Join(dir, f), b, 0o644)
		}
		s, err := schema.Load(filepath.Join(dir, "schema.json"))
		if err != nil {
			note("cannot load external schema copy: " + err.Error())
			s = schema.BuiltinSchema()
		}
		loadedSchema = s
	}
	switch c["op"] {
	case "verdicts":
		doc := protoToDoc(c["doc"])
		jsonText, yamlText := renderJSON(doc), renderYAML(doc)
		switch c["jsonstyle"] {
		case "escaped":
			var b bytes.Buffer
			for _, r := range string(jsonText) {
				switch {
				case r == '/':
					b.WriteString(`\/`)
				case r > 0xFFFF:
					r1, r2 := utf16.EncodeRune(r)
					fmt.Fprintf(&b, `\u%04x\u%04x`, r1, r2)
				case r > 127:
					fmt.Fprintf(&b, `\u%04x`, r)
				default:
					b.WriteRune(r)
				}
			}
			jsonText = b.Bytes()
		case "indented":
			var b bytes.Buffer
			if json.Indent(&b, jsonText, "", "\t") == nil {
				jsonText = append(b.Bytes(), '\n')
			}
		}
		pj, py := filepath.Join(schemaRoot, "doc.json"), filepath.Join(schemaRoot, "doc.yaml")
		_ = os.WriteFile(pj, jsonText, 0o644)
		_ = os.WriteFile(py, yamlText, 0o644)
		// a lenient schema loaded from a file sees the same bytes first: what it thinks of them must not colour
		// what the other schemas say
		if lenientSchema == nil {
			lp := filepath.Join(os.TempDir(), "cdi-verif-schema-copy", "lenient.json")
			_ = os.MkdirAll(filepath.Dir(lp), 0o755)
			_ = os.WriteFile(lp, []byte(`{"$schema": "http://json-schema.org/draft-07/schema#", "type": "object"}`), 0o644)
			lenientSchema, _ = schema.Load(lp)
		}
		if lenientSchema != nil {
			_, _ = verdictOf(func() error { return lenientSchema.ValidateData(jsonText) }), verdictOf(func() error { return lenientSchema.ValidateData(yamlText) })
		}
		none, _ := schema.Load("none")
		choices := map[string]*schema.Schema{"builtin": schema.BuiltinSchema(), "loaded": loadedSchema, "none": none, "nil": nil}
		for name, s := range choices {
			s := s
			o := map[string]any{}
			o["dataJson"] = verdictOf(func() error { return s.ValidateData(jsonText) })
			o["dataYaml"] = verdictOf(func() error { return s.ValidateData(yamlText) })
			o["fileJson"] = verdictOf(func() error { return s.ValidateFile(pj) })
			o["fileYaml"] = verdictOf(func() error { return s.ValidateFile(py) })
			o["reader"] = verdictOf(func() error { return s.ValidateReader(bytes.NewReader(jsonText)) })
			o["readAndValidate"] = verdictOf(func() error { _, err := s.ReadAndValidate(bytes.NewReader(jsonText)); return err })
			obs[name] = o
		}
		// the same through the package-level functions, each schema being made the active one first
		for name, s := range map[string]*schema.Schema{"active-builtin": schema.BuiltinSchema(), "active-none": none, "active-nil": nil} {
			schema.Set(s)
			o := map[string]any{}
			o["dataJson"] = verdictOf(func() error { return schema.ValidateData(jsonText) })
			o["dataYaml"] = verdictOf(func() error { return schema.ValidateData(yamlText) })
			o["fileJson"] = verdictOf(func() error { return schema.ValidateFile(pj) })
			o["fileYaml"] = verdictOf(func() error { return schema.ValidateFile(py) })
			o["reader"] = verdictOf(func() error { return schema.ValidateReader(bytes.NewReader(jsonText)) })
			o["readAndValidate"] = verdictOf(func() error { _, err := schema.ReadAndValidate(bytes.NewReader(jsonText)); return err })
			obs[name] = o
		}
		// accessor / constructor forms: Set/Get, WithSchema, WithNamedSchema, WithDefaultSchema
		aux := []any{}
		for name, x := range map[string]*schema.Schema{"builtin": schema.BuiltinSchema(), "none": none, "nil": nil} {
			schema.Set(x)
			if schema.Get() != x {
				aux = append(aux, "schema.Get() does not return what schema.Set("+name+") installed")
			}
			if schema.WithSchema(x) != x {
				aux = append(aux, "schema.WithSchema("+name+") is not the identity")
			}
		}
		schema.Set(schema.BuiltinSchema())
		want := verdictOf(func() error { return schema.BuiltinSchema().ValidateData(jsonText) })
		for name, x := range map[string]*schema.Schema{"WithNamedSchema(builtin)": schema.WithNamedSchema("builtin"), "WithDefaultSchema()": schema.WithDefaultSchema()} {
			x := x
			if _, err := os.Stat(schema.DefaultExternalSchema); err == nil && name == "WithDefaultSchema()" {
				continue // an external default schema is installed on this machine: not the builtin one
			}
			if got := verdictOf(func() error { return x.ValidateData(jsonText) }); got != want {
				aux = append(aux, fmt.Sprintf("%s gives %s, the builtin schema %s", name, got, want))
			}
		}
		for name, x := range map[string]*schema.Schema{"WithNamedSchema(none)": schema.WithNamedSchema("none"), "WithNamedSchema(<missing file>)": schema.WithNamedSchema(filepath.Join(schemaRoot, "no-such-schema.json"))} {
			x := x
			if got := verdictOf(func() error { return x.ValidateData(jsonText) }); got != "ok" && obs["none"].(map[string]any)["dataJson"] == "ok" {
				aux = append(aux, fmt.Sprintf("%s gives %s on a document the none schema accepts", name, got))
			}
		}
		obs["aux"] = aux
	case "firstuse":
		// the very first use of the builtin schema in a process, by many goroutines at once, on an invalid document
		self, _ := os.Executable()
		accepted, ran := 0, 0
		for k := 0; k < kindIdx(c["processes"]); k++ {
			out, err := exec.Command(self, "child", "schemafirstuse").Output()
			if err != nil {
				continue
			}
			var n int
			if _, err := fmt.Sscan(string(out), &n); err == nil {
				accepted += n
				ran++
			}
		}
		obs["accepted"], obs["ran"] = accepted, ran
	case "typed":
		s := protoToSpec(c["spec"])
		for _, k := range []string{"typed", "fileJson", "fileYaml", "readWithValidator", "writeWithValidator"} {
			obs[k] = "skipped"
		}
		if s == nil {
			return
		}
		if len(s.Devices) == 0 {
			s.Devices = nil // the protocol does not distinguish an empty from a nil list; the model takes nil
		}
		b := schema.BuiltinSchema()
		if validatorHung {
			return // the validator lock is gone for good in this process
		}
		obs["typed"] = verdictOf(func() error { return b.Validate(s) })
		aux := []any{}
		schema.Set(b)
		if got := verdictOf(func() error { return schema.ValidateType(s) }); got != obs["typed"] {
			aux = append(aux, fmt.Sprintf("package-level ValidateType gives %s, Schema.Validate %v", got, obs["typed"]))
		}
		if got := verdictOf(func() error { return b.ValidateType(s) }); got != obs["typed"] {
			aux = append(aux, fmt.Sprintf("Schema.ValidateType gives %s, Schema.Validate %v", got, obs["typed"]))
		}
		if got := verdictOf(func() error { return (*schema.Schema)(nil).Validate(s) }); got != "ok" {
			aux = append(aux, "a nil schema rejects an in-memory Spec: "+got)
		}
		// the same object again after a Spec the schema rejects (a negative hook timeout) and one it accepts went through
		// the same entry point: the verdict belongs to the object
		bad := &specs.Spec{Version: specs.CurrentVersion, Kind: "vendor.com/class", Devices: []specs.Device{{Name: "d", ContainerEdits: specs.ContainerEdits{
			Hooks: []*specs.Hook{{HookName: "poststop", Path: "/bin/x", Timeout: intp(-1)}}}}}}
		good := &specs.Spec{Version: specs.CurrentVersion, Kind: "vendor.com/class", Devices: []specs.Device{{Name: "d", ContainerEdits: specs.ContainerEdits{Env: []string{"A=b"}}}}}
		for _, prior := range []*specs.Spec{bad, good, bad} {
			pv := verdictOf(func() error { return b.Validate(prior) })
			if (prior == bad) == (pv == "ok") {
				aux = append(aux, fmt.Sprintf("Schema.Validate of a fixed Spec (valid: %v) gives %s", prior == good, pv))
			}
			if got := verdictOf(func() error { return b.Validate(s) }); got != obs["typed"] {
				aux = append(aux, fmt.Sprintf("Schema.Validate of the same Spec: %v at first, %s after another Spec was validated", obs["typed"], got))
			}
		}
		if got := verdictOf(func() error { return schema.NopSchema().Validate(s) }); got != "ok" {
			aux = append(aux, "the no-op schema rejects an in-memory Spec: "+got)
		}
		// several goroutines validate in-memory Specs of different sizes at the same time (caches of different
		// containers refreshing with the schema installed as validator): each verdict is that of its own Spec
		if concurrentTyped%4 == 0 {
			var wg sync.WaitGroup
			var mu sync.Mutex
			wrong := ""
			for g := 0; g < 8; g++ {
				wg.Add(1)
				go func(g int) {
					defer wg.Done()
					mine := &specs.Spec{Version: specs.CurrentVersion, Kind: "vendor.com/class", Devices: []specs.Device{{Name: "d", ContainerEdits: specs.ContainerEdits{Env: []string{"PAD=" + strings.Repeat("p", 17*g*g)}}}}}
					for i := 0; i < 120; i++ {
						var got string
						var want any = "ok"
						if g%2 == 0 {
							got = verdictOf(func() error { return b.Validate(mine) })
						} else {
							got, want = verdictOf(func() error { return b.Validate(s) }), obs["typed"]
						}
						if got != want {
							mu.Lock()
							wrong = fmt.Sprintf("Schema.Validate under concurrency gives %s where it gives %v alone", got, want)
							mu.Unlock()
							return
						}
					}
				}(g)
			}
			wg.Wait()
			if wrong != "" {
				aux = append(aux, wrong)
			}
		}
		concurrentTyped++
		obs["aux"] = aux
		// files the library writes for it
		dir := filepath.Join(schemaRoot, "w")
		cache, _ := cdi.NewCache(cdi.WithSpecDirs(dir), cdi.WithAutoRefresh(false))
		obs["libaccepts"] = false
		if cache.WriteSpec(s, "out.json") == nil && cache.WriteSpec(s, "out.yaml") == nil {
			obs["libaccepts"] = true
			// other documents go through the byte entry point first - one with an ill-formed annotation key in each of
			// four devices (refused), one with 150 KiB of well-formed annotations in each (accepted): the verdict on the
			// files written for this Spec is theirs alone
			for _, key := range []string{"bad key!", "vendor.com/primer"} {
				var devs []string
				for i := 0; i < 4; i++ {
					devs = append(devs, fmt.Sprintf(`{"name":"p%d","annotations":{%q:%q},"containerEdits":{"env":["A=b"]}}`, i, key, strings.Repeat("v", 150*1024)))
				}
				primer := []byte(`{"cdiVersion":"0.6.0","kind":"vendor.com/class","devices":[` + strings.Join(devs, ",") + `]}`)
				_ = verdictOf(func() error { return b.ValidateData(primer) })
			}
			obs["fileJson"] = verdictOf(func() error { return b.ValidateFile(filepath.Join(dir, "out.json")) })
			obs["fileYaml"] = verdictOf(func() error { return b.ValidateFile(filepath.Join(dir, "out.yaml")) })
			// the same two texts through the byte entry point
			for _, fn := range []string{"out.json", "out.yaml"} {
				if text, err := os.ReadFile(filepath.Join(dir, fn)); err == nil {
					want := obs["fileJson"]
					if fn == "out.yaml" {
						want = obs["fileYaml"]
					}
					if got := verdictOf(func() error { return b.ValidateData(text) }); got != want {
						if a, _ := obs["aux"].([]any); true {
							obs["aux"] = append(a, fmt.Sprintf("ValidateData on the text of %s gives %s, ValidateFile %v", fn, got, want))
						}
					}
				}
			}
			// installing, using and removing a validator, under a deadline (a leaked lock must not hang the stream)
			doneV := make(chan struct{})
			go func() {
				defer close(doneV)
				cdi.SetSpecValidator(b)
				obs["readWithValidator"] = verdictOf(func() error { _, err := cdi.ReadSpec(filepath.Join(dir, "out.yaml"), 0); return err })
				obs["writeWithValidator"] = verdictOf(func() error { return cache.WriteSpec(s, "again.json") })
				// a Spec object that is refused while incomplete (no devices yet), completed in place and written again:
				// the verdict is that of the completed Spec
				inc := *s
				inc.Devices = nil
				first := verdictOf(func() error { return cache.WriteSpec(&inc, "inplace.json") })
				inc.Devices = s.Devices
				if again := verdictOf(func() error { return cache.WriteSpec(&inc, "inplace.json") }); again != obs["writeWithValidator"] {
					aux = append(aux, fmt.Sprintf("a Spec refused while incomplete (%s) and completed in place is then %s, the same Spec written directly %v", first, again, obs["writeWithValidator"]))
					obs["aux"] = aux
				}
				cdi.SetSpecValidator(nil)
			}()
			select {
			case <-doneV:
			case <-time.After(20 * time.Second):
				obs["typed"] = "panic" // reported by the judge as a crash-class failure: the validator calls never returned
				note("validator install/use/remove did not return within 20 s")
				validatorHung = true
			}
		}
	}
}

func repoRoot() string {
	if r := os.Getenv("VERIF_REPO"); r != "" {
		return r
	}
	return "/repo"
}

var _ = json.Marshal

func init() { childModes["schemafirstuse"] = childSchemaFirstUse }

// childSchemaFirstUse: 32 goroutines released together validate documents the builtin schema must reject, as the
// first thing this process does with the schema package; prints how many validations accepted.
func childSchemaFirstUse(args []string) int {
	docs := [][]byte{
		[]byte(`{"kind":"vendor.com/class","devices":[{"name":"d","containerEdits":{"env":["A=b"]}}]}`),                              // no cdiVersion
		[]byte(`{"cdiVersion":"1.0.0","kind":"vendor.com/class","devices":[{"name":"d","containerEdits":{"env":"A=b"}}]}`),           // env is not a list
		[]byte(`{"cdiVersion":"1.0.0","kind":"vendor.com/class","devices":[{"name":"d","containerEdits":{"additionalGids":[-1]}}]}`), // out of range
		[]byte("cdiVersion: 1.0.0\nkind: vendor.com/class\ndevices: not-a-list\n"),                                                   // devices is not a list
	}
	var accepted int64
	var wg sync.WaitGroup
	start := make(chan struct{})
	for g := 0; g < 32; g++ {
		wg.Add(1)
		go func(g int) {
			defer wg.Done()
			defer func() { _ = recover() }()
			<-start
			if schema.BuiltinSchema().ValidateData(docs[g%len(docs)]) == nil {
				atomic.AddInt64(&accepted, 1)
			}
			if g%2 == 0 && schema.ValidateData(docs[(g+1)%len(docs)]) == nil { // the active schema is the builtin one by default
				atomic.AddInt64(&accepted, 1)
			}
		}(g)
	}
	close(start)
	wg.Wait()
	fmt.Println(accepted)
	return 0
}
