package main

import (
	"tags.cncf.io/container-device-interface/schema"
	"encoding/json"
	"fmt"
	"math/rand"
	"os"
	"os/exec"
	"path/filepath"
	"reflect"
	"sort"
	"strings"
	"syscall"
	"time"

	oci "github.com/opencontainers/runtime-spec/specs-go"
	"sigs.k8s.io/yaml"
	"tags.cncf.io/container-device-interface/pkg/cdi"
	"tags.cncf.io/container-device-interface/pkg/parser"
	specs "tags.cncf.io/container-device-interface/specs-go"
)

// cacheStream — C01 / C13 / C02 / C04: directory populations on a real scratch
// tree, refreshed by a real cache, against the scan/refresh/inject model.
type cacheStream struct{}

func init() {
	register(cacheStream{})
	childModes["cachecase"] = childCacheCase
}

func (cacheStream) Name() string { return "cache" }
func (cacheStream) TrivialTags() []string {
	return []string{"dirs1", "dirs2", "dirs3", "dirs4", "items0", "req0"}
}

// per-process scratch root: concurrent runs of the harness must not share a tree
var cacheRoot = scratchRoot("/tmp/cdi-verif-cache")

var (
	poolVendors = []string{"v1.com", "v2.com"}
	poolClasses = []string{"c1", "c2"}
	poolDevs    = []string{"d0", "d1", "d2"}
)

// fileDesc describes one directory entry of a physical directory.
type fileDesc struct {
	Name string `json:"name"`
	// valid | semantic | garbage | empty | subdir | dangling | linkdir | linkfile | socket | chardev | noperm
	Kind   string   `json:"kind"`
	Vendor string   `json:"vendor,omitempty"`
	Class  string   `json:"class,omitempty"`
	Devs   []string `json:"devs,omitempty"`
	Tag    string   `json:"tag,omitempty"`
	Rich   bool     `json:"rich,omitempty"`
	// bit 0: Spec-level intelRdt; bit 1: intelRdt on the first device; bit 2: device nodes on the last device;
	// bit 3: several hook kinds on the Spec
	Variant int `json:"variant,omitempty"`
}

type layoutDesc struct {
	// permission faults, effective only for an unprivileged reader (cases with "dropuid"):
	// phys dir -> "noread" (cannot be listed) | "nosearch" (entries cannot be examined); files of kind "noperm"
	Perms map[string]string     `json:"perms,omitempty"`
	Phys  map[string][]fileDesc `json:"phys"`
	// configured directories: "p:<phys name>" | "missing" | "enotdir" | "filejson" | "fileplain"
	Dirs []string `json:"dirs"`
}

func templateSpec(f fileDesc) *specs.Spec {
	s := &specs.Spec{Version: specs.CurrentVersion, Kind: f.Vendor + "/" + f.Class}
	if f.Rich {
		s.ContainerEdits = specs.ContainerEdits{
			Env:   []string{"SPEC=" + f.Tag},
			Hooks: []*specs.Hook{{HookName: "prestart", Path: "/bin/spec-" + f.Tag}},
		}
	}
	if f.Variant&1 != 0 {
		// without Rich the Spec-level edits consist of the RDT class (and, for some, supplementary groups) alone
		s.ContainerEdits.IntelRdt = &specs.IntelRdt{ClosID: "spec-" + f.Tag, L3CacheSchema: "L3:0=f"}
		if f.Variant&4 != 0 {
			s.ContainerEdits.AdditionalGIDs = []uint32{uint32(40 + len(f.Tag))}
		}
	}
	if f.Variant&8 != 0 {
		s.ContainerEdits.Hooks = append(s.ContainerEdits.Hooks, &specs.Hook{HookName: "startContainer", Path: "/bin/start-" + f.Tag},
			&specs.Hook{HookName: "poststop", Path: "/bin/stop-" + f.Tag, Args: []string{"stop", f.Tag}})
	}
	for i, d := range f.Devs {
		e := specs.ContainerEdits{Env: []string{"FROM=" + f.Tag, "DEV=" + d}}
		if f.Rich {
			e.Mounts = []*specs.Mount{{HostPath: "/h/" + f.Tag, ContainerPath: "/c/" + d}}
			e.AdditionalGIDs = []uint32{uint32(len(f.Tag) + 1)}
		}
		if f.Variant&8 != 0 && i == 0 {
			e.Hooks = []*specs.Hook{{HookName: "createRuntime", Path: "/bin/dev-" + f.Tag + d, Args: []string{"dev", d}}}
		}
		if f.Variant&2 != 0 && i == 0 {
			e.IntelRdt = &specs.IntelRdt{ClosID: "dev-" + f.Tag + d, MemBwSchema: "MB:0=10", EnableCMT: true}
		}
		if f.Variant&4 != 0 && i == len(f.Devs)-1 {
			e.DeviceNodes = []*specs.DeviceNode{{Path: "/dev/" + f.Tag + "-" + d, Type: "c", Major: int64(len(f.Tag)), Minor: int64(i), Permissions: "rw"}}
		}
		s.Devices = append(s.Devices, specs.Device{Name: d, ContainerEdits: e})
	}
	if f.Kind == "semantic" {
		switch len(f.Tag) % 3 {
		case 0:
			s.Devices = nil
		case 1:
			s.Version = "0.0.9"
		case 2:
			s.Devices[0].ContainerEdits = specs.ContainerEdits{}
		}
	}
	return s
}

// genCleanLayout: valid files only, no two files of one directory with the same kind (no conflicts);
// files of the same name in different directories share their kind (shadowing across directories).
// Used where an error anywhere makes the tool stop (cli stream), so that the success paths are reached.
func genCleanLayout(rng *rand.Rand) layoutDesc {
	l := layoutDesc{Phys: map[string][]fileDesc{}}
	names := []string{"a.json", "b.yaml", "c.json", "d.yaml"}
	kinds := [][2]string{{"v1.com", "c1"}, {"v1.com", "c2"}, {"v2.com", "c1"}, {"v2.com", "c2"}}
	tag := 0
	for _, p := range []string{"A", "B", "C"} {
		var files []fileDesc
		for i, name := range names {
			if rng.Intn(2) == 0 {
				continue
			}
			tag++
			f := fileDesc{Name: name, Kind: "valid", Tag: fmt.Sprintf("%s%d", p, tag), Vendor: kinds[i][0], Class: kinds[i][1],
				Rich: rng.Intn(2) == 0, Variant: rng.Intn(16)}
			for _, d := range poolDevs {
				if rng.Intn(2) == 0 {
					f.Devs = append(f.Devs, d)
				}
			}
			if len(f.Devs) == 0 {
				f.Devs = []string{"d0"}
			}
			files = append(files, f)
		}
		l.Phys[p] = files
	}
	perm := rng.Perm(3)
	for i := 0; i <= rng.Intn(3); i++ {
		l.Dirs = append(l.Dirs, "p:"+[]string{"A", "B", "C"}[perm[i]])
	}
	return l
}

func genLayout(rng *rand.Rand) layoutDesc {
	l := layoutDesc{Phys: map[string][]fileDesc{}}
	names := []string{"a.json", "b.yaml", "c.json", "d.yaml", "e.txt", "noext", "sub", "g.json", "h.yaml", "f.JSON"}
	tag := 0
	for _, p := range []string{"A", "B", "C"} {
		n := rng.Intn(5)
		perm := rng.Perm(len(names))
		var files []fileDesc
		for i := 0; i < n; i++ {
			name := names[perm[i]]
			tag++
			f := fileDesc{Name: name, Tag: fmt.Sprintf("%s%d", p, tag),
				Vendor: poolVendors[rng.Intn(len(poolVendors))], Class: poolClasses[rng.Intn(len(poolClasses))], Rich: rng.Intn(2) == 0}
			// many files define d0 so that shadowing and conflicts are frequent; some define only the others,
			// so that one request can take devices of one kind from several files
			f.Devs = []string{"d0"}
			if rng.Intn(4) == 0 {
				f.Devs = nil
			}
			for _, d := range poolDevs[1:] {
				if rng.Intn(3) == 0 || (f.Devs == nil && d == poolDevs[len(poolDevs)-1]) {
					f.Devs = append(f.Devs, d)
				}
			}
			f.Variant = rng.Intn(16)
			if rng.Intn(4) == 0 {
				f.Vendor, f.Class = "v1.com", "c1"
			}
			switch {
			case name == "sub":
				f.Kind = "subdir"
			default:
				switch rng.Intn(14) {
				case 12:
					f.Kind = "socket" // a unix socket under a Spec name: cannot be opened
				case 13:
					f.Kind = "chardev" // a character device (1,3) under a Spec name: reads as empty
				case 0:
					f.Kind = "semantic"
				case 1:
					f.Kind = "garbage"
				case 2:
					f.Kind = "empty"
				case 3:
					f.Kind = "dangling"
				case 4:
					f.Kind = "linkdir"
				case 5:
					f.Kind = "linkfile"
				default:
					f.Kind = "valid"
				}
			}
			files = append(files, f)
		}
		l.Phys[p] = files
	}
	nd := 1 + rng.Intn(4)
	if rng.Intn(25) == 0 {
		nd = 0 // an explicitly empty directory list
	}
	for i := 0; i < nd; i++ {
		switch r := rng.Intn(14); {
		case r < 9:
			l.Dirs = append(l.Dirs, "p:"+[]string{"A", "B", "C"}[rng.Intn(3)])
		case r < 11:
			l.Dirs = append(l.Dirs, "missing")
		case r == 11:
			l.Dirs = append(l.Dirs, "enotdir")
		case r == 12:
			l.Dirs = append(l.Dirs, "filejson")
		default:
			l.Dirs = append(l.Dirs, "fileplain")
		}
	}
	return l
}

func (cacheStream) Generate(rng *rand.Rand, tier string, emit func(Case)) {
	n := 250
	if tier == "thorough" {
		n = 6000
	}
	// fixed layouts: k files of one directory define the same device (k = 2..5), alone, above and below
	// a directory with a single definition
	var fixed []layoutDesc
	names := []string{"a.json", "b.yaml", "c.json", "d.yaml", "g.json"}
	for k := 2; k <= 5; k++ {
		var files []fileDesc
		for i := 0; i < k; i++ {
			files = append(files, fileDesc{Name: names[i], Kind: "valid", Vendor: "v1.com", Class: "c1", Devs: []string{"d0"}, Tag: fmt.Sprintf("K%d", i), Rich: i%2 == 0})
		}
		single := []fileDesc{{Name: "h.yaml", Kind: "valid", Vendor: "v1.com", Class: "c1", Devs: []string{"d0", "d1"}, Tag: "S", Rich: true}}
		fixed = append(fixed,
			layoutDesc{Phys: map[string][]fileDesc{"A": files}, Dirs: []string{"p:A"}},
			layoutDesc{Phys: map[string][]fileDesc{"A": files, "B": single}, Dirs: []string{"p:B", "p:A"}},
			layoutDesc{Phys: map[string][]fileDesc{"A": files, "B": single}, Dirs: []string{"p:A", "p:B"}},
			layoutDesc{Phys: map[string][]fileDesc{"A": files, "B": single}, Dirs: []string{"p:A", "p:B", "p:A"}})
	}
	fixed = append(fixed, layoutDesc{Phys: map[string][]fileDesc{}, Dirs: nil})
	for i := 0; i < n+len(fixed); i++ {
		var l layoutDesc
		if i < len(fixed) {
			l = fixed[i]
		} else {
			l = genLayout(rng)
		}
		lj, _ := json.Marshal(l)
		var lm map[string]any
		_ = json.Unmarshal(lj, &lm)
		emit(Case{"op": "refresh", "layout": lm, "auto": false})
		if i%6 == 1 {
			// the same layout with permission faults, scanned by an unprivileged process
			pl := l
			pl.Perms = map[string]string{}
			pl.Phys = map[string][]fileDesc{}
			for p, files := range l.Phys {
				fs := append([]fileDesc{}, files...)
				for k := range fs {
					if fs[k].Kind == "valid" && rng.Intn(4) == 0 {
						fs[k].Kind = "noperm"
					}
				}
				pl.Phys[p] = fs
				switch rng.Intn(4) {
				case 0:
					pl.Perms[p] = "noread"
				case 1:
					pl.Perms[p] = "nosearch"
				}
			}
			pj, _ := json.Marshal(pl)
			var pm map[string]any
			_ = json.Unmarshal(pj, &pm)
			emit(Case{"op": "refresh", "layout": pm, "auto": false, "dropuid": true, "nospawn": true})
			// a directory that cannot be listed when the (auto-refresh) cache is created becomes listable again:
			// no event announces that, the cache has to try again by itself at the next query
			rl := l
			rl.Perms = map[string]string{}
			for p := range l.Phys {
				if rng.Intn(2) == 0 {
					rl.Perms[p] = "noread"
				}
			}
			rj, _ := json.Marshal(rl)
			var rm map[string]any
			_ = json.Unmarshal(rj, &rm)
			emit(Case{"op": "permrestore", "layout": rm, "auto": true, "dropuid": true, "nospawn": true})
		}
		if i%3 == 2 {
			// a history on one cache: an earlier population of the same directories is scanned first; then files are
			// rewritten in place - same path, where possible the same size and the same modification time (cp -p,
			// rsync -t, reproducible packages) -, repaired, broken, added and removed; then the cache is refreshed
			pre := l
			pre.Phys = map[string][]fileDesc{}
			for p, files := range l.Phys {
				var fs []fileDesc
				for _, f := range files {
					g := f
					switch rng.Intn(8) {
					case 0, 1: // other content of the same length
						if len(g.Tag) > 0 {
							g.Tag = string(rune('p'+rng.Intn(8))) + g.Tag[1:]
						}
					case 2: // was broken, is repaired / was fine, is broken
						switch g.Kind {
						case "valid":
							g.Kind = "garbage"
						case "garbage", "empty", "semantic":
							g.Kind = "valid"
						}
					case 3: // defined other devices
						g.Devs = []string{poolDevs[rng.Intn(3)]}
					case 4: // did not exist
						continue
					}
					fs = append(fs, g)
				}
				if rng.Intn(4) == 0 { // a file that is gone afterwards
					fs = append(fs, fileDesc{Name: "zz-old.json", Kind: "valid", Vendor: poolVendors[rng.Intn(2)], Class: poolClasses[rng.Intn(2)], Devs: []string{poolDevs[rng.Intn(3)]}, Tag: "OLD"})
				}
				pre.Phys[p] = fs
			}
			pj, _ := json.Marshal(pre)
			var pm map[string]any
			_ = json.Unmarshal(pj, &pm)
			emit(Case{"op": "refresh", "layout": lm, "prelayout": pm, "auto": false, "nospawn": true})
		}
		if i%4 == 1 && len(l.Dirs) > 1 {
			// the cache first has the same directories in another order (or one of them twice), then is given the list
			emit(Case{"op": "refresh", "layout": lm, "auto": i%8 == 1, "predirs": []string{"reverse", "rotate", "dup"}[rng.Intn(3)], "nospawn": true})
		}
		if i%6 == 4 {
			// an auto-refresh cache whose every listing has been asked for once; then one more Spec file, of a vendor
			// and a class nobody else has, appears in a configured directory; the listings follow by themselves
			for _, d := range l.Dirs {
				if len(d) > 2 && d[:2] == "p:" && l.Perms[d[2:]] == "" {
					ll := l
					ll.Phys = map[string][]fileDesc{}
					for p, fs := range l.Phys {
						ll.Phys[p] = append([]fileDesc{}, fs...)
					}
					ll.Phys[d[2:]] = append(ll.Phys[d[2:]], fileDesc{Name: "zz-late.json", Kind: "valid", Vendor: "late.com", Class: "latecls", Devs: []string{"d0"}, Tag: "LATE"})
					jj, _ := json.Marshal(ll)
					var mm map[string]any
					_ = json.Unmarshal(jj, &mm)
					emit(Case{"op": "refresh", "layout": mm, "auto": true, "lateadd": "p:" + d[2:], "nospawn": true})
					break
				}
			}
		}
		if i%7 == 2 {
			// the builtin schema is installed as Spec validator (as the cdi tool does) and the first file scanned is one
			// the library's own checks accept and the schema refuses: it is a file in error, and only it
			for _, d := range l.Dirs {
				if strings.HasPrefix(d, "p:") {
					ll := l
					ll.Phys = map[string][]fileDesc{}
					for p, fs := range l.Phys {
						ll.Phys[p] = append([]fileDesc{}, fs...)
					}
					ll.Phys[d[2:]] = append(ll.Phys[d[2:]], fileDesc{Name: "00-schema-only.json", Kind: "schemaonly", Vendor: "v2.com", Class: "c2", Devs: []string{"d2"}, Tag: "SO"})
					jj, _ := json.Marshal(ll)
					var mm map[string]any
					_ = json.Unmarshal(jj, &mm)
					emit(Case{"op": "refresh", "layout": mm, "auto": false, "validator": true, "nospawn": true})
					break
				}
			}
		}
		if i%6 == 1 {
			// an auto-refresh cache whose directories are removed altogether (rm -rf), which the cache notices, and then
			// come back with the same content (a package reinstalled, a tmpfs remounted): after a refresh the cache shows
			// what is there
			emit(Case{"op": "refresh", "layout": lm, "auto": true, "rmdirs": true, "nospawn": true})
		}
		if i%5 == 0 {
			// the same through an auto-refresh cache (explicit Refresh on an up-to-date cache reports the cached errors)
			emit(Case{"op": "refresh", "layout": lm, "auto": true, "nospawn": true})
		}
		// two injections on the same layout
		for k := 0; k < 2; k++ {
			var req []string
			for m := rng.Intn(5); m > 0; m-- {
				switch rng.Intn(8) {
				case 0:
					req = append(req, "unknown.com/c=x")
				case 1:
					req = append(req, []string{"not a device", "", " ", ",", "=", "/", "a/b=", "\x00"}[rng.Intn(8)])
				default:
					req = append(req, poolVendors[rng.Intn(2)]+"/"+poolClasses[rng.Intn(2)]+"="+poolDevs[rng.Intn(3)])
				}
			}
			emit(Case{"op": "inject", "layout": lm, "req": hxList(req), "niloci": rng.Intn(15) == 0, "ocikind": rng.Intn(3)})
			if i%7 == 3 && k == 0 {
				// a long request: 9-14 names, most of them unresolvable (unknown, malformed, repeated), some from the pool
				var long []string
				for m := 9 + rng.Intn(6); m > 0; m-- {
					switch rng.Intn(5) {
					case 0:
						long = append(long, poolVendors[rng.Intn(2)]+"/"+poolClasses[rng.Intn(2)]+"="+poolDevs[rng.Intn(3)])
					case 1:
						long = append(long, "not a device")
					case 2:
						long = append(long, fmt.Sprintf("unknown.com/c=x%d", rng.Intn(3)))
					default:
						long = append(long, fmt.Sprintf("unknown%d.org/k=d%d", m, rng.Intn(20)))
					}
				}
				emit(Case{"op": "inject", "layout": lm, "req": hxList(long), "niloci": false, "ocikind": rng.Intn(3)})
			}
			if i%4 == 2 && k == 0 && len(l.Dirs) > 1 {
				// the same request on a cache that first had the directories in another order
				emit(Case{"op": "inject", "layout": lm, "req": hxList(req), "niloci": false, "ocikind": rng.Intn(3), "predirs": []string{"reverse", "rotate", "dup"}[rng.Intn(3)], "auto": rng.Intn(2) == 0})
			}
			if i%4 == 0 && k == 0 {
				// the same request on an auto-refresh cache that was created before the directories existed: the
				// injection itself has to notice them and refresh
				emit(Case{"op": "inject", "layout": lm, "req": hxList(req), "niloci": false, "ocikind": rng.Intn(3), "latedirs": true})
			}
		}
	}
}

func writeSpecFile(path string, s *specs.Spec) {
	var data []byte
	if filepath.Ext(path) == ".json" {
		data, _ = json.Marshal(s)
	} else {
		data, _ = yaml.Marshal(s)
	}
	_ = os.WriteFile(path, data, 0o644)
}

// materialize builds the tree and returns the configured directories and the model's view of them.
func materialize(l layoutDesc) (dirs []string, view []any) {
	_ = os.RemoveAll(cacheRoot)
	_ = os.MkdirAll(filepath.Join(cacheRoot, "outside"), 0o755)
	physPath := func(p string) string { return filepath.Join(cacheRoot, "phys", p) }
	entryViews := map[string][]any{}
	for p, files := range l.Phys {
		dir := physPath(p)
		_ = os.MkdirAll(dir, 0o755)
		sort.Slice(files, func(i, j int) bool { return files[i].Name < files[j].Name })
		var evs []any
		for _, f := range files {
			path := filepath.Join(dir, f.Name)
			ev := map[string]any{"name": hx(f.Name), "kind": "file", "spec": nil}
			switch f.Kind {
			case "valid", "semantic":
				s := templateSpec(f)
				writeSpecFile(path, s)
				ev["spec"] = specToProto(s)
			case "schemaonly":
				// valid for the library, invalid for the builtin schema (cli stream only, where the validator is installed)
				g := f
				g.Kind = "valid"
				sp := templateSpec(g)
				// (in a device: the schema files say nothing about the Spec-level containerEdits)
				sp.Devices[0].ContainerEdits.Hooks = append(sp.Devices[0].ContainerEdits.Hooks, &specs.Hook{HookName: "poststop", Path: "/bin/t", Timeout: intp(-1)})
				writeSpecFile(path, sp)
			case "noperm":
				g := f
				g.Kind = "valid"
				writeSpecFile(path, templateSpec(g))
				_ = os.Chmod(path, 0o000)
			case "garbage":
				_ = os.WriteFile(path, []byte("{ this is : not [ a spec"), 0o644)
			case "empty":
				_ = os.WriteFile(path, nil, 0o644)
			case "socket", "chardev":
				mode, dev := uint32(syscall.S_IFSOCK|0o644), 0
				if f.Kind == "chardev" {
					mode, dev = uint32(syscall.S_IFCHR|0o644), 1<<8|3
				}
				if err := syscall.Mknod(path, mode, dev); err != nil {
					_ = os.WriteFile(path, nil, 0o644) // not permitted here: an empty regular file fails to load as well
				}
			case "subdir":
				_ = os.MkdirAll(path, 0o755)
				g := f
				g.Kind = "valid"
				writeSpecFile(filepath.Join(path, "inner.json"), templateSpec(g))
				ev["kind"] = "subdir"
			case "dangling":
				_ = os.Symlink(filepath.Join(cacheRoot, "outside", "nothing-"+f.Tag), path)
			case "linkdir":
				_ = os.Symlink(filepath.Join(cacheRoot, "outside"), path)
			case "linkfile":
				g := f
				g.Kind = "valid"
				s := templateSpec(g)
				target := filepath.Join(cacheRoot, "outside", "target-"+f.Tag+filepath.Ext(f.Name))
				if filepath.Ext(target) != ".json" {
					target += ".yaml"
				}
				writeSpecFile(target, s)
				_ = os.Symlink(target, path)
				ev["spec"] = specToProto(s)
			}
			evs = append(evs, ev)
		}
		entryViews[p] = evs
	}
	for i, d := range l.Dirs {
		switch {
		case len(d) > 2 && d[:2] == "p:":
			path := physPath(d[2:])
			evs := entryViews[d[2:]]
			if evs == nil {
				evs = []any{}
			}
			dirs = append(dirs, path)
			switch l.Perms[d[2:]] {
			case "noread":
				_ = os.Chmod(path, 0o311)
				view = append(view, map[string]any{"path": hx(path), "state": "unreadable"})
			case "nosearch":
				_ = os.Chmod(path, 0o444)
				var blind []any
				for _, e := range evs {
					m := e.(map[string]any)
					blind = append(blind, map[string]any{"name": m["name"], "kind": "lstaterror"})
				}
				if blind == nil {
					blind = []any{}
				}
				view = append(view, map[string]any{"path": hx(path), "state": "dir", "entries": blind})
			default:
				view = append(view, map[string]any{"path": hx(path), "state": "dir", "entries": evs})
			}
		case d == "missing":
			path := filepath.Join(cacheRoot, fmt.Sprintf("missing%d", i))
			dirs = append(dirs, path)
			view = append(view, map[string]any{"path": hx(path), "state": "missing"})
		case d == "enotdir":
			f := filepath.Join(cacheRoot, "plainfile")
			_ = os.WriteFile(f, []byte("x"), 0o644)
			path := filepath.Join(f, "sub")
			dirs = append(dirs, path)
			view = append(view, map[string]any{"path": hx(path), "state": "unscannable"})
		case d == "filejson", d == "fileplain":
			name := "asfile.json"
			if d == "fileplain" {
				name = "asfile.conf"
			}
			path := filepath.Join(cacheRoot, name)
			s := templateSpec(fileDesc{Kind: "valid", Vendor: "v1.com", Class: "c1", Devs: []string{"d0", "d2"}, Tag: "F" + name})
			writeSpecFile(path, s)
			dirs = append(dirs, path)
			view = append(view, map[string]any{"path": hx(path), "state": "notdir", "spec": specToProto(s)})
		}
	}
	return
}

func poolNames() []string {
	var out []string
	for _, v := range poolVendors {
		for _, c := range poolClasses {
			for _, d := range poolDevs {
				out = append(out, v+"/"+c+"="+d)
			}
		}
	}
	return append(out, "unknown.com/c=x", "not a device")
}

func jsonImage(v any) string {
	b, _ := json.Marshal(v)
	return string(b)
}

// childCacheCase: runs one cache case on an already materialized tree (as whatever user the parent chose)
func childCacheCase(args []string) int {
	var c Case
	if err := json.Unmarshal([]byte(args[0]), &c); err != nil {
		return 2
	}
	cacheStream{}.Execute(c)
	b, _ := json.Marshal(c["obs"])
	fmt.Println(string(b))
	return 0
}

func (cacheStream) Execute(c Case) {
	obs := map[string]any{"panic": false}
	c["obs"] = obs
	var dirs []string
	if pre, ok := c["prebuiltdirs"].([]any); ok {
		for _, d := range pre {
			dirs = append(dirs, d.(string))
		}
	} else {
		defer os.RemoveAll(cacheRoot)
		var l layoutDesc
		lj, _ := json.Marshal(c["layout"])
		_ = json.Unmarshal(lj, &l)
		var view []any
		var restore []any
		if c["op"] == "permrestore" {
			// the model's view is the tree without the faults; the faults are applied afterwards and undone by the child
			faults := l.Perms
			l.Perms = nil
			dirs, view = materialize(l)
			configured := map[string]bool{}
			for _, d := range dirs {
				configured[d] = true
			}
			for p := range l.Phys {
				path := filepath.Join(cacheRoot, "phys", p)
				if !configured[path] {
					continue
				}
				_ = os.Chown(path, 65534, 65534) // the unprivileged child changes modes and writes the trigger file
				if faults[p] == "noread" {
					restore = append(restore, path)
				} else if c["trigger"] == nil {
					c["trigger"] = path
				}
			}
		} else if c["prelayout"] != nil {
			var pre layoutDesc
			pj, _ := json.Marshal(c["prelayout"])
			_ = json.Unmarshal(pj, &pre)
			predirs, _ := materialize(pre)
			type st struct {
				size  int64
				mtime time.Time
			}
			old := map[string]st{}
			_ = filepath.Walk(cacheRoot, func(p string, info os.FileInfo, err error) error {
				if err == nil && info.Mode().IsRegular() {
					old[p] = st{info.Size(), info.ModTime()}
				}
				return nil
			})
			historyCache, _ = cdi.NewCache(cdi.WithSpecDirs(predirs...), cdi.WithAutoRefresh(false))
			_ = historyCache.Refresh()
			_ = historyCache.ListDevices()
			dirs, view = materialize(l)
			_ = filepath.Walk(cacheRoot, func(p string, info os.FileInfo, err error) error {
				o, was := old[p]
				if err != nil || !info.Mode().IsRegular() || !was {
					return nil
				}
				if info.Size() < o.size {
					if f, err := os.OpenFile(p, os.O_APPEND|os.O_WRONLY, 0); err == nil {
						_, _ = f.Write([]byte(strings.Repeat("\n", int(o.size-info.Size()))))
						_ = f.Close()
					}
				}
				_ = os.Chtimes(p, o.mtime, o.mtime)
				return nil
			})
		} else {
			dirs, view = materialize(l)
		}
		if view == nil {
			view = []any{} // an empty directory list
		}
		c["dirs"] = view
		if drop, _ := c["dropuid"].(bool); drop {
			// the scan runs in a child process without privileges, so that permission bits bite
			for _, k := range []string{"devices", "vendors", "classes", "errorkeys", "resolve", "vendorspecs", "specdirs"} {
				obs[k] = []any{}
			}
			obs["refresherr"] = false
			if os.Geteuid() != 0 {
				skip("not root: cannot drop privileges for permission-fault cases")
				c["dirs"] = []any{}
				return
			}
			self, _ := os.Executable()
			child := Case{"op": "refresh", "auto": c["auto"], "nospawn": true, "prebuiltdirs": strs2any(dirs), "restore": restore, "trigger": c["trigger"]}
			cj, _ := json.Marshal(child)
			cmd := exec.Command(self, "child", "cachecase", string(cj))
			cmd.SysProcAttr = &syscall.SysProcAttr{Credential: &syscall.Credential{Uid: 65534, Gid: 65534}}
			out, err := cmd.Output()
			var co map[string]any
			if _, exited := err.(*exec.ExitError); err != nil && !exited {
				// the child could not be started at all (e.g. this binary lies below a directory the
				// unprivileged user cannot traverse): no observation, not a crash of the library
				skip("cannot start the unprivileged child: " + err.Error())
				c["dirs"] = []any{}
				return
			}
			if err != nil || json.Unmarshal(out, &co) != nil {
				obs["panic"] = true
				return
			}
			for k, v := range co {
				obs[k] = v
			}
			return
		}
	}
	defer func() {
		if r := recover(); r != nil {
			obs["panic"] = true
			for _, k := range []string{"devices", "vendors", "classes", "errorkeys", "resolve", "vendorspecs", "unresolved", "specdirs"} {
				if _, ok := obs[k]; !ok {
					obs[k] = []any{}
				}
			}
			for _, k := range []string{"refresherr", "err", "ocichanged", "matchesapply"} {
				if _, ok := obs[k]; !ok {
					obs[k] = false
				}
			}
		}
	}()
	auto, _ := c["auto"].(bool)
	if v, _ := c["validator"].(bool); v {
		if sch, err := schema.Load("builtin"); err == nil {
			cdi.SetSpecValidator(schema.WithSchema(sch))
			defer cdi.SetSpecValidator(nil)
		}
	}
	// a file of the layout that only appears once the cache exists and has been queried
	var lateData []byte
	latePath := ""
	if la, _ := c["lateadd"].(string); len(la) > 2 {
		latePath = filepath.Join(cacheRoot, "phys", la[2:], "zz-late.json")
		if data, err := os.ReadFile(latePath); err == nil {
			lateData = data
			_ = os.Remove(latePath)
		}
	}
	var cache *cdi.Cache
	if late, _ := c["latedirs"].(bool); late {
		// hide the tree while the cache is created, then bring it back
		hidden := cacheRoot + ".hidden"
		_ = os.RemoveAll(hidden)
		_ = os.Rename(cacheRoot, hidden)
		cache, _ = cdi.NewCache(cdi.WithSpecDirs(dirs...), cdi.WithAutoRefresh(true))
		_ = os.Rename(hidden, cacheRoot)
		defer func() { _ = cache.Configure(cdi.WithAutoRefresh(false)) }()
		c["op"] = "inject"
	} else if historyCache != nil {
		cache, historyCache = historyCache, nil // same directories, scanned before the files changed
	} else if pd, _ := c["predirs"].(string); pd != "" && len(dirs) > 1 {
		pre := append([]string{}, dirs...)
		switch pd {
		case "reverse":
			for a, b := 0, len(pre)-1; a < b; a, b = a+1, b-1 {
				pre[a], pre[b] = pre[b], pre[a]
			}
		case "rotate":
			pre = append(pre[1:], pre[0])
		case "dup":
			pre = append(pre, pre[0])
		}
		cache, _ = cdi.NewCache(cdi.WithSpecDirs(pre...), cdi.WithAutoRefresh(auto))
		_ = cache.ListDevices()
		_ = cache.Configure(cdi.WithSpecDirs(dirs...))
	} else if nw, _ := c["nowatch"].(bool); nw {
		withFdShortage(func() { cache, _ = cdi.NewCache(cdi.WithSpecDirs(dirs...), cdi.WithAutoRefresh(true)) })
		defer func() { _ = cache.Configure(cdi.WithAutoRefresh(false)) }()
	} else {
		cache, _ = cdi.NewCache(cdi.WithSpecDirs(dirs...), cdi.WithAutoRefresh(auto))
	}
	if auto {
		defer func() { _ = cache.Configure(cdi.WithAutoRefresh(false)) }()
	}
	if lateData != nil && cache != nil {
		_, _, _, _ = cache.ListDevices(), cache.ListVendors(), cache.ListClasses(), cache.GetVendorSpecs("late.com")
		time.Sleep(20 * time.Millisecond)
		_ = os.WriteFile(latePath, lateData, 0o644)
		for deadline := time.Now().Add(4 * time.Second); time.Now().Before(deadline) && cache.GetDevice("late.com/latecls=d0") == nil; time.Sleep(10 * time.Millisecond) {
		}
	}
	if rm, _ := c["rmdirs"].(bool); rm && cache != nil {
		_ = cache.ListDevices()
		phys, bak := filepath.Join(cacheRoot, "phys"), cacheRoot+".bak"
		_ = os.RemoveAll(bak)
		if exec.Command("cp", "-a", phys, bak).Run() == nil {
			if ents, err := os.ReadDir(phys); err == nil {
				for _, e := range ents {
					_ = os.RemoveAll(filepath.Join(phys, e.Name()))
				}
			}
			for k := 0; k < 8; k++ { // the removal is noticed (events, and queries that find the watches gone)
				_ = cache.ListDevices()
				time.Sleep(15 * time.Millisecond)
			}
			_ = exec.Command("cp", "-a", bak+"/.", phys+"/").Run()
			_ = os.RemoveAll(bak)
			fresh, _ := cdi.NewCache(cdi.WithSpecDirs(dirs...), cdi.WithAutoRefresh(false))
			want := strings.Join(fresh.ListDevices(), ",")
			for deadline := time.Now().Add(4 * time.Second); time.Now().Before(deadline) && strings.Join(cache.ListDevices(), ",") != want; time.Sleep(20 * time.Millisecond) {
			}
		}
	}
	if rs, ok := c["restore"].([]any); ok && len(rs) > 0 {
		// watched directories lose their read permission; a refresh happens meanwhile (triggered by a change in
		// another watched directory); the permission comes back — which no event announces
		_ = cache.ListDevices()
		for _, p := range rs {
			_ = os.Chmod(p.(string), 0o311)
		}
		if trig, _ := c["trigger"].(string); trig != "" {
			probe := filepath.Join(trig, "zz-probe.json")
			_ = os.WriteFile(probe, []byte(`{"cdiVersion":"0.6.0","kind":"probe.com/x","devices":[{"name":"p","containerEdits":{"env":["P=1"]}}]}`), 0o644)
			for deadline := time.Now().Add(3 * time.Second); time.Now().Before(deadline); time.Sleep(20 * time.Millisecond) {
				errs, all := cache.GetErrors(), true
				for _, p := range rs {
					if _, ok := errs[p.(string)]; !ok {
						all = false
					}
				}
				if all {
					break
				}
			}
			_ = os.Remove(probe)
			time.Sleep(150 * time.Millisecond)
		}
		for _, p := range rs {
			_ = os.Chmod(p.(string), 0o755)
		}
	}
	var rerr error
	if late, _ := c["latedirs"].(bool); !late {
		if nw, _ := c["nowatch"].(bool); !nw {
			rerr = cache.Refresh()
		}
	}
	switch c["op"] {
	case "refresh":
		obs["refresherr"] = rerr != nil
		obs["devices"] = hxList(cache.ListDevices())
		obs["vendors"] = hxList(cache.ListVendors())
		obs["specdirs"] = hxList(cache.GetSpecDirectories())
		obs["classes"] = hxList(cache.ListClasses())
		var keys []string
		monitoring := cache.GetSpecDirErrors() // directory-monitoring errors of auto-refresh mode are not file errors
		for k := range cache.GetErrors() {
			if _, ok := monitoring[k]; ok && auto {
				continue
			}
			keys = append(keys, k)
		}
		sort.Strings(keys)
		obs["errorkeys"] = hxList(keys)
		var res []any
		for _, q := range poolNames() {
			d := cache.GetDevice(q)
			if d == nil {
				res = append(res, map[string]any{"q": hx(q), "found": false})
				continue
			}
			dev := d.Device
			res = append(res, map[string]any{"q": hx(q), "found": true, "path": hx(d.GetSpec().GetPath()), "prio": d.GetSpec().GetPriority(),
				"device": map[string]any{"name": hx(dev.Name), "annotations": mapToProto(dev.Annotations), "containerEdits": editsToProto(&dev.ContainerEdits)}})
		}
		obs["resolve"] = res
		var vs []any
		for _, v := range append(append([]string{}, poolVendors...), "nobody.org") {
			var paths []string
			for _, s := range cache.GetVendorSpecs(v) {
				paths = append(paths, s.GetPath())
			}
			vs = append(vs, map[string]any{"vendor": hx(v), "paths": hxList(paths)})
		}
		obs["vendorspecs"] = vs
		// redundant entry points: GetSpecErrors, Spec.GetDevice/GetVendor/GetClass, Device.GetSpec/GetQualifiedName
		// must agree with the primary ones observed above (the model states them as equal; see Main.lean `withAux`)
		obs["aux"] = cacheAux(cache, auto)
		// derived cases: injections that resolve — every listed device in listing order; reversed with a
		// repetition; a random selection (the random requests of the generator mostly hit an unknown name)
		if devs := cache.ListDevices(); len(devs) > 0 && c["nospawn"] == nil {
			rev := make([]string, 0, len(devs)+1)
			for i := len(devs) - 1; i >= 0; i-- {
				rev = append(rev, devs[i])
			}
			rev = append(rev, devs[len(devs)/2])
			var sel []string
			h := 0
			for _, d := range devs {
				h = h*31 + len(d) + int(d[len(d)-1])
			}
			for i, d := range devs {
				if (h>>uint(i%16))&1 == 0 {
					sel = append(sel, d)
				}
			}
			var spawned []Case
			for k, req := range [][]string{devs, rev, sel} {
				if len(req) == 0 {
					continue
				}
				sp := Case{"stream": "cache", "op": "inject", "layout": c["layout"], "req": hxList(req), "niloci": false, "ocikind": k}
				cacheStream{}.Execute(sp)
				spawned = append(spawned, sp)
			}
			// every listed device and exactly one name that cannot resolve, of the least conspicuous kinds (the empty
			// name - the last element of strings.Split("a,", ",") -, a blank), first / last in the request
			if len(devs) > 0 {
				for k, miss := range []string{"", " "} {
					req := append(append([]string{}, devs...), miss)
					if k == 1 {
						req = append([]string{miss}, devs...)
					}
					sp := Case{"stream": "cache", "op": "inject", "layout": c["layout"], "req": hxList(req), "niloci": false, "ocikind": k + 1}
					cacheStream{}.Execute(sp)
					spawned = append(spawned, sp)
				}
			}
			// every listed device on a cache that first had the directories reversed
			if dl, _ := c["layout"].(map[string]any); dl != nil && len(devs) > 0 {
				sp := Case{"stream": "cache", "op": "inject", "layout": c["layout"], "req": hxList(devs), "niloci": false, "ocikind": 2, "predirs": "reverse"}
				cacheStream{}.Execute(sp)
				spawned = append(spawned, sp)
			}
			// every listed device through an auto-refresh cache that was created while no descriptor was free (no
			// watcher: every query rescans, also in the middle of whatever a caller is doing)
			if len(devs) > 1 {
				sp := Case{"stream": "cache", "op": "inject", "layout": c["layout"], "req": hxList(devs), "niloci": false, "ocikind": 1, "nowatch": true}
				cacheStream{}.Execute(sp)
				spawned = append(spawned, sp)
			}
			c["spawn"] = spawned
		}
	case "inject":
		req := unhxList(c["req"])
		nilOci, _ := c["niloci"].(bool)
		mk := func() *oci.Spec {
			s := &oci.Spec{Version: "1.0.2"}
			kind := 0
			switch k := c["ocikind"].(type) {
			case int:
				kind = k
			case float64:
				kind = int(k)
			case json.Number:
				i, _ := k.Int64()
				kind = int(i)
			}
			if kind >= 1 {
				s.Process = &oci.Process{Env: []string{"PATH=/bin", "FROM=orig"}}
				s.Mounts = []oci.Mount{{Destination: "/proc", Type: "proc", Source: "proc"}, {Destination: "/c/d0", Source: "/old"}}
			}
			if kind == 2 {
				s.Hooks = &oci.Hooks{Prestart: []oci.Hook{{Path: "/bin/existing"}}}
				s.Linux = &oci.Linux{}
				s.Process.User.AdditionalGids = []uint32{2}
			}
			return s
		}
		var target *oci.Spec
		if !nilOci {
			target = mk()
		}
		before := jsonImage(target)
		unres, err := cache.InjectDevices(target, req...)
		obs["unresolved"] = hxList(unres)
		obs["err"] = err != nil
		obs["ocichanged"] = jsonImage(target) != before
		// combined edits rebuilt by the harness from the query API, applied with the real Apply
		combined := &cdi.ContainerEdits{}
		seen := map[string]bool{} // by file, not by object: a cache without a watcher builds new objects at every query
		resolvedAll := true
		for _, q := range req {
			d := cache.GetDevice(q)
			if d == nil {
				resolvedAll = false
				continue
			}
			if key := fmt.Sprint(d.GetSpec().GetPriority(), d.GetSpec().GetPath()); !seen[key] {
				seen[key] = true
				combined.Append(&cdi.ContainerEdits{ContainerEdits: &d.GetSpec().ContainerEdits})
			}
			combined.Append(&cdi.ContainerEdits{ContainerEdits: &d.ContainerEdits})
		}
		obs["combined"] = editsToProto(combined.ContainerEdits)
		if combined.ContainerEdits == nil {
			obs["combined"] = editsToProto(&specs.ContainerEdits{})
		}
		obs["matchesapply"] = false
		if !nilOci && resolvedAll {
			ref := mk()
			aerr := combined.Apply(ref)
			obs["matchesapply"] = aerr == nil && reflect.DeepEqual(ref, target) && jsonImage(ref) == jsonImage(target)
		}
		// the same request again on the same cache, then a request that fails half-way (a resolvable prefix followed
		// by an unknown name), then the same request once more: an injection is a function of the directories, the
		// request and the OCI spec - nothing may be carried over from one call to the next
		aux := []any{}
		if !nilOci {
			first := fmt.Sprint(unres, err != nil, jsonImage(target))
			again := func(label string) {
				t := mk()
				u, e := cache.InjectDevices(t, req...)
				if got := fmt.Sprint(u, e != nil, jsonImage(t)); got != first {
					aux = append(aux, fmt.Sprintf("InjectDevices is not repeatable on one cache (%s): unresolved %q -> %q, error %v -> %v, OCI spec equal: %v",
						label, unres, u, err != nil, e != nil, jsonImage(t) == jsonImage(target)))
				}
			}
			again("same request twice")
			mixed := append(append([]string{}, req...), "unknown.com/c=carry-over")
			tm := mk()
			bm := jsonImage(tm)
			um, em := cache.InjectDevices(tm, mixed...)
			if em == nil || len(um) == 0 || um[len(um)-1] != "unknown.com/c=carry-over" || jsonImage(tm) != bm {
				aux = append(aux, fmt.Sprintf("a request ending in an unknown name: error %v, unresolved %q, OCI spec modified %v", em != nil, um, jsonImage(tm) != bm))
			}
			um2, em2 := cache.InjectDevices(mk(), mixed...)
			if fmt.Sprint(um2, em2 != nil) != fmt.Sprint(um, em != nil) {
				aux = append(aux, fmt.Sprintf("the same failing request twice: unresolved %q then %q", um, um2))
			}
			again("after a failed request")
			// other requests in between: every listed device on its own (whatever it brings: RDT settings, hooks, ...),
			// each compared with what a cache created just now gives; then the first request once more
			nw0, _ := c["nowatch"].(bool)
			late0, _ := c["latedirs"].(bool)
			if !auto && !nw0 && !late0 {
				fresh, _ := cdi.NewCache(cdi.WithSpecDirs(dirs...), cdi.WithAutoRefresh(false))
				listed := cache.ListDevices()
				if len(listed) > 6 {
					listed = listed[:6]
				}
				for _, d := range listed {
					t1, t2 := mk(), mk()
					u1, e1 := cache.InjectDevices(t1, d)
					u2, e2 := fresh.InjectDevices(t2, d)
					if fmt.Sprint(u1, e1 != nil, jsonImage(t1)) != fmt.Sprint(u2, e2 != nil, jsonImage(t2)) {
						aux = append(aux, fmt.Sprintf("injection of %q on a cache that served other requests before differs from a new cache's: %s vs %s", d, jsonImage(t1), jsonImage(t2)))
					}
				}
				again("after injections of the other devices")
				// the caller re-uses one OCI spec object, reset to the same content, for consecutive injections
				reuse := mk()
				_, _ = cache.InjectDevices(reuse, req...)
				*reuse = *mk()
				ur, er := cache.InjectDevices(reuse, req...)
				if got := fmt.Sprint(ur, er != nil, jsonImage(reuse)); got != first {
					aux = append(aux, "InjectDevices into a re-used OCI spec object (reset to the same content) gives another result")
				}
				// a manually refreshed cache is a snapshot: a Spec file that appears on disk is not seen before Refresh(),
				// whatever is requested meanwhile - in particular not because a request failed
				var probeDir string
				for _, d := range dirs {
					if fi, err := os.Stat(d); err == nil && fi.IsDir() {
						probeDir = d
					}
				}
				if probeDir != "" {
					imgBefore := fmt.Sprint(cache.ListDevices(), cache.ListVendors(), cache.ListClasses())
					probe := filepath.Join(probeDir, "zz-snapshot-probe.json")
					_ = os.WriteFile(probe, []byte(`{"cdiVersion":"0.6.0","kind":"snapshot-probe.com/x","devices":[{"name":"p","containerEdits":{"env":["P=1"]}}]}`), 0o644)
					_, _ = cache.InjectDevices(mk(), mixed...)
					_, _ = cache.InjectDevices(mk(), "snapshot-probe.com/x=p")
					// names with a conventional ring to them that no Spec defines (all, *, 0, none) are misses like any other
					if ls := cache.ListDevices(); len(ls) > 0 {
						kind := ls[0][:strings.Index(ls[0], "=")]
						for _, nm := range []string{"all", "*", "0", "none", "ALL"} {
							if cache.GetDevice(kind+"="+nm) == nil {
								if u, e := cache.InjectDevices(mk(), kind+"="+nm); e == nil || len(u) != 1 {
									aux = append(aux, fmt.Sprintf("a request for %s=%s, which no Spec defines, is not refused as unresolvable", kind, nm))
								}
							}
						}
					}
					if img := fmt.Sprint(cache.ListDevices(), cache.ListVendors(), cache.ListClasses()); img != imgBefore {
						aux = append(aux, "a failing injection made a manually refreshed cache reload its directories: "+imgBefore+" -> "+img)
					}
					_ = os.Remove(probe)
					again("after a Spec file appeared and disappeared without a refresh")
				}
			}
			// finally every Spec file goes away: after a refresh the very same request - into the very OCI spec that was
			// injected into before - names every device as unresolvable and leaves that spec as it is
			late, _ := c["latedirs"].(bool)
			if len(req) > 0 && !auto && !late { // (a watching cache learns of the removal by itself, in its own time: C11)
				target = mk()
				_, _ = cache.InjectDevices(target, req...) // the most recent injection went into this very spec
				_ = os.RemoveAll(filepath.Join(cacheRoot, "phys"))
				_ = os.Remove(filepath.Join(cacheRoot, "asfile.json"))
				_ = cache.Refresh()
				bt := jsonImage(target)
				ug, eg := cache.InjectDevices(target, req...)
				if eg == nil || fmt.Sprint(ug) != fmt.Sprint(req) || jsonImage(target) != bt {
					aux = append(aux, fmt.Sprintf("after all Spec files were removed: request %q into the OCI spec used before: unresolved %q, error %v, OCI spec modified %v", req, ug, eg != nil, jsonImage(target) != bt))
				}
			}
		}
		obs["aux"] = aux
	}
}

// historyCache: the cache of a case with a "prelayout", created on the earlier population of the directories
var historyCache *cdi.Cache

// cacheAux cross-checks the accessor-style and per-Spec entry points of the cache against the
// primary query API on the same cache state; every discrepancy is one string.
func cacheAux(cache *cdi.Cache, auto bool) []any {
	aux := []any{}
	bad := func(f string, a ...any) { aux = append(aux, fmt.Sprintf(f, a...)) }
	all := cache.GetErrors()
	loaded := map[string]bool{}
	for _, v := range cache.ListVendors() {
		for _, s := range cache.GetVendorSpecs(v) {
			loaded[s.GetPath()] = true
			if s.GetVendor() != v {
				bad("GetVendorSpecs(%q) returned a Spec of vendor %q", v, s.GetVendor())
			}
			if vv, cc := parser.ParseQualifier(s.Kind); vv != s.GetVendor() || cc != s.GetClass() {
				bad("Spec.GetVendor/GetClass = %q/%q for kind %q", s.GetVendor(), s.GetClass(), s.Kind)
			}
			se := cache.GetSpecErrors(s)
			if len(se) != len(all[s.GetPath()]) {
				bad("GetSpecErrors(%s) has %d errors, GetErrors()[path] has %d", s.GetPath(), len(se), len(all[s.GetPath()]))
			}
			for i := range s.Devices {
				name := s.Devices[i].Name
				d := s.GetDevice(name)
				if d == nil {
					bad("Spec.GetDevice(%q) = nil for a device of %s", name, s.GetPath())
					continue
				}
				if d.Name != name || d.GetSpec() != s {
					bad("Spec.GetDevice(%q) of %s returned device %q of %s", name, s.GetPath(), d.Name, d.GetSpec().GetPath())
				}
				if q := parser.QualifiedName(s.GetVendor(), s.GetClass(), name); d.GetQualifiedName() != q {
					bad("Device.GetQualifiedName() = %q, want %q", d.GetQualifiedName(), q)
				}
				if d.Device != &s.Devices[i] && !reflect.DeepEqual(*d.Device, s.Devices[i]) {
					bad("Spec.GetDevice(%q) of %s is not the Spec's device entry", name, s.GetPath())
				}
			}
			if s.GetDevice("no-such-device-name") != nil {
				bad("Spec.GetDevice of an unknown name is not nil")
			}
		}
	}
	for _, q := range cache.ListDevices() {
		d := cache.GetDevice(q)
		if d == nil {
			bad("ListDevices names %q but GetDevice returns nil", q)
			continue
		}
		if d.GetQualifiedName() != q {
			bad("GetDevice(%q).GetQualifiedName() = %q", q, d.GetQualifiedName())
		}
		if sd := d.GetSpec().GetDevice(d.Name); sd != d {
			bad("GetDevice(%q) is not its Spec's GetDevice(%q)", q, d.Name)
		}
		if !loaded[d.GetSpec().GetPath()] {
			bad("GetDevice(%q) belongs to %s, which GetVendorSpecs does not list", q, d.GetSpec().GetPath())
		}
	}
	// directory errors are re-created by every watch update (any query may run one): compare keys, on
	// two readings taken back to back, and give a concurrent watcher event two more chances
	dirErrs := cache.GetSpecDirErrors()
	for try := 0; ; try++ {
		dirErrs = cache.GetSpecDirErrors()
		now := cache.GetErrors()
		missing := ""
		for k := range dirErrs {
			if es, ok := now[k]; !ok || len(es) != 1 {
				missing = k
			}
		}
		if missing == "" {
			break
		}
		if try == 2 {
			bad("GetSpecDirErrors()[%s] is not reported by GetErrors()", missing)
			break
		}
	}
	if !auto && len(dirErrs) != 0 {
		bad("GetSpecDirErrors() is not empty without auto-refresh")
	}
	// a Configure() call without options changes nothing and reports no error
	before := fmt.Sprint(cache.ListDevices(), cache.GetSpecDirectories())
	if err := cache.Configure(); err != nil {
		bad("Configure() without options failed: %v", err)
	}
	if after := fmt.Sprint(cache.ListDevices(), cache.GetSpecDirectories()); after != before {
		bad("Configure() without options changed the cache")
	}
	return aux
}
