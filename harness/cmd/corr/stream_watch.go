package main

import (
	"encoding/json"
	"fmt"
	"math/rand"
	"os"
	"path/filepath"
	"reflect"
	"sort"
	"strconv"
	"strings"
	"time"

	"github.com/fsnotify/fsnotify"
	oci "github.com/opencontainers/runtime-spec/specs-go"
	"tags.cncf.io/container-device-interface/pkg/cdi"
	specs "tags.cncf.io/container-device-interface/specs-go"
)

// watchStream — C11: histories of file-system operations against a real
// auto-refresh cache (no Refresh() call), at several pacings incl. controlled
// pacing through the exported cache mutex; plus validation of the model's
// inotify event table with a plain fsnotify watcher.
type watchStream struct{}

func init() { register(watchStream{}) }

func (watchStream) Name() string          { return "watch" }
func (watchStream) TrivialTags() []string { return nil }

// per-process scratch root: concurrent runs of the harness must not share a tree
var watchRoot = scratchRoot("/tmp/cdi-verif-watch")

// file-system operations of a history (each applies to the single configured directory D)
var watchOps = []string{"writeInPlace", "writeViaTemp", "rewrite", "unlink", "renameAway", "moveIn", "linkIn", "creatEmpty",
	"tempFile", "rmdir", "mkdir", "lock", "unlock", "pause", "moveInOld", "linkInOld", "writeBad", "replaceKeepStat"} // (symlinkIn/retarget only in fixed histories: a later write through the link happens in another directory)

func specBytes(tag string, n int) []byte { return specBytesOf("vendor.com/class", tag, n) }

func specBytesOf(kind, tag string, n int) []byte {
	s := &specs.Spec{Version: specs.CurrentVersion, Kind: kind}
	for i := 0; i < n; i++ {
		s.Devices = append(s.Devices, specs.Device{Name: fmt.Sprintf("dev%d", i), ContainerEdits: specs.ContainerEdits{Env: []string{"TAG=" + tag}}})
	}
	b, _ := json.Marshal(s)
	return b
}

func (watchStream) Generate(rng *rand.Rand, tier string, emit func(Case)) {
	// event table
	for _, op := range []string{"writeInPlace", "writeViaTemp", "rewrite", "unlink", "renameAway", "moveIn", "linkIn", "creatEmpty", "tempFile", "rmdir"} {
		emit(Case{"op": "events", "fsop": op})
	}
	// fixed histories: the two defects found on the pinned tree, and the basic ones
	fixed := [][]string{
		// a file in error is repaired by renaming it away / removing it / rewriting it: its error entry goes away
		{"writeBad", "pause", "renameAway"}, {"writeBad", "pause", "unlink"}, {"writeBad", "pause", "rewrite"}, {"writeInPlace", "pause", "writeBad"},
		{"moveIn"}, {"linkIn"}, {"writeViaTemp"}, {"moveInOld"}, {"linkInOld"}, {"writeInPlace", "pause", "moveInOld"}, {"writeInPlace", "pause", "unlink", "pause", "linkInOld"}, {"writeInPlace", "rewrite", "unlink"},
		{"lock", "rmdir", "mkdir", "writeInPlace", "unlock", "pause", "rmdir"},
		{"rmdir", "pause", "mkdir", "moveIn"}, {"writeInPlace", "rmdir", "mkdir", "writeViaTemp"},
		{"rmdir", "mkdir", "pause", "writeInPlace", "pause", "rmdir", "mkdir"},
		// the directory is replaced while the watcher cannot run, rescanned while unwatched, changed
		// again before any query
		{"lock", "rmdir", "mkdir", "writeInPlace", "unlock", "pause", "rewrite"},
		{"lock", "rmdir", "mkdir", "moveIn", "unlock", "pause", "writeViaTemp"},
		{"lock", "rmdir", "mkdir", "writeInPlace", "unlock", "pause", "unlink"},
		// the same kind of event several times in a row (each must be acted upon)
		{"writeInPlace", "pause", "rewrite", "pause", "rewrite"}, {"writeInPlace", "rewrite", "rewrite", "rewrite"},
		{"writeViaTemp", "pause", "writeViaTemp", "pause", "writeViaTemp"}, {"moveIn", "pause", "moveIn", "pause", "moveIn"},
		// a version of the same size and modification time replaces the file
		{"writeInPlace", "pause", "replaceKeepStat"}, {"writeViaTemp", "pause", "replaceKeepStat", "pause", "replaceKeepStat"}, {"moveIn", "pause", "replaceKeepStat"},
		{"writeInPlace", "pause", "unlink", "pause", "writeInPlace", "pause", "unlink", "pause", "writeInPlace"},
		// a Spec installed as a symbolic link to a file kept elsewhere (ln -s /opt/vendor/x.json /etc/cdi/x.json); the link
		// replaced by one to another version (ln -sfn via rename)
		{"symlinkIn"}, {"symlinkIn", "pause", "unlink", "pause", "symlinkIn"}, {"writeInPlace", "pause", "unlink", "symlinkIn"}, {"symlinkIn", "pause", "retarget"},
		{"symlinkIn", "pause", "retarget", "pause", "retarget"}, {"rmdir", "mkdir", "pause", "symlinkIn"},
	}
	for hi, h := range fixed {
		for _, start := range []bool{true, false} {
			for k, pacing := range []string{"burst", "yield", "sleep"} {
				cs := Case{"op": "history", "ops": strs2any(h), "dirAtStart": start, "pacing": pacing}
				if (hi+k)%3 == 0 {
					// the cache is observed the way a container runtime uses it: through InjectDevices alone
					cs["observe"] = "inject"
				}
				emit(cs)
			}
		}
	}
	// a Spec file appears while the cache is being created over a large directory (the scan takes a while):
	// whatever the scan missed, the watch must deliver
	for _, frac := range []int{20, 50, 80} {
		emit(Case{"op": "bigdir", "files": 1200, "percent": frac})
	}
	// a query falls into a slow scan of the watcher goroutine: one event (a file removed from a directory that takes
	// long to scan); while the watcher is busy, a configured directory that was missing is created with a Spec and
	// queried once
	for _, frac := range []int{15, 35, 60} {
		emit(Case{"op": "slowscan", "files": 6, "devices": 3000, "percent": frac})
	}
	// the kernel's event queue overflows while the watcher waits for the mutex; a Spec file is written while the
	// watcher scans afterwards (its event is dropped, the scan has already listed the directory)
	for _, frac := range []int{40, 60} {
		emit(Case{"op": "overflow", "files": 2500, "percent": frac})
	}
	// several configured directories: operations are tagged with the directory they act on ("op@i")
	multiFixed := [][]string{
		{"moveIn@1"}, {"writeInPlace@0", "writeInPlace@1", "rewrite@0"},
		{"rmdir@0", "pause", "writeInPlace@1", "mkdir@0", "moveIn@0"},
		{"lock", "rmdir@1", "mkdir@1", "writeInPlace@1", "unlock", "pause", "rmdir@1", "writeInPlace@0"},
		{"lock", "rmdir@0", "mkdir@0", "writeInPlace@0", "unlock", "pause", "rewrite@0"},
		{"rmdir@0", "rmdir@1", "pause", "mkdir@1", "pause", "writeViaTemp@1", "mkdir@0", "linkInOld@0"},
		// the file that overrides a lower-priority definition is removed / renamed away: the lower one counts again
		{"writeInPlace@0", "writeInPlace@1", "pause", "unlink@1"}, {"writeInPlace@0", "writeInPlace@1", "pause", "renameAway@1"},
		{"writeInPlace@1", "pause", "writeInPlace@0", "pause", "unlink@1", "pause", "writeInPlace@1", "pause", "renameAway@1"},
		// the higher-priority directory goes away and comes back with a Spec overriding a device that still resolves
		{"writeInPlace@0", "writeInPlace@1", "pause", "rmdir@1", "pause", "mkdir@1", "writeInPlace@1"},
		{"writeInPlace@0", "rmdir@1", "pause", "lock", "mkdir@1", "moveIn@1", "unlock"},
		{"writeInPlace@0", "pause", "rmdir@1", "pause", "mkdir@1", "writeViaTemp@1", "pause", "rewrite@0"},
	}
	for _, h := range multiFixed {
		for _, pacing := range []string{"burst", "sleep"} {
			emit(Case{"op": "history", "ops": strs2any(h), "dirAtStart": true, "pacing": pacing, "ndirs": 2})
		}
		emit(Case{"op": "history", "ops": strs2any(h), "dirAtStart": true, "pacing": "yield", "ndirs": 2, "observe": "inject"})
	}
	nm := 12
	if tier == "thorough" {
		nm = 300
	}
	for i := 0; i < nm; i++ {
		nd := 2 + rng.Intn(2)
		var h []string
		locked := false
		for k := 2 + rng.Intn(10); k > 0; k-- {
			o := watchOps[rng.Intn(len(watchOps))]
			switch o {
			case "lock":
				if locked {
					continue
				}
				locked = true
			case "unlock":
				if !locked {
					continue
				}
				locked = false
			case "pause":
			default:
				o = fmt.Sprintf("%s@%d", o, rng.Intn(nd))
			}
			h = append(h, o)
		}
		if locked {
			h = append(h, "unlock")
		}
		mc := Case{"op": "history", "ops": strs2any(h), "dirAtStart": rng.Intn(3) > 0, "pacing": []string{"burst", "yield", "sleep"}[rng.Intn(3)], "ndirs": nd}
		if i%3 == 1 {
			mc["observe"] = "inject"
		}
		emit(mc)
	}
	n := 25
	if tier == "thorough" {
		n = 600
	}
	for i := 0; i < n; i++ {
		var h []string
		locked := false
		for k := 1 + rng.Intn(10); k > 0; k-- {
			o := watchOps[rng.Intn(len(watchOps))]
			if len(h) > 0 && rng.Intn(4) == 0 {
				o = h[len(h)-1] // the same operation again
			}
			if o == "lock" {
				if locked {
					continue
				}
				locked = true
			}
			if o == "unlock" {
				if !locked {
					continue
				}
				locked = false
			}
			h = append(h, o)
		}
		if locked {
			h = append(h, "unlock")
		}
		emit(Case{"op": "history", "ops": strs2any(h), "dirAtStart": rng.Intn(3) > 0, "pacing": []string{"burst", "yield", "sleep"}[rng.Intn(3)]})
	}
}

func strs2any(l []string) []any {
	out := make([]any, len(l))
	for i, s := range l {
		out[i] = s
	}
	return out
}

// doFsOp performs one operation on directory d; returns false if it was not applicable.
func doFsOp(op, d, outside string, counter *int) bool {
	return doFsOpKind("vendor.com/class", op, d, outside, counter)
}

func doFsOpKind(kind, op, d, outside string, counter *int) bool {
	specBytes := func(tag string, n int) []byte { return specBytesOf(kind, tag, n) }
	target := filepath.Join(d, "spec.json")
	*counter++
	tag := fmt.Sprintf("v%d", *counter)
	dirExists := func() bool { fi, err := os.Stat(d); return err == nil && fi.IsDir() }
	fileExists := func() bool { _, err := os.Lstat(target); return err == nil }
	switch op {
	case "writeInPlace":
		if !dirExists() {
			return false
		}
		return os.WriteFile(target, specBytes(tag, 1+*counter%3), 0o644) == nil
	case "writeBad":
		if !dirExists() {
			return false
		}
		return os.WriteFile(target, []byte("{ this is : not [ a spec "+tag), 0o644) == nil
	case "rewrite":
		if !fileExists() {
			return false
		}
		return os.WriteFile(target, specBytes(tag, 1+*counter%3), 0o644) == nil
	case "writeViaTemp":
		if !dirExists() {
			return false
		}
		tmp := filepath.Join(d, "spec.123.tmp")
		_ = os.WriteFile(tmp, specBytes(tag, 1+*counter%3), 0o644)
		return os.Rename(tmp, target) == nil
	case "replaceKeepStat":
		// another version of the same length and with the same modification time replaces the file (cp -p, rsync -t,
		// a package with clamped timestamps): moved in from outside over the old one
		fi, err := os.Stat(target)
		if err != nil || !fi.Mode().IsRegular() {
			return false
		}
		old, _ := os.ReadFile(target)
		repl := []byte(strings.Replace(string(old), "TAG=", "TAG=~", 1))
		if len(repl) > len(old) && strings.Contains(string(repl), "TAG=~v") {
			repl = []byte(strings.Replace(string(repl), "TAG=~v", "TAG=~", 1)) // same length again
		}
		if len(repl) != len(old) || string(repl) == string(old) {
			return false
		}
		tmp := filepath.Join(outside, "same-stat-"+tag)
		_ = os.WriteFile(tmp, repl, 0o644)
		_ = os.Chtimes(tmp, fi.ModTime(), fi.ModTime())
		return os.Rename(tmp, target) == nil
	case "unlink":
		return os.Remove(target) == nil
	case "renameAway":
		if !fileExists() {
			return false
		}
		return os.Rename(target, filepath.Join(outside, "away-"+tag)) == nil
	case "moveIn":
		if !dirExists() {
			return false
		}
		src := filepath.Join(outside, "in-"+tag)
		_ = os.WriteFile(src, specBytes(tag, 1+*counter%3), 0o644)
		return os.Rename(src, target) == nil
	case "linkIn":
		if !dirExists() || fileExists() {
			return false
		}
		src := filepath.Join(outside, "ln-"+tag)
		_ = os.WriteFile(src, specBytes(tag, 1+*counter%3), 0o644)
		return os.Link(src, target) == nil
	case "symlinkIn":
		if !dirExists() || fileExists() {
			return false
		}
		src := filepath.Join(outside, "sym-"+tag)
		_ = os.WriteFile(src, specBytes(tag, 1+*counter%3), 0o644)
		return os.Symlink(src, target) == nil
	case "retarget":
		// the Spec name is (or becomes) a link to a new version: a new link is made next to it and renamed over it
		if !dirExists() {
			return false
		}
		src := filepath.Join(outside, "sym-"+tag)
		_ = os.WriteFile(src, specBytes(tag, 1+*counter%3), 0o644)
		tmp := filepath.Join(d, "spec.456.tmp")
		_ = os.Remove(tmp)
		if os.Symlink(src, tmp) != nil {
			return false
		}
		return os.Rename(tmp, target) == nil
	case "moveInOld", "linkInOld":
		// a file prepared long ago (old modification time) enters the directory
		if !dirExists() || (op == "linkInOld" && fileExists()) {
			return false
		}
		src := filepath.Join(outside, "old-"+tag)
		_ = os.WriteFile(src, specBytes(tag, 1+*counter%3), 0o644)
		old := time.Now().Add(-time.Duration(1+*counter%48) * time.Hour)
		_ = os.Chtimes(src, old, old)
		if op == "linkInOld" {
			return os.Link(src, target) == nil
		}
		return os.Rename(src, target) == nil
	case "creatEmpty":
		if !dirExists() || fileExists() {
			return false
		}
		f, err := os.OpenFile(target, os.O_CREATE|os.O_EXCL|os.O_WRONLY, 0o644)
		if err != nil {
			return false
		}
		return f.Close() == nil
	case "tempFile":
		if !dirExists() {
			return false
		}
		tmp := filepath.Join(d, "other.tmp")
		_ = os.WriteFile(tmp, []byte("x"), 0o644)
		return os.Remove(tmp) == nil
	case "rmdir":
		if !dirExists() {
			return false
		}
		return os.RemoveAll(d) == nil
	case "mkdir":
		if dirExists() {
			return false
		}
		return os.Mkdir(d, 0o755) == nil
	}
	return false
}

func cacheImage(c *cdi.Cache) map[string]any {
	img := map[string]any{}
	devs := c.ListDevices()
	img["devices"] = devs
	defs := map[string]string{}
	for _, q := range devs {
		if d := c.GetDevice(q); d != nil {
			b, _ := json.Marshal(d.Device)
			defs[q] = string(b)
		}
	}
	img["defs"] = defs
	img["vendors"], img["classes"] = c.ListVendors(), c.ListClasses()
	// files in error (directory monitoring errors of the auto-refresh cache are not files)
	keys := []string{}
	for k := range c.GetErrors() {
		if ext := filepath.Ext(k); ext == ".json" || ext == ".yaml" {
			keys = append(keys, k)
		}
	}
	sort.Strings(keys)
	img["errors"] = keys
	return img
}

func (watchStream) Execute(c Case) {
	obs := map[string]any{"panic": false}
	c["obs"] = obs
	_ = os.RemoveAll(watchRoot)
	defer os.RemoveAll(watchRoot)
	d := filepath.Join(watchRoot, "cdi")
	outside := filepath.Join(watchRoot, "outside")
	_ = os.MkdirAll(outside, 0o755)
	defer func() {
		if r := recover(); r != nil {
			obs["panic"] = true
		}
	}()
	switch c["op"] {
	case "events":
		// which fsnotify ops a plain watcher reports for Spec-named files / the directory
		_ = os.MkdirAll(d, 0o755)
		op, _ := c["fsop"].(string)
		counter := 0
		switch op {
		case "rewrite", "unlink", "renameAway":
			doFsOp("writeInPlace", d, outside, &counter)
		}
		w, err := fsnotify.NewWatcher()
		if err != nil {
			skip("cannot create fsnotify watcher")
			obs["events"] = []any{}
			return
		}
		defer w.Close()
		_ = w.Add(d)
		doFsOp(op, d, outside, &counter)
		var evs []any
		timeout := time.After(150 * time.Millisecond)
	loop:
		for {
			select {
			case e := <-w.Events:
				name := "other"
				if e.Name == d {
					name = "dir"
				} else if ext := filepath.Ext(e.Name); ext == ".json" || ext == ".yaml" {
					name = "spec"
				}
				evs = append(evs, map[string]any{"name": name, "ops": strings.Split(e.Op.String(), "|")})
			case <-timeout:
				break loop
			}
		}
		if evs == nil {
			evs = []any{}
		}
		obs["events"] = evs
	case "bigdir":
		_ = os.MkdirAll(d, 0o755)
		n := kindIdx(c["files"])
		for i := 0; i < n; i++ {
			_ = os.WriteFile(filepath.Join(d, fmt.Sprintf("f%04d.json", i)), specBytesOf(fmt.Sprintf("vendor%d.com/class", i), "big", 1), 0o644)
		}
		// how long does a scan of this directory take here?
		t0 := time.Now()
		probe, _ := cdi.NewCache(cdi.WithSpecDirs(d), cdi.WithAutoRefresh(false))
		scan := time.Since(t0)
		_ = probe
		done := make(chan *cdi.Cache, 1)
		go func() {
			cch, _ := cdi.NewCache(cdi.WithSpecDirs(d), cdi.WithAutoRefresh(true))
			done <- cch
		}()
		time.Sleep(scan * time.Duration(kindIdx(c["percent"])) / 100)
		_ = os.WriteFile(filepath.Join(outside, "late.json"), specBytesOf("late.com/class", "late", 1), 0o644)
		_ = os.Rename(filepath.Join(outside, "late.json"), filepath.Join(d, "late.json"))
		cache := <-done
		defer func() { _ = cache.Configure(cdi.WithAutoRefresh(false)) }()
		fresh, _ := cdi.NewCache(cdi.WithSpecDirs(d), cdi.WithAutoRefresh(false))
		want := len(fresh.ListDevices())
		converged := false
		for deadline := time.Now().Add(8 * time.Second); time.Now().Before(deadline); time.Sleep(30 * time.Millisecond) {
			if len(cache.ListDevices()) == want && cache.GetDevice("late.com/class=dev0") != nil {
				converged = true
				break
			}
		}
		obs["converged"], obs["scanms"] = converged, scan.Milliseconds()
	case "overflow":
		// events are lost: while the watcher waits for the cache mutex the kernel's event queue fills up with events
		// the watcher will filter out (two log files written in turn); a Spec file written while the watcher then
		// scans is not announced (queue full) and not seen by that scan. The kernel leaves an overflow marker.
		_ = os.MkdirAll(d, 0o755)
		for i := 0; i < kindIdx(c["files"]); i++ {
			_ = os.WriteFile(filepath.Join(d, fmt.Sprintf("big%04d.json", i)), specBytesOf(fmt.Sprintf("big%d.com/class", i), "big", 1), 0o644)
		}
		t0 := time.Now()
		_, _ = cdi.NewCache(cdi.WithSpecDirs(d), cdi.WithAutoRefresh(false))
		scan := time.Since(t0)
		cache, _ := cdi.NewCache(cdi.WithSpecDirs(d), cdi.WithAutoRefresh(true))
		defer func() { _ = cache.Configure(cdi.WithAutoRefresh(false)) }()
		_ = cache.ListDevices()
		maxq := 16384
		if b, err := os.ReadFile("/proc/sys/fs/inotify/max_queued_events"); err == nil {
			_, _ = fmt.Sscan(string(b), &maxq)
		}
		cache.Lock()
		if f, err := os.OpenFile(filepath.Join(d, "t.json"), os.O_CREATE|os.O_WRONLY, 0o644); err == nil {
			_ = f.Close() // one event that passes the filter: the watcher now waits for the mutex
		}
		time.Sleep(50 * time.Millisecond)
		f1, _ := os.OpenFile(filepath.Join(d, "one.log"), os.O_CREATE|os.O_WRONLY|os.O_APPEND, 0o644)
		f2, _ := os.OpenFile(filepath.Join(d, "two.log"), os.O_CREATE|os.O_WRONLY|os.O_APPEND, 0o644)
		for i := 0; i < maxq*3/4; i++ {
			_, _ = f1.Write([]byte("x"))
			_, _ = f2.Write([]byte("y"))
		}
		_ = f1.Close()
		_ = f2.Close()
		cache.Unlock()
		time.Sleep(scan * time.Duration(kindIdx(c["percent"])) / 100)
		_ = os.WriteFile(filepath.Join(d, "zzz-late.json"), specBytesOf("late.com/class", "fresh", 1), 0o644)
		fresh, _ := cdi.NewCache(cdi.WithSpecDirs(d), cdi.WithAutoRefresh(false))
		want := len(fresh.ListDevices())
		converged := false
		for deadline := time.Now().Add(6 * time.Second); time.Now().Before(deadline); time.Sleep(50 * time.Millisecond) {
			if len(cache.ListDevices()) == want && cache.GetDevice("late.com/class=dev0") != nil {
				converged = true
				break
			}
		}
		// ... and the cache keeps following the directory afterwards, whatever the watcher did about the loss
		if converged {
			time.Sleep(300 * time.Millisecond)
			_ = os.WriteFile(filepath.Join(d, "zzz-post.json"), specBytesOf("post.com/class", "post", 1), 0o644)
			converged = false
			for deadline := time.Now().Add(6 * time.Second); time.Now().Before(deadline); time.Sleep(50 * time.Millisecond) {
				if cache.GetDevice("post.com/class=dev0") != nil {
					converged = true
					break
				}
			}
		}
		obs["converged"], obs["scanms"] = converged, scan.Milliseconds()
	case "slowscan":
		late := filepath.Join(watchRoot, "late")
		_ = os.MkdirAll(d, 0o755)
		for i := 0; i < kindIdx(c["files"]); i++ {
			_ = os.WriteFile(filepath.Join(d, fmt.Sprintf("big%d.json", i)), specBytesOf(fmt.Sprintf("big%d.com/class", i), "big", kindIdx(c["devices"])), 0o644)
		}
		victim := filepath.Join(d, "victim.json")
		_ = os.WriteFile(victim, specBytesOf("victim.com/class", "victim", 1), 0o644)
		t0 := time.Now()
		_, _ = cdi.NewCache(cdi.WithSpecDirs(late, d), cdi.WithAutoRefresh(false))
		scan := time.Since(t0)
		cache, _ := cdi.NewCache(cdi.WithSpecDirs(late, d), cdi.WithAutoRefresh(true))
		defer func() { _ = cache.Configure(cdi.WithAutoRefresh(false)) }()
		_ = os.Remove(victim) // exactly one event
		time.Sleep(scan * time.Duration(kindIdx(c["percent"])) / 100)
		_ = os.MkdirAll(late, 0o755)
		_ = os.WriteFile(filepath.Join(late, "fresh.json"), specBytesOf("late.com/class", "fresh", 1), 0o644)
		_ = cache.ListDevices() // one query: re-adds the directory and refreshes
		fresh, _ := cdi.NewCache(cdi.WithSpecDirs(late, d), cdi.WithAutoRefresh(false))
		want := len(fresh.ListDevices())
		converged := false
		time.Sleep(2 * scan) // whatever the watcher was doing is over
		for deadline := time.Now().Add(8 * time.Second); time.Now().Before(deadline); time.Sleep(50 * time.Millisecond) {
			if len(cache.ListDevices()) == want && cache.GetDevice("late.com/class=dev0") != nil && cache.GetDevice("victim.com/class=dev0") == nil {
				converged = true
				break
			}
		}
		obs["converged"], obs["scanms"] = converged, scan.Milliseconds()
	case "history":
		nd := kindIdx(c["ndirs"])
		dirs := []string{d}
		for i := 1; i < nd; i++ {
			dirs = append(dirs, filepath.Join(watchRoot, fmt.Sprintf("cdi%d", i)))
		}
		if start, _ := c["dirAtStart"].(bool); start {
			for _, dd := range dirs {
				_ = os.MkdirAll(dd, 0o755)
			}
		}
		cache, _ := cdi.NewCache(cdi.WithSpecDirs(dirs...), cdi.WithAutoRefresh(true))
		defer func() { _ = cache.Configure(cdi.WithAutoRefresh(false)) }()
		pacing, _ := c["pacing"].(string)
		ops, _ := c["ops"].([]any)
		if ob, _ := c["observe"].(string); ob != "inject" {
			_ = cacheImage(cache) // every kind of listing has been asked for once before anything changes
		}
		counter := 0
		locked := false
		var applied []any
		for _, o := range ops {
			op, _ := o.(string)
			switch op {
			case "lock":
				if !locked {
					cache.Lock()
					locked = true
					applied = append(applied, op)
				}
			case "unlock":
				if locked {
					cache.Unlock()
					locked = false
					applied = append(applied, op)
				}
			case "pause":
				if !locked {
					time.Sleep(120 * time.Millisecond)
					applied = append(applied, op)
				}
			default:
				// "op@i" acts on the i-th configured directory (all directories hold files of the same kind, so a
				// later directory overrides an earlier one)
				base, target := op, d
				if at := strings.LastIndex(op, "@"); at >= 0 {
					base = op[:at]
					if i, err := strconv.Atoi(op[at+1:]); err == nil && i >= 0 && i < len(dirs) {
						target = dirs[i]
					}
				}
				if doFsOp(base, target, outside, &counter) {
					applied = append(applied, op)
				}
			}
			if !locked {
				switch pacing {
				case "yield":
					time.Sleep(time.Millisecond)
				case "sleep":
					time.Sleep(time.Duration(5+counter%40) * time.Millisecond)
				}
			}
		}
		if locked {
			cache.Unlock()
		}
		if applied == nil {
			applied = []any{}
		}
		c["applied"] = applied
		// the history has ended: poll queries until they agree with a fresh cache (or the deadline passes)
		fresh, _ := cdi.NewCache(cdi.WithSpecDirs(dirs...), cdi.WithAutoRefresh(false))
		want := cacheImage(fresh)
		deadline := time.Now().Add(8 * time.Second)
		converged := false
		var got map[string]any
		polls := 0
		image := cacheImage
		if ob, _ := c["observe"].(string); ob == "inject" {
			// what a container runtime does: one InjectDevices call naming the devices it expects (those a fresh cache
			// lists), and nothing else - no other query touches the cache under observation
			names := fresh.ListDevices()
			image = func(cc *cdi.Cache) map[string]any {
				sp := &oci.Spec{}
				unres, err := cc.InjectDevices(sp, names...)
				b, _ := json.Marshal(sp)
				return map[string]any{"unresolved": fmt.Sprint(unres), "err": err != nil, "oci": string(b)}
			}
			want = image(fresh)
		}
		for {
			got = image(cache)
			polls++
			if reflect.DeepEqual(got, want) {
				converged = true
				break
			}
			if time.Now().After(deadline) {
				break
			}
			time.Sleep(20 * time.Millisecond)
		}
		obs["converged"] = converged
		obs["polls"] = polls
		if !converged {
			gb, _ := json.Marshal(got)
			wb, _ := json.Marshal(want)
			obs["got"], obs["want"] = string(gb), string(wb)
		}
	}
}
