package main

import (
	"bytes"
	"encoding/json"
	"fmt"
	"math/big"
	"strings"

	yaml3 "gopkg.in/yaml.v3"
)

// JSON documents with member order, duplicate members and exact decimals:
//
//	nil | bool | jnum | jstr | jarr | *jobj
type jnum struct {
	m *big.Int
	s int // value = m * 10^-s
}
type jstr string
type jarr []any
type jmember struct {
	k string
	v any
}
type jobj struct{ members []jmember }

func jint(n int64) jnum { return jnum{big.NewInt(n), 0} }
func jbig(s string) jnum {
	b, _ := new(big.Int).SetString(s, 10)
	return jnum{b, 0}
}

func (o *jobj) get(k string) (any, bool) {
	for _, m := range o.members {
		if m.k == k {
			return m.v, true
		}
	}
	return nil, false
}
func (o *jobj) set(k string, v any) {
	for i := range o.members {
		if o.members[i].k == k {
			o.members[i].v = v
			return
		}
	}
	o.members = append(o.members, jmember{k, v})
}
func (o *jobj) del(k string) {
	out := o.members[:0]
	for _, m := range o.members {
		if m.k != k {
			out = append(out, m)
		}
	}
	o.members = out
}
func obj(kv ...any) *jobj {
	o := &jobj{}
	for i := 0; i+1 < len(kv); i += 2 {
		o.members = append(o.members, jmember{kv[i].(string), kv[i+1]})
	}
	return o
}

func cloneDoc(v any) any {
	switch t := v.(type) {
	case jarr:
		out := make(jarr, len(t))
		for i, e := range t {
			out[i] = cloneDoc(e)
		}
		return out
	case *jobj:
		o := &jobj{}
		for _, m := range t.members {
			o.members = append(o.members, jmember{m.k, cloneDoc(m.v)})
		}
		return o
	}
	return v
}

// docToProto: protocol form (see lean/Driver/SpecProto.lean readJVal).
func docToProto(v any) any {
	switch t := v.(type) {
	case nil:
		return nil
	case bool:
		return t
	case jnum:
		return map[string]any{"n": []any{json.Number(t.m.String()), t.s}}
	case jstr:
		return hx(string(t))
	case jarr:
		out := make([]any, len(t))
		for i, e := range t {
			out[i] = docToProto(e)
		}
		return out
	case *jobj:
		ms := make([]any, len(t.members))
		for i, m := range t.members {
			ms[i] = []any{hx(m.k), docToProto(m.v)}
		}
		return map[string]any{"o": ms}
	}
	panic(fmt.Sprintf("docToProto: %T", v))
}

func protoToDoc(v any) any {
	switch t := v.(type) {
	case nil:
		return nil
	case bool:
		return t
	case string:
		return jstr(unhx(t))
	case []any:
		out := make(jarr, len(t))
		for i, e := range t {
			out[i] = protoToDoc(e)
		}
		return out
	case map[string]any:
		if n, ok := t["n"].([]any); ok && len(n) == 2 {
			b, _ := new(big.Int).SetString(fmt.Sprint(n[0]), 10)
			if b == nil {
				if f, ok := n[0].(float64); ok {
					b = big.NewInt(int64(f))
				}
			}
			sc := 0
			switch s := n[1].(type) {
			case float64:
				sc = int(s)
			case int:
				sc = s
			case json.Number:
				i, _ := s.Int64()
				sc = int(i)
			}
			return jnum{b, sc}
		}
		if ms, ok := t["o"].([]any); ok {
			o := &jobj{}
			for _, e := range ms {
				kv := e.([]any)
				o.members = append(o.members, jmember{unhx(kv[0]), protoToDoc(kv[1])})
			}
			return o
		}
	}
	panic(fmt.Sprintf("protoToDoc: %T", v))
}

func numText(n jnum) string {
	s := n.m.String()
	if n.s == 0 {
		return s
	}
	neg := false
	if s[0] == '-' {
		neg, s = true, s[1:]
	}
	for len(s) <= n.s {
		s = "0" + s
	}
	s = s[:len(s)-n.s] + "." + s[len(s)-n.s:]
	if neg {
		s = "-" + s
	}
	return s
}

// renderJSON renders the document as JSON text (duplicates and order preserved).
func renderJSON(v any) []byte {
	var b bytes.Buffer
	var w func(v any)
	w = func(v any) {
		switch t := v.(type) {
		case nil:
			b.WriteString("null")
		case bool:
			if t {
				b.WriteString("true")
			} else {
				b.WriteString("false")
			}
		case jnum:
			b.WriteString(numText(t))
		case jstr:
			e, _ := json.Marshal(string(t))
			b.Write(e)
		case jarr:
			b.WriteByte('[')
			for i, e := range t {
				if i > 0 {
					b.WriteByte(',')
				}
				w(e)
			}
			b.WriteByte(']')
		case *jobj:
			b.WriteByte('{')
			for i, m := range t.members {
				if i > 0 {
					b.WriteByte(',')
				}
				e, _ := json.Marshal(m.k)
				b.Write(e)
				b.WriteByte(':')
				w(m.v)
			}
			b.WriteByte('}')
		}
	}
	w(v)
	return b.Bytes()
}

// renderYAML renders the document as block-style YAML through yaml.v3 nodes.
// yamlStrNode renders a string so that every YAML reader (1.1 and 1.2 resolution) sees a string:
// plain only when the text cannot resolve to anything else, double-quoted otherwise. (A Node given
// to yaml.v3 is not subject to the YAML 1.1 compatibility quoting that yaml.v3 applies to Go
// strings — "y", "n", "0123", "1:30" would come out plain and read back as bool/int by yaml.v2.)
func yamlStrNode(s string) *yaml3.Node {
	n := &yaml3.Node{}
	n.SetString(s)
	plain := s != ""
	for i, c := range []byte(s) {
		letter := (c >= 'a' && c <= 'z') || (c >= 'A' && c <= 'Z') || c == '/'
		if !(letter || (i > 0 && ((c >= '0' && c <= '9') || c == '_' || c == '.' || c == '/' || c == '=' || c == '-'))) {
			plain = false
		}
	}
	switch strings.ToLower(s) {
	case "y", "n", "yes", "no", "on", "off", "true", "false", "null", "nan", "inf":
		plain = false
	}
	if !plain && n.Style == 0 {
		n.Style = yaml3.DoubleQuotedStyle
	}
	return n
}

func renderYAML(v any) []byte {
	var node func(v any) *yaml3.Node
	node = func(v any) *yaml3.Node {
		switch t := v.(type) {
		case nil:
			return &yaml3.Node{Kind: yaml3.ScalarNode, Tag: "!!null", Value: "null"}
		case bool:
			val := "false"
			if t {
				val = "true"
			}
			return &yaml3.Node{Kind: yaml3.ScalarNode, Tag: "!!bool", Value: val}
		case jnum:
			// no explicit tag: the encoder resolves the literal itself (integers beyond 64 bits
			// resolve to floats and must not be written with an explicit !!int tag)
			return &yaml3.Node{Kind: yaml3.ScalarNode, Value: numText(t)}
		case jstr:
			return yamlStrNode(string(t))
		case jarr:
			n := &yaml3.Node{Kind: yaml3.SequenceNode, Tag: "!!seq"}
			for _, e := range t {
				n.Content = append(n.Content, node(e))
			}
			return n
		case *jobj:
			n := &yaml3.Node{Kind: yaml3.MappingNode, Tag: "!!map"}
			for _, m := range t.members {
				n.Content = append(n.Content, yamlStrNode(m.k), node(m.v))
			}
			return n
		}
		panic(fmt.Sprintf("renderYAML: %T", v))
	}
	out, err := yaml3.Marshal(node(v))
	if err != nil {
		return []byte("!!error " + err.Error())
	}
	return append([]byte("---\n"), out...)
}
