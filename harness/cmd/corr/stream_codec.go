package main

import (
	"encoding/json"
	"fmt"
	"math/rand"
	"os"
	"path/filepath"
	"strings"
	"sync"
	"unicode/utf8"

	yaml3 "gopkg.in/yaml.v3"
	"tags.cncf.io/container-device-interface/pkg/cdi"
	specs "tags.cncf.io/container-device-interface/specs-go"
)

// codecStream — C09: whole-system write/read round trips in both encodings, and the
// law sweep of the text codecs over the string space.
type codecStream struct{}

func init() { register(codecStream{}) }

func (codecStream) Name() string          { return "codec" }
func (codecStream) TrivialTags() []string { return nil }

// per-process scratch root: concurrent runs of the harness must not share a tree
var codecRoot = scratchRoot("/tmp/cdi-verif-codec")

var yamlSensitive = []string{"yes", "no", "on", "off", "y", "n", "~", "null", "Null", "true", "False", "0123", "0o17", "0x1f", "1_000",
	"1e3", ".5", "-.inf", ".NaN", "2001-12-14", "2001-12-14T21:59:43Z", " lead", "trail ", "  ", "a\nb", "a\n", "a\r\nb", "tab\there",
	"q\"uo'te", "'single'", "\"double\"", "#comment", "a #b", "k: v", "k:v", ": x", "- x", "? x", "|", ">", "|-", "%TAG", "@at", "`tick",
	"!!str x", "&anchor", "*alias", "[a, b]", "{a: b}", "<<", "=", "a,b", "back\\slash", "é", "日本語", "😀 non-BMP", "\u2028", "\u2029",
	" nbsp", "\ufeffbom", "very long " + string(make([]byte, 0)), "---", "...", "a: b: c", "", "0", "-1", "+1", "1.0", "0b101", "1:30",
	"a\n\n", "a\n\n\n", "\n\n", "x \n\n", "a\nb\n\n", "a\n \n", "a\r\n\r\n", "trail\t\n", "\n",
	"$HOME", "${PATH}:/opt/lib", "$LD_LIBRARY_PATH:/x", "${ORIGIN}/../lib", "echo $1", "a$b$c", "$$", "$(id)", "`id`", "%s %d %%", "~root/x", "\\n", "{{.X}}", "<a&b>", "a;b|c>d"}

func sensitiveSpec(rng *rand.Rand) *specs.Spec {
	pick := func() string { return yamlSensitive[rng.Intn(len(yamlSensitive))] }
	pickNE := func() string {
		for {
			if s := pick(); s != "" {
				return s
			}
		}
	}
	s := &specs.Spec{Version: specs.CurrentVersion, Kind: "vendor.com/class", Annotations: map[string]string{"key": pick(), "a.b/c": pick()}}
	n := 1 + rng.Intn(3)
	for i := 0; i < n; i++ {
		d := specs.Device{Name: fmt.Sprintf("dev%d", i)}
		e := &d.ContainerEdits
		e.Env = []string{"A=" + pick(), "B_1=" + pick()}
		if rng.Intn(2) == 0 {
			m := os.FileMode(uint32(rng.Intn(0o7777)))
			e.DeviceNodes = []*specs.DeviceNode{{Path: "/dev/" + pickNE(), HostPath: pick(), Type: "c",
				Major: []int64{0, 1, 9223372036854775807, -9223372036854775808}[rng.Intn(4)], Minor: int64(rng.Intn(3)),
				FileMode: &m, Permissions: "rw", UID: u32p([]uint32{0, 4294967295}[rng.Intn(2)])}}
		}
		if rng.Intn(2) == 0 {
			e.Hooks = []*specs.Hook{{HookName: "poststop", Path: "/bin/" + pickNE(), Args: []string{pick(), pick()}, Env: []string{"H=" + pick()},
				Timeout: intp([]int{0, 1, -1, 9223372036854775807, -9223372036854775808}[rng.Intn(5)])}}
		}
		if rng.Intn(2) == 0 {
			e.Mounts = []*specs.Mount{{HostPath: pickNE(), ContainerPath: pickNE(), Options: []string{pick(), pick()}, Type: pick()}}
		}
		if rng.Intn(3) == 0 {
			e.IntelRdt = &specs.IntelRdt{ClosID: "clos", L3CacheSchema: pick(), MemBwSchema: pick(), EnableCMT: rng.Intn(2) == 0, EnableMBM: rng.Intn(2) == 0}
		}
		if rng.Intn(3) == 0 {
			e.AdditionalGIDs = []uint32{0, 1, 4294967295}
		}
		s.Devices = append(s.Devices, d)
	}
	if rng.Intn(2) == 0 {
		s.ContainerEdits.Env = []string{"SPEC=" + pick()}
	}
	return s
}

// sensitiveSpecPlain: a generated Spec whose strings are outside the two known-finding classes
func sensitiveSpecPlain(rng *rand.Rand) *specs.Spec {
	s := &specs.Spec{Version: specs.CurrentVersion, Kind: "vendor.com/class", ContainerEdits: specs.ContainerEdits{Env: []string{"SPEC=level"}}}
	for i := 0; i < 1+rng.Intn(3); i++ {
		s.Devices = append(s.Devices, specs.Device{Name: fmt.Sprintf("dev%d", i), ContainerEdits: specs.ContainerEdits{
			Env:    []string{fmt.Sprintf("I=%d", i), "V=" + []string{"yes", "0123", "a: b", "#c", "日本語"}[rng.Intn(5)]},
			Mounts: []*specs.Mount{{HostPath: "/h", ContainerPath: fmt.Sprintf("/c/%d", i), Options: []string{"ro", "bind"}}}}})
	}
	return s
}

func (codecStream) Generate(rng *rand.Rand, tier string, emit func(Case)) {
	n := 120
	if tier == "thorough" {
		n = 3000
	}
	for i := 0; i < n; i++ {
		emit(Case{"op": "roundtrip", "spec": specToProto(sensitiveSpec(rng))})
	}
	// a device whose edits consist of empty, non-nil lists only: such a Spec is not valid and must not be
	// written (what reads back from the file — absent lists — is rejected)
	for _, which := range []string{"env", "mounts", "all"} {
		inv := &specs.Spec{Version: specs.CurrentVersion, Kind: "vendor.com/class", Devices: []specs.Device{
			{Name: "good", ContainerEdits: specs.ContainerEdits{Env: []string{"A=b"}}}, {Name: "hollow"}}}
		emit(Case{"op": "roundtrip", "spec": specToProto(inv), "emptylists": which})
	}
	// each kind of edit alone, at Spec level and at device level (what an encoder may take for "nothing to write")
	u32 := func(v uint32) *uint32 { return &v }
	_ = u32
	for k := 0; k < 7; k++ {
		single := func() specs.ContainerEdits {
			switch k {
			case 0:
				return specs.ContainerEdits{AdditionalGIDs: []uint32{7, 8}}
			case 1:
				return specs.ContainerEdits{IntelRdt: &specs.IntelRdt{ClosID: "only"}}
			case 2:
				return specs.ContainerEdits{IntelRdt: &specs.IntelRdt{}}
			case 3:
				return specs.ContainerEdits{Mounts: []*specs.Mount{{HostPath: "/h", ContainerPath: "/c"}}}
			case 4:
				return specs.ContainerEdits{Hooks: []*specs.Hook{{HookName: "poststop", Path: "/bin/h"}}}
			case 5:
				return specs.ContainerEdits{DeviceNodes: []*specs.DeviceNode{{Path: "/dev/only"}}}
			}
			return specs.ContainerEdits{AdditionalGIDs: []uint32{0}}
		}
		atSpec := &specs.Spec{Version: specs.CurrentVersion, Kind: "vendor.com/class", ContainerEdits: single(),
			Devices: []specs.Device{{Name: "dev0", ContainerEdits: specs.ContainerEdits{Env: []string{"A=b"}}}}}
		emit(Case{"op": "roundtrip", "spec": specToProto(atSpec)})
		atDev := &specs.Spec{Version: specs.CurrentVersion, Kind: "vendor.com/class",
			Devices: []specs.Device{{Name: "dev0", ContainerEdits: specs.ContainerEdits{Env: []string{"A=b"}}}, {Name: "dev1", ContainerEdits: single()}}}
		emit(Case{"op": "roundtrip", "spec": specToProto(atDev)})
	}
	// a disk that fills up part-way (file size limit at several offsets, also exactly at entry boundaries of the YAML)
	for _, lim := range []int{1, 64, 300, 1000, 2000, 3500, 4096, 6000} {
		emit(Case{"op": "roundtrip", "spec": specToProto(variantSpec("B")), "fsize": lim})
	}
	// concurrent writers of different names through one cache
	for k := 0; k < 3; k++ {
		emit(Case{"op": "roundtrip", "spec": specToProto(sensitiveSpecPlain(rng)), "writers": 12})
	}
	// sizes: files beyond 64 KiB and 1 MiB (many devices; one very long string), both encodings
	for _, nd := range []int{400, 2500} {
		big := &specs.Spec{Version: specs.CurrentVersion, Kind: "vendor.com/class"}
		for i := 0; i < nd; i++ {
			big.Devices = append(big.Devices, specs.Device{Name: fmt.Sprintf("dev%d", i), ContainerEdits: specs.ContainerEdits{
				Env: []string{fmt.Sprintf("INDEX=%d", i), "PAD=" + strings.Repeat("x", 300)}}})
		}
		emit(Case{"op": "roundtrip", "spec": specToProto(big)})
	}
	long := &specs.Spec{Version: specs.CurrentVersion, Kind: "vendor.com/class", ContainerEdits: specs.ContainerEdits{Env: []string{"TAIL=1"}},
		Devices: []specs.Device{{Name: "dev0", ContainerEdits: specs.ContainerEdits{Env: []string{"LONG=" + strings.Repeat("y", 70000)}}}}}
	emit(Case{"op": "roundtrip", "spec": specToProto(long)})
	// every sensitive string as the last leaf of the document (where the end of the file is part of
	// the scalar) and as the first one after the header
	for _, str := range yamlSensitive {
		last := &specs.Spec{Version: specs.CurrentVersion, Kind: "vendor.com/class",
			Devices:        []specs.Device{{Name: "dev0", ContainerEdits: specs.ContainerEdits{Env: []string{"A=b"}}}},
			ContainerEdits: specs.ContainerEdits{Env: []string{"L=" + str}}}
		emit(Case{"op": "roundtrip", "spec": specToProto(last)})
		lastDev := &specs.Spec{Version: specs.CurrentVersion, Kind: "vendor.com/class",
			Devices: []specs.Device{{Name: "dev0", ContainerEdits: specs.ContainerEdits{Hooks: []*specs.Hook{{HookName: "poststop", Path: "/bin/x", Args: []string{"x", str}}}}}}}
		emit(Case{"op": "roundtrip", "spec": specToProto(lastDev)})
		first := &specs.Spec{Version: specs.CurrentVersion, Kind: "vendor.com/class", Annotations: map[string]string{"a": str},
			Devices: []specs.Device{{Name: "dev0", ContainerEdits: specs.ContainerEdits{Env: []string{"A=b"}}}}}
		emit(Case{"op": "roundtrip", "spec": specToProto(first)})
	}
	// the law sweep is driven from Execute of a single "sweep" case, which spawns one case per string
	emit(Case{"op": "sweep", "tier": tier, "seed": rng.Int63()})
}

func protoJSON(s *specs.Spec) string {
	b, _ := json.Marshal(specToProto(s))
	return string(b)
}

func rtStatus(orig *specs.Spec, path string) (st string) {
	defer func() {
		if r := recover(); r != nil {
			st = "panic"
		}
	}()
	got, err := cdi.ReadSpec(path, 0)
	if err != nil {
		return "unreadable"
	}
	if protoJSON(got.Spec) != protoJSON(orig) {
		note("altered: " + firstDiff(specToProto(orig), specToProto(got.Spec), ""))
		return "altered"
	}
	return "equal"
}

func firstDiff(a, b any, path string) string {
	switch x := a.(type) {
	case map[string]any:
		y, ok := b.(map[string]any)
		if !ok {
			return path + ": kind"
		}
		for k, v := range x {
			if d := firstDiff(v, y[k], path+"."+k); d != "" {
				return d
			}
		}
		return ""
	case []any:
		y, ok := b.([]any)
		if !ok || len(x) != len(y) {
			return path + ": length"
		}
		for i := range x {
			if d := firstDiff(x[i], y[i], fmt.Sprintf("%s[%d]", path, i)); d != "" {
				return d
			}
		}
		return ""
	}
	if fmt.Sprint(a) != fmt.Sprint(b) {
		return fmt.Sprintf("%s: %q -> %q", path, unhx(a), unhx(b))
	}
	return ""
}

// stringStatus writes a one-variable Spec holding s in the given encoding and parses it back.
func stringStatus(s string, yamlEnc bool) (st string) {
	defer func() {
		if r := recover(); r != nil {
			st = "panic"
		}
	}()
	spec := &specs.Spec{Version: "0.3.0", Kind: "v.com/c", Devices: []specs.Device{{Name: "d",
		ContainerEdits: specs.ContainerEdits{Env: []string{"A=" + s}, Hooks: []*specs.Hook{{HookName: "prestart", Path: "/p", Args: []string{s}}}}}}}
	var data []byte
	var err error
	if yamlEnc {
		data, err = yaml3.Marshal(spec)
		data = append([]byte("---\n"), data...)
	} else {
		data, err = json.Marshal(spec)
	}
	if err != nil {
		return "unwritable"
	}
	got, err := cdi.ParseSpec(data)
	if err != nil || got == nil || len(got.Devices) != 1 {
		return "unreadable"
	}
	e := got.Devices[0].ContainerEdits
	if len(e.Env) != 1 || e.Env[0] != "A="+s || len(e.Hooks) != 1 || len(e.Hooks[0].Args) != 1 || e.Hooks[0].Args[0] != s {
		return "altered"
	}
	return "equal"
}

func (codecStream) Execute(c Case) {
	obs := map[string]any{}
	c["obs"] = obs
	switch c["op"] {
	case "roundtrip":
		s := protoToSpec(c["spec"])
		for _, k := range []string{"json", "yaml", "noext", "cachejson", "cacheyaml"} {
			obs[k] = "skipped"
		}
		if s == nil {
			return
		}
		if which, ok := c["emptylists"].(string); ok && len(s.Devices) > 0 {
			e := &s.Devices[len(s.Devices)-1].ContainerEdits
			if which == "env" || which == "all" {
				e.Env = []string{}
			}
			if which == "mounts" || which == "all" {
				e.Mounts = []*specs.Mount{}
				e.Hooks = []*specs.Hook{}
			}
		}
		_ = os.RemoveAll(codecRoot)
		defer os.RemoveAll(codecRoot)
		if lim := kindIdx(c["fsize"]); lim > 0 {
			// the write runs in a child whose files cannot grow beyond `lim` bytes (RLIMIT_FSIZE, the signal ignored): a
			// write that reports success has produced a file that reads back equal; one that reports failure has not
			// been "accepted for writing" and says nothing
			for _, enc := range []struct{ key, name, file string }{{"json", "t.json", "t.json"}, {"yaml", "t.yaml", "t.yaml"}, {"noext", "t", "t.yaml"}} {
				dir := filepath.Join(codecRoot, "fsize-"+enc.key)
				_ = os.MkdirAll(dir, 0o755)
				code, err := runChild(dir, enc.name, "B", "-", lim, "")
				switch {
				case err != nil || code != 0:
					obs[enc.key] = "skipped"
				default:
					obs[enc.key] = rtStatus(variantSpec("B"), filepath.Join(dir, enc.file))
				}
			}
			return
		}
		if w := kindIdx(c["writers"]); w > 0 {
			// several goroutines write their own Spec (the given one plus a marker) under their own name through one
			// cache, over and over, each reading its own file back after every write
			dir := filepath.Join(codecRoot, "conc")
			cache, _ := cdi.NewCache(cdi.WithSpecDirs(dir), cdi.WithAutoRefresh(false))
			worst := map[string]string{"json": "equal", "yaml": "equal", "noext": "equal"}
			var mu sync.Mutex
			var wg sync.WaitGroup
			for g := 0; g < w; g++ {
				wg.Add(1)
				go func(g int) {
					defer wg.Done()
					mine := *s
					mine.ContainerEdits.Env = append(append([]string{}, s.ContainerEdits.Env...), fmt.Sprintf("WRITER=%d", g))
					mine.Devices = append([]specs.Device{}, s.Devices...)
					for k := 0; k < g%3; k++ { // different sizes
						mine.Devices = append(mine.Devices, specs.Device{Name: fmt.Sprintf("extra%d", k), ContainerEdits: specs.ContainerEdits{Env: []string{"PAD=" + strings.Repeat("z", 100*(g+1))}}})
					}
					key := []string{"json", "yaml", "noext"}[g%3]
					name := fmt.Sprintf("w%d", g) + map[string]string{"json": ".json", "yaml": ".yaml", "noext": ""}[key]
					file := filepath.Join(dir, fmt.Sprintf("w%d", g)+map[string]string{"json": ".json", "yaml": ".yaml", "noext": ".yaml"}[key])
					for i := 0; i < 40; i++ {
						st := "unwritable"
						if err := cache.WriteSpec(&mine, name); err == nil {
							st = rtStatus(&mine, file)
						}
						if st != "equal" {
							mu.Lock()
							worst[key] = st
							mu.Unlock()
							return
						}
					}
				}(g)
			}
			wg.Wait()
			for k, v := range worst {
				obs[k] = v
			}
			return
		}
		for _, enc := range []struct{ key, name, file string }{{"json", "t.json", "t.json"}, {"yaml", "t.yaml", "t.yaml"}, {"noext", "t", "t.yaml"}} {
			dir := filepath.Join(codecRoot, enc.key)
			cache, _ := cdi.NewCache(cdi.WithSpecDirs(dir), cdi.WithAutoRefresh(false))
			// the name has a past: a longer Spec (the same one with more devices and a long string) was written under it
			// before, and the file has a second hard link (a backup made with ln); what is read back afterwards is the
			// Spec written last, and the backup still holds the earlier one
			longer := *s
			longer.Devices = append(append([]specs.Device{}, s.Devices...), specs.Device{Name: "zz-earlier-1", ContainerEdits: specs.ContainerEdits{Env: []string{"EARLIER=" + strings.Repeat("e", 700)}}},
				specs.Device{Name: "zz-earlier-2", ContainerEdits: specs.ContainerEdits{Env: []string{"EARLIER=2"}}})
			var earlier []byte
			if cache.WriteSpec(&longer, enc.name) == nil {
				earlier, _ = os.ReadFile(filepath.Join(dir, enc.file))
				_ = os.Link(filepath.Join(dir, enc.file), filepath.Join(dir, "backup-link"))
			}
			if err := cache.WriteSpec(s, enc.name); err != nil {
				obs[enc.key] = "unwritable"
				continue
			}
			if kept, err := os.ReadFile(filepath.Join(dir, "backup-link")); earlier != nil && (err != nil || string(kept) != string(earlier)) {
				obs[enc.key] = "altered" // the write went into the old file instead of replacing it
				_ = os.Remove(filepath.Join(dir, "backup-link"))
				continue
			}
			_ = os.Remove(filepath.Join(dir, "backup-link"))
			obs[enc.key] = rtStatus(s, filepath.Join(dir, enc.file))
			if enc.key == "noext" {
				continue
			}
			// through the cache: the same devices with the same definitions
			_ = cache.Refresh()
			st := "equal"
			for i := range s.Devices {
				d := cache.GetDevice(s.Kind + "=" + s.Devices[i].Name)
				if d == nil {
					st = "unreadable"
					break
				}
				a, _ := json.Marshal(editsToProto(&d.ContainerEdits))
				b, _ := json.Marshal(editsToProto(&s.Devices[i].ContainerEdits))
				if string(a) != string(b) {
					st = "altered"
				}
			}
			obs["cache"+enc.key] = st
		}
		// names whose extension is a case variant of a Spec extension: whatever file the writer chooses for them, the
		// cache of that directory loads it (writer, scanner and reader agree on what a Spec file is)
		if len(s.Devices) > 0 && obs["json"] == "equal" && obs["yaml"] == "equal" {
			for _, nm := range []string{"u.JSON", "u.Yaml", "u.YAML", "u.json.JSON"} {
				dir := filepath.Join(codecRoot, "casevariant")
				_ = os.RemoveAll(dir)
				cache, _ := cdi.NewCache(cdi.WithSpecDirs(dir), cdi.WithAutoRefresh(false))
				if cache.WriteSpec(s, nm) != nil {
					continue
				}
				_ = cache.Refresh()
				if cache.GetDevice(s.Kind+"="+s.Devices[0].Name) == nil {
					a, _ := obs["aux"].([]any)
					obs["aux"] = append(a, fmt.Sprintf("a Spec written under the name %q is not loaded by a cache of that directory", nm))
					break
				}
			}
		}
	case "sweep":
		c["op"] = "string"
		c["s"] = hx("plain")
		obs["json"], obs["yaml"] = stringStatus("plain", false), stringStatus("plain", true)
		tier, _ := c["tier"].(string)
		var spawned []Case
		add := func(s string, force bool) {
			j, y := stringStatus(s, false), stringStatus(s, true)
			if force || j != "equal" || y != "equal" {
				spawned = append(spawned, Case{"stream": "codec", "op": "string", "s": hx(s),
					"cps": codePoints(s), "obs": map[string]any{"json": j, "yaml": y}})
			}
		}
		swept := 0
		for cp := rune(0); cp <= 0xFFFF; cp++ {
			if cp >= 0xD800 && cp <= 0xDFFF {
				continue
			}
			swept++
			add("x"+string(cp)+"y", cp%97 == 0)
			if tier == "thorough" || cp < 0x100 || cp%16 == 0 {
				add(string(cp), false)
				add(string(cp)+" ", false)
				add(" "+string(cp), false)
			}
		}
		for cp := rune(0x10000); cp <= 0x10FFFF; cp += 257 {
			swept++
			add("x"+string(cp)+"y", cp%(257*64) == 0)
		}
		for _, s := range yamlSensitive {
			swept++
			add(s, true)
			add(s+"\n", false)
			add("  "+s, false)
		}
		obs["swept"] = swept
		c["spawn"] = spawned
	}
}

func codePoints(s string) []any {
	out := []any{}
	for len(s) > 0 {
		r, n := utf8.DecodeRuneInString(s)
		if r >= 0x7f || r < 0x20 {
			out = append(out, fmt.Sprintf("%04x", r))
		}
		s = s[n:]
	}
	return out
}
