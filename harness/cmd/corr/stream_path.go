package main

import (
	"math/rand"
	"path/filepath"
	"strconv"
	"strings"
)

// pathStream validates CdiModel/Path.lean against path/filepath (unix).
type pathStream struct{}

func init() { register(pathStream{}) }

func (pathStream) Name() string          { return "path" }
func (pathStream) TrivialTags() []string { return []string{"clean-path"} }

func (pathStream) Generate(rng *rand.Rand, tier string, emit func(Case)) {
	alpha := []byte{'/', '.', 'a', 'b'}
	maxLen := 6
	if tier == "thorough" {
		maxLen = 8
	}
	ops := []string{"clean", "base", "dir", "ext", "depth"}
	var rec func(prefix []byte, depth int)
	rec = func(prefix []byte, depth int) {
		for _, op := range ops {
			emit(Case{"op": op, "p": hx(string(prefix))})
		}
		if depth == maxLen {
			return
		}
		for _, c := range alpha {
			rec(append(append([]byte{}, prefix...), c), depth+1)
		}
	}
	rec(nil, 0)
	parts := []string{"", "/", "a", "..", ".", "etc/cdi", "/var/run/cdi", "x.json", "a.yaml", "../../etc/passwd", "a/b", "a//b/", ".json", "\x00", "é"}
	for i := 0; i < 2000; i++ {
		p := parts[rng.Intn(len(parts))]
		q := parts[rng.Intn(len(parts))]
		if rng.Intn(3) == 0 {
			p = p + "/" + parts[rng.Intn(len(parts))]
		}
		emit(Case{"op": "join", "p": hx(p), "q": hx(q)})
		emit(Case{"op": ops[rng.Intn(len(ops))], "p": hx(p + q)})
	}
}

func (pathStream) Execute(c Case) {
	p := unhx(c["p"])
	var r string
	switch c["op"] {
	case "clean":
		r = filepath.Clean(p)
	case "base":
		r = filepath.Base(p)
	case "dir":
		r = filepath.Dir(p)
	case "ext":
		r = filepath.Ext(p)
	case "join":
		r = filepath.Join(p, unhx(c["q"]))
	case "depth":
		r = strconv.Itoa(strings.Count(filepath.Clean(p), "/"))
	}
	c["obs"] = map[string]any{"s": hx(r)}
}
