package main

import (
	specs "tags.cncf.io/container-device-interface/specs-go"
)

// specToProto renders a raw CDI Spec in the line protocol's typed form:
// strings hex-encoded, numbers as JSON integers, nil pointer entries as null,
// maps as key-sorted lists.
func specToProto(s *specs.Spec) map[string]any {
	if s == nil {
		return nil
	}
	devs := make([]any, 0, len(s.Devices))
	for i := range s.Devices {
		d := &s.Devices[i]
		devs = append(devs, map[string]any{
			"name": hx(d.Name), "annotations": mapToProto(d.Annotations), "containerEdits": editsToProto(&d.ContainerEdits),
		})
	}
	return map[string]any{
		"cdiVersion": hx(s.Version), "kind": hx(s.Kind), "annotations": mapToProto(s.Annotations),
		"devices": devs, "containerEdits": editsToProto(&s.ContainerEdits),
	}
}

func optU32(p *uint32) any {
	if p == nil {
		return nil
	}
	return *p
}

func editsToProto(e *specs.ContainerEdits) map[string]any {
	if e == nil {
		return nil
	}
	nodes := make([]any, 0, len(e.DeviceNodes))
	for _, d := range e.DeviceNodes {
		if d == nil {
			nodes = append(nodes, nil)
			continue
		}
		var fm any
		if d.FileMode != nil {
			fm = uint32(*d.FileMode)
		}
		nodes = append(nodes, map[string]any{
			"path": hx(d.Path), "hostPath": hx(d.HostPath), "type": hx(d.Type), "major": d.Major, "minor": d.Minor,
			"fileMode": fm, "permissions": hx(d.Permissions), "uid": optU32(d.UID), "gid": optU32(d.GID),
		})
	}
	hooks := make([]any, 0, len(e.Hooks))
	for _, h := range e.Hooks {
		if h == nil {
			hooks = append(hooks, nil)
			continue
		}
		var to any
		if h.Timeout != nil {
			to = *h.Timeout
		}
		hooks = append(hooks, map[string]any{
			"hookName": hx(h.HookName), "path": hx(h.Path), "args": hxList(h.Args), "env": hxList(h.Env), "timeout": to,
		})
	}
	mounts := make([]any, 0, len(e.Mounts))
	for _, m := range e.Mounts {
		if m == nil {
			mounts = append(mounts, nil)
			continue
		}
		mounts = append(mounts, map[string]any{
			"hostPath": hx(m.HostPath), "containerPath": hx(m.ContainerPath), "options": hxList(m.Options), "type": hx(m.Type),
		})
	}
	var rdt any
	if e.IntelRdt != nil {
		rdt = map[string]any{
			"closID": hx(e.IntelRdt.ClosID), "l3CacheSchema": hx(e.IntelRdt.L3CacheSchema), "memBwSchema": hx(e.IntelRdt.MemBwSchema),
			"enableCMT": e.IntelRdt.EnableCMT, "enableMBM": e.IntelRdt.EnableMBM,
		}
	}
	gids := make([]any, 0, len(e.AdditionalGIDs))
	for _, g := range e.AdditionalGIDs {
		gids = append(gids, g)
	}
	return map[string]any{
		"env": hxList(e.Env), "deviceNodes": nodes, "hooks": hooks, "mounts": mounts, "intelRdt": rdt, "additionalGids": gids,
	}
}
