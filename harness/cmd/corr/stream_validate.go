package main

import (
	"fmt"
	"math/rand"
	"os"
	"path/filepath"
	"strings"
	"time"

	"tags.cncf.io/container-device-interface/pkg/cdi"
	"tags.cncf.io/container-device-interface/pkg/parser"
	specs "tags.cncf.io/container-device-interface/specs-go"
)

// validateStream — C05: documents (well-formed ones over the optional fields, and
// single-defect mutants at every position) through every admission entry point,
// in JSON and YAML.
type validateStream struct{}

func init() { register(validateStream{}) }

func (validateStream) Name() string          { return "validate" }
func (validateStream) TrivialTags() []string { return nil }

// per-process scratch root: concurrent runs of the harness must not share a tree
var validateRoot = scratchRoot("/tmp/cdi-verif-validate")

// ---- well-formed document generator

type docGen struct{ rng *rand.Rand }

func (g docGen) pick(l ...string) string { return l[g.rng.Intn(len(l))] }
func (g docGen) maybe(p int) bool        { return g.rng.Intn(100) < p }

// free draws a string of length lo..hi over an alphabet: the library puts no constraint on most
// strings, so the well-formed stream must not stay inside a handful of literals
func (g docGen) free(alphabet string, lo, hi int) string {
	n := lo + g.rng.Intn(hi-lo+1)
	b := make([]byte, n)
	for i := range b {
		b[i] = alphabet[g.rng.Intn(len(alphabet))]
	}
	return string(b)
}

const freeText = "abcxyzABC0189-_./:=,+@ "

func strs(l ...string) jarr {
	out := jarr{}
	for _, s := range l {
		out = append(out, jstr(s))
	}
	return out
}

func (g docGen) node() *jobj {
	o := obj("path", jstr(g.pick("/dev/null", "/dev/x0", "/dev/dri/card0")))
	if g.maybe(25) {
		o.set("path", jstr(g.free(freeText, 1, 40)))
	}
	if g.maybe(30) {
		o.set("hostPath", jstr(g.pick("/dev/host0", g.free(freeText, 0, 30))))
	}
	if g.maybe(60) {
		o.set("type", jstr(g.pick("b", "c", "u", "p")))
	}
	if g.maybe(40) {
		o.set("major", jint(int64(g.rng.Intn(300))))
		o.set("minor", jint(int64(g.rng.Intn(300))))
	}
	if g.maybe(10) {
		o.set("major", jbig(g.pick("9223372036854775807", "-9223372036854775808")))
	}
	if g.maybe(30) {
		o.set("fileMode", jint(int64(g.rng.Intn(0o1000))))
	}
	if g.maybe(8) {
		o.set("fileMode", jbig(g.pick("0", "4095", "65535", "2147483648", "4294967295")))
	}
	if g.maybe(40) {
		o.set("permissions", jstr(g.pick("r", "rw", "rwm", "m", "", "rrw", g.free("rwm", 0, 8), g.free("rwm", 4, 12))))
	}
	if g.maybe(30) {
		o.set("uid", jint(int64(g.rng.Intn(70000))))
		o.set("gid", jbig(g.pick("0", "1000", "4294967295")))
	}
	return o
}

func (g docGen) mount() *jobj {
	o := obj("hostPath", jstr(g.pick("/host/lib", g.free(freeText, 1, 30))), "containerPath", jstr(g.pick("/usr/lib", "/a/b/c", "/x", g.free(freeText, 1, 30))))
	if g.maybe(50) {
		o.set("options", strs("ro", "nosuid", "bind"))
	}
	if g.maybe(15) {
		o.set("options", strs(g.free(freeText, 0, 12), g.free(freeText, 0, 12)))
	}
	if g.maybe(30) {
		o.set("type", jstr(g.pick("bind", "tmpfs", g.free(freeText, 0, 12))))
	}
	return o
}

func (g docGen) hook() *jobj {
	o := obj("hookName", jstr(g.pick("prestart", "createRuntime", "createContainer", "startContainer", "poststart", "poststop")),
		"path", jstr(g.pick("/usr/bin/hook", g.free(freeText, 1, 30))))
	if g.maybe(50) {
		o.set("args", strs("hook", "--flag"))
	}
	if g.maybe(15) {
		o.set("args", strs(g.free(freeText, 0, 20), "", g.free(freeText, 0, 20)))
	}
	if g.maybe(40) {
		o.set("env", strs("A=b", "C=", "D="+g.free(freeText, 0, 20)))
	}
	if g.maybe(30) {
		o.set("timeout", jint(int64(g.rng.Intn(100))))
	}
	if g.maybe(8) {
		o.set("timeout", jbig(g.pick("0", "-1", "9223372036854775807", "-9223372036854775808")))
	}
	return o
}

func (g docGen) edits(nonEmpty bool) *jobj {
	o := obj()
	if g.maybe(60) || nonEmpty {
		o.set("env", strs("FOO=bar", g.pick("X=", "Y=a=b", "Z_1=2", g.free("abcXYZ_019", 1, 12)+"="+g.free(freeText, 0, 30))))
	}
	if g.maybe(50) {
		l := jarr{}
		for i := 0; i <= g.rng.Intn(2); i++ {
			l = append(l, g.node())
		}
		o.set("deviceNodes", l)
	}
	if g.maybe(40) {
		l := jarr{}
		for i := 0; i <= g.rng.Intn(2); i++ {
			l = append(l, g.hook())
		}
		o.set("hooks", l)
	}
	if g.maybe(40) {
		l := jarr{}
		for i := 0; i <= g.rng.Intn(2); i++ {
			l = append(l, g.mount())
		}
		o.set("mounts", l)
	}
	if g.maybe(25) {
		r := obj("closID", jstr(g.pick("cls0", "a.b", "", "...", g.free("abcXYZ019-_.", 0, 20))))
		if g.maybe(50) {
			r.set("l3CacheSchema", jstr(g.pick("L3:0=ff", g.free(freeText, 0, 20))))
			r.set("enableCMT", true)
		}
		o.set("intelRdt", r)
	}
	if g.maybe(25) {
		o.set("additionalGids", jarr{jint(0), jint(1000), jbig("4294967295")})
	}
	return o
}

func (g docGen) annotations() *jobj {
	o := obj()
	for i := 0; i <= g.rng.Intn(2); i++ {
		o.set(g.pick("vendor.com/key", "simple", "a.b-c_d", "Example.COM/Key_1", "x/y"), jstr(g.pick("v", "", "some value", g.free(freeText, 0, 60))))
	}
	return o
}

func (g docGen) spec() *jobj {
	o := obj("cdiVersion", jstr(g.pick("1.0.0", "0.8.0", "0.7.0", "v1.0.0")),
		"kind", jstr(g.pick("vendor.com/device", "v/c", "vendor.com/net.gpu", "a-b.c_d/x-1")))
	if g.maybe(30) {
		o.set("annotations", g.annotations())
	}
	devs := jarr{}
	for i := 0; i <= g.rng.Intn(3); i++ {
		d := obj("name", jstr(fmt.Sprintf("%s%d", g.pick("dev", "gpu", "0", "a:b.c-"), i)))
		if g.maybe(25) {
			d.set("annotations", g.annotations())
		}
		d.set("containerEdits", g.edits(true))
		devs = append(devs, d)
	}
	o.set("devices", devs)
	if g.maybe(50) {
		o.set("containerEdits", g.edits(false))
	}
	return o
}

// ---- single-defect mutations

type target struct {
	o     *jobj
	level string
}

func collectObjects(doc *jobj) []target {
	out := []target{{doc, "spec"}}
	edits := func(e any, lvl string) {
		eo, ok := e.(*jobj)
		if !ok {
			return
		}
		out = append(out, target{eo, lvl + "-edits"})
		for _, k := range []string{"deviceNodes", "hooks", "mounts"} {
			if l, ok := eo.get(k); ok {
				if arr, ok := l.(jarr); ok {
					for _, x := range arr {
						if xo, ok := x.(*jobj); ok {
							out = append(out, target{xo, lvl + "-" + k})
						}
					}
				}
			}
		}
		if r, ok := eo.get("intelRdt"); ok {
			if ro, ok := r.(*jobj); ok {
				out = append(out, target{ro, lvl + "-intelRdt"})
			}
		}
	}
	if e, ok := doc.get("containerEdits"); ok {
		edits(e, "spec")
	}
	if d, ok := doc.get("devices"); ok {
		if arr, ok := d.(jarr); ok {
			for i, x := range arr {
				if xo, ok := x.(*jobj); ok {
					pos := "mid"
					if i == 0 {
						pos = "first"
					} else if i == len(arr)-1 {
						pos = "last"
					}
					out = append(out, target{xo, "device-" + pos})
					if e, ok := xo.get("containerEdits"); ok {
						edits(e, "device-"+pos)
					}
				}
			}
		}
	}
	return out
}

var mutationKinds = []string{"unknown-member", "duplicate-member", "wrong-type", "null-member", "null-entry", "bad-version",
	"low-version", "bad-kind", "no-devices", "dup-device", "empty-edits", "bad-env", "bad-node", "bad-hook", "bad-mount",
	"bad-rdt", "bad-annotation", "num-range", "bad-devname", "fraction"}

// mutate applies one defect of the given kind at a random applicable position.
// Returns a label, or "" when the kind does not apply to this document.
func (g docGen) mutate(doc *jobj, kind string) string {
	objs := collectObjects(doc)
	byLevel := func(suffix string) []target {
		var l []target
		for _, t := range objs {
			if strings.HasSuffix(t.level, suffix) {
				l = append(l, t)
			}
		}
		return l
	}
	pickT := func(l []target) (target, bool) {
		if len(l) == 0 {
			return target{}, false
		}
		return l[g.rng.Intn(len(l))], true
	}
	devs, _ := doc.get("devices")
	devArr, _ := devs.(jarr)
	switch kind {
	case "unknown-member":
		t, _ := pickT(objs)
		t.o.set(g.pick("extra", "Path2", "cdiversion2", "x-unknown"), jstr("v"))
		return kind + "@" + t.level
	case "duplicate-member":
		t, _ := pickT(objs)
		if len(t.o.members) == 0 {
			return ""
		}
		m := t.o.members[g.rng.Intn(len(t.o.members))]
		t.o.members = append(t.o.members, jmember{m.k, cloneDoc(m.v)})
		return kind + "@" + t.level
	case "wrong-type":
		t, _ := pickT(objs)
		if len(t.o.members) == 0 {
			return ""
		}
		i := g.rng.Intn(len(t.o.members))
		switch t.o.members[i].v.(type) {
		case jstr:
			// numbers/bools for string fields are stringified by sigs.k8s.io/yaml: outside the
			// modelled document space (DESIGN I5); only structurally wrong types are generated
			t.o.members[i].v = g.pickAny(jarr{}, jarr{jstr("x")}, obj())
		case jnum:
			t.o.members[i].v = g.pickAny(jstr("5"), jarr{jint(1)}, true)
		case jarr:
			t.o.members[i].v = g.pickAny(jstr("x"), obj("a", jstr("b")), jint(1))
		case *jobj:
			t.o.members[i].v = g.pickAny(jstr("x"), jarr{jstr("a")}, jint(1))
		case bool:
			t.o.members[i].v = g.pickAny(jstr("true"), jint(1))
		default:
			return ""
		}
		return kind + "@" + t.level + "." + t.o.members[i].k
	case "null-member":
		t, _ := pickT(objs)
		if len(t.o.members) == 0 {
			return ""
		}
		i := g.rng.Intn(len(t.o.members))
		t.o.members[i].v = nil
		return kind + "@" + t.level + "." + t.o.members[i].k
	case "null-entry":
		t, ok := pickT(byLevel("-edits"))
		if !ok {
			return ""
		}
		k := g.pick("deviceNodes", "hooks", "mounts", "env", "additionalGids")
		cur, _ := t.o.get(k)
		arr, _ := cur.(jarr)
		i := 0
		if len(arr) > 0 {
			i = g.rng.Intn(len(arr) + 1)
		}
		na := append(jarr{}, arr[:i]...)
		na = append(na, nil)
		na = append(na, arr[i:]...)
		t.o.set(k, na)
		return kind + "@" + t.level + "." + k
	case "bad-version":
		doc.set("cdiVersion", jstr(g.pick("", "0.9.0", "1.0", "1.0.1", "2.0.0", "v", "vv1.0.0", "1.0.0 ", "0.5.0-rc1")))
		return kind
	case "low-version":
		doc.set("cdiVersion", jstr(g.pick("0.1.0", "0.2.0", "0.3.0", "0.4.0", "0.5.0", "0.6.0")))
		return kind
	case "bad-kind":
		doc.set("kind", jstr(g.pick("", "vendor", "/class", "vendor/", "ven dor/class", "vendor/cl ass", "1vendor/class", "vendor/class-",
			"vendor/class/x", "vendor.com/class=x", "-v/c", "v_/c", "é/c",
			"vendor.com/gpu:v2", "ven:dor.com/class", "vendor.com/cl+ass", "v@ndor.com/class", "vendor.com/cl,ass", "vendor.com/cl ass", "ven;dor/class", "vendor.com/c:s")))
		return kind
	case "no-devices":
		if g.maybe(50) {
			doc.del("devices")
		} else {
			doc.set("devices", jarr{})
		}
		return kind
	case "dup-device":
		if len(devArr) == 0 {
			return ""
		}
		d := cloneDoc(devArr[g.rng.Intn(len(devArr))])
		i := g.rng.Intn(len(devArr) + 1)
		na := append(jarr{}, devArr[:i]...)
		na = append(na, d)
		na = append(na, devArr[i:]...)
		doc.set("devices", na)
		return kind
	case "empty-edits":
		t, ok := pickT(append(append(byLevel("device-first"), byLevel("device-mid")...), byLevel("device-last")...))
		if !ok {
			return ""
		}
		switch g.rng.Intn(3) {
		case 0:
			t.o.del("containerEdits")
		case 1:
			t.o.set("containerEdits", obj())
		case 2:
			t.o.set("containerEdits", obj("env", jarr{}, "mounts", jarr{}))
		}
		return kind + "@" + t.level
	case "bad-env":
		t, ok := pickT(append(byLevel("-edits"), byLevel("-hooks")...))
		if !ok {
			return ""
		}
		cur, _ := t.o.get("env")
		arr, _ := cur.(jarr)
		bad := jstr(g.pick("NOEQUALS", "=value", "", "="))
		i := g.rng.Intn(len(arr) + 1)
		na := append(jarr{}, arr[:i]...)
		na = append(na, bad)
		na = append(na, arr[i:]...)
		t.o.set("env", na)
		return kind + "@" + t.level
	case "bad-node":
		t, ok := pickT(byLevel("-deviceNodes"))
		if !ok {
			return ""
		}
		switch g.rng.Intn(4) {
		case 0:
			t.o.set("path", jstr(""))
		case 1:
			t.o.del("path")
		case 2:
			t.o.set("type", jstr(g.pick("x", "block", "bc", " ", "B")))
		case 3:
			t.o.set("permissions", jstr(g.pick("rwx", "a", "r w", "RW", "rwmé")))
		}
		return kind + "@" + t.level
	case "bad-hook":
		t, ok := pickT(byLevel("-hooks"))
		if !ok {
			return ""
		}
		switch g.rng.Intn(3) {
		case 0:
			t.o.set("hookName", jstr(g.pick("", "preStart", "prestart ", "poststartx", "createruntime")))
		case 1:
			t.o.set("path", jstr(""))
		case 2:
			t.o.del("hookName")
		}
		return kind + "@" + t.level
	case "bad-mount":
		t, ok := pickT(byLevel("-mounts"))
		if !ok {
			return ""
		}
		switch g.rng.Intn(3) {
		case 0:
			t.o.set("hostPath", jstr(""))
		case 1:
			t.o.set("containerPath", jstr(""))
		case 2:
			t.o.del(g.pick("hostPath", "containerPath"))
		}
		if g.maybe(60) {
			// the defect must reject whatever the other members say
			t.o.set("type", jstr(g.pick("tmpfs", "bind", "")))
		}
		if g.maybe(25) {
			t.o.set("options", strs(g.pick("ro", "rw", "size=1m", "")))
		}
		return kind + "@" + t.level
	case "bad-rdt":
		t, ok := pickT(byLevel("-edits"))
		if !ok {
			return ""
		}
		t.o.set("intelRdt", obj("closID", jstr(g.pick(".", "..", "a/b", "a\nb", "/", strings.Repeat("x", 4096)))))
		return kind + "@" + t.level
	case "bad-annotation":
		t, ok := pickT(append([]target{{doc, "spec"}}, append(byLevel("device-first"), byLevel("device-last")...)...))
		if !ok {
			return ""
		}
		a := obj("ok.key", jstr("v"))
		switch g.rng.Intn(7) {
		case 5:
			// the size limit is on the total of keys and values, not per entry: several entries, each within the limit
			n := 2 + g.rng.Intn(2)
			for i := 0; i < n; i++ {
				a.set(fmt.Sprintf("part%d", i), jstr(strings.Repeat("v", 300*1024/n)))
			}
		case 6:
			// exactly one byte over the limit in total ("ok.key"+"v" = 7 bytes, "k1"/"k2" = 4 bytes)
			a.set("k1", jstr(strings.Repeat("a", 131072)))
			a.set("k2", jstr(strings.Repeat("b", 262144-131072-7-4+1)))
		case 0:
			a.set(g.pick("bad key!", "", "a/b/c", "/x", "x/", "-x", "x-", "UPPER.com/-bad", "a..b/x", strings.Repeat("n", 64)), jstr("v"))
		case 1:
			a.set("vendor.com/"+strings.Repeat("k", 64), jstr("v"))
		case 2:
			a.set("big", jstr(strings.Repeat("v", 256*1024)))
		case 3:
			a.set("notstring", g.pickAny(jarr{}, obj("a", jstr("b")), jarr{jstr("x")}))
		case 4:
			a.set(strings.Repeat("p", 254)+"/name", jstr("v"))
		}
		t.o.set("annotations", a)
		return kind + "@" + t.level
	case "num-range":
		t, ok := pickT(append(byLevel("-deviceNodes"), byLevel("-hooks")...))
		if !ok {
			return ""
		}
		if strings.HasSuffix(t.level, "-hooks") {
			t.o.set("timeout", jbig(g.pick("9223372036854775808", "-9223372036854775809")))
		} else {
			switch g.rng.Intn(4) {
			case 0:
				t.o.set("major", jbig(g.pick("9223372036854775808", "-9223372036854775809", "100000000000000000000")))
			case 1:
				t.o.set("uid", jbig(g.pick("4294967296", "-1")))
			case 2:
				t.o.set("fileMode", jbig(g.pick("4294967296", "-1")))
			case 3:
				t.o.set("gid", jbig("-5"))
			}
		}
		return kind + "@" + t.level
	case "fraction":
		t, ok := pickT(byLevel("-deviceNodes"))
		if !ok {
			return ""
		}
		t.o.set(g.pick("major", "minor", "uid"), jnum{jint(15).m, 1})
		return kind + "@" + t.level
	case "bad-devname":
		if len(devArr) == 0 {
			return ""
		}
		d, ok := devArr[g.rng.Intn(len(devArr))].(*jobj)
		if !ok {
			return ""
		}
		d.set("name", jstr(g.pick("", "-dev", "dev-", "de v", "dev/0", "dev=0", ":dev", "dév", "*")))
		return kind
	}
	return ""
}

func (g docGen) pickAny(l ...any) any { return l[g.rng.Intn(len(l))] }

func (validateStream) Generate(rng *rand.Rand, tier string, emit func(Case)) {
	g := docGen{rng}
	nValid, perKind := 150, 25
	if tier == "thorough" {
		nValid, perKind = 4000, 800
	}
	for i := 0; i < nValid; i++ {
		emit(Case{"op": "admit_doc", "doc": docToProto(g.spec()), "label": "well-formed"})
	}
	// annotations of exactly the maximal total size (256 KiB of keys and values) are admitted
	for _, where := range []string{"spec", "device"} {
		d := g.spec()
		a := obj("k1", jstr(strings.Repeat("a", 131072)), "k2", jstr(strings.Repeat("b", 262144-131072-4)))
		if where == "spec" {
			d.set("annotations", a)
		} else if devs, _ := d.get("devices"); len(devs.(jarr)) > 0 {
			devs.(jarr)[0].(*jobj).set("annotations", a)
		}
		emit(Case{"op": "admit_doc", "doc": docToProto(d), "label": "annotations-at-size-limit"})
	}
	// documents larger than 1 MiB: well-formed, and with their only defect in the last device, beyond the first MiB
	for _, defect := range []string{"", "name", "env", "extra"} {
		d := obj("cdiVersion", jstr("0.6.0"), "kind", jstr("vendor.com/class"), "devices", jarr{
			obj("name", jstr("dev0"), "containerEdits", obj("env", jarr{jstr("PAD=" + strings.Repeat("x", 1200000))})),
			obj("name", jstr("dev1"), "containerEdits", obj("env", jarr{jstr("A=b")}))})
		devs, _ := d.get("devices")
		last := devs.(jarr)[1].(*jobj)
		switch defect {
		case "name":
			last.set("name", jstr("bad name!"))
		case "env":
			last.set("containerEdits", obj("env", jarr{jstr("NOASSIGNMENT")}))
		case "extra":
			last.set("unknownField", jstr("x"))
		}
		emit(Case{"op": "admit_doc", "doc": docToProto(d), "label": "beyond-1MiB-" + defect})
	}
	for _, kind := range mutationKinds {
		for i := 0; i < perKind; i++ {
			d := g.spec()
			label := g.mutate(d, kind)
			if label == "" {
				continue
			}
			emit(Case{"op": "admit_doc", "doc": docToProto(d), "label": label})
		}
	}
	// boundary of the version rule on device names: every first character around the digit range,
	// at both device positions, declared as the versions on either side of the rule
	for _, first := range []string{"/", "0", "1", "5", "8", "9", ":", "a", "_"} {
		for pos := 0; pos < 2; pos++ {
			for _, v := range []string{"0.3.0", "0.4.0", "0.5.0"} {
				names := []string{"plain", "other"}
				names[pos] = first + "gpu"
				d := obj()
				d.set("cdiVersion", jstr(v))
				d.set("kind", jstr("vendor.com/class"))
				var devs jarr
				for _, n := range names {
					dev, edits := obj(), obj()
					edits.set("env", jarr{jstr("A=b")})
					dev.set("name", jstr(n))
					dev.set("containerEdits", edits)
					devs = append(devs, dev)
				}
				d.set("devices", devs)
				emit(Case{"op": "admit_doc", "doc": docToProto(d), "label": "digit-name-boundary"})
			}
		}
	}
	// a few non-object documents
	for _, d := range []any{nil, jarr{}, jstr("x"), jint(1), true, obj()} {
		emit(Case{"op": "admit_doc", "doc": docToProto(d), "label": "non-spec-document"})
	}
}

func admitVerdict(f func() error) (v string) {
	defer func() {
		if r := recover(); r != nil {
			v = "panicked"
		}
	}()
	if err := f(); err != nil {
		return "rejected"
	}
	return "accepted"
}

func (validateStream) Execute(c Case) {
	obs := map[string]any{}
	c["obs"] = obs
	switch c["op"] {
	case "admit_doc":
		doc := protoToDoc(c["doc"])
		jsonText, yamlText := renderJSON(doc), renderYAML(doc)
		_ = os.RemoveAll(validateRoot)
		defer os.RemoveAll(validateRoot)
		dj, dy := filepath.Join(validateRoot, "j"), filepath.Join(validateRoot, "y")
		_ = os.MkdirAll(dj, 0o755)
		_ = os.MkdirAll(dy, 0o755)
		pj, py := filepath.Join(dj, "spec.json"), filepath.Join(dy, "spec.yaml")
		_ = os.WriteFile(pj, jsonText, 0o644)
		_ = os.WriteFile(py, yamlText, 0o644)
		obs["json"] = admitVerdict(func() error { _, err := cdi.ReadSpec(pj, 0); return err })
		obs["yaml"] = admitVerdict(func() error { _, err := cdi.ReadSpec(py, 0); return err })
		refresh := func(dir, path string) string {
			return admitVerdict(func() error {
				cache, _ := cdi.NewCache(cdi.WithSpecDirs(dir), cdi.WithAutoRefresh(false))
				_ = cache.Refresh()
				if errs := cache.GetErrors()[path]; len(errs) > 0 {
					return errs[0]
				}
				return nil
			})
		}
		// the same through a cache with a past: it loaded another document from this very path - a well-formed one, or
		// one that does not parse - which was then replaced in place by the document under test, same size, same
		// modification time (cp -p, rsync -t). Admission is a function of what the file holds now.
		hist := func(dir, path string, text []byte, pastGood bool) string {
			past := []byte(`{"cdiVersion":"0.6.0","kind":"past.com/c","devices":[{"name":"d","containerEdits":{"env":["A=b"]}}]}`)
			if !pastGood {
				past = []byte("{ this is : not [ a spec")
			}
			n := len(text)
			if len(past) > n {
				n = len(past)
			}
			pad := func(b []byte) []byte {
				return append(append([]byte{}, b...), []byte(strings.Repeat("\n", n-len(b)))...)
			}
			stamp := time.Unix(1700000000, 0)
			return admitVerdict(func() error {
				_ = os.WriteFile(path, pad(past), 0o644)
				_ = os.Chtimes(path, stamp, stamp)
				cache, _ := cdi.NewCache(cdi.WithSpecDirs(dir), cdi.WithAutoRefresh(false))
				_ = cache.Refresh()
				_ = cache.ListDevices()
				if f, err := os.OpenFile(path, os.O_WRONLY, 0); err == nil { // in place: same inode, no truncation needed
					_, _ = f.Write(pad(text))
					_ = f.Close()
				}
				_ = os.Chtimes(path, stamp, stamp)
				_ = cache.Refresh()
				errs := cache.GetErrors()[path]
				_ = os.WriteFile(path, text, 0o644)
				if len(errs) > 0 {
					return errs[0]
				}
				return nil
			})
		}
		fj, fy := refresh(dj, pj), refresh(dy, py)
		pastGood := (len(jsonText)+len(yamlText))%2 == 0
		if hj := hist(dj, pj, jsonText, pastGood); hj != fj {
			fj = hj
		}
		if hy := hist(dy, py, yamlText, !pastGood); hy != fy {
			fy = hy
		}
		obs["refresh_json"] = fj
		obs["refresh_yaml"] = fy
		// the writer's gate on the typed value obtained from the JSON text
		obs["write"] = "skipped"
		func() {
			defer func() {
				if r := recover(); r != nil {
					obs["write"] = "panicked"
				}
			}()
			raw, err := cdi.ParseSpec(jsonText)
			if err != nil || raw == nil {
				return
			}
			aux := validateAux(raw, obs["json"] == "accepted")
			// admission is a function of the document: after every name of the document has been through the other
			// name validators (a vendor as a device name, a device name as a class, ...) the verdict is the same
			names := []string{raw.Kind}
			if v, cl := parser.ParseQualifier(raw.Kind); v != "" {
				names = append(names, v, cl)
			}
			for i := range raw.Devices {
				names = append(names, raw.Devices[i].Name)
			}
			func() {
				defer func() { _ = recover() }()
				for _, nm := range names {
					_, _, _ = parser.ValidateDeviceName(nm), parser.ValidateVendorName(nm), parser.ValidateClassName(nm)
					_ = parser.IsQualifiedName("primer.com/class=" + nm)
					_ = parser.IsQualifiedName(nm + "/" + nm + "=" + nm)
				}
			}()
			if again := admitVerdict(func() error { _, err := cdi.ReadSpec(pj, 0); return err }); again != obs["json"] {
				aux = append(aux, fmt.Sprintf("ReadSpec of the same file: %v at first, %s after its names went through the name validators", obs["json"], again))
			}
			obs["aux"] = aux
			dw := filepath.Join(validateRoot, "w")
			cache, _ := cdi.NewCache(cdi.WithSpecDirs(dw), cdi.WithAutoRefresh(false))
			if err := cache.WriteSpec(raw, "out.json"); err != nil {
				obs["write"] = "rejected"
			} else {
				obs["write"] = "accepted"
			}
		}()
	}
}

// validateAux: the exported component validators are the parts validation is made of. For every edit block
// of the typed Spec, ContainerEdits.Validate must accept iff every part is accepted by its own validator
// (ValidateEnv, DeviceNode/Hook/Mount/IntelRdt.Validate, nil entries rejected); the deprecated ValidateIntelRdt
// must agree with IntelRdt.Validate; a Spec admitted as a whole has only admissible parts; the wrappers accept
// a nil receiver / nil block.
func validateAux(raw *specs.Spec, admitted bool) (aux []any) {
	aux = []any{}
	defer func() {
		if r := recover(); r != nil {
			aux = append(aux, fmt.Sprintf("a component validator panicked: %v", r))
		}
	}()
	bad := func(f string, a ...any) { aux = append(aux, fmt.Sprintf(f, a...)) }
	block := func(where string, e *specs.ContainerEdits) {
		parts := cdi.ValidateEnv(e.Env) == nil
		for _, d := range e.DeviceNodes {
			if d == nil || (&cdi.DeviceNode{DeviceNode: d}).Validate() != nil {
				parts = false
			}
		}
		for _, h := range e.Hooks {
			if h == nil || (&cdi.Hook{Hook: h}).Validate() != nil {
				parts = false
			}
			if h != nil && (&cdi.Hook{Hook: h}).Validate() == nil && cdi.ValidateEnv(h.Env) != nil {
				bad("%s: hook accepted with an env that ValidateEnv rejects", where)
			}
		}
		for _, m := range e.Mounts {
			if m == nil || (&cdi.Mount{Mount: m}).Validate() != nil {
				parts = false
			}
		}
		if e.IntelRdt != nil {
			a, b := (&cdi.IntelRdt{IntelRdt: e.IntelRdt}).Validate() == nil, cdi.ValidateIntelRdt(e.IntelRdt) == nil
			if a != b {
				bad("%s: ValidateIntelRdt accepts=%v, IntelRdt.Validate accepts=%v", where, b, a)
			}
			if !a {
				parts = false
			}
		}
		whole := (&cdi.ContainerEdits{ContainerEdits: e}).Validate() == nil
		if whole != parts {
			bad("%s: ContainerEdits.Validate accepts=%v but its parts accept=%v", where, whole, parts)
		}
		if admitted && !whole {
			bad("%s: the Spec was admitted but ContainerEdits.Validate rejects this block", where)
		}
	}
	block("spec", &raw.ContainerEdits)
	for i := range raw.Devices {
		block(fmt.Sprintf("device %d", i), &raw.Devices[i].ContainerEdits)
	}
	if (*cdi.ContainerEdits)(nil).Validate() != nil || (&cdi.ContainerEdits{}).Validate() != nil {
		bad("ContainerEdits.Validate rejects nil edits")
	}
	if admitted {
		if err := specs.ValidateVersion(raw); err != nil {
			bad("the Spec was admitted but specs.ValidateVersion rejects it: %v", err)
		}
		if err := parser.ValidateVendorName(vendorOf(raw.Kind)); err != nil {
			bad("the Spec was admitted but its vendor is invalid: %v", err)
		}
		for i := range raw.Devices {
			if err := parser.ValidateDeviceName(raw.Devices[i].Name); err != nil {
				bad("the Spec was admitted but device %d has an invalid name: %v", i, err)
			}
		}
	}
	return aux
}

func vendorOf(kind string) string { v, _ := parser.ParseQualifier(kind); return v }
