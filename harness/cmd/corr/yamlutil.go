package main

import (
	yaml3 "gopkg.in/yaml.v3"
	"sigs.k8s.io/yaml"
)

func yaml3Marshal(v any) ([]byte, error) { return yaml3.Marshal(v) }

func yamlToJSON(data []byte) ([]byte, error) { return yaml.YAMLToJSON(data) }
func jsonToYAML(data []byte) ([]byte, error) { return yaml.JSONToYAML(data) }
