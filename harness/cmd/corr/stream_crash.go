package main

import (
	"bytes"
	"context"
	"encoding/hex"
	"encoding/json"
	"fmt"
	"math/rand"
	"os"
	"os/exec"
	"path/filepath"
	"strings"
	"time"

	oci "github.com/opencontainers/runtime-spec/specs-go"
	"tags.cncf.io/container-device-interface/pkg/cdi"
	"tags.cncf.io/container-device-interface/pkg/parser"
	"tags.cncf.io/container-device-interface/schema"
	specs "tags.cncf.io/container-device-interface/specs-go"
)

// crashStream — C08: byte-level mutations of Spec documents (both encodings), of annotation maps
// and of names, through every entry point the property names; auto-refresh caches fed with the
// same files in a child process (a panic on the watcher goroutine kills the process).
type crashStream struct{}

func init() {
	register(crashStream{})
	childModes["crashwatch"] = childCrashWatch
}

func (crashStream) Name() string          { return "crash" }
func (crashStream) TrivialTags() []string { return nil }

var crashSeedsJSON = []string{
	`{"cdiVersion":"0.7.0","kind":"vendor.com/class","devices":[{"name":"dev0","containerEdits":{"env":["A=b"],"deviceNodes":[{"path":"/dev/null","type":"c","major":1,"minor":3,"fileMode":438,"permissions":"rw","uid":0,"gid":0}],"hooks":[{"hookName":"prestart","path":"/bin/hook","args":["a","b"],"env":["X=y"],"timeout":5}],"mounts":[{"hostPath":"/a","containerPath":"/b","options":["ro"],"type":"bind"}],"intelRdt":{"closID":"c","l3CacheSchema":"L3:0=f","memBwSchema":"MB:0=1","enableCMT":true},"additionalGids":[1,2]}}],"containerEdits":{"env":["S=1"]},"annotations":{"a.b/c":"d"}}`,
	`{"cdiVersion":"0.3.0","kind":"a.b/c","devices":[{"name":"d","containerEdits":{"deviceNodes":[null]}}]}`,
	`{"cdiVersion":"0.5.0","kind":"a.b/c","devices":[{"name":"d","containerEdits":{"hooks":[null],"mounts":[null]}}]}`,
	`{"cdiVersion":"0.6.0","kind":"a/b","devices":[{"name":"d","containerEdits":{"env":["A=b"]}}]}`,
	`{"cdiVersion":"0.6.0","kind":"vendor.com/class","devices":[{"name":"d","annotations":{"k":1},"containerEdits":{"env":["A=b"]}}]}`,
}

var crashSeedsYAML = []string{
	"---\ncdiVersion: \"0.7.0\"\nkind: vendor.com/class\nannotations:\n  a.b/c: d\ndevices:\n  - name: dev0\n    containerEdits:\n      env:\n        - A=b\n      deviceNodes:\n        - path: /dev/null\n          type: c\n          major: 1\n          minor: 3\n          permissions: rw\n      hooks:\n        - hookName: prestart\n          path: /bin/hook\n          args: [a, b]\n      mounts:\n        - hostPath: /a\n          containerPath: /b\n          options: [ro]\ncontainerEdits:\n  env: [S=1]\n",
	"cdiVersion: 0.5.0\nkind: a.b/c\ndevices:\n- name: d\n  containerEdits:\n    deviceNodes:\n    - ~\n    hooks: [null]\n    mounts: [~]\n",
	"a: &a [x,x,x,x,x,x,x,x,x]\nb: &b [*a,*a,*a,*a,*a,*a,*a,*a,*a]\nc: &c [*b,*b,*b,*b,*b,*b,*b,*b,*b]\nd: &d [*c,*c,*c,*c,*c,*c,*c,*c,*c]\ne: &e [*d,*d,*d,*d,*d,*d,*d,*d,*d]\nf: &f [*e,*e,*e,*e,*e,*e,*e,*e,*e]\ncdiVersion: 0.6.0\nkind: a.b/c\ndevices: *f\n",
	"cdiVersion: 0.6.0\nkind: a.b/c\ndevices:\n- name: d\n  containerEdits:\n    env: &e [A=b]\n    <<: {mounts: [null]}\n",
}

var crashTokens = []string{"null", "[]", "{}", "[null]", "{\"\":null}", "\"\"", "0", "-1", "1e999", "18446744073709551616", "-9223372036854775809",
	"true", "\"a/b\"", "\"/\"", "\"=\"", "\"v.com/c=d\"", "\"\\u0000\"", "\"\xff\xfe\"", "~", "*x", "&x", "!!binary x", "!!set {a}", "? a", "|", ">", "- - - -",
	"\t", "\n", "\r\n", "\x00", ",", ":", "{", "}", "[", "]", "\"", "'", "#", "%", "---", "..."}

func mutateBytes(rng *rand.Rand, b []byte) []byte {
	out := append([]byte{}, b...)
	for k := 1 + rng.Intn(4); k > 0; k-- {
		if len(out) == 0 {
			out = []byte(crashTokens[rng.Intn(len(crashTokens))])
			continue
		}
		p := rng.Intn(len(out))
		switch rng.Intn(9) {
		case 0:
			out[p] ^= 1 << uint(rng.Intn(8))
		case 1:
			out = append(out[:p], out[min(len(out), p+1+rng.Intn(8)):]...)
		case 2:
			tok := crashTokens[rng.Intn(len(crashTokens))]
			out = append(out[:p], append([]byte(tok), out[p:]...)...)
		case 3:
			out = out[:p]
		case 4:
			q := min(len(out), p+rng.Intn(40))
			out = append(out[:q], append(append([]byte{}, out[p:q]...), out[q:]...)...)
		case 5:
			// replace a JSON value: from a ':' to the next ',' or '}'
			if i := bytes.IndexByte(out[p:], ':'); i >= 0 {
				s := p + i + 1
				e := s
				for e < len(out) && out[e] != ',' && out[e] != '}' && out[e] != '\n' {
					e++
				}
				tok := crashTokens[rng.Intn(len(crashTokens))]
				out = append(out[:s], append([]byte(tok), out[e:]...)...)
			}
		case 6:
			out[p] = byte(rng.Intn(256))
		case 7:
			depth := 50 + rng.Intn(3000)
			open := []string{"[", "{\"a\":", "- "}[rng.Intn(3)]
			out = append(out[:p], append([]byte(strings.Repeat(open, depth)), out[p:]...)...)
		case 8:
			long := strings.Repeat(string(rune('a'+rng.Intn(26))), 64+rng.Intn(5000))
			out = append(out[:p], append([]byte(long), out[p:]...)...)
		}
	}
	return out
}

// structural mutation: the document stays well-formed JSON; one to three values change to
// typed edge values (mostly-valid stream)
var crashValues = []any{nil, "", "x", "a/b", "v.com/c=d", "0.6.0", "0.1.0", "9.9.9", "prestart", "bogus", "/dev/x", "c", "rwm", "rwx",
	0, 1, -1, 4294967295, 4294967296, 1e30, 1.5, true, false, []any{}, []any{nil}, []any{"A=b"}, []any{"noequals"}, map[string]any{},
	map[string]any{"path": "/dev/y"}, map[string]any{"hostPath": "/h", "containerPath": "/c"}, map[string]any{"hookName": "poststop", "path": "/p"},
	map[string]any{"a.b/c": "v"}, map[string]any{"bad key!": "v"}, "\x00", strings.Repeat("a", 300)}

func structMutate(rng *rand.Rand, v any, budget *int) any {
	if *budget > 0 && rng.Intn(12) == 0 {
		*budget--
		return crashValues[rng.Intn(len(crashValues))]
	}
	switch x := v.(type) {
	case map[string]any:
		out := map[string]any{}
		for k, e := range x {
			if *budget > 0 && rng.Intn(25) == 0 {
				*budget--
				continue // drop a member
			}
			out[k] = structMutate(rng, e, budget)
		}
		if *budget > 0 && rng.Intn(20) == 0 {
			*budget--
			out[[]string{"extra", "name", "kind", "containerEdits", "devices", "annotations", "hostPath", "", "\n"}[rng.Intn(9)]] = crashValues[rng.Intn(len(crashValues))]
		}
		return out
	case []any:
		var out []any
		for _, e := range x {
			out = append(out, structMutate(rng, e, budget))
			if *budget > 0 && rng.Intn(15) == 0 {
				*budget--
				out = append(out, structMutate(rng, e, budget)) // duplicate an element
			}
		}
		if out == nil {
			out = []any{}
		}
		return out
	}
	return v
}

func structMutant(rng *rand.Rand) []byte {
	var doc any
	_ = json.Unmarshal([]byte(crashSeedsJSON[0]), &doc)
	budget := 1 + rng.Intn(3)
	doc = structMutate(rng, doc, &budget)
	b, _ := json.Marshal(doc)
	return b
}

func crashMutateString(rng *rand.Rand, s string) string {
	b := mutateBytes(rng, []byte(s))
	if len(b) > 400 {
		b = b[:400]
	}
	return string(b)
}

func (crashStream) Generate(rng *rand.Rand, tier string, emit func(Case)) {
	n := 400
	if tier == "thorough" {
		n = 12000
	}
	for _, s := range crashSeedsJSON {
		emit(Case{"op": "file", "ext": ".json", "data": hx(s)})
	}
	for _, s := range crashSeedsYAML {
		emit(Case{"op": "file", "ext": ".yaml", "data": hx(s)})
	}
	// annotation maps with keys the schema's patternProperties do not cover and values of every type,
	// at Spec and device level, in both encodings
	for _, key := range []string{"", "\n", " ", "a", "a.b/c"} {
		for _, val := range []any{1, 1.5, true, nil, []any{}, []any{"x"}, map[string]any{}, map[string]any{"a": "b"}, "ok"} {
			for level := 0; level < 2; level++ {
				var doc map[string]any
				_ = json.Unmarshal([]byte(crashSeedsJSON[0]), &doc)
				ann := map[string]any{key: val}
				if level == 0 {
					doc["annotations"] = ann
				} else {
					doc["devices"].([]any)[0].(map[string]any)["annotations"] = ann
				}
				b, _ := json.Marshal(doc)
				emit(Case{"op": "file", "ext": ".json", "data": hex.EncodeToString(b)})
				if y, err := jsonToYAML(b); err == nil {
					emit(Case{"op": "file", "ext": ".yaml", "data": hex.EncodeToString(y)})
				}
			}
		}
	}
	var batch []any
	for i := 0; i < n; i++ {
		var data []byte
		ext := ".json"
		if rng.Intn(2) == 0 {
			data = structMutant(rng)
			if rng.Intn(3) == 0 {
				if y, err := jsonToYAML(data); err == nil {
					data, ext = y, ".yaml"
				}
			}
		} else if rng.Intn(2) == 0 {
			data = mutateBytes(rng, []byte(crashSeedsJSON[rng.Intn(len(crashSeedsJSON))]))
			if rng.Intn(6) == 0 {
				ext = ".yaml" // JSON is YAML
			}
		} else {
			data = mutateBytes(rng, []byte(crashSeedsYAML[rng.Intn(len(crashSeedsYAML))]))
			ext = ".yaml"
			if rng.Intn(10) == 0 {
				ext = ".json"
			}
		}
		emit(Case{"op": "file", "ext": ext, "data": hex.EncodeToString(data)})
		batch = append(batch, map[string]any{"ext": ext, "data": hex.EncodeToString(data)})
		if len(batch) == 40 {
			emit(Case{"op": "watch", "files": batch})
			batch = nil
		}
	}
	names := []string{"vendor.com/class=dev", "a/b", "a/b=c", "=", "/", "v.com/c=d", "", "a.b/c=", "/=", "a/=b", "_/_=_", "v/c=d=e", "v.com/c/d=e"}
	for i := 0; i < n/2; i++ {
		s := names[rng.Intn(len(names))]
		if i >= len(names) {
			s = crashMutateString(rng, s)
		} else {
			s = names[i]
		}
		emit(Case{"op": "name", "s": hx(s)})
	}
	for i := 0; i < n/2; i++ {
		m := map[string]any{}
		for k := rng.Intn(4); k >= 0; k-- {
			key := []string{"cdi.k8s.io/plugin_dev", "cdi.k8s.io/", "cdi.k8s.io/a", "other/key", ""}[rng.Intn(5)]
			val := []string{"vendor.com/class=dev", "v.com/c=d", "a/b=c,d/e=f", "a/b", "", ","}[rng.Intn(6)]
			if rng.Intn(2) == 0 {
				key = crashMutateString(rng, key)
			}
			if rng.Intn(2) == 0 {
				val = crashMutateString(rng, val)
			}
			m[hx(key)] = hx(val)
		}
		emit(Case{"op": "annotations", "map": m, "plugin": hx(crashMutateString(rng, "vendor.com")), "devid": hx(crashMutateString(rng, "dev/0")),
			"devices": hxList([]string{crashMutateString(rng, "vendor.com/class=dev"), "a/b=c"})})
	}
}

// guarded runs f with a recover and a deadline.
func guarded(where string, obs map[string]any, f func()) {
	done := make(chan any, 1)
	go func() {
		defer func() { done <- recover() }()
		f()
	}()
	select {
	case r := <-done:
		if r != nil {
			obs["panic"] = true
			obs["where"] = where
			obs["value"] = fmt.Sprint(r)
		}
	case <-time.After(20 * time.Second):
		obs["hang"] = true
		obs["where"] = where
	}
}

func ociVariants() []*oci.Spec {
	return []*oci.Spec{
		{},
		{Process: &oci.Process{Env: []string{"A=old"}}, Linux: &oci.Linux{}},
		{Process: &oci.Process{}, Hooks: &oci.Hooks{}, Linux: &oci.Linux{Resources: &oci.LinuxResources{}}, Mounts: []oci.Mount{{Destination: "/b"}}},
	}
}

func (crashStream) Execute(c Case) {
	obs := map[string]any{"panic": false, "hang": false, "died": false}
	c["obs"] = obs
	switch c["op"] {
	case "file":
		data, _ := hex.DecodeString(c["data"].(string))
		ext, _ := c["ext"].(string)
		dir, _ := os.MkdirTemp("", "cdi-verif-crash-")
		defer os.RemoveAll(dir)
		path := filepath.Join(dir, "spec"+ext)
		_ = os.WriteFile(path, data, 0o644)
		readOK := false
		guarded("ReadSpec", obs, func() { _, err := cdi.ReadSpec(path, 0); readOK = err == nil })
		guarded("ParseSpec", obs, func() { _, _ = cdi.ParseSpec(data) })
		guarded("schema.ValidateData", obs, func() { _ = schema.BuiltinSchema().ValidateData(data) })
		guarded("schema.ValidateReader", obs, func() { _ = schema.BuiltinSchema().ValidateReader(bytes.NewReader(data)) })
		guarded("schema.ValidateFile", obs, func() { _ = schema.BuiltinSchema().ValidateFile(path) })
		guarded("schema.Validate", obs, func() {
			if raw, err := cdi.ParseSpec(data); err == nil && raw != nil {
				_ = schema.BuiltinSchema().Validate(raw)
			}
		})
		guarded("specs.MinimumRequiredVersion", obs, func() {
			if raw, err := cdi.ParseSpec(data); err == nil && raw != nil {
				_, _ = specs.MinimumRequiredVersion(raw)
			}
		})
		errEntry, ndev := false, 0
		guarded("Cache.Refresh/InjectDevices", obs, func() {
			cache, _ := cdi.NewCache(cdi.WithSpecDirs(dir), cdi.WithAutoRefresh(false))
			_ = cache.Refresh()
			_, errEntry = cache.GetErrors()[path]
			devs := cache.ListDevices()
			ndev = len(devs)
			for _, o := range ociVariants() {
				_, _ = cache.InjectDevices(o, devs...)
			}
			_, _ = cache.InjectDevices(nil, devs...)
		})
		obs["readok"], obs["errentry"], obs["ndev"] = readOK, errEntry, ndev
	case "watch":
		files, _ := c["files"].([]any)
		stage, _ := os.MkdirTemp("", "cdi-verif-crashstage-")
		defer os.RemoveAll(stage)
		for i, f := range files {
			m, _ := f.(map[string]any)
			data, _ := hex.DecodeString(m["data"].(string))
			_ = os.WriteFile(filepath.Join(stage, fmt.Sprintf("f%03d%s", i, m["ext"])), data, 0o644)
		}
		self, _ := os.Executable()
		ctx, cancel := context.WithTimeout(context.Background(), 60*time.Second)
		defer cancel()
		cmd := exec.CommandContext(ctx, self, "child", "crashwatch", stage)
		var stderr bytes.Buffer
		cmd.Stderr = &stderr
		out, err := cmd.Output()
		switch {
		case ctx.Err() != nil:
			obs["hang"] = true
		case err != nil:
			obs["died"] = true
			se := stderr.String()
			if len(se) > 2500 {
				se = se[:2500]
			}
			obs["report"] = se
		default:
			obs["alive"] = strings.Contains(string(out), "ALIVE")
			obs["errentries"] = strings.Count(string(out), "ERRENTRY")
		}
		delete(c, "files")
		c["nfiles"] = len(files)
	case "name":
		s := unhx(c["s"])
		guarded("parser", obs, func() {
			_ = parser.IsQualifiedName(s)
			_, _, _, _ = parser.ParseQualifiedName(s)
			_, _, _ = parser.ParseDevice(s)
			_, _ = parser.ParseQualifier(s)
			_ = parser.ValidateVendorName(s)
			_ = parser.ValidateClassName(s)
			_ = parser.ValidateDeviceName(s)
			_ = parser.QualifiedName(s, s, s)
		})
		guarded("Cache.InjectDevices(name)", obs, func() {
			cache, _ := cdi.NewCache(cdi.WithSpecDirs("/nonexistent-cdi-verif"), cdi.WithAutoRefresh(false))
			_, _ = cache.InjectDevices(&oci.Spec{}, s)
			_ = cache.GetDevice(s)
		})
	case "annotations":
		m := map[string]string{}
		raw, _ := c["map"].(map[string]any)
		for k, v := range raw {
			m[unhx(k)] = unhx(v)
		}
		plugin, devid, devices := unhx(c["plugin"]), unhx(c["devid"]), unhxList(c["devices"])
		guarded("ParseAnnotations", obs, func() { _, _, _ = cdi.ParseAnnotations(m) })
		guarded("AnnotationKey", obs, func() { _, _ = cdi.AnnotationKey(plugin, devid) })
		guarded("AnnotationValue", obs, func() { _, _ = cdi.AnnotationValue(devices) })
		guarded("UpdateAnnotations", obs, func() { _, _ = cdi.UpdateAnnotations(m, plugin, devid, devices) })
		guarded("UpdateAnnotations(nil)", obs, func() { _, _ = cdi.UpdateAnnotations(nil, plugin, devid, devices) })
	}
}

// childCrashWatch: an auto-refresh cache watches a directory into which the staged files are
// moved one by one; afterwards a valid Spec must still be picked up by the background refresh.
func childCrashWatch(args []string) int {
	stage := args[0]
	dir, _ := os.MkdirTemp("", "cdi-verif-crashwatch-")
	defer os.RemoveAll(dir)
	cache, _ := cdi.NewCache(cdi.WithSpecDirs(dir), cdi.WithAutoRefresh(true))
	ents, _ := os.ReadDir(stage)
	for _, e := range ents {
		data, _ := os.ReadFile(filepath.Join(stage, e.Name()))
		_ = os.WriteFile(filepath.Join(dir, e.Name()), data, 0o644)
		time.Sleep(2 * time.Millisecond)
		if len(cache.GetErrors()) > 0 {
			fmt.Println("ERRENTRY")
		}
		_ = cache.ListDevices()
	}
	time.Sleep(50 * time.Millisecond)
	for _, e := range ents {
		_ = os.Remove(filepath.Join(dir, e.Name()))
	}
	good := &specs.Spec{Version: specs.CurrentVersion, Kind: "alive.com/dev", Devices: []specs.Device{{Name: "ok",
		ContainerEdits: specs.ContainerEdits{Env: []string{"A=b"}}}}}
	b, _ := json.Marshal(good)
	tmp := filepath.Join(stage, "alive.tmp")
	_ = os.WriteFile(tmp, b, 0o644)
	_ = os.Rename(tmp, filepath.Join(dir, "alive.json"))
	deadline := time.Now().Add(5 * time.Second)
	for time.Now().Before(deadline) {
		if cache.GetDevice("alive.com/dev=ok") != nil {
			fmt.Println("ALIVE")
			return 0
		}
		time.Sleep(10 * time.Millisecond)
	}
	fmt.Println("NOT-PICKED-UP")
	return 0
}
