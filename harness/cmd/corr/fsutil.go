package main

import (
	"crypto/sha256"
	"encoding/hex"
	"fmt"
	"os"
	"path/filepath"
	"sort"
)

// treeSnapshot: regular files (and symlinks) -> content hash; directories as a set.
type treeSnapshot struct {
	files map[string]string
	dirs  map[string]bool
}

func snapshotTree(root string) treeSnapshot {
	s := treeSnapshot{files: map[string]string{}, dirs: map[string]bool{}}
	_ = filepath.Walk(root, func(p string, info os.FileInfo, err error) error {
		if err != nil || info == nil {
			return nil
		}
		if info.IsDir() {
			s.dirs[p] = true
			return nil
		}
		if info.Mode()&os.ModeSymlink != 0 {
			t, _ := os.Readlink(p)
			s.files[p] = "link:" + t
			return nil
		}
		b, _ := os.ReadFile(p)
		h := sha256.Sum256(b)
		s.files[p] = hex.EncodeToString(h[:8]) + ":" + info.Mode().String()
		return nil
	})
	return s
}

// diffTree returns the sorted list of files created, modified or deleted and of directories created.
func diffTree(a, b treeSnapshot) (changed, newDirs []string) {
	for p, h := range b.files {
		if a.files[p] != h {
			changed = append(changed, p)
		}
	}
	for p := range a.files {
		if _, ok := b.files[p]; !ok {
			changed = append(changed, p)
		}
	}
	for p := range b.dirs {
		if !a.dirs[p] {
			newDirs = append(newDirs, p)
		}
	}
	for p := range a.dirs {
		if !b.dirs[p] {
			changed = append(changed, p+"/ (directory removed)")
		}
	}
	sort.Strings(changed)
	sort.Strings(newDirs)
	return
}

// scratchRoot returns a scratch directory name unique to this process (children of the harness
// that need the parent's tree receive its paths as arguments).
func scratchRoot(base string) string { return fmt.Sprintf("%s-%d", base, os.Getpid()) }
