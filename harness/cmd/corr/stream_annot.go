package main

import (
	"math/rand"
	"sort"
	"strings"

	"tags.cncf.io/container-device-interface/pkg/cdi"
)

// annotStream — C15: AnnotationKey / AnnotationValue / UpdateAnnotations / ParseAnnotations.
type annotStream struct{}

func init() { register(annotStream{}) }

func (annotStream) Name() string          { return "annot" }
func (annotStream) TrivialTags() []string { return nil }

func mapToProto(m map[string]string) []any {
	keys := make([]string, 0, len(m))
	for k := range m {
		keys = append(keys, k)
	}
	sort.Strings(keys)
	out := make([]any, 0, len(keys))
	for _, k := range keys {
		out = append(out, map[string]any{"k": hx(k), "v": hx(m[k])})
	}
	return out
}

func protoToMap(v any) map[string]string {
	l, _ := v.([]any)
	m := map[string]string{}
	for _, e := range l {
		o, _ := e.(map[string]any)
		m[unhx(o["k"])] = unhx(o["v"])
	}
	return m
}

var annotClasses = []string{"a", "Z", "7", "_", "-", ".", "/", " ", "\xc3\xa9", ":", "=", ","}

func genKeyPart(rng *rand.Rand, n int) string {
	var b strings.Builder
	for b.Len() < n {
		if rng.Intn(6) == 0 {
			b.WriteString(annotClasses[rng.Intn(len(annotClasses))])
		} else {
			b.WriteByte("abcxyz0189ABZ"[rng.Intn(13)])
		}
	}
	s := b.String()
	if len(s) > n {
		s = s[:n]
	}
	return s
}

func genDevice(rng *rand.Rand) string {
	d := genNamePart(rng, false) + "/" + genNamePart(rng, false) + "=" + genNamePart(rng, true)
	if rng.Intn(6) == 0 {
		d = mutateString(rng, d)
	}
	return d
}

func genDevices(rng *rand.Rand) []string {
	n := rng.Intn(4)
	if rng.Intn(10) == 0 {
		n = 0
	}
	ds := []string{}
	for i := 0; i < n; i++ {
		ds = append(ds, genDevice(rng))
	}
	return ds
}

func (annotStream) Generate(rng *rand.Rand, tier string, emit func(Case)) {
	n := 1500
	if tier == "thorough" {
		n = 40000
	}
	// every character class in first / middle / last position, total lengths 1..4 and 60..66
	for _, total := range []int{1, 2, 3, 4, 60, 61, 62, 63, 64, 65, 66} {
		for _, cls := range annotClasses {
			for pos := 0; pos < 3; pos++ {
				// name = plugin + "_" + dev ; choose plugin length 1..total-2
				pl := 1
				if total > 3 {
					pl = total / 2
				}
				dl := total - pl - 1
				if dl < 1 {
					dl = 1
				}
				plugin := strings.Repeat("p", pl)
				dev := strings.Repeat("d", dl)
				switch pos {
				case 0:
					plugin = cls + plugin[min(len(cls), len(plugin)):]
				case 1:
					if len(dev) > 2 {
						dev = dev[:1] + cls + dev[min(1+len(cls), len(dev)):]
					} else {
						plugin = plugin + cls
					}
				case 2:
					dev = dev[:max(0, len(dev)-len(cls))] + cls
				}
				emit(Case{"op": "key", "plugin": hx(plugin), "dev": hx(dev)})
				emit(Case{"op": "update", "ann": mapToProto(nil), "plugin": hx(plugin), "dev": hx(dev),
					"devices": hxList([]string{"vendor.com/class=dev0"})})
			}
		}
	}
	emit(Case{"op": "key", "plugin": hx(""), "dev": hx("x")})
	emit(Case{"op": "key", "plugin": hx("x"), "dev": hx("")})
	// keys at the boundary of the CDI prefix: the prefix without its slash, the bare prefix, near misses
	for _, key := range []string{"cdi.k8s.io", "cdi.k8s.io/", "cdi.k8s.i", "cdi.k8s.io.example.com/x", "example.com/cdi.k8s.io", "CDI.k8s.io/x",
		"cdi.k8s.io//x", " cdi.k8s.io/x", "", "cdi.k8s.io/x/y", "cdi_k8s_io/x", "cdi.k8s.io\x00/x"} {
		for _, val := range []string{"a.com/b=c", "unqualified", "", "a.com/b=c,d.org/e=f"} {
			emit(Case{"op": "parse", "entries": mapToProto(map[string]string{key: val})})
			emit(Case{"op": "parse", "entries": mapToProto(map[string]string{key: val, "cdi.k8s.io/plugin_dev": "v.com/k=n"})})
		}
	}
	// the key of an allocation whose device id contains '/' is already in use (under the name the helper gives it,
	// with '/' replaced): the request must fail and leave the map alone; and requests naming a device more than
	// once, under one key and under two keys, parse back with every occurrence
	for _, dev := range []string{"card/0", "a/b/c", "/x", "x/", "gpu0"} {
		for _, val := range []string{"old.com/k=n", ""} {
			if k, err := cdi.AnnotationKey("vendor.class", dev); err == nil {
				emit(Case{"op": "update", "ann": mapToProto(map[string]string{k: val, "other": "1"}), "plugin": hx("vendor.class"), "dev": hx(dev), "devices": hxList([]string{"new.com/k=n"})})
			}
		}
	}
	for _, devs := range [][]string{{"v.com/k=gpu0", "v.com/k=gpu1", "v.com/k=gpu0"}, {"v.com/k=a", "v.com/k=a"}, {"v.com/k=a", "w.org/c=a", "v.com/k=a", "v.com/k=b"}} {
		emit(Case{"op": "value", "devices": hxList(devs)})
		emit(Case{"op": "update", "ann": mapToProto(map[string]string{}), "plugin": hx("p"), "dev": hx("d"), "devices": hxList(devs)})
		emit(Case{"op": "parse", "entries": mapToProto(map[string]string{"cdi.k8s.io/p_d": strings.Join(devs, ",")})})
		emit(Case{"op": "parse", "entries": mapToProto(map[string]string{"cdi.k8s.io/p_d": strings.Join(devs, ","), "cdi.k8s.io/q_e": strings.Join(devs[:2], ",")})})
	}
	// one requested name that itself contains the list separator (every piece qualified on its own), a trailing or
	// leading separator, blanks around names: none of these is a qualified device name, the request must be refused
	for _, devs := range [][]string{{"vendor.com/class=a,vendor.com/class=b"}, {"v.com/k=a", "v.com/k=b,v.com/k=c", "v.com/k=d"},
		{"v.com/k=a,"}, {",v.com/k=a"}, {"v.com/k=a, v.com/k=b"}, {" v.com/k=a"}, {"v.com/k=a "}, {"v.com/k=a\n"}, {"v.com/k=a,v.com/k=a"}, {""}, {"v.com/k=a", ""}} {
		emit(Case{"op": "value", "devices": hxList(devs)})
		emit(Case{"op": "update", "ann": mapToProto(map[string]string{"other": "1"}), "plugin": hx("p"), "dev": hx("d"), "devices": hxList(devs)})
	}
	// values with empty, blank or padded elements at every position
	for _, val := range []string{"", ",", "a.com/b=c,", ",a.com/b=c", "a.com/b=c,,d.org/e=f", "a.com/b=c, ,d.org/e=f", "a.com/b=c, d.org/e=f", " a.com/b=c", "a.com/b=c ", "a.com/b=c,\t", ",,"} {
		emit(Case{"op": "parse", "entries": mapToProto(map[string]string{"cdi.k8s.io/p_d": val})})
		emit(Case{"op": "parse", "entries": mapToProto(map[string]string{"cdi.k8s.io/p_d": val, "cdi.k8s.io/q_e": "v.com/k=n"})})
	}
	for i := 0; i < n; i++ {
		plugin := genKeyPart(rng, 1+rng.Intn(8))
		dev := genKeyPart(rng, 1+rng.Intn(8))
		if rng.Intn(4) == 0 {
			plugin = genKeyPart(rng, 25+rng.Intn(12))
			dev = genKeyPart(rng, 25+rng.Intn(12))
		}
		emit(Case{"op": "key", "plugin": hx(plugin), "dev": hx(dev)})
		devices := genDevices(rng)
		emit(Case{"op": "value", "devices": hxList(devices)})
		// update on nil / empty / populated maps; sometimes the key is already used
		ann := map[string]string{}
		switch rng.Intn(4) {
		case 1:
			ann["foreign.io/key"] = "x"
		case 2:
			ann["cdi.k8s.io/other_1"] = "a.com/b=c"
			ann["x"] = ""
		case 3:
			if k, err := cdi.AnnotationKey(plugin, dev); err == nil {
				ann[k] = []string{"a.com/b=c", "", " ", "unqualified"}[rng.Intn(4)] // a used key is used whatever its value
			}
			ann["zz"] = "1"
		}
		emit(Case{"op": "update", "ann": mapToProto(ann), "plugin": hx(plugin), "dev": hx(dev), "devices": hxList(devices)})
		// parse
		entries := map[string]string{}
		for k := rng.Intn(4); k > 0; k-- {
			key := "cdi.k8s.io/" + genKeyPart(rng, 1+rng.Intn(6))
			switch rng.Intn(5) {
			case 0:
				key = "foreign/" + genKeyPart(rng, 3)
			case 1:
				key = "cdi.k8s.io" + genKeyPart(rng, 2) // prefix without the slash
			}
			val := strings.Join(genDevices(rng), ",")
			switch rng.Intn(8) {
			case 0:
				val += ","
			case 1:
				val = "," + val
			case 2:
				val = "unqualified"
			}
			entries[key] = val
		}
		emit(Case{"op": "parse", "entries": mapToProto(entries)})
	}
}

func (annotStream) Execute(c Case) {
	op, _ := c["op"].(string)
	obs := map[string]any{"panic": false, "ok": false, "key": "", "value": "", "result": []any{}, "keys": []any{}, "devices": []any{}}
	defer func() {
		if r := recover(); r != nil {
			obs["panic"] = true
		}
		c["obs"] = obs
	}()
	switch op {
	case "key":
		k, err := cdi.AnnotationKey(unhx(c["plugin"]), unhx(c["dev"]))
		obs["ok"], obs["key"] = err == nil, hx(k)
	case "value":
		v, err := cdi.AnnotationValue(unhxList(c["devices"]))
		obs["ok"], obs["value"] = err == nil, hx(v)
	case "update":
		in := protoToMap(c["ann"])
		var arg map[string]string
		if len(in) > 0 {
			arg = map[string]string{}
			for k, v := range in {
				arg[k] = v
			}
		}
		res, err := cdi.UpdateAnnotations(arg, unhx(c["plugin"]), unhx(c["dev"]), unhxList(c["devices"]))
		obs["ok"], obs["result"] = err == nil, mapToProto(res)
		// the argument map itself must also be what is returned / left intact on error
		if err != nil && len(arg) != len(in) {
			obs["result"] = mapToProto(arg)
		}
	case "parse":
		keys, devs, err := cdi.ParseAnnotations(protoToMap(c["entries"]))
		obs["ok"], obs["keys"], obs["devices"] = err == nil, hxList(keys), hxList(devs)
	}
}
