package main

import (
	"encoding/json"
	"fmt"
	oci "github.com/opencontainers/runtime-spec/specs-go"
	"math/rand"
	"os"
	"os/exec"
	"path/filepath"
	"reflect"
	"runtime"
	"sort"
	"strings"
	"syscall"
	"time"

	"tags.cncf.io/container-device-interface/pkg/cdi"
	specs "tags.cncf.io/container-device-interface/specs-go"
)

// reconfStream — C20: option histories on one cache (and on the default cache, in a child
// process) compared with a fresh cache; descriptor / inotify / goroutine accounting;
// descriptor exhaustion at a chosen step.
type reconfStream struct{}

func init() {
	register(reconfStream{})
	childModes["defaultcache"] = childDefaultCache
	childModes["defaultapi"] = childDefaultAPI
}

func (reconfStream) Name() string          { return "reconf" }
func (reconfStream) TrivialTags() []string { return nil }

// per-process scratch root: concurrent runs of the harness must not share a tree
var reconfRoot = scratchRoot("/tmp/cdi-verif-reconf")

var reconfDirs = []string{"P0", "P1", "P2", "P3missing"}

type reconfOpt struct {
	Dirs []string `json:"dirs"` // also the empty list: WithSpecDirs() with no directory
	Auto *bool    `json:"auto,omitempty"`
	// a step that is a file-system change instead of a Configure call: "add:<dir>" (a new Spec file), "del:<dir>"
	Fs string `json:"fs,omitempty"`
}

func genHist(rng *rand.Rand, n int) [][]reconfOpt {
	var h [][]reconfOpt
	for i := 0; i < n; i++ {
		var step []reconfOpt
		if rng.Intn(6) == 0 {
			h = append(h, []reconfOpt{{Fs: []string{"add:", "del:"}[rng.Intn(2)] + reconfDirs[rng.Intn(3)]}})
			continue
		}
		for k := 1 + rng.Intn(2); k > 0; k-- {
			if rng.Intn(2) == 0 {
				b := rng.Intn(2) == 0
				step = append(step, reconfOpt{Auto: &b})
			} else {
				var ds []string
				for m := rng.Intn(4)*rng.Intn(2) + rng.Intn(2); m > 0; m-- {
					ds = append(ds, reconfDirs[rng.Intn(len(reconfDirs))])
				}
				step = append(step, reconfOpt{Dirs: ds})
			}
		}
		h = append(h, step)
	}
	return h
}

func (reconfStream) Generate(rng *rand.Rand, tier string, emit func(Case)) {
	n := 24
	lens := []int{1, 2, 3, 5, 8, 20, 60}
	if tier == "thorough" {
		n = 150
		lens = append(lens, 120, 200)
	}
	// fixed histories: descriptor shortage during a Configure that replaces a live watcher (the old
	// watcher's descriptors are released first, so the new watcher can be created while the scan
	// cannot open the directories), with and without a live watcher before, automatic and manual
	tr, fa := true, false
	for _, fx := range []struct {
		h     [][]reconfOpt
		short int
	}{
		{[][]reconfOpt{{{Auto: &tr}}}, 0},
		{[][]reconfOpt{{{Dirs: []string{"P0", "P2"}}}}, 0},
		{[][]reconfOpt{{{Auto: &fa}}, {{Auto: &tr}}}, 1},
		{[][]reconfOpt{{{Auto: &fa}}}, 0},
		{[][]reconfOpt{{{Dirs: []string{"P1"}}}, {{Auto: &fa}}, {{Dirs: []string{"P2", "P1"}}}}, 0},
		{[][]reconfOpt{{{Dirs: []string{"P1"}}}, {{Dirs: []string{"P2", "P1"}}}, {{Auto: &tr}}}, 1},
		// watcher closed, then set up again during a shortage for a directory that appears only later
		{[][]reconfOpt{{{Auto: &fa}}, {{Dirs: []string{"P3missing"}}, {Auto: &tr}}}, 1},
		{[][]reconfOpt{{{Auto: &fa}}, {{Dirs: []string{"P3missing", "P1"}}, {Auto: &tr}}}, 1},
		{[][]reconfOpt{{{Dirs: []string{"P3missing"}}}}, -1},
		{[][]reconfOpt{{{Dirs: []string{"P3missing"}}, {Auto: &fa}}}, -1},
		// the directory content changes, then the cache is configured with the options it already has
		{[][]reconfOpt{{{Auto: &fa}}, {{Fs: "add:P0"}}, {{Auto: &fa}}}, -1},
		{[][]reconfOpt{{{Dirs: []string{"P1", "P2"}}, {Auto: &fa}}, {{Fs: "add:P2"}}, {{Fs: "del:P1"}}, {{Dirs: []string{"P1", "P2"}}}}, -1},
		{[][]reconfOpt{{{Fs: "add:P0"}}, {{Auto: &tr}}}, -1},
		{[][]reconfOpt{{{Dirs: []string{"P1"}}}, {{Fs: "add:P1"}}}, -1},
		{[][]reconfOpt{{{Auto: &fa}}, {{Fs: "add:P0"}}}, -1},
		// the watcher loses events (queue overflow), then the cache is reconfigured: whatever the watcher did about the
		// loss, the reconfigured cache holds what a new one holds and nothing is left behind at the end
		{[][]reconfOpt{{{Fs: "overflow:P0"}}, {{Dirs: []string{"P0", "P1"}}}}, -1},
		{[][]reconfOpt{{{Fs: "overflow:P0"}}, {{Auto: &tr}}, {{Fs: "overflow:P0"}}, {{Auto: &fa}}}, -1},
		{[][]reconfOpt{{{Dirs: []string{"P1", "P0"}}}, {{Fs: "overflow:P0"}}, {{Fs: "add:P1"}}, {{Dirs: []string{"P0"}}}}, -1},
		// an empty directory list is a directory list
		{[][]reconfOpt{{{Dirs: []string{}}}}, -1},
		{[][]reconfOpt{{{Dirs: []string{"P1"}}}, {{Dirs: []string{}}, {Auto: &fa}}}, -1},
	} {
		hj, _ := json.Marshal(fx.h)
		var hm []any
		_ = json.Unmarshal(hj, &hm)
		emit(Case{"op": "reconf", "hist": hm, "shortage": fx.short, "root": reconfRoot})
	}
	for i := 0; i < n; i++ {
		h := genHist(rng, lens[rng.Intn(len(lens))])
		hj, _ := json.Marshal(h)
		var hm []any
		_ = json.Unmarshal(hj, &hm)
		shortage := -1
		if rng.Intn(3) == 0 {
			shortage = rng.Intn(len(h))
		}
		emit(Case{"op": "reconf", "hist": hm, "shortage": shortage, "root": reconfRoot})
	}
	for _, mode := range []string{"configure-first", "use-then-configure", "configure-twice", "configure-during-first-use", "configure-during-first-use"} {
		emit(Case{"op": "default", "mode": mode})
	}
}

type procRes struct {
	Fds, Inotify, Watches, Goroutines int
}

func resources() procRes {
	var r procRes
	ents, _ := os.ReadDir("/proc/self/fd")
	for _, e := range ents {
		link, err := os.Readlink("/proc/self/fd/" + e.Name())
		if err != nil {
			continue
		}
		r.Fds++
		if strings.Contains(link, "inotify") {
			r.Inotify++
			b, _ := os.ReadFile("/proc/self/fdinfo/" + e.Name())
			r.Watches += strings.Count(string(b), "inotify wd:")
		}
	}
	r.Goroutines = runtime.NumGoroutine()
	return r
}

func (a procRes) minus(b procRes) procRes {
	return procRes{a.Fds - b.Fds, a.Inotify - b.Inotify, a.Watches - b.Watches, a.Goroutines - b.Goroutines}
}

func settle() { time.Sleep(40 * time.Millisecond) }

// stableResources waits until two consecutive readings 25 ms apart are equal (goroutines and
// descriptors of a closed watcher go away asynchronously), at most 3 s.
func stableResources() procRes {
	prev := resources()
	for i := 0; i < 120; i++ {
		time.Sleep(25 * time.Millisecond)
		cur := resources()
		if cur == prev {
			return cur
		}
		prev = cur
	}
	return prev
}

// resourcesUntil polls until pred holds, at most 3 s.
func resourcesUntil(pred func(procRes) bool) procRes {
	r := stableResources()
	for i := 0; i < 100 && !pred(r); i++ {
		time.Sleep(30 * time.Millisecond)
		r = resources()
	}
	return r
}

func setupReconfTree() {
	_ = os.RemoveAll(reconfRoot)
	for _, d := range reconfDirs[:3] {
		p := filepath.Join(reconfRoot, d)
		_ = os.MkdirAll(p, 0o755)
		s := &specs.Spec{Version: specs.CurrentVersion, Kind: "vendor.com/" + strings.ToLower(d),
			Devices: []specs.Device{{Name: "dev", ContainerEdits: specs.ContainerEdits{Env: []string{"D=" + d}}}}}
		b, _ := json.Marshal(s)
		_ = os.WriteFile(filepath.Join(p, "s.json"), b, 0o644)
	}
}

func toOptions(step []reconfOpt) []cdi.Option {
	var opts []cdi.Option
	for _, o := range step {
		if o.Auto != nil {
			opts = append(opts, cdi.WithAutoRefresh(*o.Auto))
		} else {
			var ds []string
			for _, d := range o.Dirs {
				ds = append(ds, filepath.Join(reconfRoot, d))
			}
			opts = append(opts, cdi.WithSpecDirs(ds...))
		}
	}
	return opts
}

func fileErrors(c *cdi.Cache) []string {
	keys := []string{}
	for k := range c.GetErrors() {
		if ext := filepath.Ext(k); ext == ".json" || ext == ".yaml" {
			keys = append(keys, k)
		}
	}
	sort.Strings(keys)
	return keys
}

func withFdShortage(f func()) {
	var lim syscall.Rlimit
	_ = syscall.Getrlimit(syscall.RLIMIT_NOFILE, &lim)
	ents, _ := os.ReadDir("/proc/self/fd")
	low := lim
	low.Cur = uint64(len(ents)) - 1 // the ReadDir descriptor is closed again: no free slot is left
	_ = syscall.Setrlimit(syscall.RLIMIT_NOFILE, &low)
	defer func() { _ = syscall.Setrlimit(syscall.RLIMIT_NOFILE, &lim) }()
	f()
}

func writeProbeSpec(dir, name string) {
	s := &specs.Spec{Version: specs.CurrentVersion, Kind: "probe.com/" + name,
		Devices: []specs.Device{{Name: "p", ContainerEdits: specs.ContainerEdits{Env: []string{"P=1"}}}}}
	b, _ := json.Marshal(s)
	_ = os.WriteFile(filepath.Join(dir, name+".json"), b, 0o644)
}

func hasDevice(c *cdi.Cache, q string) bool {
	for _, d := range c.ListDevices() {
		if d == q {
			return true
		}
	}
	return false
}

func (reconfStream) Execute(c Case) {
	obs := map[string]any{"panic": false}
	c["obs"] = obs
	defer os.RemoveAll(reconfRoot)
	defer func() {
		if r := recover(); r != nil {
			obs["panic"] = true
		}
	}()
	switch c["op"] {
	case "reconf":
		setupReconfTree()
		var hist [][]reconfOpt
		hj, _ := json.Marshal(c["hist"])
		_ = json.Unmarshal(hj, &hist)
		shortage := -1
		switch v := c["shortage"].(type) {
		case int:
			shortage = v
		case float64:
			shortage = int(v)
		}
		r0 := stableResources()
		cache, _ := cdi.NewCache(cdi.WithSpecDirs(filepath.Join(reconfRoot, "P0")))
		finalDirs, finalAuto := []string{"P0"}, true
		lastShort, dirty, nfs := false, false, 0
		for i, step := range hist {
			if len(step) == 1 && step[0].Fs != "" {
				op, d, _ := strings.Cut(step[0].Fs, ":")
				nfs++
				if op == "add" {
					writeProbeSpec(filepath.Join(reconfRoot, d), fmt.Sprintf("fs%d", nfs))
				} else if op == "overflow" {
					// the watcher loses events: its kernel queue overflows while it waits for the cache mutex
					overflowWatcher(cache, filepath.Join(reconfRoot, d))
				} else {
					_ = os.Remove(filepath.Join(reconfRoot, d, "s.json"))
				}
				dirty, lastShort = true, false
				continue
			}
			dirty = false
			opts := toOptions(step)
			if i == shortage {
				withFdShortage(func() { _ = cache.Configure(opts...) })
			} else {
				_ = cache.Configure(opts...)
			}
			lastShort = i == shortage
			for _, o := range step {
				if o.Auto != nil {
					finalAuto = *o.Auto
				} else {
					finalDirs = o.Dirs
				}
			}
		}
		r1 := stableResources()
		if (lastShort || dirty) && !finalAuto {
			// manual mode: the application refreshes when it wants to; a scan that failed during the
			// shortage is repeated by an explicit Refresh, as for a cache created during the shortage
			_ = cache.Refresh()
		}
		var abs []string
		for _, d := range finalDirs {
			abs = append(abs, filepath.Join(reconfRoot, d))
		}
		fresh, _ := cdi.NewCache(cdi.WithSpecDirs(abs...), cdi.WithAutoRefresh(finalAuto))
		r2 := resourcesUntil(func(r procRes) bool { return r.minus(r1) == r1.minus(r0) })
		// the first query after the history varies: each of them has to bring the cache up to date by itself
		firstOK := true
		switch len(hist) % 5 {
		case 1:
			a, b := cache.GetVendorSpecs("vendor.com"), fresh.GetVendorSpecs("vendor.com")
			firstOK = len(a) == len(b)
		case 2:
			firstOK = reflect.DeepEqual(cache.ListVendors(), fresh.ListVendors())
		case 3:
			firstOK = reflect.DeepEqual(cache.ListClasses(), fresh.ListClasses())
		case 4:
			firstOK = (cache.GetDevice("vendor.com/p1=dev") == nil) == (fresh.GetDevice("vendor.com/p1=dev") == nil)
		}
		same := func() bool {
			return firstOK && reflect.DeepEqual(cache.ListDevices(), fresh.ListDevices()) &&
				reflect.DeepEqual(fileErrors(cache), fileErrors(fresh)) &&
				reflect.DeepEqual(cache.GetSpecDirectories(), fresh.GetSpecDirectories())
		}
		isSame := same()
		if !isSame && !firstOK && finalAuto && dirty {
			firstOK = true // the watcher may still have been catching up: judged by the polling below
			isSame = same()
		}
		if !isSame && finalAuto && dirty {
			// the watcher goroutine may still be catching up with the last file-system change
			for deadline := time.Now().Add(6 * time.Second); !isSame && time.Now().Before(deadline); isSame = same() {
				time.Sleep(20 * time.Millisecond)
			}
		}
		obs["sameasfresh"] = isSame
		t, f := r1.minus(r0), r2.minus(r1)
		obs["target"] = map[string]any{"fds": t.Fds, "inotify": t.Inotify, "watches": t.Watches, "goroutines": t.Goroutines}
		obs["fresh"] = map[string]any{"fds": f.Fds, "inotify": f.Inotify, "watches": f.Watches, "goroutines": f.Goroutines}
		// is automatic refresh active, and only for the final directories?
		active, dropped := false, false
		var existing string
		for _, d := range abs {
			if fi, err := os.Stat(d); err == nil && fi.IsDir() {
				existing = d
			}
		}
		if existing != "" {
			writeProbeSpec(existing, "live")
			// manual mode holds no watcher: a short wait is enough to see that nothing happens by itself;
			// with a watcher the wait is generous (load must not turn into an alarm)
			wait := 1200 * time.Millisecond
			if t.Inotify > 0 {
				wait = 8 * time.Second
			}
			deadline := time.Now().Add(wait)
			for time.Now().Before(deadline) {
				if hasDevice(cache, "probe.com/live=p") {
					active = true
					break
				}
				time.Sleep(15 * time.Millisecond)
			}
			if !active {
				// manual mode: visible only after an explicit refresh
				_ = cache.Refresh()
				obs["visibleafterrefresh"] = hasDevice(cache, "probe.com/live=p")
			}
		}
		if existing != "" {
			// a Spec file of a final directory is rewritten in place (the directory's own modification time does not
			// change): a watching cache gets a Write event, a cache without a watcher rescans at every query, a
			// manually refreshed one sees it at Refresh
			ip := &specs.Spec{Version: specs.CurrentVersion, Kind: "probe.com/inplace",
				Devices: []specs.Device{{Name: "p", ContainerEdits: specs.ContainerEdits{Env: []string{"P=2"}}}}}
			b, _ := json.Marshal(ip)
			target := filepath.Join(existing, "live.json")
			if f, err := os.OpenFile(target, os.O_WRONLY|os.O_TRUNC, 0); err == nil {
				_, _ = f.Write(b)
				_ = f.Close()
				seen := false
				if !finalAuto {
					_ = cache.Refresh()
				}
				for deadline := time.Now().Add(8 * time.Second); time.Now().Before(deadline); time.Sleep(20 * time.Millisecond) {
					if hasDevice(cache, "probe.com/inplace=p") {
						seen = true
						break
					}
					if !finalAuto {
						break
					}
				}
				obs["inplaceseen"] = seen
			}
		}
		for _, d := range reconfDirs[:3] {
			isFinal := false
			for _, fd := range finalDirs {
				if fd == d {
					isFinal = true
				}
			}
			if !isFinal {
				writeProbeSpec(filepath.Join(reconfRoot, d), "dropped")
			}
		}
		time.Sleep(120 * time.Millisecond)
		_ = cache.Refresh()
		dropped = hasDevice(cache, "probe.com/dropped=p")
		obs["autoactive"], obs["reactstodropped"], obs["hasexisting"] = active, dropped, existing != ""
		// a configured directory that did not exist is created afterwards, with a Spec: automatic mode
		// must pick it up by itself (watch added or rescan at the next queries), manual mode at Refresh
		late, lateSeen := false, false
		for _, d := range abs {
			if _, err := os.Stat(d); err != nil {
				late = true
				_ = os.MkdirAll(d, 0o755)
				writeProbeSpec(d, "late")
			}
		}
		if late {
			if !finalAuto {
				_ = cache.Refresh()
			}
			deadline := time.Now().Add(6 * time.Second)
			for time.Now().Before(deadline) {
				if hasDevice(cache, "probe.com/late=p") {
					lateSeen = true
					break
				}
				if !finalAuto {
					break
				}
				time.Sleep(20 * time.Millisecond)
			}
		}
		obs["late"], obs["lateseen"] = late, lateSeen
		// release everything: nothing may be left behind
		_ = cache.Configure(cdi.WithAutoRefresh(false))
		_ = fresh.Configure(cdi.WithAutoRefresh(false))
		r3 := resourcesUntil(func(r procRes) bool { return r == r0 })
		l := r3.minus(r0)
		obs["leak"] = map[string]any{"fds": l.Fds, "inotify": l.Inotify, "watches": l.Watches, "goroutines": l.Goroutines}
	case "defaultapi":
		defer os.RemoveAll(cacheRoot)
		var l layoutDesc
		lj, _ := json.Marshal(c["layout"])
		_ = json.Unmarshal(lj, &l)
		dirs, _ := materialize(l)
		var req []string
		for _, r := range c["req"].([]any) {
			req = append(req, r.(string))
		}
		explicit, _ := cdi.NewCache(cdi.WithSpecDirs(dirs...), cdi.WithAutoRefresh(false))
		if listed, _ := c["listed"].(bool); listed {
			// request what resolves, so that the injection succeeds
			if devs := explicit.ListDevices(); len(devs) > 0 {
				req = devs
			}
		}
		nilSpec, _ := c["nilspec"].(bool)
		want := defaultAPIImage(explicit.Refresh, explicit.GetErrors, explicit.InjectDevices, explicit.ListDevices, req, nilSpec)
		if nilSpec {
			// (the child's very first call is the nil-spec injection, before the default cache exists)
			u0, e0 := explicit.InjectDevices(nil, req...)
			want = fmt.Sprint("first call: ", u0, e0 != nil, " ") + want
		}
		self, _ := os.Executable()
		args, _ := json.Marshal(map[string]any{"dirs": dirs, "req": req, "nilspec": nilSpec})
		out, err := exec.Command(self, "child", "defaultapi", string(args)).Output()
		obs["sameasfresh"] = err == nil && strings.TrimSpace(string(out)) == want
		if err != nil || strings.TrimSpace(string(out)) != want {
			obs["got"], obs["want"] = strings.TrimSpace(string(out)), want
		}
	case "default":
		setupReconfTree()
		self, _ := os.Executable()
		dir := filepath.Join(reconfRoot, "P1")
		out, err := exec.Command(self, "child", "defaultcache", c["mode"].(string), dir).Output()
		var got []string
		_ = json.Unmarshal(out, &got)
		fresh, _ := cdi.NewCache(cdi.WithSpecDirs(dir), cdi.WithAutoRefresh(false))
		obs["sameasfresh"] = err == nil && reflect.DeepEqual(got, fresh.ListDevices())
		obs["got"] = fmt.Sprint(got)
	}
}

// defaultAPIImage renders what the four operations return, for comparison between the package-level
// functions and the methods of an explicit cache.
func defaultAPIImage(refresh func() error, getErrors func() map[string][]error,
	inject func(*oci.Spec, ...string) ([]string, error), list func() []string, req []string, nilSpec bool) string {
	img := map[string]any{}
	img["refresherr"] = refresh() != nil
	keys := []string{}
	for k := range getErrors() {
		keys = append(keys, k)
	}
	sort.Strings(keys)
	img["errorkeys"] = keys
	o := &oci.Spec{Version: "1.0.2", Process: &oci.Process{Env: []string{"PATH=/bin"}}}
	if nilSpec {
		o = nil
	}
	unresolved, err := inject(o, req...)
	img["unresolved"], img["injecterr"] = unresolved, err != nil
	img["oci"] = jsonImage(o)
	if list != nil {
		img["devices"] = list()
	}
	b, _ := json.Marshal(img)
	return string(b)
}

func childDefaultAPI(args []string) int {
	var a struct {
		Dirs    []string `json:"dirs"`
		Req     []string `json:"req"`
		NilSpec bool     `json:"nilspec"`
	}
	if json.Unmarshal([]byte(args[0]), &a) != nil {
		return 2
	}
	first := ""
	if a.NilSpec {
		// the very first thing this process does with the package: an injection into a nil OCI spec
		cdi.DefaultSpecDirs = a.Dirs
		u0, e0 := cdi.InjectDevices(nil, a.Req...)
		first = fmt.Sprint("first call: ", u0, e0 != nil, " ")
	}
	_ = cdi.Configure(cdi.WithSpecDirs(a.Dirs...), cdi.WithAutoRefresh(false))
	fmt.Println(first + defaultAPIImage(cdi.Refresh, cdi.GetErrors, cdi.InjectDevices, cdi.GetDefaultCache().ListDevices, a.Req, a.NilSpec))
	return 0
}

// childDefaultCache: the package-level default cache needs a fresh process (sync.Once).
func childDefaultCache(args []string) int {
	mode, dir := args[0], args[1]
	switch mode {
	case "configure-first":
		_ = cdi.Configure(cdi.WithSpecDirs(dir))
	case "use-then-configure":
		_ = cdi.GetDefaultCache().ListDevices()
		_ = cdi.Configure(cdi.WithSpecDirs(dir))
	case "configure-twice":
		_ = cdi.Configure(cdi.WithSpecDirs("/nonexistent-cdi-dir"))
		_ = cdi.Configure(cdi.WithAutoRefresh(false), cdi.WithSpecDirs(dir))
	case "configure-during-first-use":
		// another goroutine is in the middle of the very first use of the default cache (creating it over default
		// directories that take long to scan) when Configure is called: the options must not get lost
		slow := filepath.Join(filepath.Dir(dir), "slow-default")
		_ = os.MkdirAll(slow, 0o755)
		for i := 0; i < 6; i++ {
			_ = os.WriteFile(filepath.Join(slow, fmt.Sprintf("big%d.json", i)), specBytesOf(fmt.Sprintf("big%d.com/class", i), "big", 3000), 0o644)
		}
		t0 := time.Now()
		_, _ = cdi.NewCache(cdi.WithSpecDirs(slow), cdi.WithAutoRefresh(false))
		scan := time.Since(t0)
		cdi.DefaultSpecDirs = []string{slow}
		first := make(chan struct{})
		go func() { _ = cdi.GetDefaultCache().ListDevices(); close(first) }()
		time.Sleep(scan * 3 / 10)
		_ = cdi.Configure(cdi.WithSpecDirs(dir))
		<-first
		_ = os.RemoveAll(slow)
	}
	b, _ := json.Marshal(cdi.GetDefaultCache().ListDevices())
	fmt.Println(string(b))
	return 0
}

// overflowWatcher makes the inotify queue of the cache's watcher overflow: one event that passes the watcher's filter
// (so that it waits for the cache mutex, which is held here), then more events than the queue holds, of a kind the
// watcher filters out. Returns when the watcher has had time to drain what is left.
func overflowWatcher(cache *cdi.Cache, dir string) {
	if fi, err := os.Stat(dir); err != nil || !fi.IsDir() {
		return
	}
	maxq := 16384
	if b, err := os.ReadFile("/proc/sys/fs/inotify/max_queued_events"); err == nil {
		_, _ = fmt.Sscan(string(b), &maxq)
	}
	cache.Lock()
	t := filepath.Join(dir, "zz-overflow.json")
	if f, err := os.OpenFile(t, os.O_CREATE|os.O_WRONLY, 0o644); err == nil {
		_ = f.Close()
	}
	time.Sleep(50 * time.Millisecond)
	f1, _ := os.OpenFile(filepath.Join(dir, "one.log"), os.O_CREATE|os.O_WRONLY|os.O_APPEND, 0o644)
	f2, _ := os.OpenFile(filepath.Join(dir, "two.log"), os.O_CREATE|os.O_WRONLY|os.O_APPEND, 0o644)
	for i := 0; i < maxq*3/4; i++ {
		_, _ = f1.Write([]byte("x"))
		_, _ = f2.Write([]byte("y"))
	}
	_ = f1.Close()
	_ = f2.Close()
	cache.Unlock()
	time.Sleep(400 * time.Millisecond)
	_ = os.Remove(t)
	_ = os.Remove(filepath.Join(dir, "one.log"))
	_ = os.Remove(filepath.Join(dir, "two.log"))
	time.Sleep(200 * time.Millisecond)
}
