package main

import (
	"encoding/hex"
	"encoding/json"
	"fmt"
	"math/rand"
	"os"
	"os/exec"
	"os/signal"
	"path/filepath"
	"regexp"
	"sort"
	"strconv"
	"strings"
	"sync"
	"syscall"
	"time"

	"tags.cncf.io/container-device-interface/pkg/cdi"
	specs "tags.cncf.io/container-device-interface/specs-go"
)

// fswriteStream — C10: the writer's file-system behaviour observed from outside:
// strace traces replayed on the model FS, kills at every named point, write
// failures at swept offsets (RLIMIT_FSIZE), and directory snapshots taken by a
// concurrent reader.
type fswriteStream struct{}

func init() {
	register(fswriteStream{})
	childModes["writespec"] = childWriteSpec
	childModes["writespecmount"] = childWriteSpecMount
}

func (fswriteStream) Name() string          { return "fswrite" }
func (fswriteStream) TrivialTags() []string { return nil }

// per-process scratch root: concurrent runs of the harness must not share a tree
var fswriteRoot = scratchRoot("/tmp/cdi-verif-fswrite")

func variantSpec(v string) *specs.Spec {
	s := &specs.Spec{Version: specs.CurrentVersion, Kind: "vendor.com/class"}
	n := 3
	if v == "B" {
		n = 40 // a clearly different, longer document
	}
	for i := 0; i < n; i++ {
		s.Devices = append(s.Devices, specs.Device{Name: fmt.Sprintf("dev%s%d", v, i),
			ContainerEdits: specs.ContainerEdits{Env: []string{"VARIANT=" + v, fmt.Sprintf("I=%d", i)},
				Mounts: []*specs.Mount{{HostPath: "/host/" + v, ContainerPath: fmt.Sprintf("/c/%d", i)}}}})
	}
	return s
}

// childWriteSpecMount (run under `unshare -m`): the Spec name is a bind mount of a file on a 16 KiB tmpfs
// holding a small previous Spec; a large Spec is written under that name.
func childWriteSpecMount(args []string) int {
	root, name := args[0], args[1]
	fail := func() int { fmt.Println(`{"skipped": true}`); return 0 }
	_ = syscall.Mount("", "/", "", syscall.MS_REC|syscall.MS_PRIVATE, "")
	backing, dir := filepath.Join(root, "backing"), filepath.Join(root, "cdi")
	_ = os.MkdirAll(backing, 0o755)
	_ = os.MkdirAll(dir, 0o755)
	if err := syscall.Mount("tmpfs", backing, "tmpfs", 0, "size=16k"); err != nil {
		return fail()
	}
	defer syscall.Unmount(backing, 0)
	prevCache, _ := cdi.NewCache(cdi.WithSpecDirs(backing), cdi.WithAutoRefresh(false))
	if prevCache.WriteSpec(variantSpec("A"), name) != nil {
		return fail()
	}
	prev, _ := os.ReadFile(filepath.Join(backing, name))
	target := filepath.Join(dir, name)
	_ = os.WriteFile(target, nil, 0o644)
	if err := syscall.Mount(filepath.Join(backing, name), target, "", syscall.MS_BIND, ""); err != nil {
		return fail()
	}
	defer syscall.Unmount(target, 0)
	cache, _ := cdi.NewCache(cdi.WithSpecDirs(dir), cdi.WithAutoRefresh(false))
	big := variantSpec("B")
	for i := range big.Devices {
		big.Devices[i].ContainerEdits.Env = append(big.Devices[i].ContainerEdits.Env, "PAD="+strings.Repeat("p", 1500))
	}
	werr := cache.WriteSpec(big, name)
	now, _ := os.ReadFile(target)
	status := "partial"
	if string(now) == string(prev) {
		status = "previous"
	} else if got, err := cdi.ReadSpec(target, 0); err == nil && protoJSON(got.Spec) == protoJSON(big) {
		status = "new"
	}
	b, _ := json.Marshal(map[string]any{"err": werr != nil, "status": status})
	fmt.Println(string(b))
	return 0
}

// childWriteSpec: corr child writespec <dir> <name> <variant> <killat|-> <fsize|-1>
func childWriteSpec(args []string) int {
	dir, name, variant, killat := args[0], args[1], args[2], args[3]
	fsize, _ := strconv.Atoi(args[4])
	cdi.VerifPoint = func(point, arg string) {
		if point == killat {
			_ = syscall.Kill(os.Getpid(), syscall.SIGKILL)
			time.Sleep(time.Second)
		}
	}
	if fsize >= 0 {
		signal.Ignore(syscall.SIGXFSZ)
		lim := syscall.Rlimit{Cur: uint64(fsize), Max: uint64(fsize)}
		_ = syscall.Setrlimit(syscall.RLIMIT_FSIZE, &lim)
	}
	cache, _ := cdi.NewCache(cdi.WithSpecDirs(dir), cdi.WithAutoRefresh(false))
	if err := cache.WriteSpec(variantSpec(variant), name); err != nil {
		return 3
	}
	return 0
}

func listDir(dir string) []any {
	ents, _ := os.ReadDir(dir)
	out := []any{}
	for _, e := range ents {
		if e.IsDir() {
			continue
		}
		b, err := os.ReadFile(filepath.Join(dir, e.Name()))
		if err != nil {
			continue
		}
		out = append(out, map[string]any{"name": hx(e.Name()), "content": hx(string(b))})
	}
	sort.Slice(out, func(i, j int) bool {
		return out[i].(map[string]any)["name"].(string) < out[j].(map[string]any)["name"].(string)
	})
	return out
}

var contentCache = map[string]string{}

// expectedContent: what a successful write of the variant under that name produces (taken from a
// successful run of the implementation itself; atomicity, not content, is the subject here)
func expectedContent(name, variant string) string {
	key := name + "|" + variant
	if c, ok := contentCache[key]; ok {
		return c
	}
	dir := filepath.Join(os.TempDir(), "cdi-verif-fswrite-oracle")
	_ = os.RemoveAll(dir)
	cache, _ := cdi.NewCache(cdi.WithSpecDirs(dir), cdi.WithAutoRefresh(false))
	_ = cache.WriteSpec(variantSpec(variant), name)
	target := name
	if e := filepath.Ext(name); e != ".json" && e != ".yaml" {
		target += ".yaml"
	}
	b, _ := os.ReadFile(filepath.Join(dir, target))
	_ = os.RemoveAll(dir)
	contentCache[key] = string(b)
	return string(b)
}

func (fswriteStream) Generate(rng *rand.Rand, tier string, emit func(Case)) {
	names := []string{"x.json", "y.yaml", "noext"}
	points := []string{"marshalled", "created", "written", "closed", "renamed", "done"}
	for _, name := range names {
		for _, prev := range []bool{false, true} {
			emit(Case{"op": "trace", "name": name, "prev": prev})
			for _, p := range points {
				emit(Case{"op": "crash", "name": name, "prev": prev, "point": p})
			}
			limits := []int{0, 1, 7, 64, 300}
			if tier == "thorough" {
				limits = []int{0, 1, 2, 3, 7, 16, 31, 64, 100, 128, 255, 300, 512, 1000, 2048}
			}
			for _, l := range limits {
				emit(Case{"op": "fsize", "name": name, "prev": prev, "limit": l, "point": "written"})
			}
		}
	}
	rounds := 1
	if tier == "thorough" {
		rounds = 6
	}
	for r := 0; r < rounds; r++ {
		emit(Case{"op": "readers", "name": names[r%2], "millis": 400})
	}
	// the target is itself a mount point (a single file bind-mounted from a nearly full file system): rename fails
	// with EBUSY, nothing may be written in place
	for _, name := range []string{"vendor.json", "vendor.yaml"} {
		emit(Case{"op": "mountpoint", "name": name})
	}
	// a second writer (of another Spec name) gets in between every pair of steps of the first: each file must
	// end up with what its own writer wrote
	for _, pt := range []string{"marshalled", "created", "written", "closed"} {
		for _, pair := range [][2]string{{"a.json", "b.json"}, {"a.yaml", "b.yaml"}, {"a.json", "b.yaml"}} {
			emit(Case{"op": "twowriters", "point": pt, "namea": pair[0], "nameb": pair[1]})
		}
	}
}

func prepareDir(c Case) (dir, name, target string, before []any) {
	_ = os.RemoveAll(fswriteRoot)
	dir = filepath.Join(fswriteRoot, "cdi")
	_ = os.MkdirAll(dir, 0o755)
	name, _ = c["name"].(string)
	target = name
	if e := filepath.Ext(name); e != ".json" && e != ".yaml" {
		target += ".yaml"
	}
	_ = os.WriteFile(filepath.Join(dir, "other.yaml"), []byte(expectedContent("other.yaml", "A")), 0o644)
	if prev, _ := c["prev"].(bool); prev {
		_ = os.WriteFile(filepath.Join(dir, target), []byte(expectedContent(name, "A")), 0o644)
		if name != "x.json" {
			// the previous file has a second name elsewhere (a backup made with ln): the writer replaces the Spec
			// name, it does not write into the old file
			_ = os.Link(filepath.Join(dir, target), filepath.Join(fswriteRoot, "backup-of-"+target))
		}
	}
	before = listDir(dir)
	c["before"], c["dst"], c["new"] = before, hx(target), hx(expectedContent(name, "B"))
	return
}

func runChild(dir, name, variant, killat string, fsize int, strace string) (int, error) {
	self, _ := os.Executable()
	args := []string{"child", "writespec", dir, name, variant, killat, strconv.Itoa(fsize)}
	var cmd *exec.Cmd
	if strace != "" {
		cmd = exec.Command("strace", append([]string{"-f", "-xx", "-s", "1000000", "-o", strace,
			"-e", "trace=openat,open,creat,write,pwrite64,writev,rename,renameat,renameat2,unlink,unlinkat,link,linkat,truncate,ftruncate", self}, args...)...)
	} else {
		cmd = exec.Command(self, args...)
	}
	err := cmd.Run()
	if ee, ok := err.(*exec.ExitError); ok {
		if ws, ok := ee.Sys().(syscall.WaitStatus); ok && ws.Signaled() {
			return -1, nil
		}
		return ee.ExitCode(), nil
	}
	if err != nil {
		return -2, err
	}
	return 0, nil
}

var (
	reOpen   = regexp.MustCompile(`^(\d+)\s+openat\(AT_FDCWD, "((?:\\x[0-9a-f]{2})*)", ([A-Z_|]+)(?:, \d+)?\) = (\d+)`)
	reWrite  = regexp.MustCompile(`^(\d+)\s+write\((\d+), "((?:\\x[0-9a-f]{2})*)"(?:\.\.\.)?, \d+\) = (-?\d+)`)
	reRename = regexp.MustCompile(`^(\d+)\s+renameat2\((?:AT_FDCWD|\d+), "((?:\\x[0-9a-f]{2})*)", (?:AT_FDCWD|\d+), "((?:\\x[0-9a-f]{2})*)", [A-Z_0-9|]+\) = (-?\d+)`)
	reUnlink = regexp.MustCompile(`^(\d+)\s+unlink(?:at)?\((?:AT_FDCWD, )?"((?:\\x[0-9a-f]{2})*)"(?:, [A-Z_0-9|]+)?\) = (-?\d+)`)
)

func unx(s string) string {
	b, _ := hex.DecodeString(strings.ReplaceAll(s, `\x`, ""))
	return string(b)
}

var (
	reUnfinished = regexp.MustCompile(`^(\d+)\s+(.*) <unfinished \.\.\.>$`)
	reEqPad      = regexp.MustCompile(`\)\s+= `)
	reResumed    = regexp.MustCompile(`^(\d+)\s+<\.\.\. \w+ resumed>\s?(.*)$`)
)

// mergeResumed joins the two halves strace -f prints for a system call that was in progress while another
// thread's call was reported ("write(7, ... <unfinished ...>" / "<... write resumed>) = 12"); the joined line
// stands where the call completed. (Without this a busy machine makes calls disappear from the parsed trace.)
func mergeResumed(lines []string) []string {
	pending := map[string]string{}
	out := make([]string, 0, len(lines))
	for _, line := range lines {
		if m := reUnfinished.FindStringSubmatch(line); m != nil {
			pending[m[1]] = m[1] + " " + m[2]
			continue
		}
		if m := reResumed.FindStringSubmatch(line); m != nil {
			if pre, ok := pending[m[1]]; ok {
				delete(pending, m[1])
				out = append(out, pre+reEqPad.ReplaceAllString(m[2], ") = "))
				continue
			}
		}
		out = append(out, line)
	}
	return out
}

// parseStrace turns the child's syscalls on files of `dir` into model operations.
func parseStrace(path, dir string) []any {
	data, _ := os.ReadFile(path)
	fdName := map[string]string{}
	var ops []any
	inDir := func(p string) (string, bool) {
		if filepath.Dir(p) == dir {
			return filepath.Base(p), true
		}
		if !strings.Contains(p, "/") {
			return p, true // relative to the directory fd (renameat2)
		}
		return "", false
	}
	for _, line := range mergeResumed(strings.Split(string(data), "\n")) {
		if m := reOpen.FindStringSubmatch(line); m != nil {
			p, flags := unx(m[2]), m[3]
			delete(fdName, m[4]) // the descriptor number now names this file, whatever it named before
			if n, ok := inDir(p); ok && (strings.Contains(flags, "O_WRONLY") || strings.Contains(flags, "O_RDWR")) {
				fdName[m[4]] = n // descriptors belong to the process: the Go runtime may move the writer to another thread between open and write
				if strings.Contains(flags, "O_CREAT") || strings.Contains(flags, "O_TRUNC") {
					// a fresh or truncated file under that name
					ops = append(ops, map[string]any{"op": "createTemp", "name": hx(n)})
				}
			}
			continue
		}
		if m := reWrite.FindStringSubmatch(line); m != nil {
			if n, ok := fdName[m[2]]; ok {
				written, _ := strconv.Atoi(m[4])
				if written > 0 {
					b := unx(m[3])
					if written < len(b) {
						b = b[:written]
					}
					ops = append(ops, map[string]any{"op": "append", "name": hx(n), "bytes": hx(b)})
				}
			}
			continue
		}
		if m := reRename.FindStringSubmatch(line); m != nil && m[4] == "0" {
			s, ok1 := inDir(unx(m[2]))
			d, ok2 := inDir(unx(m[3]))
			if ok1 && ok2 {
				ops = append(ops, map[string]any{"op": "rename", "src": hx(s), "dst": hx(d)})
			}
			continue
		}
		if m := reUnlink.FindStringSubmatch(line); m != nil && m[3] == "0" {
			if n, ok := inDir(unx(m[2])); ok {
				ops = append(ops, map[string]any{"op": "remove", "name": hx(n)})
			}
		}
	}
	if ops == nil {
		ops = []any{}
	}
	return ops
}

func (fswriteStream) Execute(c Case) {
	obs := map[string]any{"panic": false}
	c["obs"] = obs
	defer os.RemoveAll(fswriteRoot)
	op, _ := c["op"].(string)
	switch op {
	case "mountpoint":
		self, _ := os.Executable()
		root := fswriteRoot + "-mnt"
		_ = os.MkdirAll(root, 0o755)
		defer os.RemoveAll(root)
		out, err := exec.Command("unshare", "-m", self, "child", "writespecmount", root, c["name"].(string)).Output()
		var res map[string]any
		if err != nil || json.Unmarshal(out, &res) != nil || res["skipped"] == true {
			skip("private mount namespace not available")
			obs["err"], obs["status"], obs["skipped"] = true, "previous", true
		} else {
			obs["err"], obs["status"] = res["err"], res["status"]
		}
		c["before"], c["dst"], c["new"] = []any{}, hx(c["name"].(string)), hx("")
		return
	case "twowriters":
		dir := filepath.Join(fswriteRoot, "cdi")
		_ = os.MkdirAll(dir, 0o755)
		cache, _ := cdi.NewCache(cdi.WithSpecDirs(dir), cdi.WithAutoRefresh(false))
		na, nb, point := c["namea"].(string), c["nameb"].(string), c["point"].(string)
		sa, sb := variantSpec("A"), variantSpec("B")
		sb.Kind = "other.com/class"
		pa := filepath.Join(dir, na)
		var errB error
		fired := false
		cdi.VerifPoint = func(p, arg string) {
			// writer A is at `point`: writer B runs a complete write of its own file now
			if p == point && !fired && (arg == pa || strings.HasPrefix(filepath.Base(arg), "spec.")) {
				fired = true
				errB = cache.WriteSpec(sb, nb)
			}
		}
		errA := cache.WriteSpec(sa, na)
		cdi.VerifPoint = nil
		status := func(err error, name string, want *specs.Spec) string {
			if err != nil {
				return "unwritable"
			}
			got, rerr := cdi.ReadSpec(filepath.Join(dir, name), 0)
			if rerr != nil {
				return "unreadable"
			}
			if protoJSON(got.Spec) != protoJSON(want) {
				return "altered"
			}
			return "equal"
		}
		obs["a"], obs["b"], obs["interleaved"] = status(errA, na, sa), status(errB, nb, sb), fired
		c["before"], c["dst"], c["new"] = []any{}, hx(na), hx("")
		return
	case "trace":
		dir, name, _, _ := prepareDir(c)
		tr := filepath.Join(fswriteRoot, "strace.out")
		code, err := runChild(dir, name, "B", "-", -1, tr)
		if err != nil || code == -2 {
			skip("strace not available")
			obs["ops"], obs["ok"] = []any{}, false
			c["op"] = "snapshot"
			c["point"] = "done"
			obs["entries"] = listDir(dir)
			return
		}
		obs["ops"] = parseStrace(tr, dir)
		obs["ok"] = code == 0
	case "crash":
		dir, name, _, _ := prepareDir(c)
		point, _ := c["point"].(string)
		code, _ := runChild(dir, name, "B", point, -1, "")
		if point != "done" && code != -1 {
			note(fmt.Sprintf("child not killed at %s (exit %d)", point, code))
		}
		obs["entries"] = listDir(dir)
		// nothing partial or temporary may be loadable: a fresh cache sees old or new devices only
		cache, _ := cdi.NewCache(cdi.WithSpecDirs(dir), cdi.WithAutoRefresh(false))
		obs["devices"] = hxList(cache.ListDevices())
	case "fsize":
		dir, name, _, _ := prepareDir(c)
		limit := 0
		switch l := c["limit"].(type) {
		case int:
			limit = l
		case float64:
			limit = int(l)
		}
		code, _ := runChild(dir, name, "B", "-", limit, "")
		if limit < len(unhx(c["new"])) && code == 0 {
			skip("RLIMIT_FSIZE not enforced")
		}
		c["limit"] = limit
		obs["entries"] = listDir(dir)
		obs["exit"] = code
	case "readers":
		dir, name, target, _ := prepareDir(Case{"name": c["name"], "prev": true})
		a, b := expectedContent(name, "A"), expectedContent(name, "B")
		c["before"] = []any{map[string]any{"name": hx("other.yaml"), "content": hx(expectedContent("other.yaml", "A"))},
			map[string]any{"name": hx(target), "content": hx(a)}}
		c["dst"], c["new"] = hx(target), hx(b)
		ms := 300
		cache, _ := cdi.NewCache(cdi.WithSpecDirs(dir), cdi.WithAutoRefresh(false))
		stop := make(chan struct{})
		var wg sync.WaitGroup
		var spawned []Case
		var mu sync.Mutex
		reads, bad := 0, 0
		wg.Add(2)
		go func() { // writer: alternate A / B
			defer wg.Done()
			for i := 0; ; i++ {
				select {
				case <-stop:
					return
				default:
				}
				v := "B"
				if i%2 == 1 {
					v = "A"
				}
				_ = cache.WriteSpec(variantSpec(v), name)
			}
		}()
		go func() { // reader: whole-directory snapshots
			defer wg.Done()
			for {
				select {
				case <-stop:
					return
				default:
				}
				ents := listDir(dir)
				mu.Lock()
				reads++
				okAll := true
				for _, e := range ents {
					m := e.(map[string]any)
					n, content := unhx(m["name"]), unhx(m["content"])
					if n == target && content != a && content != b {
						okAll = false
					}
				}
				if !okAll {
					bad++
				}
				if !okAll || len(spawned) < 3 {
					spawned = append(spawned, Case{"stream": "fswrite", "op": "snapshot", "point": "concurrent", "before": c["before"],
						"dst": c["dst"], "new": c["new"], "obs": map[string]any{"panic": false, "entries": ents}})
				}
				mu.Unlock()
			}
		}()
		time.Sleep(time.Duration(ms) * time.Millisecond)
		close(stop)
		wg.Wait()
		c["op"] = "snapshot"
		c["point"] = "final"
		obs["entries"] = listDir(dir)
		obs["reads"], obs["bad"] = reads, bad
		if len(spawned) > 40 {
			spawned = spawned[:40]
		}
		c["spawn"] = spawned
	}
}
